import GoDcp.Model.Startup
/-!
# C15 — start-up fails fast instead of running on an inconsistent or partial basis

Two layers.

* `GoDcp.load` (Model/Session.lean, the model of `checkpoint.Load`, shared with C01–C06):
  `load_ok_implies_reachable_start`, `checkpoint_ahead_failstop`, `load_keys`.
* `Startup.start` (Model/Startup.lean, the guards of `dcp.Start` / `stream.Open` around it):
  `unknown_type_failstop`, `load_error_failstop`, `seqno_error_failstop` (+ its refutation
  for the client as it is, finding F7, and the `_partial` form), `failover_error_failstop`,
  `openAll_any_error_failstop`, `session_complete_or_dead`, `running_start_reachable`,
  and the delivery-before-refusal witness (`refusal_without_delivery_refuted` / `_partial`).

All statements are for all assignments, stores, high-seqno vectors and failure sets.
-/
namespace GoDcp.Startup
open GoDcp

/-- the server's high seqno as `checkpoint.Load` reads it from the map (absent = 0) -/
def highOf (s : St) (vb : Vb) : Nat := (s.high.get? vb).getD 0

/-! ## `checkpoint.Load` -/

/-- `load` with its pattern matches spelled out -/
theorem load_eq (s : St) : load s =
    if (!(mdLoad s).2 && s.cfg.resetLatest) = true then
      some ((mdLoad s).1.map (fun p => (p.1, (⟨(s.flog.get? p.1).getD 0, highOf s p.1, highOf s p.1, highOf s p.1,
                                               initLatest s.cfg.finite (highOf s p.1)⟩ : Offset))),
            ((mdLoad s).1.filter (fun p => highOf s p.1 ≠ 0)).map (·.1),
            !(((mdLoad s).1.filter (fun p => highOf s p.1 ≠ 0)).map (·.1)).isEmpty)
    else if (mdLoad s).1.any (fun p => decide (p.2.seq > highOf s p.1)) = true then none
    else some ((mdLoad s).1.map (fun p => (p.1, p.2.toOffset (initLatest s.cfg.finite (highOf s p.1)))), [], false) := rfl

theorem mdLoad_keys (s : St) : (mdLoad s).1.map (·.1) = vbRange s.cfg := by
  simp [mdLoad, List.map_map, Function.comp_def]

/-- both branches of `load` produce one offset per assigned vBucket, in order -/
theorem load_keys (s : St) (offs : AMap Offset) (dirty : List Vb) (any : Bool)
    (h : load s = some (offs, dirty, any)) : offs.map (·.1) = vbRange s.cfg := by
  rw [load_eq] at h
  split at h
  · injection h with h; injection h with h1 _
    rw [← h1, List.map_map, ← mdLoad_keys]; rfl
  · split at h
    · exact absurd h (by simp)
    · injection h with h; injection h with h1 _
      rw [← h1, List.map_map, ← mdLoad_keys]; rfl

/-- **load_ok_implies_reachable_start**: whenever `checkpoint.Load` returns, every offset it hands
    to `OpenStream` starts at or below the high seqno the server reported for that vBucket -/
theorem load_ok_implies_reachable_start (s : St) (offs : AMap Offset) (dirty : List Vb) (any : Bool)
    (h : load s = some (offs, dirty, any)) : ∀ p ∈ offs, p.2.seq ≤ highOf s p.1 := by
  rw [load_eq] at h
  split at h
  · -- latest reset: start = current high seqno
    injection h with h; injection h with h1 _
    intro p hp
    rw [← h1, List.mem_map] at hp
    obtain ⟨q, _, rfl⟩ := hp
    exact Nat.le_refl _
  · split at h
    · exact absurd h (by simp)
    · rename_i hno
      injection h with h; injection h with h1 _
      intro p hp
      rw [← h1, List.mem_map] at hp
      obtain ⟨q, hq, rfl⟩ := hp
      have := List.any_eq_false.mp (Bool.eq_false_iff.mpr hno) q hq
      simpa [Doc.toOffset] using this

/-- a stored checkpoint on an assigned vBucket raises `exist` -/
theorem exist_of_stored (s : St) (vb : Vb) (d : Doc) (hvb : vb ∈ vbRange s.cfg)
    (hst : s.store.get? vb = some d) : (mdLoad s).2 = true := by
  simp only [mdLoad, List.any_eq_true]
  exact ⟨vb, hvb, by simp [AMap.has, hst]⟩

/-- **checkpoint_ahead_failstop**: a stored checkpoint of an assigned vBucket beyond that vBucket's
    high seqno (bucket flushed or recreated) makes `checkpoint.Load` panic – for every auto-reset
    setting, every mode and whatever the other vBuckets hold -/
theorem checkpoint_ahead_failstop (s : St) (vb : Vb) (d : Doc) (hvb : vb ∈ vbRange s.cfg)
    (hst : s.store.get? vb = some d) (hahead : d.seq > highOf s vb) : load s = none := by
  have hex := exist_of_stored s vb d hvb hst
  rw [load_eq]
  simp only [hex, Bool.not_true, Bool.false_and, Bool.false_eq_true, if_false]
  have hany : (mdLoad s).1.any (fun p => decide (p.2.seq > highOf s p.1)) = true := by
    rw [List.any_eq_true]
    refine ⟨(vb, d), ?_, by simpa using hahead⟩
    simp only [mdLoad, List.mem_map]
    exact ⟨vb, hvb, by simp [hst]⟩
  simp only [hany, if_true]

/-- non-vacuity of the guard's hypothesis and of the happy path -/
example : load { cfg := { lo := 0, hi := 1 }, store := [(1, ⟨7, 11, 1, 11⟩)], high := [(0, 5), (1, 10)] } = none := by decide
example : (load { cfg := { lo := 0, hi := 1 }, store := [(1, ⟨7, 10, 1, 11⟩)], high := [(0, 5), (1, 10)] }).isSome = true := by decide

/-! ## the guards around it -/

theorem unknown_metadata_failstop (c : Case) (h : knownMetadata c.metaType = false) :
    start c = .fail "invalid-metadata-type" := by
  simp [start, h]

theorem unknown_membership_failstop (c : Case) (hm : knownMetadata c.metaType = true)
    (h : knownMembership c.memberType = false) : start c = .fail "unknown-membership" := by
  simp [start, hm, h]

/-- **unknown_type_failstop**: an unknown metadata or membership type never reaches a running session -/
theorem unknown_type_failstop (c : Case)
    (h : knownMetadata c.metaType = false ∨ knownMembership c.memberType = false) :
    ∃ cls, start c = .fail cls := by
  by_cases hm : knownMetadata c.metaType = true
  · rcases h with h | h
    · rw [h] at hm; exact absurd hm (by simp)
    · exact ⟨_, unknown_membership_failstop c hm h⟩
  · exact ⟨_, unknown_metadata_failstop c (by simpa using hm)⟩

/-- what a running session implies about every guard on the way -/
theorem running_inv (c : Case) (offs : List (Vb × Offset)) (h : start c = .running offs) :
    knownMetadata c.metaType = true ∧ knownMembership c.memberType = true ∧ c.loadErr = false ∧
    c.seq ≠ .errPropagated ∧
    (latestBranch (seenState c) && (vbRange (seenState c).cfg).any c.flogErr.contains) = false ∧
    (∃ d a, load (seenState c) = some (offs, d, a)) ∧
    offs.any (fun p => c.openErr.contains p.1) = false := by
  unfold start at h
  by_cases h1 : knownMetadata c.metaType = true
  case neg => simp [h1] at h
  by_cases h2 : knownMembership c.memberType = true
  case neg => simp [h1, h2] at h
  by_cases h3 : c.loadErr = true
  case pos => simp [h1, h2, h3] at h
  by_cases h4 : c.seq = .errPropagated
  case pos => simp [h1, h2, h3, h4] at h
  by_cases h5 : (latestBranch (seenState c) && (vbRange (seenState c).cfg).any c.flogErr.contains) = true
  case pos => simp [h1, h2, h3, h4, h5] at h
  simp only [h1, h2, h3, h4, h5, Bool.not_true, Bool.false_eq_true, if_false] at h
  cases hl : load (seenState c) with
  | none => rw [hl] at h; exact absurd h (by simp)
  | some t =>
    obtain ⟨o, d, a⟩ := t
    rw [hl] at h
    simp only at h
    by_cases h6 : (o.any fun p => c.openErr.contains p.1) = true
    · rw [if_pos h6] at h; exact absurd h (by simp)
    · rw [if_neg h6] at h
      injection h with h
      subst h
      exact ⟨h1, h2, by simpa using h3, h4, by simpa using h5, ⟨d, a, rfl⟩, by simpa using h6⟩

theorem load_error_failstop (c : Case) (h : c.loadErr = true) : ∀ offs, start c ≠ .running offs := by
  intro offs hr
  have := (running_inv c offs hr).2.2.1
  rw [h] at this; exact absurd this (by simp)

/-- with a client that hands the error back (the repaired client) a failed seqno query is fatal -/
theorem seqno_error_failstop (c : Case) (h : c.seq = .errPropagated) : ∀ offs, start c ≠ .running offs := by
  intro offs hr
  exact (running_inv c offs hr).2.2.2.1 h

/-- **refuted for the client as it is (finding F7)**: the error status is swallowed, `Load` sees an
    empty seqno map, and a client without checkpoints starts a session as if nothing had happened –
    here in finite mode, where it asks for the range [0, 0] of a vBucket that holds 10 items -/
theorem seqno_error_failstop_refuted :
    ∃ c : Case, c.seq = .errSwallowed ∧ trueHigh c 0 = 10 ∧
      start c = .running [(0, ⟨0, 0, 0, 0, 0⟩)] :=
  ⟨{ metaType := "couchbase", memberType := "static", seq := .errSwallowed,
     st := { cfg := { lo := 0, hi := 0, finite := true }, high := [(0, 10)] } }, rfl, rfl, by decide⟩

/-- `_partial`: for every answer EXCEPT the swallowed one the statement holds -/
theorem seqno_error_failstop_partial (c : Case) (hne : c.seq ≠ .ok) (hf7 : c.seq ≠ .errSwallowed) :
    ∀ offs, start c ≠ .running offs := by
  cases hs : c.seq with
  | ok => exact absurd hs hne
  | errSwallowed => exact absurd hs hf7
  | errPropagated => exact seqno_error_failstop c hs

/-- a failover-log error on an assigned vBucket is fatal whenever the log is consulted
    (no checkpoint anywhere and auto-reset `latest`) -/
theorem failover_error_failstop (c : Case) (hl : latestBranch (seenState c) = true)
    (h : ∃ vb ∈ vbRange c.st.cfg, vb ∈ c.flogErr) : ∀ offs, start c ≠ .running offs := by
  intro offs hr
  have := (running_inv c offs hr).2.2.2.2.1
  obtain ⟨vb, hvb, hin⟩ := h
  have hcfg : (seenState c).cfg = c.st.cfg := by unfold seenState; split <;> rfl
  have : (vbRange (seenState c).cfg).any c.flogErr.contains = true := by
    rw [List.any_eq_true]; exact ⟨vb, by rw [hcfg]; exact hvb, by simpa using hin⟩
  simp_all

/-- **session_complete_or_dead**: a running session has an accepted stream request for EVERY assigned
    vBucket (no partial assignment), and no assigned vBucket's request was refused -/
theorem session_complete_or_dead (c : Case) (offs : List (Vb × Offset)) (h : start c = .running offs) :
    offs.map (·.1) = vbRange c.st.cfg ∧ ∀ vb ∈ vbRange c.st.cfg, vb ∉ c.openErr := by
  obtain ⟨_, _, _, _, _, ⟨d, a, hl⟩, hno⟩ := running_inv c offs h
  have hcfg : (seenState c).cfg = c.st.cfg := by unfold seenState; split <;> rfl
  have hk := load_keys _ _ _ _ hl
  rw [hcfg] at hk
  refine ⟨hk, ?_⟩
  intro vb hvb hin
  rw [← hk, List.mem_map] at hvb
  obtain ⟨p, hp, rfl⟩ := hvb
  have := List.any_eq_false.mp hno p hp
  simp at this
  exact this hin

/-- **openAll_any_error_failstop**: an error answer (other than ROLLBACK) to the stream request of ANY
    assigned vBucket – one or several – never leaves a running session -/
theorem openAll_any_error_failstop (c : Case) (h : ∃ vb ∈ vbRange c.st.cfg, vb ∈ c.openErr) :
    ∀ offs, start c ≠ .running offs := by
  intro offs hr
  obtain ⟨vb, hvb, hin⟩ := h
  exact (session_complete_or_dead c offs hr).2 vb hvb hin

/-- **never requests a stream from a position the server has not reached**: every start seqno of a
    running session is ≤ the vBucket's TRUE high seqno – also under finding F7, where the client
    believes all highs are 0 and therefore only ever starts from 0 -/
theorem running_start_reachable (c : Case) (offs : List (Vb × Offset)) (h : start c = .running offs) :
    ∀ p ∈ offs, p.2.seq ≤ trueHigh c p.1 := by
  obtain ⟨_, _, _, _, _, ⟨d, a, hl⟩, _⟩ := running_inv c offs h
  intro p hp
  have := load_ok_implies_reachable_start _ _ _ _ hl p hp
  unfold highOf seenState at this
  unfold trueHigh
  split at this
  · simp [AMap.get?] at this; omega
  · exact this

/-! ## delivery before refusal -/

/-- **refuted** ("the consumer sees nothing of a start-up that is refused"): a late error answer for one
    vBucket while its siblings already stream delivers events to the consumer before the process stops
    (replayed on the real code by stream c15w, cases `openerr … delay=1 push=1`) -/
theorem refusal_without_delivery_refuted :
    ∃ c : Case, (∃ cls, start c = .fail cls) ∧ deliversBeforeStop c true true = true :=
  ⟨{ metaType := "couchbase", memberType := "static", openErr := [1],
     st := { cfg := { lo := 0, hi := 1 } } }, ⟨"open-error", by decide⟩, by decide⟩

/-- `_partial`: when the refusing answer is not late (or the server has nothing to send) nothing is delivered -/
theorem refusal_without_delivery_partial (c : Case) (traffic : Bool) :
    deliversBeforeStop c false traffic = false ∧ deliversBeforeStop c traffic false = false := by
  unfold deliversBeforeStop
  constructor <;> (split <;> simp)

/-- and a refusal for any other reason than a stream request delivers nothing at all -/
theorem refusal_before_open_delivers_nothing (c : Case) (cls : String) (h : start c = .fail cls)
    (hne : cls ≠ "open-error") (l t : Bool) : deliversBeforeStop c l t = false := by
  unfold deliversBeforeStop
  rw [h]
  simp [hne]

end GoDcp.Startup
