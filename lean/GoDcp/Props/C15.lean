import GoDcp.Model.Startup
/-!
# C15 — start-up fails fast instead of running on an inconsistent or partial basis

Two layers.

* `GoDcp.load` (Model/Session.lean, the model of `checkpoint.Load`, shared with C01–C06):
  `load_ok_implies_reachable_start`, `checkpoint_ahead_failstop`, `partial_seqnos_missing_is_zero`, `load_keys`.
* `Startup.start` (Model/Startup.lean, the guards of `dcp.Start` / `stream.Open` around it):
  `unknown_type_failstop`, `load_error_failstop`, `seqno_error_failstop` (+ its refutation
  for the client as it is, finding F7, and the `_partial` form), `failover_error_failstop`,
  `openAll_any_error_failstop`, `session_complete_or_dead`, `running_start_reachable`,
  the delivery-before-refusal witness (`refusal_without_delivery_refuted` / `_partial`),
  the partial seqno answer (`partial_answer_stored_positive_failstop`, `partial_answer_missing_starts_at_zero`,
  `running_start_within_reported`) and a stream ended by the server with a re-openable status, during
  start-up or later (`ended_during_startup_reopened`, `running_every_vbucket_live`, `reopen_refused_failstop`).

All statements are for all assignments, stores, high-seqno vectors and failure sets.
-/
namespace GoDcp.Startup
open GoDcp

/-- the server's high seqno as `checkpoint.Load` reads it from the map (absent = 0) -/
def highOf (s : St) (vb : Vb) : Nat := (s.high.get? vb).getD 0

/-! ## `checkpoint.Load` -/

/-- `load` with its pattern matches spelled out -/
theorem load_eq (s : St) : load s =
    if (!(mdLoad s).2 && s.cfg.resetLatest) = true then
      some ((mdLoad s).1.map (fun p => (p.1, (⟨(s.flog.get? p.1).getD 0, highOf s p.1, highOf s p.1, highOf s p.1,
                                               initLatest s.cfg.finite (highOf s p.1)⟩ : Offset))),
            ((mdLoad s).1.filter (fun p => highOf s p.1 ≠ 0)).map (·.1),
            !(((mdLoad s).1.filter (fun p => highOf s p.1 ≠ 0)).map (·.1)).isEmpty)
    else if (mdLoad s).1.any (fun p => decide (p.2.seq > highOf s p.1)) = true then none
    else some ((mdLoad s).1.map (fun p => (p.1, p.2.toOffset (initLatest s.cfg.finite (highOf s p.1)))), [], false) := rfl

theorem mdLoad_keys (s : St) : (mdLoad s).1.map (·.1) = vbRange s.cfg := by
  simp [mdLoad, List.map_map, Function.comp_def]

/-- both branches of `load` produce one offset per assigned vBucket, in order -/
theorem load_keys (s : St) (offs : AMap Offset) (dirty : List Vb) (any : Bool)
    (h : load s = some (offs, dirty, any)) : offs.map (·.1) = vbRange s.cfg := by
  rw [load_eq] at h
  split at h
  · injection h with h; injection h with h1 _
    rw [← h1, List.map_map, ← mdLoad_keys]; rfl
  · split at h
    · exact absurd h (by simp)
    · injection h with h; injection h with h1 _
      rw [← h1, List.map_map, ← mdLoad_keys]; rfl

/-- **load_ok_implies_reachable_start**: whenever `checkpoint.Load` returns, every offset it hands
    to `OpenStream` starts at or below the high seqno the server reported for that vBucket -/
theorem load_ok_implies_reachable_start (s : St) (offs : AMap Offset) (dirty : List Vb) (any : Bool)
    (h : load s = some (offs, dirty, any)) : ∀ p ∈ offs, p.2.seq ≤ highOf s p.1 := by
  rw [load_eq] at h
  split at h
  · -- latest reset: start = current high seqno
    injection h with h; injection h with h1 _
    intro p hp
    rw [← h1, List.mem_map] at hp
    obtain ⟨q, _, rfl⟩ := hp
    exact Nat.le_refl _
  · split at h
    · exact absurd h (by simp)
    · rename_i hno
      injection h with h; injection h with h1 _
      intro p hp
      rw [← h1, List.mem_map] at hp
      obtain ⟨q, hq, rfl⟩ := hp
      have := List.any_eq_false.mp (Bool.eq_false_iff.mpr hno) q hq
      simpa [Doc.toOffset] using this

/-- a stored checkpoint on an assigned vBucket raises `exist` -/
theorem exist_of_stored (s : St) (vb : Vb) (d : Doc) (hvb : vb ∈ vbRange s.cfg)
    (hst : s.store.get? vb = some d) : (mdLoad s).2 = true := by
  simp only [mdLoad, List.any_eq_true]
  exact ⟨vb, hvb, by simp [AMap.has, hst]⟩

/-- **checkpoint_ahead_failstop**: a stored checkpoint of an assigned vBucket beyond that vBucket's
    high seqno (bucket flushed or recreated) makes `checkpoint.Load` panic – for every auto-reset
    setting, every mode and whatever the other vBuckets hold -/
theorem checkpoint_ahead_failstop (s : St) (vb : Vb) (d : Doc) (hvb : vb ∈ vbRange s.cfg)
    (hst : s.store.get? vb = some d) (hahead : d.seq > highOf s vb) : load s = none := by
  have hex := exist_of_stored s vb d hvb hst
  rw [load_eq]
  simp only [hex, Bool.not_true, Bool.false_and, Bool.false_eq_true, if_false]
  have hany : (mdLoad s).1.any (fun p => decide (p.2.seq > highOf s p.1)) = true := by
    rw [List.any_eq_true]
    refine ⟨(vb, d), ?_, by simpa using hahead⟩
    simp only [mdLoad, List.mem_map]
    exact ⟨vb, hvb, by simp [hst]⟩
  simp only [hany, if_true]

/-- non-vacuity of the guard's hypothesis and of the happy path -/
example : load { cfg := { lo := 0, hi := 1 }, store := [(1, ⟨7, 11, 1, 11⟩)], high := [(0, 5), (1, 10)] } = none := by decide
example : (load { cfg := { lo := 0, hi := 1 }, store := [(1, ⟨7, 10, 1, 11⟩)], high := [(0, 5), (1, 10)] }).isSome = true := by decide

/-- **partial_seqnos_missing_is_zero**: a vBucket the seqno answer does not mention reads as high seqno 0
    (`seqNoMap.Load` of a missing key), so ANY stored seqno above 0 of such an assigned vBucket makes
    `checkpoint.Load` panic – the missing entry is never taken as "nothing to compare with" -/
theorem partial_seqnos_missing_is_zero (s : St) (vb : Vb) (d : Doc) (hvb : vb ∈ vbRange s.cfg)
    (hst : s.store.get? vb = some d) (hmiss : s.high.get? vb = none) (hpos : d.seq > 0) : load s = none := by
  apply checkpoint_ahead_failstop s vb d hvb hst
  unfold highOf
  rw [hmiss]
  exact hpos

/-- and when `Load` returns, such a vBucket starts at 0 (both branches) -/
theorem partial_seqnos_missing_start_zero (s : St) (offs : AMap Offset) (dirty : List Vb) (any : Bool)
    (h : load s = some (offs, dirty, any)) (p : Vb × Offset) (hp : p ∈ offs) (hmiss : s.high.get? p.1 = none) :
    p.2.seq = 0 := by
  have := load_ok_implies_reachable_start s offs dirty any h p hp
  unfold highOf at this
  rw [hmiss] at this
  simpa using this

example : load { cfg := { lo := 0, hi := 1 }, store := [(1, ⟨7, 1, 1, 1⟩)], high := [(0, 5)] } = none := by decide
example : (load { cfg := { lo := 0, hi := 1 }, store := [(1, ⟨7, 0, 0, 0⟩)], high := [(0, 5)] }).isSome = true := by decide

/-! ## the guards around it -/

theorem unknown_metadata_failstop (c : Case) (h : knownMetadata c.metaType = false) :
    start c = .fail "invalid-metadata-type" := by
  simp [start, h]

theorem unknown_membership_failstop (c : Case) (hm : knownMetadata c.metaType = true)
    (h : knownMembership c.memberType = false) : start c = .fail "unknown-membership" := by
  simp [start, hm, h]

/-- **unknown_type_failstop**: an unknown metadata or membership type never reaches a running session -/
theorem unknown_type_failstop (c : Case)
    (h : knownMetadata c.metaType = false ∨ knownMembership c.memberType = false) :
    ∃ cls, start c = .fail cls := by
  by_cases hm : knownMetadata c.metaType = true
  · rcases h with h | h
    · rw [h] at hm; exact absurd hm (by simp)
    · exact ⟨_, unknown_membership_failstop c hm h⟩
  · exact ⟨_, unknown_metadata_failstop c (by simpa using hm)⟩

/-- what a running session implies about every guard on the way -/
theorem running_inv (c : Case) (offs : List (Vb × Offset)) (h : start c = .running offs) :
    knownMetadata c.metaType = true ∧ knownMembership c.memberType = true ∧ c.loadErr = false ∧
    c.seq ≠ .errPropagated ∧
    (latestBranch (seenState c) && (vbRange (seenState c).cfg).any c.flogErr.contains) = false ∧
    (∃ d a, load (seenState c) = some (offs, d, a)) ∧
    offs.any (fun p => c.openErr.contains p.1) = false ∧
    offs.any (fun p => c.ended.contains p.1 && c.reopenErr.contains p.1) = false := by
  unfold start at h
  by_cases h1 : knownMetadata c.metaType = true
  case neg => simp [h1] at h
  by_cases h2 : knownMembership c.memberType = true
  case neg => simp [h1, h2] at h
  by_cases h3 : c.loadErr = true
  case pos => simp [h1, h2, h3] at h
  by_cases h4 : c.seq = .errPropagated
  case pos => simp [h1, h2, h3, h4] at h
  by_cases h5 : (latestBranch (seenState c) && (vbRange (seenState c).cfg).any c.flogErr.contains) = true
  case pos => simp [h1, h2, h3, h4, h5] at h
  simp only [h1, h2, h3, h4, h5, Bool.not_true, Bool.false_eq_true, if_false] at h
  cases hl : load (seenState c) with
  | none => rw [hl] at h; exact absurd h (by simp)
  | some t =>
    obtain ⟨o, d, a⟩ := t
    rw [hl] at h
    simp only at h
    by_cases h6 : (o.any fun p => c.openErr.contains p.1) = true
    · rw [if_pos h6] at h; exact absurd h (by simp)
    · rw [if_neg h6] at h
      by_cases h7 : (o.any fun p => c.ended.contains p.1 && c.reopenErr.contains p.1) = true
      · rw [if_pos h7] at h; exact absurd h (by simp)
      · rw [if_neg h7] at h
        injection h with h
        subst h
        exact ⟨h1, h2, by simpa using h3, h4, by simpa using h5, ⟨d, a, rfl⟩, by simpa using h6, by simpa using h7⟩

theorem seenState_cfg (c : Case) : (seenState c).cfg = c.st.cfg := by
  unfold seenState; split <;> rfl

theorem seenState_store (c : Case) : (seenState c).store = c.st.store := by
  unfold seenState; split <;> rfl

/-- an answer with some vBuckets left out: the others read as before, the left-out ones are absent -/
theorem get?_filter_key (l : AMap Nat) (g : Vb → Bool) (vb : Vb) :
    AMap.get? (l.filter fun p => g p.1) vb = if g vb = true then AMap.get? l vb else none := by
  induction l with
  | nil => simp [AMap.get?]
  | cons h t ih =>
    obtain ⟨k, v⟩ := h
    by_cases hk : k = vb
    · subst hk
      by_cases hg : g k = true
      · simp [hg, AMap.get?]
      · simp only [List.filter_cons, hg, Bool.false_eq_true, if_false] at ih ⊢
        exact ih
    · by_cases hg : g k = true
      · simp only [List.filter_cons, hg, if_true, AMap.get?, hk, if_false]
        exact ih
      · simp only [List.filter_cons, hg, Bool.false_eq_true, if_false, AMap.get?, hk]
        exact ih

/-- what `checkpoint.Load` reads for a vBucket under a partial answer -/
theorem seen_high_missing (c : Case) (vbs : List Vb) (hs : c.seq = .missing vbs) (vb : Vb) :
    (seenState c).high.get? vb = if vbs.contains vb then none else c.st.high.get? vb := by
  unfold seenState
  rw [hs]
  simp only
  rw [get?_filter_key c.st.high (fun k => !vbs.contains k) vb]
  cases vbs.contains vb <;> simp

/-- whatever the answer was, the client never reads MORE than the server's true high seqno -/
theorem seen_high_le_true (c : Case) (vb : Vb) : highOf (seenState c) vb ≤ trueHigh c vb := by
  unfold highOf trueHigh
  cases hs : c.seq with
  | missing vbs =>
    rw [seen_high_missing c vbs hs]
    split <;> simp
  | errSwallowed => simp [seenState, hs, AMap.get?]
  | ok => simp [seenState, hs]
  | errPropagated => simp [seenState, hs]

theorem load_error_failstop (c : Case) (h : c.loadErr = true) : ∀ offs, start c ≠ .running offs := by
  intro offs hr
  have := (running_inv c offs hr).2.2.1
  rw [h] at this; exact absurd this (by simp)

/-- with a client that hands the error back (the repaired client) a failed seqno query is fatal -/
theorem seqno_error_failstop (c : Case) (h : c.seq = .errPropagated) : ∀ offs, start c ≠ .running offs := by
  intro offs hr
  exact (running_inv c offs hr).2.2.2.1 h

/-- **refuted for the client as it is (finding F7)**: the error status is swallowed, `Load` sees an
    empty seqno map, and a client without checkpoints starts a session as if nothing had happened –
    here in finite mode, where it asks for the range [0, 0] of a vBucket that holds 10 items -/
theorem seqno_error_failstop_refuted :
    ∃ c : Case, c.seq = .errSwallowed ∧ trueHigh c 0 = 10 ∧
      start c = .running [(0, ⟨0, 0, 0, 0, 0⟩)] :=
  ⟨{ metaType := "couchbase", memberType := "static", seq := .errSwallowed,
     st := { cfg := { lo := 0, hi := 0, finite := true }, high := [(0, 10)] } }, rfl, rfl, by decide⟩

/-- `_partial`: for every ERROR answer except the swallowed one the statement holds (a partial answer with
    status success, `SeqAnswer.missing`, is not an error: see the section on partial answers below) -/
theorem seqno_error_failstop_partial (c : Case) (hne : c.seq ≠ .ok) (hnm : ∀ vbs, c.seq ≠ .missing vbs)
    (hf7 : c.seq ≠ .errSwallowed) : ∀ offs, start c ≠ .running offs := by
  cases hs : c.seq with
  | ok => exact absurd hs hne
  | errSwallowed => exact absurd hs hf7
  | missing vbs => exact absurd hs (hnm vbs)
  | errPropagated => exact seqno_error_failstop c hs

/-- a failover-log error on an assigned vBucket is fatal whenever the log is consulted
    (no checkpoint anywhere and auto-reset `latest`) -/
theorem failover_error_failstop (c : Case) (hl : latestBranch (seenState c) = true)
    (h : ∃ vb ∈ vbRange c.st.cfg, vb ∈ c.flogErr) : ∀ offs, start c ≠ .running offs := by
  intro offs hr
  have := (running_inv c offs hr).2.2.2.2.1
  obtain ⟨vb, hvb, hin⟩ := h
  have hcfg : (seenState c).cfg = c.st.cfg := seenState_cfg c
  have : (vbRange (seenState c).cfg).any c.flogErr.contains = true := by
    rw [List.any_eq_true]; exact ⟨vb, by rw [hcfg]; exact hvb, by simpa using hin⟩
  simp_all

/-- **session_complete_or_dead**: a running session has an accepted stream request for EVERY assigned
    vBucket (no partial assignment), and no assigned vBucket's request was refused -/
theorem session_complete_or_dead (c : Case) (offs : List (Vb × Offset)) (h : start c = .running offs) :
    offs.map (·.1) = vbRange c.st.cfg ∧ ∀ vb ∈ vbRange c.st.cfg, vb ∉ c.openErr := by
  obtain ⟨_, _, _, _, _, ⟨d, a, hl⟩, hno, _⟩ := running_inv c offs h
  have hcfg : (seenState c).cfg = c.st.cfg := seenState_cfg c
  have hk := load_keys _ _ _ _ hl
  rw [hcfg] at hk
  refine ⟨hk, ?_⟩
  intro vb hvb hin
  rw [← hk, List.mem_map] at hvb
  obtain ⟨p, hp, rfl⟩ := hvb
  have := List.any_eq_false.mp hno p hp
  simp at this
  exact this hin

/-- **openAll_any_error_failstop**: an error answer (other than ROLLBACK) to the stream request of ANY
    assigned vBucket – one or several – never leaves a running session -/
theorem openAll_any_error_failstop (c : Case) (h : ∃ vb ∈ vbRange c.st.cfg, vb ∈ c.openErr) :
    ∀ offs, start c ≠ .running offs := by
  intro offs hr
  obtain ⟨vb, hvb, hin⟩ := h
  exact (session_complete_or_dead c offs hr).2 vb hvb hin

/-- **never requests a stream from a position the server has not reached**: every start seqno of a
    running session is ≤ the vBucket's TRUE high seqno – also under finding F7, where the client
    believes all highs are 0 and therefore only ever starts from 0 -/
theorem running_start_reachable (c : Case) (offs : List (Vb × Offset)) (h : start c = .running offs) :
    ∀ p ∈ offs, p.2.seq ≤ trueHigh c p.1 := by
  obtain ⟨_, _, _, _, _, ⟨d, a, hl⟩, _⟩ := running_inv c offs h
  intro p hp
  exact Nat.le_trans (load_ok_implies_reachable_start _ _ _ _ hl p hp) (seen_high_le_true c p.1)

/-! ## a partial GET_ALL_VB_SEQNOS answer -/

/-- what the client reads is what the server reported -/
theorem seen_high_eq_reported (c : Case) (hne : c.seq ≠ .errSwallowed) (vb : Vb) :
    highOf (seenState c) vb = reportedHigh c vb := by
  unfold highOf reportedHigh trueHigh
  cases hs : c.seq with
  | missing vbs =>
    rw [seen_high_missing c vbs hs]
    simp only
    split <;> simp_all
  | errSwallowed => exact absurd hs hne
  | ok => simp [seenState, hs]
  | errPropagated => simp [seenState, hs]

/-- **never requests a stream from a position the server has not REPORTED**: under a partial answer a
    running session starts every left-out vBucket at 0 and every other one at or below its reported high seqno -/
theorem running_start_within_reported (c : Case) (hne : c.seq ≠ .errSwallowed) (offs : List (Vb × Offset))
    (h : start c = .running offs) : ∀ p ∈ offs, p.2.seq ≤ reportedHigh c p.1 := by
  obtain ⟨_, _, _, _, _, ⟨d, a, hl⟩, _⟩ := running_inv c offs h
  intro p hp
  rw [← seen_high_eq_reported c hne]
  exact load_ok_implies_reachable_start _ _ _ _ hl p hp

/-- **partial_answer_stored_positive_failstop**: an assigned vBucket that the seqno answer leaves out and that
    has a stored checkpoint above 0 never leaves a running session – whatever the TRUE high seqno is -/
theorem partial_answer_stored_positive_failstop (c : Case) (vbs : List Vb) (hs : c.seq = .missing vbs)
    (vb : Vb) (d : Doc) (hvb : vb ∈ vbRange c.st.cfg) (hmiss : vb ∈ vbs)
    (hst : c.st.store.get? vb = some d) (hpos : d.seq > 0) : ∀ offs, start c ≠ .running offs := by
  intro offs hr
  obtain ⟨_, _, _, _, _, ⟨dd, a, hl⟩, _⟩ := running_inv c offs hr
  have hnone : load (seenState c) = none := by
    apply partial_seqnos_missing_is_zero (seenState c) vb d
    · rw [seenState_cfg]; exact hvb
    · rw [seenState_store]; exact hst
    · rw [seen_high_missing c vbs hs]; simp [hmiss]
    · exact hpos
  rw [hnone] at hl
  exact absurd hl (by simp)

/-- and it fails with the class of the checkpoint guard when the earlier guards pass (what stream c15w observes) -/
theorem partial_answer_stored_positive_class (c : Case) (vbs : List Vb) (hs : c.seq = .missing vbs)
    (hm : knownMetadata c.metaType = true) (hb : knownMembership c.memberType = true) (hl : c.loadErr = false)
    (vb : Vb) (d : Doc) (hvb : vb ∈ vbRange c.st.cfg) (hmiss : vb ∈ vbs)
    (hst : c.st.store.get? vb = some d) (hpos : d.seq > 0) : start c = .fail "checkpoint-ahead" := by
  have hex : (mdLoad (seenState c)).2 = true :=
    exist_of_stored (seenState c) vb d (by rw [seenState_cfg]; exact hvb) (by rw [seenState_store]; exact hst)
  have hnone : load (seenState c) = none := by
    apply partial_seqnos_missing_is_zero (seenState c) vb d
    · rw [seenState_cfg]; exact hvb
    · rw [seenState_store]; exact hst
    · rw [seen_high_missing c vbs hs]; simp [hmiss]
    · exact hpos
  unfold start
  simp [hm, hb, hl, hs, latestBranch, hex, hnone]

/-- **partial_answer_missing_starts_at_zero**: when start-up does run under a partial answer, every left-out
    vBucket is requested from seqno 0 (no checkpoint or a stored 0; auto-reset `latest` included) -/
theorem partial_answer_missing_starts_at_zero (c : Case) (vbs : List Vb) (hs : c.seq = .missing vbs)
    (offs : List (Vb × Offset)) (h : start c = .running offs) : ∀ p ∈ offs, p.1 ∈ vbs → p.2.seq = 0 := by
  obtain ⟨_, _, _, _, _, ⟨d, a, hl⟩, _⟩ := running_inv c offs h
  intro p hp hin
  apply partial_seqnos_missing_start_zero _ _ _ _ hl p hp
  rw [seen_high_missing c vbs hs]; simp [hin]

/-- non-vacuity: the demo of the seeded change (4 vBuckets, stored 100, high 500, vBucket 3 left out) -/
example : start
    { metaType := "couchbase", memberType := "static", seq := .missing [3],
      st := { cfg := { lo := 0, hi := 3 },
              store := [(0, ⟨1, 100, 1, 100⟩), (1, ⟨1, 100, 1, 100⟩), (2, ⟨1, 100, 1, 100⟩), (3, ⟨1, 100, 1, 100⟩)],
              high := [(0, 500), (1, 500), (2, 500), (3, 500)] } } = .fail "checkpoint-ahead" := by decide
example : start
    { metaType := "couchbase", memberType := "static", seq := .missing [1],
      st := { cfg := { lo := 0, hi := 1 }, store := [(0, ⟨1, 100, 1, 100⟩)], high := [(0, 500), (1, 500)] } }
    = .running [(0, ⟨1, 100, 1, 100, maxU64⟩), (1, ⟨0, 0, 0, 0, maxU64⟩)] := by decide

/-! ## a stream the server ends with a re-openable status -/

/-- **reopen_refused_failstop**: an assigned vBucket whose stream ended and whose re-open attempts are all
    refused never leaves a running session (reopenStream gives up with a panic after its bounded retries) -/
theorem reopen_refused_failstop (c : Case) (h : ∃ vb ∈ vbRange c.st.cfg, vb ∈ c.ended ∧ vb ∈ c.reopenErr) :
    ∀ offs, start c ≠ .running offs := by
  intro offs hr
  obtain ⟨vb, hvb, he, hr'⟩ := h
  have hk := (session_complete_or_dead c offs hr).1
  obtain ⟨_, _, _, _, _, _, _, hno⟩ := running_inv c offs hr
  rw [← hk, List.mem_map] at hvb
  obtain ⟨p, hp, rfl⟩ := hvb
  have := List.any_eq_false.mp hno p hp
  simp at this
  exact this he hr'

/-- **ended_during_startup_reopened**: in a running session every assigned vBucket whose stream the server
    ended – while `openAllStreams` was still opening the others or later, the model does not distinguish because
    the code does not – has been requested AGAIN, from the very offset of its first request, and that request
    was not refused -/
theorem ended_during_startup_reopened (c : Case) (offs : List (Vb × Offset)) (h : start c = .running offs)
    (vb : Vb) (hvb : vb ∈ vbRange c.st.cfg) (he : vb ∈ c.ended) :
    vb ∉ c.reopenErr ∧ ∃ o, (vb, o) ∈ offs ∧ (vb, o) ∈ reRequests c offs := by
  constructor
  · intro hr
    exact reopen_refused_failstop c ⟨vb, hvb, he, hr⟩ offs h
  · have hk := (session_complete_or_dead c offs h).1
    rw [← hk, List.mem_map] at hvb
    obtain ⟨p, hp, rfl⟩ := hvb
    refine ⟨p.2, hp, ?_⟩
    unfold reRequests
    rw [List.mem_filter]
    exact ⟨hp, by simpa using he⟩

/-- **running_every_vbucket_live** (the clause the monitor of stream c15w evaluates on the node's log): in a
    running session every assigned vBucket has more accepted stream requests than pushed ends – no vBucket of
    the assignment is silently without a stream -/
theorem running_every_vbucket_live (c : Case) (offs : List (Vb × Offset)) (h : start c = .running offs)
    (vb : Vb) (hvb : vb ∈ vbRange c.st.cfg) : liveStreams c offs vb ≥ 1 := by
  have hk := (session_complete_or_dead c offs h).1
  have hvb' := hvb
  rw [← hk, List.mem_map] at hvb'
  obtain ⟨p, hp, hpv⟩ := hvb'
  have h1 : (offs.filter fun q => q.1 == vb).length ≥ 1 :=
    List.length_pos_of_mem (List.mem_filter.mpr ⟨hp, by simp [hpv]⟩)
  unfold liveStreams requestsOf endsOf
  by_cases he : c.ended.contains vb = true
  · have hin : vb ∈ c.ended := by simpa using he
    obtain ⟨_, o, _, hre⟩ := ended_during_startup_reopened c offs h vb hvb hin
    have h2 : ((reRequests c offs).filter fun q => q.1 == vb).length ≥ 1 :=
      List.length_pos_of_mem (List.mem_filter.mpr ⟨hre, by simp⟩)
    rw [if_pos he]
    omega
  · rw [if_neg he]
    omega

/-- non-vacuity: vBucket 0 of 2 ended – requested twice, live; with its re-requests refused – fail-stop -/
example : start
    { metaType := "couchbase", memberType := "static", ended := [0],
      st := { cfg := { lo := 0, hi := 1 } } } = .running [(0, ⟨0, 0, 0, 0, maxU64⟩), (1, ⟨0, 0, 0, 0, maxU64⟩)] := by decide
example : start
    { metaType := "couchbase", memberType := "static", ended := [0], reopenErr := [0],
      st := { cfg := { lo := 0, hi := 1 } } } = .fail "reopen-gave-up" := by decide

/-! ## delivery before refusal -/

/-- **refuted** ("the consumer sees nothing of a start-up that is refused"): a late error answer for one
    vBucket while its siblings already stream delivers events to the consumer before the process stops
    (replayed on the real code by stream c15w, cases `openerr … delay=1 push=1`) -/
theorem refusal_without_delivery_refuted :
    ∃ c : Case, (∃ cls, start c = .fail cls) ∧ deliversBeforeStop c true true = true :=
  ⟨{ metaType := "couchbase", memberType := "static", openErr := [1],
     st := { cfg := { lo := 0, hi := 1 } } }, ⟨"open-error", by decide⟩, by decide⟩

/-- `_partial`: when the refusing answer is not late (or the server has nothing to send) nothing is delivered -/
theorem refusal_without_delivery_partial (c : Case) (traffic : Bool) :
    deliversBeforeStop c false traffic = false ∧ deliversBeforeStop c traffic false = false := by
  unfold deliversBeforeStop
  constructor <;> (split <;> simp)

/-- and a refusal for any other reason than a stream request delivers nothing at all -/
theorem refusal_before_open_delivers_nothing (c : Case) (cls : String) (h : start c = .fail cls)
    (hne : cls ≠ "open-error") (l t : Bool) : deliversBeforeStop c l t = false := by
  unfold deliversBeforeStop
  rw [h]
  simp [hne]

end GoDcp.Startup
