import GoDcp.Props.C10
import GoDcp.Props.C10Pause
import GoDcp.Driver.MembershipJoin
/-!
# C10, couchbase variant — a join between the two halves of another member's round

`monitor()` reads the index document (with its CAS), computes the list of live
instances and, when that list differs from the one it holds, writes it back with
`updateIndex(filtered, data.Cas)`.  A NEW instance D may complete its registration
(`register`: index entry, then instance document) exactly between a member A's read and
A's write-back.  A's list was computed before D existed; what protects D is that the
write-back is CAS-guarded and that on `ErrCasMismatch` the code runs the WHOLE round
again (`h.monitor()` calls itself, couchbase/membership.go l.239-241): the second read
sees D's entry.

* `join_between_round_halves_admitted` – for ALL group sizes, join times (ties, a
  joiner whose clock is behind) and ALL choices of who is between its two halves (any
  admissible prefix `pre` of the stable phase: one member A, several members, others
  having completed their rounds before or after A's read): D's registration makes every
  pending write-back fail, the failed members are between rounds again, the state is a
  quiescent start of a stable phase for the live set enlarged by D – so `converges`
  applies to every continuation, and the concrete schedule "the failed members run
  their round again, D runs a round, the others run a round" ends with every one of
  them (D included) holding exactly `rankNumbering` of the enlarged live set; nobody
  fail-stops.
* `join_between_round_halves_single` – the literal schedule
  [A reads; D registers completely; A's CAS write fails; whole rounds].
* `stale_rewrite_erases_joiner_refuted` – why the recursion matters: a retry that only
  refreshes the CAS and writes the list computed BEFORE the conflict again
  (`casStepStaleRetry`, NOT the code: the shape of seeded change C10-c2) erases D from
  the index; D's first round ends in the fail-stop and A holds a numbering without D.

Relation to `join_race_refuted` (finding F14, Props/C10): F14 is the window BETWEEN the
joiner's OWN two writes (index entry written, instance document not yet: a concurrent
rewrite legitimately does not see D alive and drops its entry).  Here D's registration
is COMPLETE and the window is between ANOTHER member's read and write: the unchanged
code is correct in this window, with no extra hypothesis beyond those of `converges`.
-/
namespace GoDcp.Membership
open List

/-! ## small facts about the steps -/

theorem upsert_fresh (e : Entry) (l : List Entry) (h : e.1 ∉ ids l) : upsert e l = l ++ [e] := by
  induction l with
  | nil => rfl
  | cons y r ih =>
    simp only [ids, map_cons, mem_cons, not_or] at h
    have hy : ¬ y.1 = e.1 := fun h' => h.1 h'.symm
    simp only [upsert, hy, if_false, cons_append]
    rw [ih (by simpa [ids] using h.2)]

/-- the state after a complete registration of `D` at `now` -/
theorem register_eq (s : State) (D : Id) (now : Int) :
    register2 (register1 s D now) D =
      { index := upsert (D, now) s.index, cas := s.cas + 1,
        docs := fun j => if j = D then some ⟨now, now⟩ else s.docs j,
        mem := fun j => if j = D then some { jt := now } else s.mem j } := by
  simp [register2, register1, State.setMem, State.setDoc]

theorem readStep_mem_ne (c : Cfg) (s : State) (m : Id) (iter : List Entry) (nows : Id → Int) {j : Id}
    (h : j ≠ m) : (readStep c s m iter nows).mem j = s.mem j := by
  unfold readStep
  cases s.mem m with
  | none => rfl
  | some mb =>
    dsimp only
    cases mb.pc with
    | idle =>
      dsimp only
      split <;> simp [setMem_mem, h]
    | pending f cas => rfl
    | crashed => rfl
    | stopped => rfl

theorem readStep_docs (c : Cfg) (s : State) (m : Id) (iter : List Entry) (nows : Id → Int) :
    (readStep c s m iter nows).docs = s.docs := by
  unfold readStep
  cases s.mem m with
  | none => rfl
  | some mb =>
    dsimp only
    cases mb.pc with
    | idle =>
      dsimp only
      split <;> rfl
    | pending f cas => rfl
    | crashed => rfl
    | stopped => rfl

theorem casStep_mem_ne (s : State) (m : Id) {j : Id} (h : j ≠ m) : (casStep s m).mem j = s.mem j := by
  unfold casStep
  cases s.mem m with
  | none => rfl
  | some mb =>
    dsimp only
    cases mb.pc with
    | pending f cas =>
      dsimp only
      split <;> simp [setMem_mem, h]
    | idle => rfl
    | crashed => rfl
    | stopped => rfl

theorem casStep_docs (s : State) (m : Id) : (casStep s m).docs = s.docs := by
  unfold casStep
  cases s.mem m with
  | none => rfl
  | some mb =>
    dsimp only
    cases mb.pc with
    | pending f cas =>
      dsimp only
      split <;> rfl
    | idle => rfl
    | crashed => rfl
    | stopped => rfl

/-- a member that is between rounds is not touched by anybody's write-back attempt -/
theorem casStep_idle_keep (s : State) (m j : Id) (mbj : Member) (hj : s.mem j = some mbj)
    (hidle : mbj.pc = .idle) : (casStep s m).mem j = some mbj := by
  by_cases h : j = m
  · subst h
    simp [casStep, hj, hidle]
  · rw [casStep_mem_ne s m h]; exact hj

theorem clockOK_of_docs {c : Cfg} {L : List Entry} {s s' : State} {nows : Id → Int}
    (hd : s'.docs = s.docs) (h : ClockOK c L s nows) : ClockOK c L s' nows := by
  unfold ClockOK at *
  rw [hd]; exact h

/-! ## the pending write-backs are doomed by the registration -/

/-- like `Stable` for the live set `L'`, except that members may still be between the two
    halves of a round – with a CAS that is OLDER than the index document's: their
    write-back can only fail -/
structure Doomed (L' : List Entry) (s : State) : Prop where
  indexNodup : (ids s.index).Nodup
  indexHas : ∀ e ∈ L', e ∈ s.index
  docJt : ∀ e ∈ L', ∀ d, s.docs e.1 = some d → d.jt = e.2
  mem : ∀ m mb, s.mem m = some mb →
    (mb.pc = .stopped ∨ mb.pc = .crashed) ∨
    ((m, mb.jt) ∈ L' ∧ MemberInv m mb ∧ (mb.pc = .idle ∨ ∃ f cas, mb.pc = .pending f cas ∧ cas < s.cas))

/-- a doomed write-back attempt: `ErrCasMismatch`, the member is between rounds again,
    nothing else changes -/
theorem doomed_cas {L' : List Entry} {s : State} (h : Doomed L' s) (m : Id) :
    Doomed L' (casStep s m) ∧ (casStep s m).index = s.index ∧ (casStep s m).cas = s.cas ∧
    ∀ j mbj, (casStep s m).mem j = some mbj → (∃ f cas, mbj.pc = .pending f cas) →
      j ≠ m ∧ s.mem j = some mbj := by
  cases hm : s.mem m with
  | none =>
    have he : casStep s m = s := by simp [casStep, hm]
    rw [he]
    refine ⟨h, rfl, rfl, ?_⟩
    intro j mbj hj _
    exact ⟨fun e => by (rw [e, hm] at hj; cases hj), hj⟩
  | some mb =>
    cases hpc : mb.pc with
    | idle =>
      have he : casStep s m = s := by simp [casStep, hm, hpc]
      rw [he]
      refine ⟨h, rfl, rfl, ?_⟩
      rintro j mbj hj ⟨f, cas, hp⟩
      exact ⟨fun e => by (rw [e, hm] at hj; cases hj; rw [hpc] at hp; cases hp), hj⟩
    | crashed =>
      have he : casStep s m = s := by simp [casStep, hm, hpc]
      rw [he]
      refine ⟨h, rfl, rfl, ?_⟩
      rintro j mbj hj ⟨f, cas, hp⟩
      exact ⟨fun e => by (rw [e, hm] at hj; cases hj; rw [hpc] at hp; cases hp), hj⟩
    | stopped =>
      have he : casStep s m = s := by simp [casStep, hm, hpc]
      rw [he]
      refine ⟨h, rfl, rfl, ?_⟩
      rintro j mbj hj ⟨f, cas, hp⟩
      exact ⟨fun e => by (rw [e, hm] at hj; cases hj; rw [hpc] at hp; cases hp), hj⟩
    | pending f cas =>
      have hlt : cas < s.cas := by
        rcases h.mem m mb hm with hd | ⟨-, -, hp⟩
        · rcases hd with hd | hd <;> rw [hpc] at hd <;> cases hd
        · rcases hp with hp | ⟨f', cas', hp, hlt⟩
          · rw [hpc] at hp; cases hp
          · rw [hpc] at hp; cases hp; exact hlt
      have hne : ¬ cas = s.cas := by omega
      have he : casStep s m = s.setMem m { mb with pc := .idle } := by
        simp [casStep, hm, hpc, hne]
      rw [he]
      refine ⟨⟨h.indexNodup, h.indexHas, h.docJt, ?_⟩, rfl, rfl, ?_⟩
      · intro j mbj hj
        rw [setMem_mem] at hj
        split at hj
        · rename_i hjm
          cases hj
          rcases h.mem m mb hm with hd | ⟨h1, h2, -⟩
          · rcases hd with hd | hd <;> rw [hpc] at hd <;> cases hd
          · subst hjm
            exact Or.inr ⟨h1, h2, Or.inl rfl⟩
        · exact h.mem j mbj hj
      · rintro j mbj hj ⟨f', cas', hp⟩
        rw [setMem_mem] at hj
        split at hj
        · cases hj; cases hp
        · rename_i hjm; exact ⟨hjm, hj⟩

theorem doomed_flush {L' : List Entry} (flush : List Id) {s : State} (h : Doomed L' s) :
    Doomed L' (flush.foldl casStep s) ∧ (flush.foldl casStep s).index = s.index ∧
    (flush.foldl casStep s).cas = s.cas ∧ (flush.foldl casStep s).docs = s.docs ∧
    (∀ j mbj, (flush.foldl casStep s).mem j = some mbj → (∃ f cas, mbj.pc = .pending f cas) →
      j ∉ flush ∧ s.mem j = some mbj) ∧
    (∀ j mbj, s.mem j = some mbj → mbj.pc = .idle → (flush.foldl casStep s).mem j = some mbj) := by
  induction flush generalizing s with
  | nil => exact ⟨h, rfl, rfl, rfl, fun j mbj hj _ => ⟨not_mem_nil, hj⟩, fun j mbj hj _ => hj⟩
  | cons m r ih =>
    obtain ⟨h1, e1, e2, e3⟩ := doomed_cas h m
    obtain ⟨g1, g2, g3, g4, g5, g6⟩ := ih h1
    simp only [foldl_cons]
    refine ⟨g1, g2.trans e1, g3.trans e2, g4.trans (casStep_docs s m), ?_, ?_⟩
    · intro j mbj hj hp
      obtain ⟨a1, a2⟩ := g5 j mbj hj hp
      obtain ⟨b1, b2⟩ := e3 j mbj a2 hp
      exact ⟨by simp only [mem_cons, not_or]; exact ⟨b1, a1⟩, b2⟩
    · intro j mbj hj hidle
      exact g6 j mbj (casStep_idle_keep s m j mbj hj hidle) hidle

/-! ## whole rounds from a state of the stable phase -/

/-- one whole undisturbed round of a live member that is between rounds: afterwards it holds
    the rank numbering of the live set and is between rounds again; nobody else's record
    and no document changes; the invariant of the stable phase is kept -/
theorem round_converged (c : Cfg) (L : List Entry) (hnL : (ids L).Nodup) (s0 s : State) (hinv : Inv L s0 s)
    (m : Id) (mb : Member) (hm : s.mem m = some mb) (hidle : mb.pc = .idle)
    (iter : List Entry) (hp : iter ~ s.index) (nows : Id → Int) (hc : ClockOK c L s nows) :
    let s' := casStep (readStep c s m iter nows) m
    Inv L s0 s' ∧ s'.docs = s.docs ∧ (∀ j, j ≠ m → s'.mem j = s.mem j) ∧
    ∃ mb', s'.mem m = some mb' ∧ Converged L m mb' ∧ mb'.pc = .idle := by
  intro s'
  have hinv1 : Inv L s0 (readStep c s m iter nows) := step_inv c L hnL s0 s hinv (.read m iter nows) ⟨hp, hc⟩
  have hinv2 : Inv L s0 s' := step_inv c L hnL s0 _ hinv1 (.cas m) trivial
  refine ⟨hinv2, (casStep_docs _ m).trans (readStep_docs c s m iter nows), ?_, ?_⟩
  · intro j hj
    exact (casStep_mem_ne _ m hj).trans (readStep_mem_ne c s m iter nows hj)
  · rcases hinv.mem m mb hm with ⟨hdead, -⟩ | ⟨hl, hmi, -, -⟩
    · rcases hdead with hd | hd <;> rw [hidle] at hd <;> cases hd
    have hv := view_stable c L hnL s hinv.indexNodup hinv.indexHas hinv.docJt iter hp nows hc
    have hmem : m ∈ ids (sortJTId L) := (ids_perm (sortJTId_perm L)).mem_iff.2 (mem_ids.2 ⟨_, hl⟩)
    by_cases hch : clusterChanged mb.last (sortJTId L) = true
    · -- a change: write-back with the CAS just read succeeds, `rebalance` finds the member
      have h1 : readStep c s m iter nows = s.setMem m { mb with pc := .pending (sortJTId L) s.cas } := by
        simp only [readStep, hm, hidle, hv, hch, if_true]
      obtain ⟨i, hi, -⟩ := pos_some_of_mem hmem
      obtain ⟨r1, r2, r3, -, -⟩ := rebalance_found m { mb with pc := .pending (sortJTId L) s.cas } (sortJTId L) i hi
      refine ⟨rebalance m { mb with pc := .pending (sortJTId L) s.cas } (sortJTId L), ?_, ⟨?_, r2⟩, r3⟩
      · show (casStep (readStep c s m iter nows) m).mem m = _
        rw [h1]
        simp only [casStep, setMem_mem, if_true]
        have hcas : (s.setMem m { mb with pc := .pending (sortJTId L) s.cas }).cas = s.cas := rfl
        rw [if_pos hcas.symm, setMem_mem, if_pos rfl]
      · rw [r1, rank_of_pos hi]
    · -- no change: the round is over after the read
      have hch' : clusterChanged mb.last (sortJTId L) = false := by simpa using hch
      have hlast : mb.last = ids (sortJTId L) := by simpa [clusterChanged] using hch'
      have h1 : readStep c s m iter nows = s.setMem m { mb with rounds := mb.rounds + 1 } := by
        simp [readStep, hm, hidle, hv, hch']
      refine ⟨{ mb with rounds := mb.rounds + 1 }, ?_, ⟨?_, hlast⟩, hidle⟩
      · show (casStep (readStep c s m iter nows) m).mem m = _
        rw [h1]
        simp [casStep, setMem_mem, hidle]
      · rcases hmi with hnil | ⟨i, hi, hinfo⟩
        · rw [hlast] at hnil; rw [hnil] at hmem; cases hmem
        · show mb.info = _
          rw [hlast] at hi
          rw [rank_of_pos hi, hinfo, hlast]
          simp [ids]

/-- whole rounds of the members `ms`, one after the other (index read in stored order) -/
def roundsOf (c : Cfg) (nows : Id → Int) (s : State) (ms : List Id) : State :=
  ms.foldl (fun s m => casStep (readStep c s m s.index nows) m) s

theorem rounds_keep (c : Cfg) (L : List Entry) (hnL : (ids L).Nodup) (s0 : State) (nows : Id → Int)
    (ms : List Id) (s : State) (hinv : Inv L s0 s) (hc : ClockOK c L s nows) :
    Inv L s0 (roundsOf c nows s ms) ∧ ClockOK c L (roundsOf c nows s ms) nows ∧
    (∀ m, (∃ mb, s.mem m = some mb ∧ mb.pc = .idle) → (∀ mb, s.mem m = some mb → Converged L m mb) ∨ m ∈ ms →
      ∃ mb', (roundsOf c nows s ms).mem m = some mb' ∧ Converged L m mb' ∧ mb'.pc = .idle) ∧
    (∀ m, m ∉ ms → (roundsOf c nows s ms).mem m = s.mem m) := by
  induction ms generalizing s with
  | nil =>
    refine ⟨hinv, hc, ?_, fun _ _ => rfl⟩
    rintro m ⟨mb, hm, hidle⟩ hor
    rcases hor with hcv | hin
    · exact ⟨mb, hm, hcv mb hm, hidle⟩
    · cases hin
  | cons j r ih =>
    -- the round of `j`
    have hstep : ∀ mbj, s.mem j = some mbj → mbj.pc = .idle →
        let s1 := casStep (readStep c s j s.index nows) j
        Inv L s0 s1 ∧ s1.docs = s.docs ∧ (∀ k, k ≠ j → s1.mem k = s.mem k) ∧
        ∃ mb', s1.mem j = some mb' ∧ Converged L j mb' ∧ mb'.pc = .idle :=
      fun mbj hj hidle => round_converged c L hnL s0 s hinv j mbj hj hidle s.index (Perm.refl _) nows hc
    have hinv1 : Inv L s0 (casStep (readStep c s j s.index nows) j) :=
      step_inv c L hnL s0 _ (step_inv c L hnL s0 s hinv (.read j s.index nows) ⟨Perm.refl _, hc⟩) (.cas j) trivial
    have hdocs : (casStep (readStep c s j s.index nows) j).docs = s.docs :=
      (casStep_docs _ j).trans (readStep_docs c s j s.index nows)
    have hc1 : ClockOK c L (casStep (readStep c s j s.index nows) j) nows := clockOK_of_docs hdocs hc
    have hne : ∀ k, k ≠ j → (casStep (readStep c s j s.index nows) j).mem k = s.mem k := fun k hk =>
      (casStep_mem_ne _ j hk).trans (readStep_mem_ne c s j s.index nows hk)
    obtain ⟨i1, i2, i3, i4⟩ := ih _ hinv1 hc1
    show Inv L s0 (roundsOf c nows (casStep (readStep c s j s.index nows) j) r) ∧ _
    refine ⟨i1, i2, ?_, ?_⟩
    · rintro m ⟨mb, hm, hidle⟩ hor
      by_cases hmj : m = j
      · subst hmj
        obtain ⟨-, -, -, mb', hm', hcv', hidle'⟩ := hstep mb hm hidle
        refine i3 m ⟨mb', hm', hidle'⟩ (Or.inl ?_)
        intro mb2 hm2
        rw [hm'] at hm2; cases hm2; exact hcv'
      · have hm1 := (hne m hmj).trans hm
        refine i3 m ⟨mb, hm1, hidle⟩ ?_
        rcases hor with hcv | hin
        · left
          intro mb2 hm2
          rw [hm1] at hm2; cases hm2; exact hcv mb hm
        · right
          rcases mem_cons.1 hin with h | h
          · exact absurd h hmj
          · exact h
    · intro m hm
      simp only [mem_cons, not_or] at hm
      exact (i4 m hm.2).trans (hne m hm.1)

/-! ## the theorem -/

/-- **C10 `join_between_round_halves_admitted`.**  Let `L` be the live set of a stable
phase that starts in the quiescent state `s0`, and `pre` ANY admissible part of that phase
(monitor-round halves of anybody in any order, heart-beats, expiries of dead instances'
documents): in `s1 = run s0 pre` any number of members may stand between their index read
and their CAS write-back, each holding the list it computed.  Now a new instance `D`
registers COMPLETELY (`register1`, `register2`) with any join time `now` (equal to a
member's, or earlier than everybody's), and the pending write-backs (`flush` names at
least every member that stands between its halves, in the order the bucket serves them)
are attempted.  Then, for all group sizes, join times and choices of who was pending:

1. every one of those write-backs fails – the index is what it was plus D's entry;
2. the state is a quiescent start (`Stable`) for the live set `(D, now) :: L`: the failed
   members are between rounds again (the code: `h.monitor()` starts over), D is a member
   that is between rounds;
3. hence `converges` holds for EVERY continuation: any member that completes one round
   holds exactly `rankNumbering ((D, now) :: L)` of itself, no live member fail-stops,
   the first index write leaves exactly the enlarged live set;
4. the scenario's schedule – whole rounds of the members `ms` (the failed members again,
   D, the others; any order, repetitions allowed): every member of `ms` that is live holds
   exactly `rankNumbering ((D, now) :: L)` – D included, see 5 –, and no member that was
   between rounds has fail-stopped;
5. D is a member, between rounds, with join time `now`. -/
theorem join_between_round_halves_admitted (c : Cfg) (L : List Entry) (hnL : (ids L).Nodup)
    (s0 : State) (h0 : Stable L s0) (pre : List Action) (hpre : Admissible c L s0 pre)
    (D : Id) (now : Int) (hD : D ∉ ids (run c s0 pre).index) (hDm : (run c s0 pre).mem D = none)
    (flush : List Id)
    (hflush : ∀ m mb f cas, (run c s0 pre).mem m = some mb → mb.pc = .pending f cas → m ∈ flush) :
    let s1 := run c s0 pre
    let s3 := flush.foldl casStep (register2 (register1 s1 D now) D)
    let L' := (D, now) :: L
    s3.index = s1.index ++ [(D, now)] ∧ (ids L').Nodup ∧ Stable L' s3 ∧
    (∀ acts, Admissible c L' s3 acts →
      (∀ m mb3 mb, s3.mem m = some mb3 → (run c s3 acts).mem m = some mb → mb3.pc = .idle →
        (mb3.rounds < mb.rounds → mb.info = rankNumbering L' m) ∧ mb.pc ≠ .crashed ∧ mb.pc ≠ .stopped) ∧
      ((run c s3 acts).cas ≠ s3.cas → (run c s3 acts).index = sortJTId L')) ∧
    (∀ ms nows, ClockOK c L' s3 nows →
      (∀ m, m ∈ ms → ∀ mb3, s3.mem m = some mb3 → mb3.pc = .idle →
        ∃ mb, (roundsOf c nows s3 ms).mem m = some mb ∧ mb.info = rankNumbering L' m ∧ mb.pc = .idle) ∧
      (∀ m mb3 mb, s3.mem m = some mb3 → mb3.pc = .idle → (roundsOf c nows s3 ms).mem m = some mb →
        mb.pc ≠ .crashed)) ∧
    (∃ mbD, s3.mem D = some mbD ∧ mbD.pc = .idle ∧ mbD.jt = now) := by
  intro s1 s3 L'
  have hinv1 : Inv L s0 s1 := run_inv c L hnL s0 s0 h0.inv pre hpre
  have hle0 : PendLe s0 := by
    intro j mbj f cas hj hpc
    rcases h0.mem j mbj hj with hd | ⟨-, -, hi⟩
    · rcases hd with hd | hd <;> rw [hpc] at hd <;> cases hd
    · rw [hpc] at hi; cases hi
  have hle1 : PendLe s1 := pendLe_run c s0 hle0 pre
  have hDL : D ∉ ids L := fun h => by
    obtain ⟨j, hj⟩ := mem_ids.1 h
    exact hD (mem_ids.2 ⟨j, hinv1.indexHas _ hj⟩)
  have hnL' : (ids L').Nodup := by
    show (D :: ids L).Nodup
    exact nodup_cons.2 ⟨hDL, hnL⟩
  have hup : upsert (D, now) s1.index = s1.index ++ [(D, now)] := upsert_fresh (D, now) s1.index hD
  -- the state after the registration: every pending write-back is doomed
  have hdoom : Doomed L' (register2 (register1 s1 D now) D) := by
    rw [register_eq, hup]
    refine ⟨?_, ?_, ?_, ?_⟩
    · show (ids (s1.index ++ [(D, now)])).Nodup
      simp only [ids, map_append, map_cons, map_nil]
      refine (nodup_append.2 ⟨hinv1.indexNodup, by simp, ?_⟩)
      intro a ha b hb
      simp only [mem_singleton] at hb
      subst hb
      intro hab
      exact hD (hab ▸ ha)
    · intro e he
      show e ∈ s1.index ++ [(D, now)]
      rcases mem_cons.1 he with rfl | he
      · simp
      · exact mem_append_left _ (hinv1.indexHas e he)
    · intro e he d hd
      simp only at hd
      rcases mem_cons.1 he with rfl | he
      · simp only [if_true] at hd
        cases hd; rfl
      · have hne : e.1 ≠ D := fun h => hDL (h ▸ mem_ids.2 ⟨e.2, he⟩)
        rw [if_neg hne] at hd
        exact hinv1.docJt e he d hd
    · intro m mb hm
      simp only at hm
      split at hm
      · rename_i hmD
        cases hm
        subst hmD
        exact Or.inr ⟨mem_cons_self, Or.inl rfl, Or.inl rfl⟩
      · rcases hinv1.mem m mb hm with ⟨hdead, -⟩ | ⟨hl, hmi, hpc, -⟩
        · exact Or.inl hdead
        · refine Or.inr ⟨mem_cons_of_mem _ hl, hmi, ?_⟩
          rcases hpc with hi | ⟨cas, hp⟩
          · exact Or.inl hi
          · right
            refine ⟨_, cas, hp, ?_⟩
            have := hle1 m mb _ cas hm hp
            show cas < s1.cas + 1
            omega
  obtain ⟨f1, f2, -, -, f5, f6⟩ := doomed_flush flush hdoom
  have hidx : s3.index = s1.index ++ [(D, now)] := by
    show (flush.foldl casStep (register2 (register1 s1 D now) D)).index = _
    rw [f2, register_eq, hup]
  have hDmem : (register2 (register1 s1 D now) D).mem D = some { jt := now } := by
    rw [register_eq]; simp
  have hstable : Stable L' s3 := by
    refine ⟨f1.indexNodup, f1.indexHas, f1.docJt, ?_⟩
    intro m mb hm
    rcases f1.mem m mb hm with hd | ⟨h1, h2, hp⟩
    · exact Or.inl hd
    · rcases hp with hi | ⟨f, cas, hp, -⟩
      · exact Or.inr ⟨h1, h2, hi⟩
      · exfalso
        obtain ⟨hnf, hm2⟩ := f5 m mb hm ⟨f, cas, hp⟩
        rw [register_eq] at hm2
        simp only at hm2
        split at hm2
        · cases hm2; cases hp
        · exact hnf (hflush m mb f cas hm2 hp)
  have hDs3 : s3.mem D = some { jt := now } := f6 D _ hDmem rfl
  refine ⟨hidx, hnL', hstable, ?_, ?_, ⟨_, hDs3, rfl, rfl⟩⟩
  · intro acts hadm
    exact converges c L' hnL' s3 hstable acts hadm
  · intro ms nows hclock
    obtain ⟨k1, -, k3, -⟩ := rounds_keep c L' hnL' s3 nows ms s3 hstable.inv hclock
    refine ⟨?_, ?_⟩
    · intro m hm mb3 hm3 hidle
      obtain ⟨mb, e1, e2, e3⟩ := k3 m ⟨mb3, hm3, hidle⟩ (Or.inr hm)
      exact ⟨mb, e1, e2.1, e3⟩
    · intro m mb3 mb hm3 hidle hmE
      rcases k1.mem m mb hmE with ⟨-, hd0⟩ | ⟨-, -, hpc, -⟩
      · rcases hd0 mb3 hm3 with hd | hd <;> rw [hidle] at hd <;> cases hd
      · rcases hpc with hpc | ⟨cas, hpc⟩ <;> rw [hpc] <;> intro h <;> cases h

/-- **the literal schedule** [A reads; D registers completely; A's CAS write fails; the members
`ms` (A again, D, the others) run whole rounds]: from a quiescent stable state, for every
member A, every iteration order and clock reading of its read, every fresh D and join
time: every live member of `ms` – D included – holds exactly `rankNumbering` of the live
set enlarged by D, nobody fail-stops, and the index still carries D's entry when A's
write-back has failed. -/
theorem join_between_round_halves_single (c : Cfg) (L : List Entry) (hnL : (ids L).Nodup)
    (s0 : State) (h0 : Stable L s0) (A : Id) (iter : List Entry) (nowsA : Id → Int)
    (hp : iter ~ s0.index) (hcA : ClockOK c L s0 nowsA)
    (D : Id) (now : Int) (hD : D ∉ ids s0.index) (hDm : s0.mem D = none)
    (ms : List Id) (nows : Id → Int) :
    let s3 := run c s0 [.read A iter nowsA, .register1 D now, .register2 D, .cas A]
    let L' := (D, now) :: L
    (D, now) ∈ s3.index ∧
    (ClockOK c L' s3 nows →
      (∀ m, m ∈ ms → ∀ mb3, s3.mem m = some mb3 → mb3.pc = .idle →
        ∃ mb, (roundsOf c nows s3 ms).mem m = some mb ∧ mb.info = rankNumbering L' m ∧ mb.pc = .idle) ∧
      (∀ m mb3 mb, s3.mem m = some mb3 → mb3.pc = .idle → (roundsOf c nows s3 ms).mem m = some mb →
        mb.pc ≠ .crashed)) ∧
    (∃ mbD, s3.mem D = some mbD ∧ mbD.pc = .idle ∧ mbD.jt = now) ∧
    (∀ m mb, s3.mem m = some mb → (mb.pc = .stopped ∨ mb.pc = .crashed) ∨ mb.pc = .idle) := by
  intro s3 L'
  have hadm : Admissible c L s0 [.read A iter nowsA] := ⟨⟨hp, hcA⟩, trivial⟩
  have hidx : (run c s0 [.read A iter nowsA]).index = s0.index := by
    show (readStep c s0 A iter nowsA).index = _
    unfold readStep
    cases s0.mem A with
    | none => rfl
    | some mb =>
      dsimp only
      cases mb.pc with
      | idle => dsimp only; split <;> rfl
      | pending f cas => rfl
      | crashed => rfl
      | stopped => rfl
  have hDm1 : (run c s0 [.read A iter nowsA]).mem D = none := by
    show (readStep c s0 A iter nowsA).mem D = none
    by_cases h : D = A
    · subst h; simp [readStep, hDm]
    · rw [readStep_mem_ne c s0 A iter nowsA h]; exact hDm
  have hfl : ∀ m mb f cas, (run c s0 [.read A iter nowsA]).mem m = some mb → mb.pc = .pending f cas → m ∈ [A] := by
    intro m mb f cas hm hpc
    by_cases h : m = A
    · simp [h]
    · exfalso
      have hm' : s0.mem m = some mb := by
        rw [← readStep_mem_ne c s0 A iter nowsA h]; exact hm
      rcases h0.mem m mb hm' with hd | ⟨-, -, hi⟩
      · rcases hd with hd | hd <;> rw [hpc] at hd <;> cases hd
      · rw [hpc] at hi; cases hi
  have key := join_between_round_halves_admitted c L hnL s0 h0 [.read A iter nowsA] hadm D now
    (by rw [hidx]; exact hD) hDm1 [A] hfl
  obtain ⟨k1, -, k3, -, k5, k6⟩ := key
  refine ⟨?_, fun hcl => k5 ms nows hcl, k6, ?_⟩
  · show (D, now) ∈ (run c s0 [.read A iter nowsA, .register1 D now, .register2 D, .cas A]).index
    have : (run c s0 [.read A iter nowsA, .register1 D now, .register2 D, .cas A]).index =
        (run c s0 [.read A iter nowsA]).index ++ [(D, now)] := k1
    rw [this]; simp
  · intro m mb hm
    rcases k3.mem m mb hm with hd | ⟨-, -, hi⟩
    · exact Or.inl hd
    · exact Or.inr hi

/-! ## non-vacuity: a concrete instance (member 2 is dead, 1 holds the change, 3 joins in the window) -/

/-- members 1 (joined at 10) and 2 (at 20) have converged to 1/2 and 2/2; 2 has stopped and its
    document has expired; 1 has heart-beaten at 1000 (reachable: see the example below) -/
def jnS0 : State :=
  { index := [(1, 10), (2, 20)], cas := 4,
    docs := fun j => if j = 1 then some ⟨1000, 10⟩ else none,
    mem := fun j =>
      if j = 1 then some { jt := 10, info := some (1, 2), last := [1, 2], rounds := 1, events := [(1, 2)] }
      else if j = 2 then some { jt := 20, info := some (2, 2), last := [1, 2], rounds := 1, events := [(2, 2)], pc := .stopped }
      else none }

/-- `jnS0` is what the model reaches from the empty bucket -/
def jnReach : State :=
  run exCfg {} [.register1 1 10, .register2 1, .register1 2 20, .register2 2,
    .read 1 [(1, 10), (2, 20)] (fun _ => 100), .cas 1, .read 2 [(1, 10), (2, 20)] (fun _ => 100), .cas 2,
    .stop 2, .expire 2, .heartbeat 1 1000]

example : jnReach.index = jnS0.index ∧ jnReach.cas = jnS0.cas ∧
    jnReach.docs 1 = jnS0.docs 1 ∧ jnReach.docs 2 = jnS0.docs 2 ∧ jnReach.docs 3 = jnS0.docs 3 ∧
    (∀ m ∈ [1, 2, 3],
      (jnReach.mem m).map (·.jt) = (jnS0.mem m).map (·.jt) ∧ (jnReach.mem m).map (·.info) = (jnS0.mem m).map (·.info) ∧
      (jnReach.mem m).map (·.last) = (jnS0.mem m).map (·.last) ∧ (jnReach.mem m).map (·.pc) = (jnS0.mem m).map (·.pc) ∧
      (jnReach.mem m).map (·.rounds) = (jnS0.mem m).map (·.rounds) ∧
      (jnReach.mem m).map (·.events) = (jnS0.mem m).map (·.events)) := by decide

/-- member 1 reads (the change "2 is gone" is pending), 3 registers completely at 1020 -/
def jnWindow : List Action :=
  [.read 1 [(2, 20), (1, 10)] (fun _ => 1010), .register1 3 1020, .register2 3]

/-- the code as it is: 1's write-back fails, 1 runs the round again, 3 runs its first round -/
def jnCode : List Action :=
  [.cas 1, .read 1 [(1, 10), (2, 20), (3, 1020)] (fun _ => 1030), .cas 1,
   .read 3 [(3, 1020), (1, 10)] (fun _ => 1040), .cas 3]

example : ((run exCfg jnS0 (jnWindow ++ jnCode)).mem 1).map (·.info) = some (some (1, 2)) ∧
    ((run exCfg jnS0 (jnWindow ++ jnCode)).mem 3).map (·.info) = some (some (2, 2)) ∧
    ((run exCfg jnS0 (jnWindow ++ jnCode)).mem 3).map (·.pc) = some Pc.idle ∧
    (run exCfg jnS0 (jnWindow ++ jnCode)).index = [(1, 10), (3, 1020)] := by decide

/-- the hypotheses of `join_between_round_halves_single` are satisfiable: `jnS0` is a quiescent
    stable state for the live set [(1, 10)] and the read of `jnWindow` is admissible -/
example : Stable [(1, 10)] jnS0 ∧ [(2, 20), (1, 10)] ~ jnS0.index ∧
    ClockOK exCfg [(1, 10)] jnS0 (fun _ => 1010) ∧ 3 ∉ ids jnS0.index ∧ jnS0.mem 3 = none := by
  refine ⟨⟨by decide, by decide, ?_, ?_⟩, Perm.swap _ _ _, ⟨?_, ?_⟩, by decide, by decide⟩
  · intro e he d hd
    simp only [mem_cons, not_mem_nil, or_false] at he
    subst he
    simp [jnS0] at hd
    subst hd; rfl
  · intro m mb hm
    simp only [jnS0] at hm
    split at hm
    · rename_i h1; subst h1; cases hm
      exact Or.inr ⟨by decide, Or.inr ⟨0, by decide, rfl⟩, rfl⟩
    · split at hm
      · cases hm; exact Or.inl (Or.inl rfl)
      · cases hm
  · intro e he
    simp only [mem_cons, not_mem_nil, or_false] at he
    subst he
    exact ⟨⟨1000, 10⟩, by simp [jnS0], by decide⟩
  · intro a ha d hd
    have h1 : a ≠ 1 := by simpa [ids] using ha
    simp [jnS0, h1] at hd

/-! ## why the recursion matters: the stale retry of seeded change C10-c2 -/

/-- NOT the code.  The shape of seeded change C10-c2 (`updateIndexWithRetry`): on
    `ErrCasMismatch` only the CAS is read again and the list computed BEFORE the conflicting
    write is written once more; with the fresh CAS that write succeeds and `rebalance` runs
    on the stale list. -/
def casStepStaleRetry (s : State) (m : Id) : State :=
  match s.mem m with
  | none => s
  | some mb =>
    match mb.pc with
    | .pending f _ => ({ s with index := f, cas := s.cas + 1 }).setMem m (rebalance m mb f)
    | _ => s

/-- the seeded shape: after 1's stale rewrite 3 runs its first round -/
def jnStale : List Action := [.read 3 [(1, 10)] (fun _ => 1040), .cas 3]

/-- **`stale_rewrite_erases_joiner_refuted`.**  In the window of
`join_between_round_halves_admitted` (member 1 has read and holds the change "2 is gone",
instance 3 has registered COMPLETELY: index entry and document) the statement is false of
the stale retry: 1 writes `[1]` over the index with a fresh CAS – 3's entry is erased –,
1 announces 1/1, and 3's first round does not find itself: fail-stop.  The code as it
is (`casStep`: mismatch ⇒ whole round again, `jnCode`) admits 3 from the same state. -/
theorem stale_rewrite_erases_joiner_refuted :
    -- 3 is completely registered in the window
    ((run exCfg jnS0 jnWindow).index.any (·.1 = 3) = true ∧ ((run exCfg jnS0 jnWindow).docs 3).isSome = true ∧
      ((run exCfg jnS0 jnWindow).mem 1).map (·.pc) = some (Pc.pending [(1, 10)] 4)) ∧
    -- the stale retry erases it
    ((casStepStaleRetry (run exCfg jnS0 jnWindow) 1).index = [(1, 10)] ∧
      ((run exCfg (casStepStaleRetry (run exCfg jnS0 jnWindow) 1) jnStale).mem 3).map (·.pc) = some Pc.crashed ∧
      ((run exCfg (casStepStaleRetry (run exCfg jnS0 jnWindow) 1) jnStale).mem 1).map (·.info) = some (some (1, 1))) ∧
    -- the code as it is admits it
    (((run exCfg (run exCfg jnS0 jnWindow) jnCode).mem 3).map (·.info) = some (some (2, 2)) ∧
      ((run exCfg (run exCfg jnS0 jnWindow) jnCode).mem 1).map (·.info) = some (some (1, 2))) := by
  decide

/-! ## the driver's schedule is the theorem's schedule -/

open GoDcp.Driver in
/-- the scenario the Lean driver runs for `mb-cb-joinwrite` (two members, the second dies, the
    first holds the change, D joins in the window): D is admitted as 2/2, nobody fail-stops -/
example : ((jwScenario 2 (some 1) 0 "exp" "first" 7 30).mem 7).map (·.info) = some (some (2, 2)) ∧
    ((jwScenario 2 (some 1) 0 "exp" "first" 7 30).mem 2).map (·.info) = some (some (1, 2)) ∧
    (jwScenario 2 (some 1) 0 "exp" "first" 7 30).index = [(2, 10), (7, 30)] := by decide

end GoDcp.Membership
