import GoDcp.Props.C10Ha
/-!
# C10 (kubernetesHa): an instance WITHOUT `leaderService` is never taken in again by the loop bodies alone

`orphan_stays`: an instance that is not promoted, has no `leaderService`, and to which nobody holds a working
connection stays so under ANY sequence of loop bodies (`hb`, `hbFollow`, `hbPing`, `hbRemove`, `mon`) of ANY
instances, and the numbering it holds never changes.  Since commit 39ec43d (finding F17) a failed re-register no
longer leads into this state (`Props/C10Ha hbFollow_keeps_leader`, `ha_partition_heals`); what still does: a LIVING
leader that lost the lease (`OnBecomeLeader` cleared `leaderService`, the elector has stopped:
`Props/C10HaRefute ha_orphan_exleader_refuted`) and a failed `NewClient` inside `OnBecomeFollower`.
-/
namespace GoDcp.HaMembership
open GoDcp.Membership List

/-- the loop bodies of service_discovery.go (no election callback, no environment event) -/
def isLoopBody : Action → Bool
  | .hb _ | .hbFollow _ | .hbPing _ | .hbRemove _ | .mon _ => true
  | _ => false

/-- `F` is not promoted, has no `leaderService`, and nobody holds a working connection to it -/
structure Orphan (s : State) (F : Id) : Prop where
  notLeader : (s.insts F).amLeader = false
  noLeader : (s.insts F).leader = none
  noConn : ∀ i v, v ∈ (s.insts i).services → v.name = F → v.conn.broken = true

/-- what a step must leave alone for `F` to stay an orphan with the same numbering -/
structure Keeps (F : Id) (s t : State) : Prop where
  amLeader : (t.insts F).amLeader = (s.insts F).amLeader
  leader : (t.insts F).leader = (s.insts F).leader
  info : (t.insts F).info = (s.insts F).info
  svc : ∀ j v, v ∈ (t.insts j).services → v.name = F → v ∈ (s.insts j).services

theorem Keeps.refl (F : Id) (s : State) : Keeps F s s := ⟨rfl, rfl, rfl, fun _ _ h _ => h⟩

theorem Keeps.trans {F : Id} {s t u : State} (h1 : Keeps F s t) (h2 : Keeps F t u) : Keeps F s u :=
  ⟨h2.amLeader.trans h1.amLeader, h2.leader.trans h1.leader, h2.info.trans h1.info,
    fun j v hv hn => h1.svc j v (h2.svc j v hv hn) hn⟩

theorem Keeps.nf {F : Id} {s t : State} (h : Keeps F s t) : Keeps F s (nf t) := ⟨h.1, h.2, h.3, h.4⟩

theorem Keeps.orphan {F : Id} {s t : State} (h : Keeps F s t) (ho : Orphan s F) : Orphan t F :=
  ⟨h.amLeader.trans ho.notLeader, h.leader.trans ho.noLeader,
    fun j v hv hn => ho.noConn j v (h.svc j v hv hn) hn⟩

/-- an update of one instance that keeps `amLeader`, `leader`, `info` and only shrinks `services` -/
theorem Keeps.upd (F : Id) (s : State) (i : Id) (f : Inst → Inst)
    (h1 : ∀ x, (f x).amLeader = x.amLeader) (h2 : ∀ x, (f x).leader = x.leader)
    (h3 : ∀ x, (f x).info = x.info) (h4 : ∀ x v, v ∈ (f x).services → v ∈ x.services) :
    Keeps F s (s.upd i f) := by
  refine ⟨?_, ?_, ?_, fun j v hv _ => ?_⟩
  · simp only [upd_insts]; split
    · exact h1 _
    · rfl
  · simp only [upd_insts]; split
    · exact h2 _
    · rfl
  · simp only [upd_insts]; split
    · exact h3 _
    · rfl
  · simp only [upd_insts] at hv
    split at hv
    · exact h4 _ v hv
    · exact hv

theorem keeps_hbPing (F : Id) (s : State) (i : Id) : Keeps F s (hbPing s i) := by
  unfold hbPing
  simp only
  split
  · exact Keeps.refl F s
  · apply Keeps.nf
    exact Keeps.upd F s i _ (fun _ => rfl) (fun _ => rfl) (fun _ => rfl) (fun _ _ h => h)

theorem keeps_hbRemove (F : Id) (s : State) (i : Id) : Keeps F s (hbRemove s i) := by
  unfold hbRemove
  simp only
  split
  · exact Keeps.refl F s
  · apply Keeps.nf
    exact Keeps.upd F s i _ (fun _ => rfl) (fun _ => rfl) (fun _ => rfl)
      (fun _ _ h => (mem_filter.1 h).1)

/-- an update of an instance other than `F` that only writes `leader` -/
theorem Keeps.updLeader {F : Id} (s : State) {i : Id} (hi : i ≠ F) (l : Option Client) :
    Keeps F s (s.upd i fun x => { x with leader := l }) := by
  refine ⟨?_, ?_, ?_, fun j v hv _ => ?_⟩
  · simp [Ne.symm hi]
  · simp [Ne.symm hi]
  · simp [Ne.symm hi]
  · simp only [upd_insts] at hv
    split at hv <;> exact hv

/-- `Add` of an entry that is not named `F` -/
theorem Keeps.updAdd {F : Id} (s : State) (b : Id) {w : Svc} (hw : w.name ≠ F) :
    Keeps F s (s.upd b fun x => { x with services := addSvc w x.services }) := by
  refine ⟨?_, ?_, ?_, fun j v hv hn => ?_⟩
  · simp only [upd_insts]; split <;> rfl
  · simp only [upd_insts]; split <;> rfl
  · simp only [upd_insts]; split <;> rfl
  · simp only [upd_insts] at hv
    split at hv
    · rcases of_mem_addSvc hv with rfl | hv
      · exact absurd hn hw
      · exact hv
    · exact hv

theorem Keeps.thenLeader {F : Id} {s t : State} (h : Keeps F s t) {i : Id} (hi : i ≠ F) (l : Option Client) :
    Keeps F s (t.upd i fun x => { x with leader := l }) := h.trans (Keeps.updLeader t hi l)

theorem Keeps.thenAdd {F : Id} {s t : State} (h : Keeps F s t) (b : Id) {w : Svc} (hw : w.name ≠ F) :
    Keeps F s (t.upd b fun x => { x with services := addSvc w x.services }) := h.trans (Keeps.updAdd t b hw)

theorem keeps_hbFollow {F : Id} {s : State} (ho : Orphan s F) (i : Id) : Keeps F s (hbFollow s i) := by
  by_cases hi : i = F
  · subst hi
    have : hbFollow s i = s := by
      unfold hbFollow
      simp only [ho.noLeader]
    rw [this]
    exact Keeps.refl i s
  · unfold hbFollow
    simp only
    split
    · exact Keeps.refl F s
    · rename_i c hc
      split
      · exact Keeps.refl F s
      · split
        · exact Keeps.refl F s
        · split
          · rename_i s2 hr
            obtain ⟨rfl, -, -⟩ := registerAt_eq hr
            apply Keeps.nf
            refine Keeps.thenAdd ?_ _ hi
            exact Keeps.updLeader s hi _
          · apply Keeps.nf
            exact Keeps.updLeader s hi _

theorem keeps_hb {F : Id} {s : State} (ho : Orphan s F) (i : Id) : Keeps F s (hb s i) := by
  unfold hb
  split
  · exact Keeps.refl F s
  · exact ((keeps_hbFollow ho i).trans (keeps_hbPing F _ i)).trans (keeps_hbRemove F _ i)

/-- `Rebalance` goes over working connections only: an instance none of them points to is not written -/
theorem rebalanceAll_info_ne (L F : Id) (l : List (Id × (Nat × Nat))) (s : State)
    (h : ∀ v, v ∈ (s.insts L).services → v.conn.broken = false → v.conn.target ≠ F) :
    ((rebalanceAll L s l).insts F).info = (s.insts F).info := by
  induction l generalizing s with
  | nil => rfl
  | cons x r ih =>
    obtain ⟨name, a⟩ := x
    simp only [rebalanceAll]
    split
    · rename_i v hf
      have hv := mem_of_find?_eq_some hf
      split
      · exact ih s h
      · rename_i hb
        have hb' : v.conn.broken = false := by simpa using hb
        have hne := h v hv hb'
        rw [ih]
        · simp [Ne.symm hne]
        · intro w hw
          have : ((s.upd v.conn.target fun x => { x with info := (setInfo x.info a).1 }).insts L).services =
              (s.insts L).services := by
            simp only [upd_insts]; split <;> rfl
          rw [this] at hw
          exact h w hw
    · exact ih s h

theorem keeps_mon {F : Id} {s : State} (hwf : WF s) (ho : Orphan s F) (i : Id) : Keeps F s (mon s i) := by
  have hio := mon_infoOnly s i
  refine ⟨?_, hio.leader F, ?_, fun j v hv _ => ?_⟩
  · exact (mon_frame s i).amLeader F
  · by_cases hal : (s.insts i).alive = true ∧ (s.insts i).amLeader = true
    · have hiF : F ≠ i := by
        intro e
        rw [← e, ho.notLeader] at hal
        exact absurd hal.2 (by simp)
      rw [mon_eq hal.1 hal.2]
      show ((rebalanceAll i _ _).insts F).info = _
      rw [rebalanceAll_info_ne]
      · simp [hiF]
      · intro v hv hb hF
        have hv' : v ∈ (s.insts i).services := by simpa using hv
        have hn : v.name = F := (hwf.svcTarget i v hv').1.symm.trans hF
        rw [ho.noConn i v hv' hn] at hb
        cases hb
    · rw [mon_eq_self hal]
  · rw [mon_services] at hv
    exact hv

theorem keeps_step {F : Id} {s : State} (hwf : WF s) (ho : Orphan s F) (a : Action)
    (hl : isLoopBody a = true) : Keeps F s (step s a) := by
  cases a with
  | hb i => exact keeps_hb ho i
  | hbFollow i =>
    simp only [step]; split
    · exact keeps_hbFollow ho i
    · exact Keeps.refl F s
  | hbPing i =>
    simp only [step]; split
    · exact keeps_hbPing F s i
    · exact Keeps.refl F s
  | hbRemove i =>
    simp only [step]; split
    · exact keeps_hbRemove F s i
    · exact Keeps.refl F s
  | mon i => exact keeps_mon hwf ho i
  | start _ _ => cases hl
  | kill _ => cases hl
  | cut _ _ => cases hl
  | block _ _ => cases hl
  | unblock _ _ => cases hl
  | acquire _ => cases hl
  | lead _ => cases hl
  | observe _ => cases hl
  | lose _ _ => cases hl

/-- whatever loop bodies run, of whatever instances, in whatever order: an orphan stays an orphan and the
    numbering it holds never changes -/
theorem orphan_stays (s : State) (F : Id) (acts : List Action) (hwf : WF s) (ho : Orphan s F)
    (hl : ∀ a ∈ acts, isLoopBody a = true) :
    Orphan (run s acts) F ∧ ((run s acts).insts F).info = (s.insts F).info := by
  induction acts generalizing s with
  | nil => exact ⟨ho, rfl⟩
  | cons a r ih =>
    have hk := keeps_step hwf ho a (hl a mem_cons_self)
    obtain ⟨h1, h2⟩ := ih (step s a) (wf_step s a hwf) (hk.orphan ho)
      (fun b hb => hl b (mem_cons_of_mem _ hb))
    exact ⟨h1, h2.trans hk.info⟩

end GoDcp.HaMembership
