import GoDcp.Model.HaMembership
import GoDcp.Props.C10
/-!
Structural lemmas about `Model/HaMembership.lean` used by `Props/C10Ha.lean`: state access, `addSvc`,
`breakTo`, `setInfo`, `sdAssignFrom`, `rebalanceAll`, and the frame (what the loop bodies never touch).
-/
namespace GoDcp.HaMembership
open GoDcp.Membership List

/-! ## state access -/

@[simp] theorem upd_insts (s : State) (i j : Id) (f : Inst → Inst) :
    (s.upd i f).insts j = if j = i then f (s.insts j) else s.insts j := rfl
@[simp] theorem upd_n (s : State) (i : Id) (f : Inst → Inst) : (s.upd i f).n = s.n := rfl
@[simp] theorem upd_holder (s : State) (i : Id) (f : Inst → Inst) : (s.upd i f).holder = s.holder := rfl
@[simp] theorem upd_blocked (s : State) (i : Id) (f : Inst → Inst) : (s.upd i f).blocked = s.blocked := rfl
@[simp] theorem upd_fresh (s : State) (i : Id) (f : Inst → Inst) : (s.upd i f).fresh = s.fresh := rfl
@[simp] theorem nf_insts (s : State) : (nf s).insts = s.insts := rfl
@[simp] theorem nf_n (s : State) : (nf s).n = s.n := rfl
@[simp] theorem nf_holder (s : State) : (nf s).holder = s.holder := rfl
@[simp] theorem nf_blocked (s : State) : (nf s).blocked = s.blocked := rfl
@[simp] theorem nf_fresh (s : State) : (nf s).fresh = false := rfl

theorem upd_insts_self (s : State) (i : Id) (f : Inst → Inst) : (s.upd i f).insts i = f (s.insts i) := by
  simp

theorem upd_insts_ne (s : State) {i j : Id} (f : Inst → Inst) (h : j ≠ i) : (s.upd i f).insts j = s.insts j := by
  simp [h]

theorem blockedB_nil {s : State} (h : s.blocked = []) (a b : Id) : blockedB s a b = false := by
  simp [blockedB, h]

theorem canDial_of {s : State} (h : s.blocked = []) (a b : Id) : canDial s a b = (s.insts b).alive := by
  simp [canDial, blockedB_nil h]

theorem canDial_alive {s : State} {a b : Id} (h : canDial s a b = true) : (s.insts b).alive = true := by
  simp only [canDial, Bool.and_eq_true] at h
  exact h.1

/-! ## `addSvc` -/

theorem mem_addSvc_self (v : Svc) (l : List Svc) : v ∈ addSvc v l := by
  induction l with
  | nil => simp [addSvc]
  | cons x r ih =>
    simp only [addSvc]
    split
    · exact mem_cons_self
    · exact mem_cons_of_mem _ ih

theorem mem_addSvc_of_ne {v w : Svc} {l : List Svc} (hw : w ∈ l) (hne : w.name ≠ v.name) : w ∈ addSvc v l := by
  induction l with
  | nil => cases hw
  | cons x r ih =>
    simp only [addSvc]
    rcases mem_cons.1 hw with rfl | hw
    · rw [if_neg hne]; exact mem_cons_self
    · split
      · exact mem_cons_of_mem _ hw
      · exact mem_cons_of_mem _ (ih hw)

theorem of_mem_addSvc {v w : Svc} {l : List Svc} (hw : w ∈ addSvc v l) : w = v ∨ w ∈ l := by
  induction l with
  | nil => simp only [addSvc, mem_singleton] at hw; exact Or.inl hw
  | cons x r ih =>
    simp only [addSvc] at hw
    split at hw
    · rcases mem_cons.1 hw with h | h
      · exact Or.inl h
      · exact Or.inr (mem_cons_of_mem _ h)
    · rcases mem_cons.1 hw with h | h
      · exact Or.inr (h ▸ mem_cons_self)
      · rcases ih h with h | h
        · exact Or.inl h
        · exact Or.inr (mem_cons_of_mem _ h)

theorem nodup_addSvc (v : Svc) {l : List Svc} (h : (l.map (·.name)).Nodup) :
    ((addSvc v l).map (·.name)).Nodup := by
  induction l with
  | nil => simp [addSvc]
  | cons x r ih =>
    rw [map_cons, nodup_cons] at h
    simp only [addSvc]
    split
    · rename_i hx
      rw [map_cons, nodup_cons, ← hx]
      exact h
    · rename_i hx
      rw [map_cons, nodup_cons]
      refine ⟨?_, ih h.2⟩
      intro hm
      obtain ⟨w, hw, hwn⟩ := mem_map.1 hm
      rcases of_mem_addSvc hw with rfl | hw
      · exact hx hwn.symm
      · exact h.1 (mem_map.2 ⟨w, hw, hwn⟩)

/-! ## `brk` / `breakTo` -/

@[simp] theorem brk_target (t : Id) (c : Client) : (brk t c).target = c.target := by
  unfold brk; split <;> rfl

theorem brk_broken_false {t : Id} {c : Client} (h : (brk t c).broken = false) :
    c.broken = false ∧ c.target ≠ t := by
  unfold brk at h
  split at h
  · cases h
  · exact ⟨h, by assumption⟩

theorem brk_broken_true {t : Id} {c : Client} (h : c.broken = true) : (brk t c).broken = true := by
  unfold brk; split
  · rfl
  · exact h

theorem brk_of_ne {t : Id} {c : Client} (h : c.target ≠ t) : brk t c = c := by
  unfold brk; rw [if_neg h]

@[simp] theorem breakTo_alive (t : Id) (x : Inst) : (x.breakTo t).alive = x.alive := rfl
@[simp] theorem breakTo_jt (t : Id) (x : Inst) : (x.breakTo t).jt = x.jt := rfl
@[simp] theorem breakTo_amLeader (t : Id) (x : Inst) : (x.breakTo t).amLeader = x.amLeader := rfl
@[simp] theorem breakTo_info (t : Id) (x : Inst) : (x.breakTo t).info = x.info := rfl
@[simp] theorem breakTo_pending (t : Id) (x : Inst) : (x.breakTo t).pending = x.pending := rfl
@[simp] theorem breakTo_el (t : Id) (x : Inst) : (x.breakTo t).el = x.el := rfl
@[simp] theorem breakTo_reported (t : Id) (x : Inst) : (x.breakTo t).reported = x.reported := rfl
theorem breakTo_services (t : Id) (x : Inst) :
    (x.breakTo t).services = x.services.map fun v => { v with conn := brk t v.conn } := rfl
theorem breakTo_leader (t : Id) (x : Inst) : (x.breakTo t).leader = x.leader.map (brk t) := rfl

theorem breakTo_names (t : Id) (x : Inst) :
    (x.breakTo t).services.map (·.name) = x.services.map (·.name) := by
  simp [breakTo_services, Function.comp_def]

/-! ## `setInfo` -/

theorem setInfo_fst {α : Type} [DecidableEq α] (cur : Option (α × α)) (new : α × α) :
    (setInfo cur new).1 = some new := by
  unfold setInfo
  split
  · rfl
  · rename_i h
    cases cur with
    | none => simp [isChanged] at h
    | some o =>
      simp only [isChanged, Bool.or_eq_true, decide_eq_true_eq, not_or, Decidable.not_not] at h
      show some o = some new
      rw [Prod.ext h.1 h.2]

/-! ## `sdAssignFrom` -/

theorem getElem?_sdAssignFrom (T k : Nat) (l : List Id) (p : Nat) :
    (sdAssignFrom T k l)[p]? = (l[p]?).map fun a => (a, (k + p, T)) := by
  induction l generalizing k p with
  | nil => simp [sdAssignFrom]
  | cons n r ih =>
    cases p with
    | zero => simp [sdAssignFrom]
    | succ q =>
      simp only [sdAssignFrom, getElem?_cons_succ, ih]
      congr 1
      funext a
      simp only [Prod.mk.injEq, true_and, and_true]
      omega

theorem mem_sdAssignFrom {T k : Nat} {l : List Id} {x : Id × (Nat × Nat)} :
    x ∈ sdAssignFrom T k l ↔ ∃ p, l[p]? = some x.1 ∧ x.2 = (k + p, T) := by
  rw [mem_iff_getElem?]
  constructor
  · rintro ⟨p, hp⟩
    rw [getElem?_sdAssignFrom, Option.map_eq_some_iff] at hp
    obtain ⟨a, ha, rfl⟩ := hp
    exact ⟨p, ha, rfl⟩
  · rintro ⟨p, hp, hx⟩
    refine ⟨p, ?_⟩
    rw [getElem?_sdAssignFrom, hp]
    simp only [Option.map_some, Option.some.injEq]
    exact Prod.ext rfl hx.symm

theorem length_sdAssignFrom (T k : Nat) (l : List Id) : (sdAssignFrom T k l).length = l.length := by
  have := congrArg List.length (sdAssignFrom_names T k l)
  simpa using this

/-! ## the frame: what no loop body (`hb*`, `mon`) ever touches -/

/-- the part of an instance that only election callbacks and the environment write -/
def coreOf (x : Inst) : Bool × Int × Bool × El × Option (Id × Int) :=
  (x.alive, x.jt, x.amLeader, x.el, x.reported)

structure Frame (s t : State) : Prop where
  n : t.n = s.n
  holder : t.holder = s.holder
  blocked : t.blocked = s.blocked
  core : ∀ j, coreOf (t.insts j) = coreOf (s.insts j)

theorem Frame.refl (s : State) : Frame s s := ⟨rfl, rfl, rfl, fun _ => rfl⟩

theorem Frame.trans {s t u : State} (h1 : Frame s t) (h2 : Frame t u) : Frame s u :=
  ⟨h2.n.trans h1.n, h2.holder.trans h1.holder, h2.blocked.trans h1.blocked,
    fun j => (h2.core j).trans (h1.core j)⟩

theorem Frame.alive {s t : State} (h : Frame s t) (j : Id) : (t.insts j).alive = (s.insts j).alive :=
  congrArg (·.1) (h.core j)
theorem Frame.jt {s t : State} (h : Frame s t) (j : Id) : (t.insts j).jt = (s.insts j).jt :=
  congrArg (·.2.1) (h.core j)
theorem Frame.amLeader {s t : State} (h : Frame s t) (j : Id) : (t.insts j).amLeader = (s.insts j).amLeader :=
  congrArg (·.2.2.1) (h.core j)
theorem Frame.el {s t : State} (h : Frame s t) (j : Id) : (t.insts j).el = (s.insts j).el :=
  congrArg (·.2.2.2.1) (h.core j)
theorem Frame.reported {s t : State} (h : Frame s t) (j : Id) : (t.insts j).reported = (s.insts j).reported :=
  congrArg (·.2.2.2.2) (h.core j)

theorem Frame.nf {s t : State} (h : Frame s t) : Frame s (nf t) := ⟨h.n, h.holder, h.blocked, h.core⟩

/-- an update of one instance that keeps its `core` -/
theorem Frame.upd (s : State) (i : Id) (f : Inst → Inst) (hf : ∀ x, coreOf (f x) = coreOf x) :
    Frame s (s.upd i f) := by
  refine ⟨rfl, rfl, rfl, fun j => ?_⟩
  simp only [upd_insts]
  split
  · exact hf _
  · rfl

theorem Frame.liveIds {s t : State} (h : Frame s t) : liveIds t = liveIds s := by
  unfold HaMembership.liveIds
  rw [h.n]
  congr 1
  funext i
  exact h.alive i

theorem registerAt_eq {s t : State} {a b : Id} (h : registerAt s a b = some t) :
    t = (s.upd b fun x =>
      { x with services := addSvc { name := a, jt := (s.insts a).jt, conn := { target := a } } x.services }) ∧
    (s.insts b).alive = true ∧ canDial s b a = true := by
  unfold registerAt at h
  split at h
  · rename_i hc
    simp only [Bool.and_eq_true] at hc
    exact ⟨(Option.some.inj h).symm, hc.1, hc.2⟩
  · cases h

theorem registerAt_some {s : State} {a b : Id} (hb : (s.insts b).alive = true) (hc : canDial s b a = true) :
    registerAt s a b = some (s.upd b fun x =>
      { x with services := addSvc { name := a, jt := (s.insts a).jt, conn := { target := a } } x.services }) := by
  unfold registerAt
  rw [hb, hc]
  rfl

end GoDcp.HaMembership
