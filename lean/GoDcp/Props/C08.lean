import GoDcp.Model.Rollback
import GoDcp.Spec.C08
/-!
# C08 — a server-requested rollback is honoured without replaying or skipping

All theorems are for **all** failover logs, rollback points, offsets and server
event sequences (no bounds).  Hypotheses that are needed are exact and are
shown to be needed by a refutation with a concrete witness.
-/
namespace GoDcp.Rollback

/-! ## branch selection -/

/-- specification of the scan: uuid of the first entry, in newest-first order,
    whose start is ≤ R; 0 if there is none -/
def newestLe : Log → Nat → Nat
  | [], _ => 0
  | (u, s) :: r, R => if s ≤ R then u else newestLe r R

theorem branchLoop_append (R : Nat) (l1 l2 : Log) (t : Nat) :
    branchLoop R (l1 ++ l2) t = branchLoop R l2 (branchLoop R l1 t) := by
  induction l1 generalizing t with
  | nil => rfl
  | cons e l ih => obtain ⟨u, s⟩ := e; simp [branchLoop, ih]

theorem branchFor_cons (u s : Nat) (l : Log) (R : Nat) :
    branchFor ((u, s) :: l) R = if s ≤ R then u else branchFor l R := by
  unfold branchFor
  rw [List.reverse_cons, branchLoop_append]
  simp [branchLoop]

/-- **branch_is_newest_le**: the loop (oldest → newest, last match wins) returns the
    uuid of the NEWEST entry whose start is ≤ R, and 0 when no entry qualifies. -/
theorem branch_is_newest_le (log : Log) (R : Nat) : branchFor log R = newestLe log R := by
  induction log with
  | nil => rfl
  | cons e l ih => obtain ⟨u, s⟩ := e; rw [branchFor_cons, newestLe, ih]

/-- the same, spelled with `List.find?` -/
theorem branch_is_find (log : Log) (R : Nat) :
    branchFor log R = match log.find? (fun e => decide (e.2 ≤ R)) with
      | some e => e.1
      | none => 0 := by
  rw [branch_is_newest_le]
  induction log with
  | nil => rfl
  | cons e l ih =>
    obtain ⟨u, s⟩ := e
    by_cases h : s ≤ R <;> simp [newestLe, List.find?, h, ih]

/-- shape of the result for an arbitrary (also ill-formed) log -/
theorem branch_split (log : Log) (R : Nat) :
    (∃ pre e post, log = pre ++ e :: post ∧ branchFor log R = e.1 ∧ e.2 ≤ R ∧ ∀ x ∈ pre, R < x.2)
    ∨ (branchFor log R = 0 ∧ ∀ x ∈ log, R < x.2) := by
  induction log with
  | nil => right; exact ⟨rfl, by simp⟩
  | cons e l ih =>
    obtain ⟨u, s⟩ := e
    rw [branchFor_cons]
    by_cases h : s ≤ R
    · left; exact ⟨[], (u, s), l, rfl, by simp [h], h, by simp⟩
    · simp only [h, if_false]
      rcases ih with ⟨pre, e, post, hl, hb, he, hp⟩ | ⟨hb, hall⟩
      · left
        refine ⟨(u, s) :: pre, e, post, by simp [hl], hb, he, ?_⟩
        intro x hx
        rcases List.mem_cons.mp hx with rfl | hx
        · simpa using Nat.lt_of_not_le h
        · exact hp x hx
      · right
        refine ⟨hb, ?_⟩
        intro x hx
        rcases List.mem_cons.mp hx with rfl | hx
        · simpa using Nat.lt_of_not_le h
        · exact hall x hx

/-- well-formed failover log: starts strictly descending from newest to oldest,
    and the oldest entry starts at 0 -/
def WellFormed (log : Log) : Prop :=
  log.Pairwise (fun a b => b.2 < a.2) ∧ ∃ u, log.getLast? = some (u, 0)

/-- existence: a well-formed log always has a branch whose start is ≤ R -/
theorem wf_exists (log : Log) (R : Nat) (h : WellFormed log) : ∃ e ∈ log, e.2 ≤ R := by
  obtain ⟨_, u, hu⟩ := h
  exact ⟨(u, 0), List.mem_of_getLast? hu, Nat.zero_le _⟩

/-- **the chosen branch contains R** (well-formed log): the request goes to an
    entry of the log whose start is ≤ R while every newer entry – in particular
    the next newer one – starts above R. -/
theorem branch_contains_R (log : Log) (R : Nat) (h : WellFormed log) :
    ∃ pre e post, log = pre ++ e :: post ∧ branchFor log R = e.1 ∧ e.2 ≤ R ∧ ∀ x ∈ pre, R < x.2 := by
  rcases branch_split log R with hs | ⟨_, hall⟩
  · exact hs
  · obtain ⟨e, he, hle⟩ := wf_exists log R h
    exact absurd (hall e he) (Nat.not_lt.mpr hle)

/-- … and it is the only such branch: any entry whose start is ≤ R and whose next
    newer neighbour starts above R is the one that was chosen. -/
theorem branch_unique (log pre post : Log) (e : Nat × Nat) (R : Nat) (h : WellFormed log)
    (hl : log = pre ++ e :: post) (he : e.2 ≤ R)
    (hn : ∀ n, pre.getLast? = some n → R < n.2) : branchFor log R = e.1 := by
  subst hl
  have hpw := h.1
  -- every entry of `pre` starts above R (descending order + the neighbour)
  have hpre : ∀ x ∈ pre, R < x.2 := by
    intro x hx
    rcases List.eq_nil_or_concat pre with hnil | ⟨p, n, hpn⟩
    · subst hnil; simp at hx
    · rw [List.concat_eq_append] at hpn
      subst hpn
      have hRn : R < n.2 := hn n (by simp)
      rcases List.mem_append.mp hx with hx | hx
      · have hpw' := (List.pairwise_append.mp hpw).1
        have := (List.pairwise_append.mp hpw').2.2 x hx n (by simp)
        omega
      · simp at hx; subst hx; exact hRn
  clear hn hpw h
  induction pre with
  | nil => obtain ⟨u, s⟩ := e; simp [branchFor_cons] at *; intro h; omega
  | cons a p ih =>
    obtain ⟨ua, sa⟩ := a
    have : R < sa := hpre (ua, sa) (by simp)
    rw [List.cons_append, branchFor_cons, if_neg (by omega)]
    exact ih (fun x hx => hpre x (by simp [hx]))

example : WellFormed [(30, 100), (20, 50), (10, 0)] := by
  refine ⟨by decide, 10, rfl⟩

/-- concrete readings of the loop, including ill-formed logs -/
example : branchFor [(30, 100), (20, 50), (10, 0)] 60 = 20 := by decide
example : branchFor [(30, 100), (20, 50), (10, 0)] 100 = 30 := by decide
example : branchFor [(30, 100), (20, 50), (10, 0)] 0 = 10 := by decide
example : branchFor [(30, 100), (20, 50)] 7 = 0 := by decide          -- no entry ≤ R
example : branchFor [(30, 5), (20, 50), (10, 0)] 7 = 30 := by decide   -- ill-formed: newest wins

/-! ## the two requests -/

/-- **second_request_exact**: after ROLLBACK(R) and a successful failover-log query
    exactly two requests are sent: the first with flags 0x80 and the offset's own
    fields, the second with flags 0, the chosen branch, start R, the SAME end and
    snapshot range [R,R] – whatever the server answers to it. -/
theorem second_request_exact (off : Offset) (R : Nat) (log : Log) (a2 : Answer) :
    ∃ out, openStream ⟨off, .rollback R, some log, a2⟩ = out ∧
      (match out with | .opened r _ _ => r | .failed r => r | .failstop r => r) =
        [⟨0x80, off.uuid, off.seq, off.latest, off.snapStart, off.snapEnd⟩,
         ⟨0, branchFor log R, R, off.latest, R, R⟩] := by
  refine ⟨_, rfl, ?_⟩
  cases a2 with
  | ok l => cases l with
    | nil => rfl
    | cons e _ => obtain ⟨u, s⟩ := e; rfl
  | rollback r => rfl
  | err => rfl

/-- **uuid_after_rollback** (client side): a successful reopen sets the observer's
    vbUUID to the head of the SECOND response's failover log and arms the catch-up
    at the offset's own seqNo F. -/
theorem uuid_after_rollback (off : Offset) (R : Nat) (log log2 : Log) (u s : Nat) :
    openStream ⟨off, .rollback R, some log, .ok ((u, s) :: log2)⟩ =
      .opened [firstReq off, rollbackReq log R off.latest] u (some off.seq) := rfl

/-- **reopen_failure_is_error**: if the failover-log query fails, or the second
    request is answered with an error or with another ROLLBACK, `OpenStream`
    returns an error and the observer is left untouched (the stream layer turns
    that error into its fail-stop, see C15). -/
theorem reopen_failure_is_error (off : Offset) (R : Nat) (q : Option Log) (a2 : Answer)
    (h : q = none ∨ a2 = .err ∨ ∃ r, a2 = .rollback r) :
    ∃ reqs, openStream ⟨off, .rollback R, q, a2⟩ = .failed reqs := by
  rcases h with rfl | rfl | ⟨r, rfl⟩
  · exact ⟨_, rfl⟩
  · cases q <;> exact ⟨_, rfl⟩
  · cases q <;> exact ⟨_, rfl⟩

/-- no request at all is sent after a failed failover-log query -/
theorem query_failure_sends_nothing (off : Offset) (R : Nat) (a2 : Answer) :
    openStream ⟨off, .rollback R, none, a2⟩ = .failed [firstReq off] := rfl

/-! ## the catch-up filter -/

theorem run_nil (σ : CatchState) : run σ [] = ([], false) := rfl

theorem run_marker (σ : CatchState) (s e : Nat) (rest : List Event) :
    run σ (.marker s e :: rest) =
      (.marker s e :: (run { σ with snap := some (s, e) } rest).1, (run { σ with snap := some (s, e) } rest).2) := rfl

theorem run_advance (σ : CatchState) (q : Nat) (rest : List Event) :
    run σ (.advance q :: rest) =
      (.advance q σ.uuid :: (run { σ with snap := some (q, q) } rest).1,
       (run { σ with snap := some (q, q) } rest).2) := rfl

/-- one gated event, every case of `needCatchup` and `IsInSnapshotMarker` -/
theorem run_gated (need : Bool) (F u : Nat) (snap : Option (Nat × Nat)) (k : Kind) (q : Nat)
    (rest : List Event) :
    run ⟨need, F, u, snap⟩ (.gated k q :: rest) =
      if need = true ∧ q < F then run ⟨true, F, u, snap⟩ rest
      else if need = true ∧ q = F then run ⟨false, F, u, snap⟩ rest
      else match snap with
        | some (s, e) =>
          if s ≤ q ∧ q ≤ e then
            (.gated k q u s e :: (run ⟨false, F, u, snap⟩ rest).1, (run ⟨false, F, u, snap⟩ rest).2)
          else ([], true)
        | none => ([], true) := by
  cases need with
  | false =>
    cases snap with
    | none => simp [run, catchStep, needCatchup]
    | some se =>
      obtain ⟨s, e⟩ := se
      by_cases hin : s ≤ q ∧ q ≤ e <;> simp [run, catchStep, needCatchup, hin]
  | true =>
    by_cases h1 : q < F
    · simp [run, catchStep, needCatchup, h1, Nat.not_le.mpr h1]
    · have hge : F ≤ q := Nat.not_lt.mp h1
      by_cases h2 : q = F
      · simp [run, catchStep, needCatchup, h2]
      · cases snap with
        | none => simp [run, catchStep, needCatchup, h1, h2, hge]
        | some se =>
          obtain ⟨s, e⟩ := se
          by_cases hin : s ≤ q ∧ q ≤ e <;> simp [run, catchStep, needCatchup, h1, h2, hge, hin]

/-- once the catch-up is over, nothing is dropped any more -/
theorem run_no_need (σ : CatchState) (evs : List Event) (hn : σ.need = false)
    (hc : (run σ evs).2 = false) : deliveredGated (run σ evs).1 = gatedOf evs := by
  induction evs generalizing σ with
  | nil => rfl
  | cons ev rest ih =>
    cases ev with
    | marker s e =>
      rw [run_marker] at hc ⊢
      simp only [deliveredGated, gatedOf]
      exact ih _ hn hc
    | advance q =>
      rw [run_advance] at hc ⊢
      simp only [deliveredGated, gatedOf]
      exact ih _ hn hc
    | gated k q =>
      obtain ⟨need, F, u, snap⟩ := σ
      simp only at hn; subst hn
      rw [run_gated] at hc ⊢
      simp only [Bool.false_eq_true, false_and, if_false] at hc ⊢
      cases snap with
      | none => simp at hc
      | some se =>
        obtain ⟨s, e⟩ := se
        by_cases hin : s ≤ q ∧ q ≤ e
        · simp only [hin, and_self, if_true] at hc ⊢
          simp only [deliveredGated, gatedOf]
          rw [ih _ rfl hc]
        · simp [hin] at hc

theorem filter_all_above (F : Nat) (l : List (Kind × Nat)) (h : ∀ p ∈ l, F < p.2) :
    l.filter (fun p => decide (F < p.2)) = l := by
  apply List.filter_eq_self.mpr
  intro p hp; simpa using h p hp

theorem gatedOf_mem_seq {evs : List Event} {p : Kind × Nat} (h : p ∈ gatedOf evs) :
    p.2 ∈ (gatedOf evs).map (·.2) := List.mem_map_of_mem h

/-- **after_rollback_delivery**: for every server sequence whose gated events
    (mutations, deletions, expirations, system events) carry strictly increasing
    seqnos, an observer in catch-up at F hands the listener exactly the gated
    events with seq > F, in order – nothing at or below F is shown again,
    everything above F is shown.  Covers "event exactly at F" (dropped, ends the
    catch-up), "no event at F" (the first event above F ends it and IS delivered),
    "all events ≤ F" and the empty sequence; snapshot markers and seqno-advanced
    events in between neither end nor disturb the catch-up.
    `hc` = the process did not die in `IsInSnapshotMarker` (see `run_safe`). -/
theorem after_rollback_delivery (σ : CatchState) (evs : List Event)
    (hinc : ((gatedOf evs).map (·.2)).Pairwise (· < ·))
    (hc : (run σ evs).2 = false) (hneed : σ.need = true) :
    deliveredGated (run σ evs).1 = (gatedOf evs).filter (fun p => decide (σ.catchup < p.2)) := by
  induction evs generalizing σ with
  | nil => rfl
  | cons ev rest ih =>
    cases ev with
    | marker s e =>
      rw [run_marker] at hc ⊢
      simp only [deliveredGated, gatedOf] at hinc ⊢
      exact ih { σ with snap := some (s, e) } hinc hc hneed
    | advance q =>
      rw [run_advance] at hc ⊢
      simp only [deliveredGated, gatedOf] at hinc ⊢
      exact ih { σ with snap := some (q, q) } hinc hc hneed
    | gated k q =>
      obtain ⟨need, F, u, snap⟩ := σ
      simp only at hneed; subst hneed
      simp only [gatedOf, List.map_cons, List.pairwise_cons] at hinc
      obtain ⟨hlt, hinc'⟩ := hinc
      have hrest : ∀ p ∈ gatedOf rest, q < p.2 := fun p hp => hlt _ (gatedOf_mem_seq hp)
      rw [run_gated] at hc ⊢
      simp only [true_and] at hc ⊢
      by_cases h1 : q < F
      · -- below F: dropped, catch-up continues
        simp only [h1, if_true] at hc ⊢
        rw [ih _ hinc' hc rfl]
        simp [gatedOf, Nat.not_lt.mpr (Nat.le_of_lt h1)]
      · by_cases h2 : q = F
        · -- exactly at F: dropped, catch-up ends
          subst h2
          simp only [Nat.lt_irrefl, ↓reduceIte] at hc ⊢
          rw [run_no_need _ rest rfl hc]
          simp only [gatedOf, List.filter_cons, Nat.lt_irrefl, decide_false, Bool.false_eq_true, if_false]
          exact (filter_all_above _ _ hrest).symm
        · -- above F: delivered, catch-up ends
          have hgt : F < q := by omega
          simp only [h1, h2, if_false] at hc ⊢
          cases snap with
          | none => simp at hc
          | some se =>
            obtain ⟨s, e⟩ := se
            by_cases hin : s ≤ q ∧ q ≤ e
            · simp only [hin, and_self, if_true] at hc ⊢
              simp only [deliveredGated, gatedOf, List.filter_cons, hgt, decide_true, if_true]
              rw [run_no_need _ rest rfl hc]
              congr 1
              exact (filter_all_above _ _ (fun p hp => by have := hrest p hp; omega)).symm
            · simp [hin] at hc

/-- "everything above F is shown" needs no ordering hypothesis at all -/
theorem above_F_always_delivered (σ : CatchState) (evs : List Event)
    (hc : (run σ evs).2 = false) :
    (deliveredGated (run σ evs).1).filter (fun p => decide (σ.catchup < p.2))
      = (gatedOf evs).filter (fun p => decide (σ.catchup < p.2)) := by
  induction evs generalizing σ with
  | nil => rfl
  | cons ev rest ih =>
    cases ev with
    | marker s e =>
      rw [run_marker] at hc ⊢
      simp only [deliveredGated, gatedOf]
      exact ih { σ with snap := some (s, e) } hc
    | advance q =>
      rw [run_advance] at hc ⊢
      simp only [deliveredGated, gatedOf]
      exact ih { σ with snap := some (q, q) } hc
    | gated k q =>
      obtain ⟨need, F, u, snap⟩ := σ
      rw [run_gated] at hc ⊢
      by_cases c1 : need = true ∧ q < F
      · simp only [c1, and_self, if_true] at hc ⊢
        have := ih _ hc
        simp only at this
        rw [this]
        simp [gatedOf, Nat.not_lt.mpr (Nat.le_of_lt c1.2)]
      · by_cases c2 : need = true ∧ q = F
        · obtain ⟨hn, rfl⟩ := c2
          subst hn
          simp only [Nat.lt_irrefl, and_false, and_self, ↓reduceIte] at hc ⊢
          have := ih _ hc
          simp only at this
          rw [this]
          simp [gatedOf]
        · simp only [c1, c2, if_false] at hc ⊢
          cases snap with
          | none => simp at hc
          | some se =>
            obtain ⟨s, e⟩ := se
            by_cases hin : s ≤ q ∧ q ≤ e
            · simp only [hin, and_self, if_true] at hc ⊢
              have := ih _ hc
              simp only at this
              simp only [deliveredGated, gatedOf, List.filter_cons]
              rw [this]
            · simp [hin] at hc

/-- without a rollback (no `SetCatchup`) nothing is filtered -/
theorem no_catchup_delivers_all (u : Nat) (evs : List Event)
    (hc : (run (CatchState.afterOpen u none) evs).2 = false) :
    deliveredGated (run (CatchState.afterOpen u none) evs).1 = gatedOf evs :=
  run_no_need _ evs rfl hc

/-- **what happens when server seqnos are NOT increasing** (outside DCP's
    contract and outside C08's quantifier; stated for honesty): the first gated
    event at or above F ends the catch-up for good, so a later event at or below
    F is shown again.  Here F = 5; the server sends 6 then 5. -/
theorem nonincreasing_replays_refuted :
    deliveredGated (run ⟨true, 5, 1, none⟩
      [.marker 0 9, .gated .mu 6, .gated .mu 5]).1 = [(.mu, 6), (.mu, 5)] := by decide

/-- the vbUUID of the observer never changes while events flow: every offset handed
    to the listener carries the uuid set by `OpenStream` -/
theorem delivered_uuid (σ : CatchState) (evs : List Event) :
    ∀ x ∈ deliveredUuids (run σ evs).1, x = σ.uuid := by
  induction evs generalizing σ with
  | nil => intro x hx; simp [run, deliveredUuids] at hx
  | cons ev rest ih =>
    cases ev with
    | marker s e =>
      rw [run_marker]
      simp only [deliveredUuids]
      exact ih { σ with snap := some (s, e) }
    | advance q =>
      rw [run_advance]
      simp only [deliveredUuids]
      intro x hx
      rcases List.mem_cons.mp hx with rfl | hx
      · rfl
      · exact ih { σ with snap := some (q, q) } x hx
    | gated k q =>
      obtain ⟨need, F, u, snap⟩ := σ
      rw [run_gated]
      split
      · exact ih _
      · split
        · exact ih _
        · split
          · split
            · simp only [deliveredUuids]
              intro x hx
              rcases List.mem_cons.mp hx with rfl | hx
              · rfl
              · exact ih _ x hx
            · intro x hx; simp [deliveredUuids] at hx
          · intro x hx; simp [deliveredUuids] at hx

/-- **uuid_after_rollback** (observer side): after a successful reopen every offset
    issued carries the head uuid of the second response's failover log. -/
theorem uuid_after_rollback_offsets (off : Offset) (R : Nat) (log log2 : Log) (u s : Nat)
    (evs : List Event) :
    ∀ x ∈ deliveredUuids (session ⟨off, .rollback R, some log, .ok ((u, s) :: log2)⟩ evs).2.1, x = u := by
  intro x hx
  have := delivered_uuid (CatchState.afterOpen u (some off.seq)) evs x
  simpa [session, openStream, CatchState.afterOpen] using this hx

/-- syntactic safety implies that the process does not die, whatever the catch-up
    state is (the converse is false: dropped events need not be in range) -/
theorem run_safe (σ : CatchState) (evs : List Event) (h : wellSnapped σ.snap evs = true) :
    (run σ evs).2 = false := by
  induction evs generalizing σ with
  | nil => rfl
  | cons ev rest ih =>
    cases ev with
    | marker s e =>
      rw [run_marker]
      exact ih { σ with snap := some (s, e) } (by simpa [wellSnapped] using h)
    | advance q =>
      rw [run_advance]
      exact ih { σ with snap := some (q, q) } (by simpa [wellSnapped] using h)
    | gated k q =>
      obtain ⟨need, F, u, snap⟩ := σ
      cases snap with
      | none => simp [wellSnapped] at h
      | some se =>
        obtain ⟨s, e⟩ := se
        simp only [wellSnapped, Bool.and_eq_true, decide_eq_true_eq] at h
        obtain ⟨hin, hrest⟩ := h
        rw [run_gated]
        split
        · exact ih _ hrest
        · split
          · exact ih _ hrest
          · simp only [hin, and_self, if_true]
            exact ih _ hrest

/-- non-vacuity of `after_rollback_delivery`: a two-snapshot sequence with an
    event exactly at F = 7 and a seqno-advanced in between -/
example :
    let evs : List Event := [.marker 4 8, .gated .mu 5, .gated .de 7, .gated .ex 8,
                             .advance 9, .marker 10 12, .gated .sy 11, .gated .mu 12]
    ((gatedOf evs).map (·.2)).Pairwise (· < ·) ∧ (run ⟨true, 7, 3, none⟩ evs).2 = false ∧
    deliveredGated (run ⟨true, 7, 3, none⟩ evs).1 = [(.ex, 8), (.sy, 11), (.mu, 12)] := by
  decide

end GoDcp.Rollback

/-! ## the monitor accepts the model -/
namespace GoDcp.Spec.C08
open GoDcp.Rollback

theorem increasing_iff (l : List Nat) : increasing l = true ↔ l.Pairwise (· < ·) := by
  induction l with
  | nil => simp [increasing]
  | cons a r ih =>
    cases r with
    | nil => simp [increasing]
    | cons b r' =>
      simp only [increasing, Bool.and_eq_true, decide_eq_true_eq, ih, List.pairwise_cons]
      constructor
      · rintro ⟨hab, hb, hr⟩
        refine ⟨?_, hb, hr⟩
        intro x hx
        rcases List.mem_cons.mp hx with rfl | hx
        · exact hab
        · exact Nat.lt_trans hab (hb x hx)
      · rintro ⟨ha, hb, hr⟩
        exact ⟨ha b (by simp), hb, hr⟩

/-- Boolean and propositional well-formedness agree -/
theorem wellFormed_iff (log : Log) : wellFormed log = true ↔ WellFormed log := by
  induction log with
  | nil => simp [wellFormed, WellFormed]
  | cons a r ih =>
    obtain ⟨u, s⟩ := a
    cases r with
    | nil =>
      simp only [wellFormed, WellFormed, beq_iff_eq, List.pairwise_cons, List.not_mem_nil,
        false_imp_iff, implies_true, List.Pairwise.nil, and_self, true_and, List.getLast?_singleton,
        Option.some.injEq, Prod.mk.injEq]
      constructor
      · intro h; exact ⟨u, rfl, h⟩
      · rintro ⟨_, _, h⟩; exact h
    | cons b r' =>
      obtain ⟨u', s'⟩ := b
      simp only [wellFormed, Bool.and_eq_true, decide_eq_true_eq, ih]
      unfold WellFormed
      simp only [List.pairwise_cons, List.getLast?_cons_cons]
      constructor
      · rintro ⟨hlt, ⟨hb, hr⟩, hlast⟩
        refine ⟨⟨?_, hb, hr⟩, hlast⟩
        intro x hx
        rcases List.mem_cons.mp hx with rfl | hx
        · exact hlt
        · exact Nat.lt_trans (hb x hx) hlt
      · rintro ⟨⟨ha, hb, hr⟩, hlast⟩
        exact ⟨ha (u', s') (by simp), ⟨hb, hr⟩, hlast⟩

/-- the model's choice is always the first candidate of the monitor -/
theorem containing_head (R : Nat) (prev : Option Nat) (log : Log)
    (hp : ∀ p, prev = some p → R < p) :
    containing R prev log = [] ∨ ∃ t, containing R prev log = newestLe log R :: t := by
  induction log generalizing prev with
  | nil => left; rfl
  | cons a r ih =>
    obtain ⟨u, s⟩ := a
    by_cases h : s ≤ R
    · right
      cases prev with
      | none => exact ⟨containing R (some s) r, by simp [containing, newestLe, h]⟩
      | some p =>
        have := hp p rfl
        exact ⟨containing R (some s) r, by simp [containing, newestLe, h, this]⟩
    · have hlt : R < s := Nat.lt_of_not_le h
      have := ih (some s) (by intro p hp'; cases hp'; exact hlt)
      simpa [containing, newestLe, h] using this

theorem branchOK_model (log : Log) (R : Nat) : branchOK log R (branchFor log R) = true := by
  unfold branchOK
  rcases containing_head R none log (by intro p hp; cases hp) with h | ⟨t, h⟩
  · simp [h]
  · simp [h, branch_is_newest_le]

/-- for a well-formed log the monitor's candidate set is exactly the chosen branch -/
theorem containing_wf_unique (R : Nat) (log : Log) (h : WellFormed log) :
    containing R none log = [branchFor log R] := by
  -- after the first hit, `prev ≤ R` blocks every later entry
  have after : ∀ (l : Log) (p : Nat), l.Pairwise (fun a b => b.2 < a.2) → p ≤ R →
      (∀ x ∈ l, x.2 < p) → containing R (some p) l = [] := by
    intro l
    induction l with
    | nil => intros; rfl
    | cons a r ih =>
      intro p hpw hpR hall
      obtain ⟨u, s⟩ := a
      have hs : s < p := hall (u, s) (by simp)
      have hnot : ¬ R < p := Nat.not_lt.mpr hpR
      simp only [containing, hnot, decide_false, Bool.and_false, Bool.false_eq_true, if_false]
      apply ih s (List.pairwise_cons.mp hpw).2 (by omega)
      intro x hx
      exact (List.pairwise_cons.mp hpw).1 x hx
  have gen : ∀ (l : Log) (prev : Option Nat), l.Pairwise (fun a b => b.2 < a.2) →
      (∀ p, prev = some p → R < p) → (∃ e ∈ l, e.2 ≤ R) →
      containing R prev l = [newestLe l R] := by
    intro l
    induction l with
    | nil => intro _ _ _ ⟨e, he, _⟩; simp at he
    | cons a r ih =>
      intro prev hpw hp hex
      obtain ⟨u, s⟩ := a
      by_cases hsR : s ≤ R
      · have haft := after r s (List.pairwise_cons.mp hpw).2 hsR (fun x hx => (List.pairwise_cons.mp hpw).1 x hx)
        cases prev with
        | none => simp [containing, newestLe, hsR, haft]
        | some p =>
          have := hp p rfl
          simp [containing, newestLe, hsR, haft, this]
      · have hlt : R < s := Nat.lt_of_not_le hsR
        simp only [containing, newestLe, hsR, decide_false, Bool.false_and, Bool.false_eq_true, if_false]
        apply ih (some s) (List.pairwise_cons.mp hpw).2 (by intro p hp'; cases hp'; exact hlt)
        obtain ⟨e, he, hle⟩ := hex
        rcases List.mem_cons.mp he with rfl | he
        · exact absurd hle hsR
        · exact ⟨e, he, hle⟩
  rw [branch_is_newest_le]
  exact gen log none h.1 (by intro p hp; cases hp) (wf_exists log R h)

/-- **holds_model**: for every scenario and every server sequence that keeps each
    gated event inside its announced snapshot, the model's own output satisfies
    every sentence of C08. -/
theorem holds_model (sc : Scenario) (evs : List Event) (hs : wellSnapped none evs = true) :
    holds sc evs (modelObs sc evs) = true := by
  obtain ⟨off, a1, q, a2⟩ := sc
  cases a1 with
  | ok l => simp [holds, clauses]
  | err => simp [holds, clauses]
  | rollback R =>
    cases q with
    | none =>
      cases a2 with
      | ok l =>
        cases l with
        | nil => simp [holds, clauses, modelObs, session, openStream]
        | cons e l' => obtain ⟨u, s⟩ := e; simp [holds, clauses, modelObs, session, openStream]
      | rollback r => simp [holds, clauses, modelObs, session, openStream]
      | err => simp [holds, clauses, modelObs, session, openStream]
    | some log =>
      cases a2 with
      | err =>
        simp [holds, clauses, modelObs, session, openStream, rollbackReq, branchOK_model]
      | rollback r =>
        simp [holds, clauses, modelObs, session, openStream, rollbackReq, branchOK_model]
      | ok l2 =>
        cases l2 with
        | nil => simp [holds, clauses, modelObs, session, openStream, rollbackReq, branchOK_model]
        | cons e l2' =>
          obtain ⟨u, s⟩ := e
          have hc : (run (CatchState.afterOpen u (some off.seq)) evs).2 = false :=
            run_safe _ evs (by simpa [CatchState.afterOpen] using hs)
          have h1 := above_F_always_delivered (CatchState.afterOpen u (some off.seq)) evs hc
          have h2 := delivered_uuid (CatchState.afterOpen u (some off.seq)) evs
          simp only [CatchState.afterOpen] at h1 h2 hc
          simp only [holds, clauses, modelObs, session, openStream, rollbackReq, CatchState.afterOpen,
            List.all_cons, List.all_nil, Bool.and_true, Bool.and_eq_true]
          refine ⟨by simp, by simp [branchOK_model], by simp, ?_, ?_, ?_, by simp⟩
          · -- no-replay
            by_cases hi : increasing ((gatedOf evs).map (·.2)) = true
            · have := after_rollback_delivery ⟨true, off.seq, u, none⟩ evs
                ((increasing_iff _).mp hi) hc rfl
              simp only at this
              simp only [hi, Bool.and_self, Bool.not_true, Bool.false_or]
              rw [this]
              simp [List.all_filter]
            · simp [hi]
          · -- no-skip
            simp only [Bool.not_true, Bool.false_or, above, beq_iff_eq]
            exact h1
          · -- uuid
            simp only [Bool.not_true, Bool.false_or, List.all_eq_true, beq_iff_eq]
            exact h2

/-- non-vacuity of `holds_model`, and the monitor is not trivially true: the same
    case with a replayed event (5 ≤ F = 7) is rejected on sentence `no-replay`. -/
example :
    let sc : Scenario := ⟨⟨3, 7, 4, 8, 99⟩, .rollback 4, some [(30, 6), (20, 0)], .ok [(30, 6), (20, 0)]⟩
    let evs : List Event := [.marker 4 8, .gated .mu 5, .gated .mu 7, .gated .mu 8]
    holds sc evs (modelObs sc evs) = true ∧
    failing sc evs ⟨true, (modelObs sc evs).reqs, [.marker 4 8, .gated .mu 5 30 4 8, .gated .mu 8 30 4 8]⟩
      = some "no-replay" ∧
    failing sc evs ⟨true, (modelObs sc evs).reqs, [.marker 4 8]⟩ = some "no-skip" := by
  decide

end GoDcp.Spec.C08
