import GoDcp.Model.MinSeqNo
import GoDcp.Spec.C07
/-!
# C07 — with rollback mitigation, nothing the cluster could still roll back is delivered

All statements are for **all** tables, reports, event sequences and
interleavings (no bounds).  "Every copy listed in the cluster map" = the
entries of the row that are not `absent` (see `Model/MinSeqNo.lean`).
-/
namespace GoDcp.MinSeqNo
open GoDcp.Spec.C07

/-! ## the decision function -/

theorem scan_le (u : Nat) (rs : List Replica) (m : Nat) : scan u m rs ≤ m := by
  induction rs generalizing m with
  | nil => simp [scan]
  | cons r rs ih =>
    unfold scan
    split
    · exact ih m
    · split
      · exact Nat.zero_le _
      · refine Nat.le_trans (ih _) ?_
        split <;> omega

theorem scan_sound (u : Nat) (rs : List Replica) (m : Nat) (h : scan u m rs ≠ 0) :
    ∀ r ∈ rs, r.absent = false → r.uuid = u ∧ scan u m rs ≤ r.seq := by
  induction rs generalizing m with
  | nil => simp
  | cons r rs ih =>
    unfold scan at h ⊢
    intro x hx hxa
    by_cases ha : r.absent = true
    · simp only [ha, if_true] at h ⊢
      rcases List.mem_cons.mp hx with rfl | hx
      · simp [ha] at hxa
      · exact ih m h x hx hxa
    · simp only [ha] at h ⊢
      by_cases hu : u ≠ r.uuid
      · simp [hu] at h
      · simp only [hu, if_false] at h ⊢
        rcases List.mem_cons.mp hx with rfl | hx
        · refine ⟨(Decidable.not_not.mp hu).symm, ?_⟩
          refine Nat.le_trans (scan_le _ _ _) ?_
          split <;> omega
        · exact ih _ h x hx hxa

/-- **min_sound**: a non-zero result means that all listed copies carry one vbUUID and
    each of them has persisted at least that seqno. -/
theorem min_sound (t : Table) (m : Nat) (h : getMinSeqNo t = m) (hm : m ≠ 0) :
    ∃ u, ∀ r ∈ t, r.absent = false → r.uuid = u ∧ m ≤ r.seq := by
  subst h
  induction t with
  | nil => simp [getMinSeqNo] at hm
  | cons r rs ih =>
    unfold getMinSeqNo at hm ⊢
    by_cases ha : r.absent = true
    · simp only [ha, if_true] at hm ⊢
      obtain ⟨u, hu⟩ := ih hm
      refine ⟨u, fun x hx hxa => ?_⟩
      rcases List.mem_cons.mp hx with rfl | hx
      · simp [ha] at hxa
      · exact hu x hx hxa
    · simp only [ha] at hm ⊢
      refine ⟨r.uuid, fun x hx hxa => ?_⟩
      rcases List.mem_cons.mp hx with rfl | hx
      · exact ⟨rfl, scan_le _ _ _⟩
      · exact scan_sound _ _ _ hm x hx hxa

theorem min_covered (t : Table) (hm : getMinSeqNo t ≠ 0) : Covered t (getMinSeqNo t) :=
  min_sound t _ rfl hm

/-- **min_zero_cases (1)**: no listed copy → 0 ("all replicas absent") -/
theorem min_zero_all_absent (t : Table) (h : ∀ r ∈ t, r.absent = true) : getMinSeqNo t = 0 := by
  induction t with
  | nil => rfl
  | cons r rs ih =>
    unfold getMinSeqNo
    rw [if_pos (h r (List.mem_cons_self ..))]
    exact ih fun x hx => h x (List.mem_cons_of_mem _ hx)

/-- **min_zero_cases (2)**: two listed copies with different vbUUIDs → 0, wherever they stand -/
theorem min_zero_uuid_disagree (t : Table) (a b : Replica) (ha : a ∈ t) (hb : b ∈ t)
    (hap : a.absent = false) (hbp : b.absent = false) (hne : a.uuid ≠ b.uuid) : getMinSeqNo t = 0 := by
  apply Decidable.byContradiction
  intro h
  obtain ⟨u, hu⟩ := min_sound t _ rfl h
  exact hne ((hu a ha hap).1.trans (hu b hb hbp).1.symm)

/-- **min_zero_cases (3)**: a listed copy whose entry has seqno 0 – in particular one that is
    still at its initial `(0,0)` because it never reported – forces 0, and 0 is ignored by
    `SetPersistSeqNo`: nothing is released. -/
theorem min_zero_unreported (t : Table) (a : Replica) (ha : a ∈ t) (hap : a.absent = false)
    (hz : a.seq = 0) : getMinSeqNo t = 0 := by
  apply Decidable.byContradiction
  intro h
  obtain ⟨u, hu⟩ := min_sound t _ rfl h
  have := (hu a ha hap).2
  omega

theorem scan_attained (u : Nat) (rs : List Replica) (m : Nat) (h : scan u m rs ≠ 0) :
    scan u m rs = m ∨ ∃ r ∈ rs, r.absent = false ∧ r.seq = scan u m rs := by
  induction rs generalizing m with
  | nil => left; rfl
  | cons r rs ih =>
    unfold scan at h ⊢
    by_cases ha : r.absent = true
    · simp only [ha, if_true] at h ⊢
      rcases ih m h with h1 | ⟨x, hx, hxa, hxs⟩
      · exact Or.inl h1
      · exact Or.inr ⟨x, List.mem_cons_of_mem _ hx, hxa, hxs⟩
    · simp only [ha] at h ⊢
      by_cases hu : u ≠ r.uuid
      · simp [hu] at h
      · simp only [hu, if_false] at h ⊢
        rcases ih _ h with h1 | ⟨x, hx, hxa, hxs⟩
        · by_cases hlt : m > r.seq
          · simp only [hlt, if_true] at h1 ⊢
            exact Or.inr ⟨r, List.mem_cons_self .., by simpa using ha, h1.symm⟩
          · simp only [hlt, if_false] at h1 ⊢
            exact Or.inl h1
        · exact Or.inr ⟨x, List.mem_cons_of_mem _ hx, hxa, hxs⟩

/-- a non-zero result is the persisted seqno of some listed copy (so it is THE minimum) -/
theorem min_attained (t : Table) (h : getMinSeqNo t ≠ 0) :
    ∃ r ∈ t, r.absent = false ∧ r.seq = getMinSeqNo t := by
  induction t with
  | nil => simp [getMinSeqNo] at h
  | cons r rs ih =>
    unfold getMinSeqNo at h ⊢
    by_cases ha : r.absent = true
    · simp only [ha, if_true] at h ⊢
      obtain ⟨x, hx, hxa, hxs⟩ := ih h
      exact ⟨x, List.mem_cons_of_mem _ hx, hxa, hxs⟩
    · simp only [ha] at h ⊢
      rcases scan_attained _ _ _ h with h1 | ⟨x, hx, hxa, hxs⟩
      · exact ⟨r, List.mem_cons_self .., by simpa using ha, h1.symm⟩
      · exact ⟨x, List.mem_cons_of_mem _ hx, hxa, hxs⟩

theorem scan_complete (u : Nat) (rs : List Replica) (m s : Nat) (hs : s ≤ m)
    (h : ∀ r ∈ rs, r.absent = false → r.uuid = u ∧ s ≤ r.seq) : s ≤ scan u m rs := by
  induction rs generalizing m with
  | nil => simpa [scan]
  | cons r rs ih =>
    unfold scan
    by_cases ha : r.absent = true
    · simp only [ha, if_true]
      exact ih m hs fun x hx => h x (List.mem_cons_of_mem _ hx)
    · have hr := h r (List.mem_cons_self ..) (by simpa using ha)
      simp only [ha, hr.1, ne_eq, not_true_eq_false, if_false]
      refine ih _ ?_ fun x hx => h x (List.mem_cons_of_mem _ hx)
      split <;> omega

/-- completeness: when the listed copies agree on the vbUUID and all have persisted `s`,
    the result is at least `s` ("once persistence covers it", decision-function part) -/
theorem min_complete (t : Table) (s : Nat) (hex : ∃ r ∈ t, r.absent = false) (h : Covered t s) :
    s ≤ getMinSeqNo t := by
  obtain ⟨u, hu⟩ := h
  induction t with
  | nil => obtain ⟨r, hr, _⟩ := hex; cases hr
  | cons r rs ih =>
    unfold getMinSeqNo
    by_cases ha : r.absent = true
    · simp only [ha, if_true]
      refine ih ?_ fun x hx => hu x (List.mem_cons_of_mem _ hx)
      obtain ⟨x, hx, hxa⟩ := hex
      rcases List.mem_cons.mp hx with rfl | hx
      · simp [ha] at hxa
      · exact ⟨x, hx, hxa⟩
    · have hr := hu r (List.mem_cons_self ..) (by simpa using ha)
      simp only [ha]
      refine scan_complete _ _ _ _ hr.2 fun x hx hxa => ?_
      have := hu x (List.mem_cons_of_mem _ hx) hxa
      exact ⟨this.1.trans hr.1.symm, this.2⟩

/-- the run-time predicate is the `Prop` -/
theorem coveredB_iff (t : Table) (s : Nat) : coveredB t s = true ↔ Covered t s := by
  unfold coveredB Covered
  constructor
  · intro h
    cases hf : t.filter (fun r => !r.absent) with
    | nil =>
      refine ⟨0, fun r hr hra => ?_⟩
      have : r ∈ t.filter (fun r => !r.absent) := List.mem_filter.mpr ⟨hr, by simp [hra]⟩
      rw [hf] at this; cases this
    | cons r rs =>
      rw [hf] at h
      refine ⟨r.uuid, fun x hx hxa => ?_⟩
      have hm : x ∈ r :: rs := by rw [← hf]; exact List.mem_filter.mpr ⟨hx, by simp [hxa]⟩
      have := List.all_eq_true.mp h x hm
      simpa using this
  · rintro ⟨u, hu⟩
    cases hf : t.filter (fun r => !r.absent) with
    | nil => rfl
    | cons r rs =>
      simp only
      apply List.all_eq_true.mpr
      intro x hx
      have hxm : x ∈ t.filter (fun r => !r.absent) := by rw [hf]; exact hx
      have hrm : r ∈ t.filter (fun r => !r.absent) := by rw [hf]; exact List.mem_cons_self ..
      obtain ⟨hxt, hxa⟩ := List.mem_filter.mp hxm
      obtain ⟨hrt, hra⟩ := List.mem_filter.mp hrm
      have h1 := hu x hxt (by simpa using hxa)
      have h2 := hu r hrt (by simpa using hra)
      simp [h1.1, h2.1, h1.2]

example : getMinSeqNo [⟨5, 10, false⟩, ⟨0, 0, true⟩, ⟨5, 7, false⟩, ⟨5, 9, false⟩] = 7 := by decide
example : getMinSeqNo [⟨0, 0, true⟩, ⟨5, 7, false⟩, ⟨6, 9, false⟩] = 0 := by decide
example : getMinSeqNo [⟨0, 0, true⟩, ⟨0, 0, true⟩] = 0 := by decide
example : getMinSeqNo [⟨5, 7, false⟩, ⟨0, 0, false⟩] = 0 := by decide

/-! ## the table update (`IsOutdated`, dispatch only on change) -/

theorem report_none (t : Table) (i u s : Nat) (t' : Table) (h : report t i u s = (t', none)) : t' = t := by
  unfold report at h
  split at h
  · simp_all
  · split at h <;> simp_all

/-- every dispatched value is `getMinSeqNo` of the table after the update -/
theorem report_dispatch (t : Table) (i u s : Nat) (t' : Table) (m : Nat)
    (h : report t i u s = (t', some m)) : m = getMinSeqNo t' := by
  unfold report at h
  split at h
  · simp_all
  · split at h
    · simp only [Prod.mk.injEq, Option.some.injEq] at h
      obtain ⟨rfl, rfl⟩ := h
      rfl
    · simp_all

/-- an answer identical to the stored entry is "not outdated": no update, no dispatch –
    also for the zero-initialised entry and the answer `(0,0)` -/
theorem report_same (t : Table) (i : Nat) (e : Replica) (h : t[i]? = some e) :
    report t i e.uuid e.seq = (t, none) := by
  simp [report, h, isOutdated]

/-- an absent entry is never updated (and never polled by `startObserve`) -/
theorem report_absent (t : Table) (i u s : Nat) (e : Replica) (h : t[i]? = some e)
    (ha : e.absent = true) : report t i u s = (t, none) := by
  simp [report, h, isOutdated, ha]

/-- a changed answer of a listed copy is stored and `getMinSeqNo` is dispatched -/
theorem report_changed (t : Table) (i u s : Nat) (e : Replica) (h : t[i]? = some e)
    (ha : e.absent = false) (hc : e.uuid ≠ u ∨ e.seq ≠ s) :
    report t i u s = (t.set i { e with uuid := u, seq := s },
      some (getMinSeqNo (t.set i { e with uuid := u, seq := s }))) := by
  have : isOutdated e u s = true := by
    rcases hc with hc | hc <;> simp [isOutdated, ha, hc]
  simp [report, h, this]

/-! ## the observer gate (`Model/Observer.lean`, rollback mitigation enabled) -/

theorem gateOpen_iff (o : Obs) (s : Nat) :
    Obs.gateOpen gcfg o s = true ↔ s ≤ o.persist ∨ o.closed = true := by
  simp [Obs.gateOpen, gcfg]

/-- the gate holds event `e` in observer state `o` -/
def blk (o : Obs) (e : SrvEv) : Bool :=
  match gateSeq e with
  | some s => !Obs.gateOpen gcfg o s
  | none => false

theorem blk_iff (o : Obs) (e : SrvEv) :
    blk o e = true ↔ ∃ s, gateSeq e = some s ∧ o.persist < s ∧ o.closed = false := by
  unfold blk
  cases h : gateSeq e with
  | none => simp
  | some s => simp [Obs.gateOpen, gcfg]

theorem step_blocked_iff (o : Obs) (e : SrvEv) : (Obs.step gcfg o e).2 = .blocked ↔ blk o e = true := by
  cases e <;> simp only [Obs.step, blk, gateSeq, Obs.send] <;> (repeat' split) <;> simp_all

theorem step_blocked_state (o : Obs) (e : SrvEv) (h : (Obs.step gcfg o e).2 = .blocked) :
    (Obs.step gcfg o e).1 = o := by
  cases e <;> simp only [Obs.step, Obs.send] at h ⊢ <;> (repeat' split at h) <;> simp_all

theorem needCatchup_keeps (o : Obs) (q : Nat) :
    (Obs.needCatchup o q).2.persist = o.persist ∧ (Obs.needCatchup o q).2.closed = o.closed := by
  unfold Obs.needCatchup
  split
  · simp
  · split <;> simp

/-- no observer callback touches the threshold or the `closed` switch -/
theorem step_keeps (o : Obs) (e : SrvEv) :
    (Obs.step gcfg o e).1.persist = o.persist ∧ (Obs.step gcfg o e).1.closed = o.closed := by
  cases e with
  | marker s e => simp only [Obs.step]; split <;> simp
  | doc d =>
    have := needCatchup_keeps o d.seq
    simp only [Obs.step]
    repeat' split
    all_goals simp_all [Obs.count]
    all_goals (split <;> simp_all)
  | seqAdv q => simp only [Obs.step]; split <;> simp
  | sys k q c =>
    have := needCatchup_keeps o q
    simp only [Obs.step]
    repeat' split
    all_goals simp_all
  | oso => simp [Obs.step]

/-- an event reaches the listener only with the stream open and its gate seqno
    (marker: START seqno) at or below the threshold -/
theorem step_fwd (o : Obs) (e : SrvEv) (x : LEvent) (h : (Obs.step gcfg o e).2 = .fwd x) :
    o.closed = false ∧ ∀ s, gateSeq e = some s → s ≤ o.persist := by
  have hk := needCatchup_keeps o
  cases e <;> simp only [Obs.step, Obs.send, gateSeq] at h ⊢ <;> (repeat' split at h) <;>
    simp_all [Obs.gateOpen, gcfg]

/-- **threshold_monotone** (one call): `SetPersistSeqNo` never lowers the threshold … -/
theorem threshold_monotone (o : Obs) (p : Nat) : o.persist ≤ (o.setPersist p).persist := by
  unfold Obs.setPersist
  split
  · rename_i h; exact Nat.le_of_lt h.2
  · exact Nat.le_refl _

/-- … ignores zero … -/
theorem setPersist_zero (o : Obs) : o.setPersist 0 = o := by simp [Obs.setPersist]

/-- … and the new threshold is the maximum of the old one and the argument -/
theorem setPersist_max (o : Obs) (p : Nat) : (o.setPersist p).persist = max o.persist p := by
  unfold Obs.setPersist
  split
  · rename_i h; show p = max o.persist p; omega
  · rename_i h; omega

theorem setPersist_closed (o : Obs) (p : Nat) : (o.setPersist p).closed = o.closed := by
  unfold Obs.setPersist; split <;> rfl

/-- **no_lost_wakeup** (enabledness): a covered seqno passes `checkPersistSeqNo`; the wait
    is a poll loop, so an enabled check is all a waiting call needs -/
theorem no_lost_wakeup (o : Obs) (s : Nat) (h : s ≤ o.persist) : Obs.gateOpen gcfg o s = true :=
  (gateOpen_iff o s).mpr (Or.inl h)

/-- … and conversely a call is held exactly while the stream is open and the threshold is below its seqno -/
theorem blocked_iff (o : Obs) (e : SrvEv) :
    (Obs.step gcfg o e).2 = .blocked ↔ ∃ s, gateSeq e = some s ∧ o.persist < s ∧ o.closed = false :=
  (step_blocked_iff o e).trans (blk_iff o e)

/-- the marker is gated by its START seqno: covered start ⇒ delivered, whatever its end -/
theorem marker_gate_is_start (o : Obs) (s e : Nat) (h : s ≤ o.persist) (hc : o.closed = false) :
    (Obs.step gcfg o (.marker s e)).2 = .fwd .marker := by
  simp [Obs.step, Obs.gateOpen, gcfg, h, Obs.send, hc]

/-- **close_releases_without_delivery** (observer level): once closed, every gate check
    succeeds and nothing is handed to the listener -/
theorem close_releases_without_delivery (o : Obs) (hc : o.closed = true) :
    (∀ s, Obs.gateOpen gcfg o s = true) ∧
    ∀ e, (Obs.step gcfg o e).2 ≠ .blocked ∧ ∀ x, (Obs.step gcfg o e).2 ≠ .fwd x := by
  refine ⟨fun s => (gateOpen_iff o s).mpr (Or.inr hc), fun e => ⟨?_, fun x hx => ?_⟩⟩
  · intro hb
    obtain ⟨s, _, _, h⟩ := (blocked_iff o e).mp hb
    simp [hc] at h
  · have := (step_fwd o e x hx).1
    simp [hc] at this

theorem close_closed (o : Obs) : o.close.closed = true := rfl

/-! ## the gate with waiting calls -/

theorem blk_congr (o1 o2 : Obs) (e : SrvEv) (hp : o1.persist = o2.persist) (hc : o1.closed = o2.closed) :
    blk o1 e = blk o2 e := by
  unfold blk; cases gateSeq e <;> simp [Obs.gateOpen, hp, hc]

/-- what the calls that left the wait loop did -/
def Finished (o : Obs) (p : Nat × SrvEv × ObsOut) : Prop :=
  p.2.2 ≠ .blocked ∧ ∀ x, p.2.2 = .fwd x → o.closed = false ∧ ∀ s, gateSeq p.2.1 = some s → s ≤ o.persist

theorem drain_spec (o : Obs) (ws : List (Nat × SrvEv)) :
    (Gate.drain o ws).1.persist = o.persist ∧ (Gate.drain o ws).1.closed = o.closed ∧
    (Gate.drain o ws).2.1 = ws.filter (fun p => blk o p.2) ∧
    (Gate.drain o ws).2.2.map (fun p => (p.1, p.2.1)) = ws.filter (fun p => !blk o p.2) ∧
    ∀ p ∈ (Gate.drain o ws).2.2, Finished o p := by
  induction ws generalizing o with
  | nil => simp [Gate.drain]
  | cons w rest ih =>
    obtain ⟨i, e⟩ := w
    have hb := step_blocked_iff o e
    have hk := step_keeps o e
    have hf := step_fwd o e
    cases hst : Obs.step gcfg o e with
    | mk o1 out =>
      rw [hst] at hb hk hf
      simp only at hb hk hf
      by_cases hout : out = .blocked
      · subst hout
        have hbt : blk o e = true := hb.mp rfl
        obtain ⟨h1, h2, h3, h4, h5⟩ := ih o
        simp only [Gate.drain, hst]
        simp [h1, h2, h3, h4, hbt]
        exact fun a b c hm => h5 (a, b, c) hm
      · have hbf : blk o e = false := by
          cases hh : blk o e with
          | false => rfl
          | true => exact absurd (hb.mpr hh) hout
        obtain ⟨h1, h2, h3, h4, h5⟩ := ih o1
        have hcg : ∀ x, blk o1 x = blk o x := fun x => blk_congr o1 o x hk.1 hk.2
        have : Gate.drain o ((i, e) :: rest) =
            ((Gate.drain o1 rest).1, (Gate.drain o1 rest).2.1, (i, e, out) :: (Gate.drain o1 rest).2.2) := by
          cases out <;> simp_all [Gate.drain]
        rw [this]
        simp only [h1, h2, h3, h4, hk.1, hk.2, hcg, List.map_cons, List.filter_cons, hbf]
        refine ⟨trivial, trivial, by simp, by simp, ?_⟩
        intro p hp
        rcases List.mem_cons.mp hp with rfl | hp
        · exact ⟨hout, fun x hx => hf x hx⟩
        · have := h5 p hp
          unfold Finished at this ⊢
          rw [hk.1, hk.2] at this
          exact this

theorem arrive_spec (g : Gate) (e : SrvEv) :
    (blk g.obs e = true ∧
      g.arrive e = { g with waiting := g.waiting ++ [(g.next, e)], next := g.next + 1 }) ∨
    (blk g.obs e = false ∧
      g.arrive e = { g with obs := (Obs.step gcfg g.obs e).1,
                            log := g.log ++ [(g.next, e, (Obs.step gcfg g.obs e).2)], next := g.next + 1 }) := by
  have hb := step_blocked_iff g.obs e
  cases hst : Obs.step gcfg g.obs e with
  | mk o1 out =>
    rw [hst] at hb
    cases hbl : blk g.obs e with
    | true =>
      left
      have : out = .blocked := hb.mpr hbl
      subst this
      simp [Gate.arrive, hst]
    | false =>
      right
      have hne : out ≠ .blocked := fun h => by simp [hb.mp h] at hbl
      cases out <;> simp_all [Gate.arrive]

theorem poll_spec (g : Gate) (id : Nat) :
    (g.waiting.lookup id = none ∧ g.poll id = g) ∨
    ∃ e, g.waiting.lookup id = some e ∧
      ((blk g.obs e = true ∧ g.poll id = g) ∨
       (blk g.obs e = false ∧
        g.poll id = { g with obs := (Obs.step gcfg g.obs e).1,
                             waiting := g.waiting.filter (·.1 != id),
                             log := g.log ++ [(id, e, (Obs.step gcfg g.obs e).2)] })) := by
  cases hl : g.waiting.lookup id with
  | none => left; simp [Gate.poll, hl]
  | some e =>
    right
    refine ⟨e, rfl, ?_⟩
    have hb := step_blocked_iff g.obs e
    cases hst : Obs.step gcfg g.obs e with
    | mk o1 out =>
      rw [hst] at hb
      cases hbl : blk g.obs e with
      | true =>
        left
        have : out = .blocked := hb.mpr hbl
        subst this
        simp [Gate.poll, hl, hst]
      | false =>
        right
        have hne : out ≠ .blocked := fun h => by simp [hb.mp h] at hbl
        cases out <;> simp_all [Gate.poll]

/-- **no_lost_wakeup** (gate level): a waiting call whose seqno is covered (or whose stream
    was closed) leaves the wait loop at its next poll and runs to completion -/
theorem poll_enabled (g : Gate) (id : Nat) (e : SrvEv) (hw : g.waiting.lookup id = some e)
    (h : ∀ s, gateSeq e = some s → s ≤ g.obs.persist ∨ g.obs.closed = true) :
    (g.poll id).waiting = g.waiting.filter (·.1 != id) ∧
    (g.poll id).log = g.log ++ [(id, e, (Obs.step gcfg g.obs e).2)] ∧
    (Obs.step gcfg g.obs e).2 ≠ .blocked := by
  have hbf : blk g.obs e = false := by
    cases hh : blk g.obs e with
    | false => rfl
    | true =>
      obtain ⟨s, hs, hlt, hc⟩ := (blk_iff g.obs e).mp hh
      rcases h s hs with h1 | h1
      · omega
      · simp [hc] at h1
  rcases poll_spec g id with ⟨hn, _⟩ | ⟨e', he', hcase⟩
  · simp [hw] at hn
  · rw [hw] at he'
    cases he'
    rcases hcase with ⟨hb, _⟩ | ⟨_, hp⟩
    · simp [hbf] at hb
    · rw [hp]
      refine ⟨rfl, rfl, fun hbk => ?_⟩
      simp [(step_blocked_iff g.obs e).mp hbk] at hbf

/-- … and a call whose seqno is not covered keeps waiting (state unchanged) while the stream is open -/
theorem poll_blocked (g : Gate) (id : Nat) (e : SrvEv) (s : Nat) (hw : g.waiting.lookup id = some e)
    (hs : gateSeq e = some s) (hlt : g.obs.persist < s) (hc : g.obs.closed = false) : g.poll id = g := by
  have hbt : blk g.obs e = true := (blk_iff g.obs e).mpr ⟨s, hs, hlt, hc⟩
  rcases poll_spec g id with ⟨_, h⟩ | ⟨e', he', hcase⟩
  · exact h
  · rw [hw] at he'
    cases he'
    rcases hcase with ⟨_, h⟩ | ⟨hb, _⟩
    · exact h
    · simp [hbt] at hb

/-- `Close` at gate level: every waiting call returns, none of them reaches the listener -/
theorem close_pollAll (g : Gate) :
    g.close.pollAll.waiting = [] ∧ g.close.pollAll.delivered = g.delivered := by
  have hc : g.close.obs.closed = true := rfl
  obtain ⟨_, _, h3, _, h5⟩ := drain_spec g.close.obs g.close.waiting
  have hblk : ∀ e, blk g.close.obs e = false := by
    intro e
    cases hh : blk g.close.obs e with
    | false => rfl
    | true =>
      obtain ⟨s, _, _, h⟩ := (blk_iff _ e).mp hh
      simp [hc] at h
  constructor
  · show (Gate.drain g.close.obs g.close.waiting).2.1 = []
    rw [h3]; simp [hblk]
  · show List.filterMap Gate.fwdOnly (g.close.log ++ (Gate.drain g.close.obs g.close.waiting).2.2) = _
    rw [List.filterMap_append]
    have : List.filterMap Gate.fwdOnly (Gate.drain g.close.obs g.close.waiting).2.2 = [] := by
      apply List.filterMap_eq_nil_iff.mpr
      rintro ⟨i, e, o⟩ hp
      have := (h5 _ hp).2
      cases o <;> simp_all [Gate.fwdOnly]
    rw [this]
    simp [Gate.delivered, Gate.close]

/-! ## the history invariant (table + gate, every interleaving) -/

theorem foldl_max_cases (l : List Nat) (a : Nat) : l.foldl max a = a ∨ l.foldl max a ∈ l := by
  induction l generalizing a with
  | nil => left; rfl
  | cons x xs ih =>
    simp only [List.foldl_cons]
    rcases ih (max a x) with h | h
    · rw [h]
      rcases Nat.le_total a x with hax | hax
      · right; rw [Nat.max_eq_right hax]; exact List.mem_cons_self ..
      · left; exact Nat.max_eq_left hax
    · right; exact List.mem_cons_of_mem _ h

theorem arrive_obs (g : Gate) (e : SrvEv) :
    (g.arrive e).obs.persist = g.obs.persist ∧ (g.arrive e).obs.closed = g.obs.closed := by
  rcases arrive_spec g e with ⟨_, h⟩ | ⟨_, h⟩ <;> rw [h]
  · exact ⟨rfl, rfl⟩
  · exact step_keeps g.obs e

theorem poll_obs (g : Gate) (id : Nat) :
    (g.poll id).obs.persist = g.obs.persist ∧ (g.poll id).obs.closed = g.obs.closed := by
  rcases poll_spec g id with ⟨_, h⟩ | ⟨e, _, ⟨_, h⟩ | ⟨_, h⟩⟩ <;> rw [h]
  · exact ⟨rfl, rfl⟩
  · exact ⟨rfl, rfl⟩
  · exact step_keeps g.obs e

/-- every finished call in the log that reached the listener had its gate seqno covered -/
def LogOK (g : Gate) : Prop :=
  ∀ p ∈ g.log, ∀ x, p.2.2 = .fwd x → ∀ s, gateSeq p.2.1 = some s → s ≤ g.obs.persist

theorem arrive_logOK (g : Gate) (e : SrvEv) (h : LogOK g) : LogOK (g.arrive e) := by
  intro p hp x hx s hs
  rw [(arrive_obs g e).1]
  rcases arrive_spec g e with ⟨_, heq⟩ | ⟨_, heq⟩ <;> rw [heq] at hp
  · exact h p hp x hx s hs
  · rcases List.mem_append.mp hp with hp | hp
    · exact h p hp x hx s hs
    · simp only [List.mem_singleton] at hp
      subst hp
      exact (step_fwd g.obs e x hx).2 s hs

theorem poll_logOK (g : Gate) (id : Nat) (h : LogOK g) : LogOK (g.poll id) := by
  intro p hp x hx s hs
  rw [(poll_obs g id).1]
  rcases poll_spec g id with ⟨_, heq⟩ | ⟨e, _, ⟨_, heq⟩ | ⟨_, heq⟩⟩ <;> rw [heq] at hp
  · exact h p hp x hx s hs
  · exact h p hp x hx s hs
  · rcases List.mem_append.mp hp with hp | hp
    · exact h p hp x hx s hs
    · simp only [List.mem_singleton] at hp
      subst hp
      exact (step_fwd g.obs e x hx).2 s hs

structure Inv (σ : Sys) : Prop where
  /-- the threshold is the maximum of everything dispatched so far -/
  thr : σ.gate.obs.persist = σ.disp.foldl max 0
  /-- every non-zero dispatched value was covered by the table at some earlier step -/
  cov : ∀ m ∈ σ.disp, m ≠ 0 → ∃ t ∈ σ.hist, Covered t m
  del : LogOK σ.gate

theorem step_hist (σ : Sys) (a : Act) : (σ.step a).hist = σ.hist ++ [(σ.step a).table] := by
  cases a with
  | report i u s =>
    simp only [Sys.step]
    cases hr : report σ.table i u s with
    | mk t' d =>
      cases d with
      | none => rfl
      | some m => by_cases ha : σ.attached = true <;> simp [ha]
  | attach => rfl
  | arrive e => rfl
  | poll id => rfl
  | close => rfl

theorem step_persist_le (σ : Sys) (a : Act) : σ.gate.obs.persist ≤ (σ.step a).gate.obs.persist := by
  cases a with
  | report i u s =>
    simp only [Sys.step]
    cases hr : report σ.table i u s with
    | mk t' d =>
      cases d with
      | none => exact Nat.le_refl _
      | some m =>
        by_cases ha : σ.attached = true <;> simp only [ha, if_true]
        · exact threshold_monotone _ _
        · exact Nat.le_refl _
  | attach => exact Nat.le_refl _
  | arrive e => exact Nat.le_of_eq (arrive_obs _ e).1.symm
  | poll id => exact Nat.le_of_eq (poll_obs _ id).1.symm
  | close => exact Nat.le_refl _

theorem step_inv (σ : Sys) (a : Act) (h : Inv σ) : Inv (σ.step a) := by
  cases a with
  | report i u s =>
    simp only [Sys.step]
    cases hr : report σ.table i u s with
    | mk t' d =>
      cases d with
      | none =>
        exact ⟨h.thr, fun m hm hm0 => by
          obtain ⟨t, ht, hc⟩ := h.cov m hm hm0
          exact ⟨t, List.mem_append_left _ ht, hc⟩, h.del⟩
      | some m =>
        by_cases ha : σ.attached = true
        · simp only [ha, if_true]
          refine ⟨?_, ?_, ?_⟩
          · show (σ.gate.obs.setPersist m).persist = _
            rw [setPersist_max, h.thr, List.foldl_append]; rfl
          · intro k hk hk0
            rcases List.mem_append.mp hk with hk | hk
            · obtain ⟨t, ht, hc⟩ := h.cov k hk hk0
              exact ⟨t, List.mem_append_left _ ht, hc⟩
            · simp only [List.mem_singleton] at hk
              subst hk
              have := report_dispatch _ _ _ _ _ _ hr
              subst this
              exact ⟨t', List.mem_append_right _ (List.mem_singleton.mpr rfl), min_covered t' hk0⟩
          · intro p hp x hx q hq
            exact Nat.le_trans (h.del p hp x hx q hq) (threshold_monotone _ _)
        · simp only [ha]
          exact ⟨h.thr, fun m hm hm0 => by
            obtain ⟨t, ht, hc⟩ := h.cov m hm hm0
            exact ⟨t, List.mem_append_left _ ht, hc⟩, h.del⟩
  | attach =>
    exact ⟨h.thr, fun m hm hm0 => by
      obtain ⟨t, ht, hc⟩ := h.cov m hm hm0
      exact ⟨t, List.mem_append_left _ ht, hc⟩, h.del⟩
  | arrive e =>
    refine ⟨?_, fun m hm hm0 => ?_, arrive_logOK _ e h.del⟩
    · show (σ.gate.arrive e).obs.persist = _
      rw [(arrive_obs _ e).1]; exact h.thr
    · obtain ⟨t, ht, hc⟩ := h.cov m hm hm0
      exact ⟨t, List.mem_append_left _ ht, hc⟩
  | poll id =>
    refine ⟨?_, fun m hm hm0 => ?_, poll_logOK _ id h.del⟩
    · show (σ.gate.poll id).obs.persist = _
      rw [(poll_obs _ id).1]; exact h.thr
    · obtain ⟨t, ht, hc⟩ := h.cov m hm hm0
      exact ⟨t, List.mem_append_left _ ht, hc⟩
  | close =>
    exact ⟨h.thr, fun m hm hm0 => by
      obtain ⟨t, ht, hc⟩ := h.cov m hm hm0
      exact ⟨t, List.mem_append_left _ ht, hc⟩, h.del⟩

theorem run_inv (σ : Sys) (acts : List Act) (h : Inv σ) : Inv (σ.run acts) := by
  induction acts generalizing σ with
  | nil => exact h
  | cons a as ih => exact ih _ (step_inv σ a h)

theorem init_inv (n : Nat) (ab : List Nat) (att : Bool) : Inv (Sys.init n ab att) :=
  ⟨rfl, fun m hm => by simp [Sys.init] at hm, fun p hp => by simp [Sys.init] at hp⟩

theorem run_cons (σ : Sys) (a : Act) (as : List Act) : σ.run (a :: as) = (σ.step a).run as := rfl

/-- the ghost field `hist` is exactly the sequence of table values of the earlier states -/
theorem hist_mem (σ : Sys) (acts : List Act) (t : Table) (h : t ∈ (σ.run acts).hist) :
    t ∈ σ.hist ∨ ∃ j, 0 < j ∧ j ≤ acts.length ∧ (σ.run (acts.take j)).table = t := by
  induction acts generalizing σ with
  | nil => left; exact h
  | cons a as ih =>
    rw [run_cons] at h
    rcases ih (σ.step a) h with h1 | ⟨j, hj0, hj, hjt⟩
    · rw [step_hist] at h1
      rcases List.mem_append.mp h1 with h1 | h1
      · left; exact h1
      · right
        refine ⟨1, Nat.one_pos, by simp, ?_⟩
        simp only [List.mem_singleton] at h1
        simpa [Sys.run] using h1.symm
    · right
      exact ⟨j + 1, Nat.succ_pos _, by simp; omega, by simpa [List.take_succ_cons, run_cons] using hjt⟩

theorem Covered.mono {t : Table} {a b : Nat} (h : Covered t b) (hab : a ≤ b) : Covered t a := by
  obtain ⟨u, hu⟩ := h
  exact ⟨u, fun r hr hra => ⟨(hu r hr hra).1, Nat.le_trans hab (hu r hr hra).2⟩⟩

/-- **threshold_is_max_dispatched**: at every reachable state the observer's threshold is the
    maximum of the values dispatched to it so far (0 if none; zeros never count) -/
theorem threshold_is_max_dispatched (n : Nat) (ab : List Nat) (att : Bool) (acts : List Act) :
    ((Sys.init n ab att).run acts).gate.obs.persist = ((Sys.init n ab att).run acts).disp.foldl max 0 :=
  (run_inv _ acts (init_inv n ab att)).thr

/-- **threshold_monotone** (whole runs): no interleaving of reports, arrivals, polls and
    close ever lowers the threshold -/
theorem threshold_monotone_run (σ : Sys) (acts : List Act) :
    σ.gate.obs.persist ≤ (σ.run acts).gate.obs.persist := by
  induction acts generalizing σ with
  | nil => exact Nat.le_refl _
  | cons a as ih => exact Nat.le_trans (step_persist_le σ a) (ih _)

/-- **deliver_implies_reported**: in every interleaving of reports, arrivals, polls, attach and
    close, if an event with gate seqno `s ≥ 1` has reached the listener after `acts`, then after
    some prefix of `acts` the table had one common vbUUID among all listed copies and every
    listed copy had persisted at least `s`.  (Seqno 0 is no document: the threshold starts at 0.) -/
theorem deliver_implies_reported (n : Nat) (ab : List Nat) (att : Bool) (acts : List Act)
    (i : Nat) (e : SrvEv) (x : LEvent) (s : Nat)
    (hd : (i, e, ObsOut.fwd x) ∈ ((Sys.init n ab att).run acts).gate.log)
    (hs : gateSeq e = some s) (hs0 : s ≠ 0) :
    ∃ j, j ≤ acts.length ∧ Covered ((Sys.init n ab att).run (acts.take j)).table s := by
  have inv := run_inv _ acts (init_inv n ab att)
  have hle : s ≤ _ := inv.del _ hd x rfl s hs
  rw [inv.thr] at hle
  rcases foldl_max_cases ((Sys.init n ab att).run acts).disp 0 with h0 | hm
  · omega
  · have hne : ((Sys.init n ab att).run acts).disp.foldl max 0 ≠ 0 := by omega
    obtain ⟨t, ht, hc⟩ := inv.cov _ hm hne
    rcases hist_mem _ acts t ht with h1 | ⟨j, _, hj, hjt⟩
    · refine ⟨0, Nat.zero_le _, ?_⟩
      simp only [Sys.init, List.mem_singleton] at h1
      subst h1
      exact hc.mono hle
    · exact ⟨j, hj, hjt ▸ hc.mono hle⟩

/-- the same with the delivery step explicit: delivered within the first `k` steps ⇒ covered
    at some step `j ≤ k` -/
theorem deliver_implies_reported_at (n : Nat) (ab : List Nat) (att : Bool) (acts : List Act) (k : Nat)
    (i : Nat) (e : SrvEv) (x : LEvent) (s : Nat)
    (hd : (i, e, ObsOut.fwd x) ∈ ((Sys.init n ab att).run (acts.take k)).gate.log)
    (hs : gateSeq e = some s) (hs0 : s ≠ 0) :
    ∃ j, j ≤ k ∧ Covered ((Sys.init n ab att).run (acts.take j)).table s := by
  obtain ⟨j, hj, hc⟩ := deliver_implies_reported n ab att (acts.take k) i e x s hd hs hs0
  have hjk : j ≤ k := Nat.le_trans hj (by rw [List.length_take]; exact Nat.min_le_left _ _)
  refine ⟨j, hjk, ?_⟩
  rw [List.take_take, Nat.min_eq_left hjk] at hc
  exact hc

/-- **disagree_or_missing_blocks**: while two listed copies disagree on the vbUUID, or a listed
    copy has not reported a non-zero seqno yet, a report dispatches 0 (or nothing) and the
    threshold does not move -/
theorem disagree_or_missing_blocks (σ : Sys) (i u s : Nat)
    (h : (∃ a ∈ (report σ.table i u s).1, ∃ b ∈ (report σ.table i u s).1,
            a.absent = false ∧ b.absent = false ∧ a.uuid ≠ b.uuid) ∨
         (∃ a ∈ (report σ.table i u s).1, a.absent = false ∧ a.seq = 0)) :
    ((report σ.table i u s).2 = none ∨ (report σ.table i u s).2 = some 0) ∧
    (σ.step (.report i u s)).gate.obs.persist = σ.gate.obs.persist := by
  cases hr : report σ.table i u s with
  | mk t' d =>
    rw [hr] at h
    cases d with
    | none => exact ⟨Or.inl rfl, by simp [Sys.step, hr]⟩
    | some m =>
      have hm := report_dispatch _ _ _ _ _ _ hr
      have h0 : m = 0 := by
        rw [hm]
        rcases h with ⟨a, ha, b, hb, hap, hbp, hne⟩ | ⟨a, ha, hap, hz⟩
        · exact min_zero_uuid_disagree t' a b ha hb hap hbp hne
        · exact min_zero_unreported t' a ha hap hz
      subst h0
      refine ⟨Or.inr rfl, ?_⟩
      simp only [Sys.step, hr]
      split
      · show (σ.gate.obs.setPersist 0).persist = _
        rw [setPersist_zero]
      · rfl

/-! ## F10 (observation, outside the statement of C07) -/

/-- **early_report_lost**: the only listed copy reports `(u,q)` before `stream.Open` has stored
    the observers (the dispatch is dropped by `dispatchPersistSeqNo`); after `attach` the same
    answer arrives `k` more times (a quiet bucket): it is "not outdated", nothing is dispatched,
    the threshold stays 0 and an event with seqno `s ≤ q` waits although the table covers it. -/
theorem early_report_lost (u q s k : Nat) (hs : 0 < s) (hq : s ≤ q) :
    let σ := (Sys.init 0 [] false).run
      ([.report 0 u q, .attach] ++ List.replicate k (.report 0 u q) ++ [.arrive (.seqAdv s)])
    Covered σ.table s ∧ σ.disp = [] ∧ σ.gate.obs.persist = 0 ∧
    σ.gate.waiting = [(0, .seqAdv s)] ∧ σ.gate.log = [] := by
  have hq0 : q ≠ 0 := by omega
  have h1 : report [({} : Replica)] 0 u q = ([⟨u, q, false⟩], some q) := by
    have : (0 = u → ¬ 0 = q) := fun _ h => hq0 h.symm
    simp [report, isOutdated, getMinSeqNo, scan]
    exact this
  have h2 : report [(⟨u, q, false⟩ : Replica)] 0 u q = ([⟨u, q, false⟩], none) :=
    report_same [(⟨u, q, false⟩ : Replica)] 0 ⟨u, q, false⟩ rfl
  -- the state after the early report and `attach`, and after any number of identical reports
  have hrep : ∀ (k : Nat) (σ : Sys), σ.table = [⟨u, q, false⟩] → σ.disp = [] → σ.gate.obs.persist = 0 →
      σ.gate.waiting = [] → σ.gate.log = [] → σ.gate.obs.closed = false → σ.gate.next = 0 →
      let σ' := σ.run (List.replicate k (.report 0 u q))
      σ'.table = [⟨u, q, false⟩] ∧ σ'.disp = [] ∧ σ'.gate.obs.persist = 0 ∧ σ'.gate.waiting = [] ∧
      σ'.gate.log = [] ∧ σ'.gate.obs.closed = false ∧ σ'.gate.next = 0 := by
    intro k
    induction k with
    | zero => intro σ a b c d e f g; exact ⟨a, b, c, d, e, f, g⟩
    | succ k ih =>
      intro σ a b c d e f g
      rw [List.replicate_succ, run_cons]
      apply ih <;> simp [Sys.step, a, h2, b, c, d, e, f, g]
  intro σ
  have hσ : σ = (((Sys.init 0 [] false).run [.report 0 u q, .attach]).run
      (List.replicate k (.report 0 u q))).run [.arrive (.seqAdv s)] := by
    simp [σ, Sys.run, List.foldl_append]
  have h0 := hrep k ((Sys.init 0 [] false).run [.report 0 u q, .attach])
    (by simp [Sys.run, Sys.step, Sys.init, resetTable, markAbsent, h1])
    (by simp [Sys.run, Sys.step, Sys.init, resetTable, markAbsent, h1])
    (by simp [Sys.run, Sys.step, Sys.init, resetTable, markAbsent, h1])
    (by simp [Sys.run, Sys.step, Sys.init, resetTable, markAbsent, h1])
    (by simp [Sys.run, Sys.step, Sys.init, resetTable, markAbsent, h1])
    (by simp [Sys.run, Sys.step, Sys.init, resetTable, markAbsent, h1])
    (by simp [Sys.run, Sys.step, Sys.init, resetTable, markAbsent, h1])
  obtain ⟨a, b, c, d, e, f, g⟩ := h0
  rw [hσ]
  generalize (((Sys.init 0 [] false).run [.report 0 u q, .attach]).run (List.replicate k (.report 0 u q))) = τ at *
  have hblk : blk τ.gate.obs (.seqAdv s) = true :=
    (blk_iff _ _).mpr ⟨s, rfl, by omega, f⟩
  have harr : τ.gate.arrive (.seqAdv s) = { τ.gate with waiting := τ.gate.waiting ++ [(τ.gate.next, .seqAdv s)], next := τ.gate.next + 1 } := by
    rcases arrive_spec τ.gate (.seqAdv s) with ⟨_, h⟩ | ⟨h, _⟩
    · exact h
    · simp [hblk] at h
  refine ⟨?_, ?_, ?_, ?_, ?_⟩
  · simp only [Sys.run, List.foldl, Sys.step, a]
    exact ⟨u, fun r hr _ => by simp at hr; subst hr; exact ⟨rfl, hq⟩⟩
  · simpa [Sys.run, Sys.step] using b
  · simp [Sys.run, Sys.step, harr, c]
  · simp [Sys.run, Sys.step, harr, d, g]
  · simp [Sys.run, Sys.step, harr, e]

/-- the contrast: with the observers in place before the first report the same event is delivered -/
example : ((Sys.init 0 [] true).run [.report 0 5 9, .arrive (.seqAdv 3)]).gate.delivered = [(0, .seqAdv 3)] := by
  decide

/-- non-vacuity of `deliver_implies_reported`: a three-copy row (index 1 not listed), reports in
    any order, an event that waits and is released by the last report -/
example :
    let σ := (Sys.init 2 [1] true).run
      [.arrive (.marker 0 9), .report 0 7 5, .arrive (.seqAdv 4), .report 2 7 4, .poll 1, .report 2 8 6]
    σ.gate.delivered = [(0, .marker 0 9), (1, .seqAdv 4)] ∧ σ.disp = [0, 4, 0] ∧ σ.gate.obs.persist = 4 := by
  decide

/-! ## the monitors accept the model's own output -/

theorem callback_dispatch (r : Rm) (g i : Nat) (ans : ObsErr ⊕ (Nat × Nat)) (r' : Rm) (m : Nat)
    (h : r.callback g i ans = (r', .dispatch m)) : m = getMinSeqNo r'.table := by
  unfold Rm.callback at h
  split at h
  · simp at h
  · split at h
    all_goals try (simp at h; done)
    rename_i u s
    cases hr : report r.table i u s with
    | mk t' d =>
      rw [hr] at h
      cases d with
      | none => simp at h
      | some k =>
        simp only [Prod.mk.injEq, CbOut.dispatch.injEq] at h
        obtain ⟨rfl, rfl⟩ := h
        exact report_dispatch _ _ _ _ _ _ hr

/-- a dispatch event carries `getMinSeqNo` of the table it was computed from -/
def GoodEv (p : Table × Nat) : Prop := p.2 = getMinSeqNo p.1

theorem reports_good (order : List Nat) (acc : RmSim × List (Table × Nat)) (h : ∀ p ∈ acc.2, GoodEv p) :
    ∀ p ∈ (order.foldl (fun (acc : RmSim × List (Table × Nat)) i =>
      let (u, q) := acc.1.truth.getD i (0, 0)
      match acc.1.rm.callback acc.1.rm.gid i (.inr (u, q)) with
      | (rm', .dispatch m) => ({ acc.1 with rm := rm' }, acc.2 ++ [(rm'.table, m)])
      | (rm', _) => ({ acc.1 with rm := rm' }, acc.2)) acc).2, GoodEv p := by
  induction order generalizing acc with
  | nil => exact h
  | cons i rest ih =>
    simp only [List.foldl_cons]
    apply ih
    cases hc : acc.1.rm.callback acc.1.rm.gid i (.inr ((acc.1.truth.getD i (0, 0)).1, (acc.1.truth.getD i (0, 0)).2)) with
    | mk rm' out =>
      cases out with
      | dispatch m =>
        simp only
        intro p hp
        rcases List.mem_append.mp hp with hp | hp
        · exact h p hp
        · simp only [List.mem_singleton] at hp
          subst hp
          exact callback_dispatch _ _ _ _ _ _ hc
      | ignored => simpa only [hc] using h
      | failstop => simpa only [hc] using h

theorem reports_single_length (s : RmSim) (i : Nat) : (s.reports [i]).2.length ≤ 1 := by
  unfold RmSim.reports
  simp only [List.foldl_cons, List.foldl_nil]
  cases hc : s.rm.callback s.rm.gid i (.inr ((s.truth.getD i (0, 0)).1, (s.truth.getD i (0, 0)).2)) with
  | mk rm' out => cases out <;> simp

theorem publish_good (s : RmSim) (p : Nat × Nat) (ab order : List Nat) (acc : Bool) :
    ∀ q ∈ (s.publish p ab order acc).2, GoodEv q := by
  unfold RmSim.publish
  split
  · simp
  · split
    · exact reports_good order _ (by simp)
    · simp

theorem step_good (s : RmSim) (a : RmStep) : ∀ p ∈ (s.step a).2, GoodEv p := by
  cases a with
  | start order =>
    simp only [RmSim.step]
    split <;> exact publish_good _ _ _ _ _
  | remap ab order => exact publish_good _ _ _ _ _
  | config e r ab order => exact publish_good _ _ _ _ _
  | change i u q =>
    simp only [RmSim.step]
    split
    · simp
    · exact reports_good [i] _ (by simp)
  | idle => simp [RmSim.step]
  | stop => simp [RmSim.step]

theorem obs_vals (s : RmSim) (a : RmStep) :
    valsOf (RmSim.obsOf a ((s.step a).2.map (·.2))) = (s.step a).2.map (·.2) := by
  cases a with
  | start order => rfl
  | remap ab order => rfl
  | config e r ab order => rfl
  | change i u q =>
    have hl : (s.step (.change i u q)).2.length ≤ 1 := by
      simp only [RmSim.step]
      split
      · simp
      · exact reports_single_length _ i
    cases hev : (s.step (.change i u q)).2 with
    | nil => rfl
    | cons p ps =>
      rw [hev] at hl
      cases ps with
      | nil => rfl
      | cons _ _ => simp at hl
  | idle => simp [RmSim.step, RmSim.obsOf, valsOf]
  | stop => simp [RmSim.step, RmSim.obsOf, valsOf]

theorem dispatchClause_good (t : Table) (m : Nat) (h : m = getMinSeqNo t) : dispatchClause t m = none := by
  subst h
  unfold dispatchClause
  by_cases h0 : getMinSeqNo t = 0
  · simp [h0]
  · have : coveredB t (getMinSeqNo t) = true := (coveredB_iff _ _).mpr (min_covered t h0)
    simp [this]

theorem stepClause_good (evs : List (Table × Nat)) (tEnd : Table) (h : ∀ p ∈ evs, GoodEv p) :
    stepClause evs tEnd (evs.map (·.2)) = none := by
  unfold stepClause
  simp only [List.length_map, beq_self_eq_true, if_true]
  apply List.findSome?_eq_none_iff.mpr
  intro x hx
  obtain ⟨⟨t, m⟩, v⟩ := x
  have h1 := List.of_mem_zip hx
  have hv : v = m := by
    clear h1 h
    induction evs with
    | nil => simp at hx
    | cons e es ih =>
      simp only [List.map_cons, List.zip_cons_cons, List.mem_cons, Prod.mk.injEq] at hx
      rcases hx with ⟨h1, h2⟩ | hx
      · rw [h2, ← h1]
      · exact ih hx
  subst hv
  exact dispatchClause_good t v (h _ h1.1)

/-- **rmCheck_model**: for every scripted cluster history the model's dispatches pass monitor (a) -/
theorem rmCheck_model (s : RmSim) (steps : List RmStep) :
    rmCheck s steps (RmSim.observe s steps) = none := by
  unfold rmCheck
  induction steps generalizing s with
  | nil => simp [RmSim.run, RmSim.observe, rmCheckAux]
  | cons a as ih =>
    have hobs : RmSim.observe s (a :: as) =
        RmSim.obsOf a ((s.step a).2.map (·.2)) :: RmSim.observe (s.step a).1 as := by
      simp [RmSim.observe, RmSim.run]
    have hrun : RmSim.run s (a :: as) = ((s.step a).2, (s.step a).1.rm.table) :: RmSim.run (s.step a).1 as := by
      simp [RmSim.run]
    rw [hobs, hrun]
    simp only [rmCheckAux, obs_vals, stepClause_good _ _ (step_good s a)]
    exact ih _

theorem lookup_map_nodup {α β : Type} (l : List (Nat × α)) (f : α → β) (i : Nat) (a : α)
    (hnd : (l.map (·.1)).Nodup) (hm : (i, a) ∈ l) :
    (l.map (fun p => (p.1, f p.2))).lookup i = some (f a) := by
  induction l with
  | nil => cases hm
  | cons x rest ih =>
    obtain ⟨j, b⟩ := x
    simp only [List.map_cons, List.nodup_cons] at hnd
    simp only [List.map_cons, List.lookup_cons]
    rcases List.mem_cons.mp hm with h | h
    · cases h; simp
    · have hne : i ≠ j := by
        rintro rfl
        exact hnd.1 (List.mem_map.mpr ⟨(i, a), h, rfl⟩)
      have : (i == j) = false := by simpa using hne
      rw [this]
      exact ih hnd.2 h

theorem lookup_isSome_of_key {β : Type} (l : List (Nat × β)) (i : Nat) (h : i ∈ l.map (·.1)) :
    (l.lookup i).isSome = true := by
  induction l with
  | nil => cases h
  | cons x rest ih =>
    obtain ⟨j, b⟩ := x
    simp only [List.lookup_cons]
    by_cases hij : i = j
    · subst hij; simp
    · have : (i == j) = false := by simpa using hij
      rw [this]
      simp only [List.map_cons, List.mem_cons] at h
      rcases h with h | h
      · exact absurd h hij
      · exact ih h

theorem lookup_none_of_not_key {β : Type} (l : List (Nat × β)) (i : Nat) (h : i ∉ l.map (·.1)) :
    l.lookup i = none := by
  induction l with
  | nil => rfl
  | cons x rest ih =>
    obtain ⟨j, b⟩ := x
    simp only [List.map_cons, List.mem_cons, not_or] at h
    simp only [List.lookup_cons]
    have : (i == j) = false := by simpa using h.1
    rw [this]
    exact ih h.2

theorem eq_of_key_nodup {α : Type} (l : List (Nat × α)) (hnd : (l.map (·.1)).Nodup) (a b : Nat × α)
    (ha : a ∈ l) (hb : b ∈ l) (hk : a.1 = b.1) : a = b := by
  induction l with
  | nil => cases ha
  | cons x rest ih =>
    simp only [List.map_cons, List.nodup_cons] at hnd
    rcases List.mem_cons.mp ha with h | h <;> rcases List.mem_cons.mp hb with h' | h'
    · rw [h, h']
    · exact absurd (List.mem_map.mpr ⟨b, h', by rw [← hk, h]⟩) hnd.1
    · exact absurd (List.mem_map.mpr ⟨a, h, by rw [hk, h']⟩) hnd.1
    · exact ih hnd.2 h h'

/-- (arrival number, gate seqno) of a waiting call -/
def wkey (p : Nat × SrvEv) : Nat × Nat := (p.1, (gateSeq p.2).getD 0)

/-- the monitor state mirrors the gate -/
structure Rel (g : Gate) (m : Mon) : Prop where
  maxP : m.maxP = g.obs.persist
  closed : m.closed = g.obs.closed
  next : m.next = g.next
  waiting : m.waiting = g.waiting.map wkey
  hasSeq : ∀ w ∈ g.waiting, ∃ s, gateSeq w.2 = some s
  nodup : (g.waiting.map (·.1)).Nodup
  below : ∀ w ∈ g.waiting, w.1 < g.next

theorem ofOut_delivered (o : ObsOut) : (GRes.ofOut o == GRes.delivered) = true ↔ ∃ x, o = .fwd x := by
  cases o <;> simp [GRes.ofOut]

theorem newLog_append (g g' : Gate) (f : List (Nat × SrvEv × ObsOut)) (h : g'.log = g.log ++ f) :
    Gate.newLog g g' = f.map fun p => (p.1, GRes.ofOut p.2.2) := by
  simp [Gate.newLog, h]

theorem passes_iff_not_blk (o : Obs) (e : SrvEv) (s : Nat) (hs : gateSeq e = some s) :
    passes o.persist o.closed (some s) = !blk o e := by
  simp [passes, blk, hs, Obs.gateOpen, gcfg, Bool.or_comm]

/-- the common part of the `persist` and `close` steps -/
theorem release_ok (g1 : Gate) (m1 : Mon) (R : Rel g1 m1) :
    releaseClause m1 (Gate.newLog g1 g1.pollAll) = none ∧
    Rel g1.pollAll (m1.remove (Gate.newLog g1 g1.pollAll)) := by
  obtain ⟨d1, d2, d3, d4, d5⟩ := drain_spec g1.obs g1.waiting
  have hlog : g1.pollAll.log = g1.log ++ (Gate.drain g1.obs g1.waiting).2.2 := rfl
  rw [newLog_append g1 _ _ hlog]
  generalize hf : (Gate.drain g1.obs g1.waiting).2.2 = f at *
  have hkeys : (f.map fun p => (p.1, GRes.ofOut p.2.2)).map (·.1) =
      (g1.waiting.filter (fun p => !blk g1.obs p.2)).map (·.1) := by
    rw [← d4]; simp [List.map_map, Function.comp_def]
  -- a finished call was waiting
  have hfw : ∀ p ∈ f, (p.1, p.2.1) ∈ g1.waiting := by
    intro p hp
    have : (p.1, p.2.1) ∈ f.map (fun p => (p.1, p.2.1)) := List.mem_map.mpr ⟨p, hp, rfl⟩
    rw [d4] at this
    exact (List.mem_filter.mp this).1
  -- key membership ↔ not blocked (needs unique arrival numbers)
  have hkey : ∀ w ∈ g1.waiting,
      (w.1 ∈ (f.map fun p => (p.1, GRes.ofOut p.2.2)).map (·.1)) ↔ blk g1.obs w.2 = false := by
    intro w hw
    rw [hkeys]
    constructor
    · intro hmem
      obtain ⟨w', hw', hk⟩ := List.mem_map.mp hmem
      obtain ⟨hw'm, hw'b⟩ := List.mem_filter.mp hw'
      have : w' = w := eq_of_key_nodup g1.waiting R.nodup w' w hw'm hw hk
      subst this
      simpa using hw'b
    · intro hb
      exact List.mem_map.mpr ⟨w, List.mem_filter.mpr ⟨hw, by simp [hb]⟩, rfl⟩
  constructor
  · unfold releaseClause
    have h1 : (f.map fun p => (p.1, GRes.ofOut p.2.2)).findSome? (relItem m1) = none := by
      apply List.findSome?_eq_none_iff.mpr
      intro x hx
      obtain ⟨p, hp, rfl⟩ := List.mem_map.mp hx
      have hw := hfw p hp
      have hl : m1.waiting.lookup p.1 = some ((gateSeq p.2.1).getD 0) := by
        rw [R.waiting]
        exact lookup_map_nodup g1.waiting (fun e => (gateSeq e).getD 0) p.1 p.2.1 R.nodup hw
      simp only [relItem, hl]
      have hfin := d5 p hp
      by_cases hdel : (GRes.ofOut p.2.2 == GRes.delivered) = true
      · obtain ⟨x, hx⟩ := (ofOut_delivered _).mp hdel
        obtain ⟨hc, hs⟩ := hfin.2 x hx
        obtain ⟨s, hsq⟩ := R.hasSeq _ hw
        have hle := hs s hsq
        simp [hdel, R.closed, hc, hsq, R.maxP, hle]
      · simp [hdel]
    rw [h1]
    simp only
    have h2 : m1.waiting.all (mustRel m1 (f.map fun p => (p.1, GRes.ofOut p.2.2))) = true := by
      apply List.all_eq_true.mpr
      intro x hx
      rw [R.waiting] at hx
      obtain ⟨w, hw, rfl⟩ := List.mem_map.mp hx
      obtain ⟨s, hsq⟩ := R.hasSeq w hw
      simp only [mustRel, wkey, hsq, Option.getD_some, R.maxP, R.closed, passes_iff_not_blk g1.obs w.2 s hsq]
      cases hb : blk g1.obs w.2 with
      | true => simp
      | false =>
        simp only [Bool.not_false, Bool.not_true, Bool.false_or]
        exact lookup_isSome_of_key _ _ ((hkey w hw).mpr hb)
    rw [if_pos h2]
  · refine ⟨?_, ?_, ?_, ?_, ?_, ?_, ?_⟩
    · show m1.maxP = (Gate.drain g1.obs g1.waiting).1.persist
      rw [d1]; exact R.maxP
    · show m1.closed = (Gate.drain g1.obs g1.waiting).1.closed
      rw [d2]; exact R.closed
    · exact R.next
    · show List.filter _ m1.waiting = (Gate.drain g1.obs g1.waiting).2.1.map wkey
      rw [d3, R.waiting, List.filter_map, ]
      congr 1
      apply List.filter_congr
      intro w hw
      simp only [Function.comp, wkey]
      cases hb : blk g1.obs w.2 with
      | false =>
        have := lookup_isSome_of_key _ _ ((hkey w hw).mpr hb)
        cases hl : List.lookup w.1 (f.map fun p => (p.1, GRes.ofOut p.2.2)) with
        | none => rw [hl] at this; cases this
        | some _ => rfl
      | true =>
        have hnk : w.1 ∉ (f.map fun p => (p.1, GRes.ofOut p.2.2)).map (·.1) := by
          intro h
          have := (hkey w hw).mp h
          rw [hb] at this; cases this
        rw [lookup_none_of_not_key _ _ hnk]; rfl
    · intro w hw
      have : w ∈ (Gate.drain g1.obs g1.waiting).2.1 := hw
      rw [d3] at this
      exact R.hasSeq w (List.mem_filter.mp this).1
    · show ((Gate.drain g1.obs g1.waiting).2.1.map (·.1)).Nodup
      rw [d3]
      exact List.Nodup.sublist (List.Sublist.map _ List.filter_sublist) R.nodup
    · intro w hw
      have : w ∈ (Gate.drain g1.obs g1.waiting).2.1 := hw
      rw [d3] at this
      exact R.below w (List.mem_filter.mp this).1


theorem script_ok (g : Gate) (m : Mon) (a : GStep) (R : Rel g m) :
    ∃ m', gateStep m a (g.script a).2 = .ok m' ∧ Rel (g.script a).1 m' := by
  cases a with
  | arrive e =>
    rcases arrive_spec g e with ⟨hb, heq⟩ | ⟨hb, heq⟩
    · -- the call starts waiting
      obtain ⟨s, hs, hlt, hc⟩ := (blk_iff g.obs e).mp hb
      have hnl : Gate.newLog g (g.arrive e) = [] := by
        rw [newLog_append g _ [] (by rw [heq]; simp)]; rfl
      have hsc : g.script (.arrive e) = (g.arrive e, .waiting) := by
        simp [Gate.script, hnl]
      rw [hsc]
      have hp : passes m.maxP m.closed (some s) = false := by
        simp [passes, R.maxP, R.closed, hc]; omega
      refine ⟨{ m with waiting := m.waiting ++ [(m.next, s)], next := m.next + 1 }, ?_, ?_⟩
      · simp [gateStep, hs, hp]
      · rw [heq]
        refine ⟨R.maxP, R.closed, by simp [R.next], ?_, ?_, ?_, ?_⟩
        · simp [R.waiting, wkey, hs, R.next]
        · intro w hw
          rcases List.mem_append.mp hw with hw | hw
          · exact R.hasSeq w hw
          · simp only [List.mem_singleton] at hw; subst hw; exact ⟨s, hs⟩
        · simp only [List.map_append, List.map_cons, List.map_nil]
          refine List.nodup_append.mpr ⟨R.nodup, by simp, ?_⟩
          intro a ha b hb
          simp only [List.mem_singleton] at hb
          subst hb
          obtain ⟨w, hw, rfl⟩ := List.mem_map.mp ha
          exact Nat.ne_of_lt (R.below w hw)
        · intro w hw
          rcases List.mem_append.mp hw with hw | hw
          · exact Nat.lt_succ_of_lt (R.below w hw)
          · simp only [List.mem_singleton] at hw; subst hw; exact Nat.lt_succ_self _
    · -- the call runs to completion
      have hnl : Gate.newLog g (g.arrive e) = [(g.next, GRes.ofOut (Obs.step gcfg g.obs e).2)] := by
        rw [newLog_append g _ [(g.next, e, (Obs.step gcfg g.obs e).2)] (by rw [heq])]; rfl
      have hsc : g.script (.arrive e) = (g.arrive e, .done (GRes.ofOut (Obs.step gcfg g.obs e).2)) := by
        simp [Gate.script, hnl]
      rw [hsc]
      have hk := step_keeps g.obs e
      refine ⟨{ m with next := m.next + 1 }, ?_, ?_⟩
      · by_cases hdel : (GRes.ofOut (Obs.step gcfg g.obs e).2 == GRes.delivered) = true
        · obtain ⟨x, hx⟩ := (ofOut_delivered _).mp hdel
          obtain ⟨hc, hs⟩ := step_fwd g.obs e x hx
          have hp : passes m.maxP false (gateSeq e) = true := by
            cases hq : gateSeq e with
            | none => rfl
            | some s => simp [passes, R.maxP, hs s hq]
          simp [gateStep, hdel, R.closed, hc, hp]
        · simp [gateStep, hdel]
      · rw [heq]
        refine ⟨R.maxP.trans hk.1.symm, R.closed.trans hk.2.symm, by simp [R.next], R.waiting, R.hasSeq, R.nodup, ?_⟩
        intro w hw
        exact Nat.lt_succ_of_lt (R.below w hw)
  | persist p =>
    have R1 : Rel (g.persist p) { m with maxP := if p ≠ 0 ∧ p > m.maxP then p else m.maxP } := by
      refine ⟨?_, ?_, R.next, R.waiting, R.hasSeq, R.nodup, R.below⟩
      · show _ = (g.obs.setPersist p).persist
        unfold Obs.setPersist
        rw [R.maxP]
        split <;> rfl
      · show _ = (g.obs.setPersist p).closed
        rw [setPersist_closed]; exact R.closed
    obtain ⟨h1, h2⟩ := release_ok _ _ R1
    have hnl : Gate.newLog g (g.persist p).pollAll = Gate.newLog (g.persist p) (g.persist p).pollAll := rfl
    refine ⟨_, ?_, h2⟩
    simp only [Gate.script, gateStep, hnl, h1]
  | close =>
    have R1 : Rel g.close { m with closed := true } :=
      ⟨R.maxP, rfl, R.next, R.waiting, R.hasSeq, R.nodup, R.below⟩
    obtain ⟨h1, h2⟩ := release_ok _ _ R1
    have hnl : Gate.newLog g g.close.pollAll = Gate.newLog g.close g.close.pollAll := rfl
    refine ⟨_, ?_, h2⟩
    simp only [Gate.script, gateStep, hnl, h1]

theorem gateCheckAux_model (g : Gate) (m : Mon) (R : Rel g m) (steps : List GStep) :
    gateCheckAux m steps (Gate.runScript g steps) = none := by
  induction steps generalizing g m with
  | nil => rfl
  | cons a as ih =>
    obtain ⟨m', hm', R'⟩ := script_ok g m a R
    simp only [Gate.runScript, gateCheckAux, hm']
    exact ih _ _ R'

/-- **gateCheck_model**: for every script of arrivals, `SetPersistSeqNo` and `Close` the model's
    observation passes monitor (b) -/
theorem gateCheck_model (steps : List GStep) : gateCheck steps (Gate.runScript {} steps) = none :=
  gateCheckAux_model {} {} ⟨rfl, rfl, rfl, rfl, by simp, by simp, by simp⟩ steps

/-- after a `SetPersistSeqNo`/`Close` step and one poll of every waiting call, exactly the calls
    whose seqno is still above the threshold (stream open) keep waiting -/
theorem pollAll_waiting (g : Gate) :
    g.pollAll.waiting = g.waiting.filter (fun w => blk g.obs w.2) ∧
    g.pollAll.obs.persist = g.obs.persist ∧ g.pollAll.obs.closed = g.obs.closed := by
  obtain ⟨d1, d2, d3, _, _⟩ := drain_spec g.obs g.waiting
  exact ⟨d3, d1, d2⟩

/-! ## macro step = micro steps -/

theorem lookup_append_fresh {α : Type} (kept r : List (Nat × α)) (i : Nat) (e : α)
    (h : i ∉ kept.map (·.1)) : (kept ++ (i, e) :: r).lookup i = some e := by
  induction kept with
  | nil => simp
  | cons x rest ih =>
    obtain ⟨j, b⟩ := x
    simp only [List.map_cons, List.mem_cons, not_or] at h
    have : (i == j) = false := by simpa using h.1
    simp only [List.cons_append, List.lookup_cons, this]
    exact ih h.2

theorem filter_key_fresh {α : Type} (l : List (Nat × α)) (i : Nat) (h : i ∉ l.map (·.1)) :
    l.filter (·.1 != i) = l := by
  apply List.filter_eq_self.mpr
  intro a ha
  have : a.1 ≠ i := fun hh => h (List.mem_map.mpr ⟨a, ha, hh⟩)
  simpa using this

theorem polls_eq_drain (rest : List (Nat × SrvEv)) (g : Gate) (kept : List (Nat × SrvEv))
    (hw : g.waiting = kept ++ rest) (hnd : (g.waiting.map (·.1)).Nodup) :
    (rest.map (·.1)).foldl Gate.poll g =
      { g with obs := (Gate.drain g.obs rest).1, waiting := kept ++ (Gate.drain g.obs rest).2.1,
               log := g.log ++ (Gate.drain g.obs rest).2.2 } := by
  induction rest generalizing g kept with
  | nil =>
    have : kept = g.waiting := by simpa using hw.symm
    subst this
    simp [Gate.drain]
  | cons w r ih =>
    obtain ⟨i, e⟩ := w
    rw [hw, List.map_append, List.map_cons] at hnd
    have hik : i ∉ kept.map (·.1) := fun h =>
      (List.nodup_append.mp hnd).2.2 i h i (List.mem_cons_self ..) rfl
    have hir : i ∉ r.map (·.1) := (List.nodup_cons.mp (List.nodup_append.mp hnd).2.1).1
    have hl : g.waiting.lookup i = some e := by rw [hw]; exact lookup_append_fresh kept r i e hik
    simp only [List.map_cons, List.foldl_cons]
    have hb := step_blocked_iff g.obs e
    rcases poll_spec g i with ⟨hn, _⟩ | ⟨e', he', hcase⟩
    · rw [hl] at hn; cases hn
    · rw [hl] at he'; cases he'
      rcases hcase with ⟨hblk, hp⟩ | ⟨hblk, hp⟩
      · -- still blocked: stays in the waiting list
        have hout : (Obs.step gcfg g.obs e).2 = .blocked := hb.mpr hblk
        rw [hp]
        have := ih g (kept ++ [(i, e)]) (by rw [hw]; simp) (by rw [hw]; simpa using hnd)
        rw [this]
        cases hst : Obs.step gcfg g.obs e with
        | mk o1 out =>
          rw [hst] at hout
          simp only at hout
          subst hout
          simp [Gate.drain, hst]
      · -- released
        have hne : (Obs.step gcfg g.obs e).2 ≠ .blocked := fun h => by simp [hb.mp h] at hblk
        rw [hp]
        have hfil : g.waiting.filter (·.1 != i) = kept ++ r := by
          rw [hw, List.filter_append, List.filter_cons]
          simp [filter_key_fresh kept i hik, filter_key_fresh r i hir]
        have := ih { g with obs := (Obs.step gcfg g.obs e).1, waiting := g.waiting.filter (·.1 != i),
                            log := g.log ++ [(i, e, (Obs.step gcfg g.obs e).2)] } kept hfil
          (by
            show ((g.waiting.filter (·.1 != i)).map (·.1)).Nodup
            rw [hfil, List.map_append]
            have h1 := List.nodup_append.mp hnd
            refine List.nodup_append.mpr ⟨h1.1, (List.nodup_cons.mp h1.2.1).2, ?_⟩
            intro a ha b hb
            exact h1.2.2 a ha b (List.mem_cons_of_mem _ hb))
        rw [this]
        cases hst : Obs.step gcfg g.obs e with
        | mk o1 out =>
          rw [hst] at hne
          simp only at hne
          cases out <;> simp_all [Gate.drain]

/-- **pollAll_eq_polls**: the macro step used by the `gate-script` interpreter is the
    composition of the single `poll` micro-steps the theorems quantify over -/
theorem pollAll_eq_polls (g : Gate) (hnd : (g.waiting.map (·.1)).Nodup) :
    g.pollAll = (g.waiting.map (·.1)).foldl Gate.poll g := by
  rw [polls_eq_drain g.waiting g [] (by simp) hnd]
  simp [Gate.pollAll]

/-! ## the callback guard and its error classes -/

/-- after `Stop()` or for a request sent by an older generation (`groupID`) the callback does nothing -/
theorem callback_stale_ignored (r : Rm) (g i : Nat) (ans : ObsErr ⊕ (Nat × Nat))
    (h : r.closed = true ∨ r.gid ≠ g) : r.callback g i ans = (r, .ignored) := by
  unfold Rm.callback
  rcases h with h | h
  · simp [h]
  · simp [h]

/-- time-out, TMPFAIL and BUSY are ignored; every other error stops the process -/
theorem callback_error_classes (r : Rm) (i : Nat) (hc : r.closed = false) :
    r.callback r.gid i (.inl .timeout) = (r, .ignored) ∧
    r.callback r.gid i (.inl .tmpfail) = (r, .ignored) ∧
    r.callback r.gid i (.inl .busy) = (r, .ignored) ∧
    r.callback r.gid i (.inl .other) = (r, .failstop) := by
  simp [Rm.callback, hc]

/-- `reconfigure` starts a new generation with a zero table in which exactly the unlisted indices are absent -/
theorem reconfigure_table (r : Rm) (n : Nat) (ab : List Nat) :
    (r.reconfigure n ab).gid = r.gid + 1 ∧ (r.reconfigure n ab).table = markAbsent (resetTable n) ab := ⟨rfl, rfl⟩

example : (({} : Rm).reconfigure 3 [1, 3]).table = [⟨0, 0, false⟩, ⟨0, 0, true⟩, ⟨0, 0, false⟩, ⟨0, 0, true⟩] := by decide

/-! ## outside the model: the update is not atomic in the Go code (observation, reproduced by stress)

All theorems above treat one callback as one atomic step.  The Go callback performs
`SetSeqNo` and `SetVbUUID` as two plain stores (lines 337-338) without a lock, and callbacks of
different copies of one vBucket run on different connection goroutines.  A `getMinSeqNo` of
another callback that reads between the two stores sees an entry that no copy ever reported. -/

/-- the first of the two stores -/
def setSeqOnly (t : Table) (idx s : Nat) : Table :=
  match t[idx]? with
  | some e => t.set idx { e with seq := s }
  | none => t

/-- **torn_update_observation**: copies A=(1,300), B=(1,10); B now answers (2,500).  Between B's
    two stores the table reads A=(1,300), B=(1,500): `getMinSeqNo` = 300, although neither the
    state before (B has persisted 10) nor the state after (B is on branch 2) covers 300.
    The threshold is a running maximum, so a dispatched 300 stays. -/
theorem torn_update_observation :
    getMinSeqNo (setSeqOnly [⟨1, 300, false⟩, ⟨1, 10, false⟩] 1 500) = 300 ∧
    ¬ Covered [⟨1, 300, false⟩, ⟨1, 10, false⟩] 300 ∧
    ¬ Covered [⟨1, 300, false⟩, ⟨2, 500, false⟩] 300 := by
  refine ⟨by decide, ?_, ?_⟩
  · intro h; have := (coveredB_iff _ _).mpr h; revert this; decide
  · intro h; have := (coveredB_iff _ _).mpr h; revert this; decide

end GoDcp.MinSeqNo
