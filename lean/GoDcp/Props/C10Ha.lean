import GoDcp.Model.HaMembership
import GoDcp.Props.C10
import GoDcp.Props.C10HaLemmas
/-!
# C10, leader-assigned (kubernetesHa) variant end to end

Model: `Model/HaMembership.lean` (an LTS over several instances: election callbacks, rpc Register,
heartbeat bodies, monitor bodies, process death / restart, connection loss).  All theorems quantify over
ALL schedules (`run (init n) acts` for every action list `acts`), all group sizes and all join times.

* `wf_run`                      connection bookkeeping invariants of every reachable state
* `ha_quiescent_numbering`      quiescent ⇒ same total = number of live instances, numbers pairwise distinct and
                                exactly 1..total, leader 1, followers ranked by join time
* `ha_convergence_bounded`      from every reachable `Recoverable` state: one heartbeat body of every live
                                follower (any order), one of the leader, ONE monitor body of the leader
                                (= |live| + 1 loop bodies) reach a quiescent state
* `ha_convergence_after_election` the same when the election callbacks are still to be delivered
* `ha_partition_heals`          (finding F17, fixed by commit 39ec43d) a follower that lost its registration through failed
                                heartbeat bodies is numbered again by ONE heartbeat body of its own + ONE monitor body
                                of the leader once the leader is reachable; `hbFollow_keeps_leader`
* refutations (`…_refuted`, file `Props/C10HaRefute.lean`): what is NOT guaranteed, as concrete schedules
-/
namespace GoDcp.HaMembership
open GoDcp.Membership List

/-! ## A. invariants of every reachable state -/

/-- bookkeeping of rpc clients: a stored follower client points to the follower it is stored under, never to
    the storing process itself; names are distinct (a map); a client whose connection works points to a
    living process, and a follower entry with a working connection carries that process' join time -/
structure WF (s : State) : Prop where
  svcTarget : ∀ i v, v ∈ (s.insts i).services → v.conn.target = v.name ∧ v.name ≠ i
  svcLive : ∀ i v, v ∈ (s.insts i).services → v.conn.broken = false →
    (s.insts v.name).alive = true ∧ v.jt = (s.insts v.name).jt
  svcNodup : ∀ i, ((s.insts i).services.map (·.name)).Nodup
  ldTarget : ∀ i c, (s.insts i).leader = some c → c.target ≠ i
  ldLive : ∀ i c, (s.insts i).leader = some c → c.broken = false → (s.insts c.target).alive = true
  aliveLt : ∀ i, (s.insts i).alive = true → i < s.n

/-- `WF` instance by instance: `al` / `jtf` = who is alive / the join times -/
structure IOK (al : Id → Bool) (jtf : Id → Int) (n : Nat) (i : Id) (x : Inst) : Prop where
  svcTarget : ∀ v, v ∈ x.services → v.conn.target = v.name ∧ v.name ≠ i
  svcLive : ∀ v, v ∈ x.services → v.conn.broken = false → al v.name = true ∧ v.jt = jtf v.name
  svcNodup : (x.services.map (·.name)).Nodup
  ldTarget : ∀ c, x.leader = some c → c.target ≠ i
  ldLive : ∀ c, x.leader = some c → c.broken = false → al c.target = true
  aliveLt : x.alive = true → i < n

def State.al (s : State) : Id → Bool := fun k => (s.insts k).alive
def State.jtf (s : State) : Id → Int := fun k => (s.insts k).jt

theorem wf_iff (s : State) : WF s ↔ ∀ i, IOK s.al s.jtf s.n i (s.insts i) := by
  constructor
  · intro h i
    exact ⟨h.svcTarget i, h.svcLive i, h.svcNodup i, h.ldTarget i, h.ldLive i, h.aliveLt i⟩
  · intro h
    exact ⟨fun i => (h i).svcTarget, fun i => (h i).svcLive, fun i => (h i).svcNodup,
      fun i => (h i).ldTarget, fun i => (h i).ldLive, fun i => (h i).aliveLt⟩

theorem IOK.weaken {al : Id → Bool} {jtf : Id → Int} {n : Nat} {i : Id} {x y : Inst}
    (h : IOK al jtf n i x) (ha : y.alive = true → x.alive = true) (hs : y.services.Sublist x.services)
    (hl : y.leader = none ∨ y.leader = x.leader) : IOK al jtf n i y where
  svcTarget v hv := h.svcTarget v (hs.subset hv)
  svcLive v hv := h.svcLive v (hs.subset hv)
  svcNodup := h.svcNodup.sublist (hs.map _)
  ldTarget c hc := by
    rcases hl with hl | hl
    · rw [hl] at hc; cases hc
    · exact h.ldTarget c (hl ▸ hc)
  ldLive c hc := by
    rcases hl with hl | hl
    · rw [hl] at hc; cases hc
    · exact h.ldLive c (hl ▸ hc)
  aliveLt hy := h.aliveLt (ha hy)

theorem IOK.of_eq {al : Id → Bool} {jtf : Id → Int} {n : Nat} {i : Id} {x y : Inst}
    (h : IOK al jtf n i x) (ha : y.alive = x.alive) (hs : y.services = x.services)
    (hl : y.leader = x.leader) : IOK al jtf n i y :=
  h.weaken (fun hy => ha ▸ hy) (hs ▸ Sublist.refl _) (Or.inr hl)

/-- the context may change at the instance itself (nothing it stores points to itself) -/
theorem IOK.ctx {al al' : Id → Bool} {jtf jtf' : Id → Int} {n : Nat} {i : Id} {x : Inst}
    (h : IOK al jtf n i x) (hc : ∀ k, k ≠ i → al k = true → al' k = true ∧ jtf' k = jtf k) :
    IOK al' jtf' n i x where
  svcTarget := h.svcTarget
  svcLive v hv hb := by
    obtain ⟨h1, h2⟩ := h.svcLive v hv hb
    obtain ⟨h3, h4⟩ := hc v.name (h.svcTarget v hv).2 h1
    exact ⟨h3, by rw [h4]; exact h2⟩
  svcNodup := h.svcNodup
  ldTarget := h.ldTarget
  ldLive c hl hb := (hc c.target (h.ldTarget c hl) (h.ldLive c hl hb)).1
  aliveLt := h.aliveLt

/-- every connection to `t` is gone: the context may change at `t` -/
theorem IOK.breakTo {al al' : Id → Bool} {jtf jtf' : Id → Int} {n : Nat} {i t : Id} {x : Inst}
    (h : IOK al jtf n i x) (hc : ∀ k, k ≠ t → al k = true → al' k = true ∧ jtf' k = jtf k) :
    IOK al' jtf' n i (x.breakTo t) where
  svcTarget v hv := by
    rw [breakTo_services, mem_map] at hv
    obtain ⟨w, hw, rfl⟩ := hv
    simpa using h.svcTarget w hw
  svcLive v hv hb := by
    rw [breakTo_services, mem_map] at hv
    obtain ⟨w, hw, rfl⟩ := hv
    obtain ⟨hb1, hb2⟩ := brk_broken_false hb
    obtain ⟨h1, h2⟩ := h.svcLive w hw hb1
    have hne : w.name ≠ t := (h.svcTarget w hw).1 ▸ hb2
    obtain ⟨h3, h4⟩ := hc w.name hne h1
    exact ⟨h3, by rw [h4]; exact h2⟩
  svcNodup := by rw [breakTo_names]; exact h.svcNodup
  ldTarget c hl := by
    rw [breakTo_leader, Option.map_eq_some_iff] at hl
    obtain ⟨d, hd, rfl⟩ := hl
    simpa using h.ldTarget d hd
  ldLive c hl hb := by
    rw [breakTo_leader, Option.map_eq_some_iff] at hl
    obtain ⟨d, hd, rfl⟩ := hl
    obtain ⟨hb1, hb2⟩ := brk_broken_false hb
    simpa using (hc d.target hb2 (h.ldLive d hd hb1)).1
  aliveLt := h.aliveLt

theorem WF.congr {s t : State} (h : WF s) (hi : t.insts = s.insts) (hn : t.n = s.n) : WF t := by
  obtain ⟨h1, h2, h3, h4, h5, h6⟩ := h
  constructor <;> (try rw [hi]) <;> (try rw [hn]) <;> assumption

theorem WF.nf {s : State} (h : WF s) : WF (nf s) := h.congr rfl rfl

theorem WF.setHolder {s : State} (h : WF s) (hd : Option (Id × Int)) : WF { s with holder := hd } :=
  h.congr rfl rfl

/-- an update of one instance that keeps `alive` and `jt` -/
theorem WF.upd {s : State} (h : WF s) (i : Id) (f : Inst → Inst)
    (ha : ∀ x, (f x).alive = x.alive) (hj : ∀ x, (f x).jt = x.jt)
    (hi : IOK s.al s.jtf s.n i (s.insts i) → IOK s.al s.jtf s.n i (f (s.insts i))) : WF (s.upd i f) := by
  have hal : (s.upd i f).al = s.al := by
    funext k; simp only [State.al, upd_insts]; split
    · exact ha _
    · rfl
  have hjt : (s.upd i f).jtf = s.jtf := by
    funext k; simp only [State.jtf, upd_insts]; split
    · exact hj _
    · rfl
  rw [wf_iff] at h ⊢
  intro j
  rw [hal, hjt, upd_n, upd_insts]
  split
  · rename_i hji; subst hji; exact hi (h j)
  · exact h j

theorem WF.upd_weaken {s : State} (h : WF s) (i : Id) (f : Inst → Inst)
    (ha : ∀ x, (f x).alive = x.alive) (hj : ∀ x, (f x).jt = x.jt)
    (hs : ∀ x, (f x).services.Sublist x.services)
    (hl : ∀ x, (f x).leader = none ∨ (f x).leader = x.leader) : WF (s.upd i f) :=
  h.upd i f ha hj fun hi => hi.weaken (fun hy => ha _ ▸ hy) (hs _) (hl _)

theorem WF.setLeader {s : State} (h : WF s) (i : Id) (c : Client) (hc : c.target ≠ i)
    (hl : c.broken = false → (s.insts c.target).alive = true) :
    WF (s.upd i fun x => { x with leader := some c }) :=
  h.upd i _ (fun _ => rfl) (fun _ => rfl) fun hi =>
    { svcTarget := hi.svcTarget, svcLive := hi.svcLive, svcNodup := hi.svcNodup
      ldTarget := fun d hd => by cases hd; exact hc
      ldLive := fun d hd hb => by cases hd; exact hl hb
      aliveLt := hi.aliveLt }

theorem WF.registerAt {s t : State} {a b : Id} (h : WF s) (hab : a ≠ b) (hr : registerAt s a b = some t) :
    WF t := by
  obtain ⟨rfl, _, hc⟩ := registerAt_eq hr
  have haa := canDial_alive hc
  refine h.upd b _ (fun _ => rfl) (fun _ => rfl) fun hi => ?_
  exact
    { svcTarget := fun v hv => by
        rcases of_mem_addSvc hv with rfl | hv
        · exact ⟨rfl, hab⟩
        · exact hi.svcTarget v hv
      svcLive := fun v hv hb => by
        rcases of_mem_addSvc hv with rfl | hv
        · exact ⟨haa, rfl⟩
        · exact hi.svcLive v hv hb
      svcNodup := nodup_addSvc _ hi.svcNodup
      ldTarget := hi.ldTarget, ldLive := hi.ldLive, aliveLt := hi.aliveLt }

theorem wf_init (n : Nat) : WF (init n) := by
  constructor <;> intros <;> simp_all [init]

theorem wf_kill {s : State} (h : WF s) (i : Id) : WF (kill s i) := by
  apply WF.nf
  rw [wf_iff] at h ⊢
  intro j
  have hc : ∀ k, k ≠ i → s.al k = true →
      (State.al { s with insts := fun j => if j = i then { s.insts j with alive := false } else (s.insts j).breakTo i }) k = true ∧
      (State.jtf { s with insts := fun j => if j = i then { s.insts j with alive := false } else (s.insts j).breakTo i }) k = s.jtf k := by
    intro k hk hal
    simpa [State.al, State.jtf, hk] using hal
  show IOK _ _ s.n j (if j = i then { s.insts j with alive := false } else (s.insts j).breakTo i)
  split
  · rename_i hji; subst hji
    exact ((h j).ctx hc).weaken (fun hy => by cases hy) (Sublist.refl _) (Or.inr rfl)
  · exact (h j).breakTo hc

theorem wf_start {s : State} (h : WF s) (i : Id) (jt : Int) : WF (start s i jt) := by
  unfold start
  split
  · rename_i hlt
    apply WF.nf
    rw [wf_iff] at h ⊢
    intro j
    have hc : ∀ k, k ≠ i → s.al k = true →
        (State.al { s with insts := fun j => if j = i then { alive := true, jt := jt } else (s.insts j).breakTo i }) k = true ∧
        (State.jtf { s with insts := fun j => if j = i then { alive := true, jt := jt } else (s.insts j).breakTo i }) k = s.jtf k := by
      intro k hk hal
      simpa [State.al, State.jtf, hk] using hal
    show IOK _ _ s.n j (if j = i then { alive := true, jt := jt } else (s.insts j).breakTo i)
    split
    · rename_i hji; subst hji
      exact
        { svcTarget := fun v hv => by cases hv
          svcLive := fun v hv => by cases hv
          svcNodup := List.nodup_nil
          ldTarget := fun c hc => by cases hc
          ldLive := fun c hc => by cases hc
          aliveLt := fun _ => hlt }
    · exact (h j).breakTo hc
  · exact h

theorem wf_cut {s : State} (h : WF s) (a b : Id) : WF (cut s a b) := by
  apply WF.nf
  have hal : ∀ (t : Id) k, s.al k = true → s.al k = true ∧ s.jtf k = s.jtf k := fun _ _ hk => ⟨hk, rfl⟩
  have hA : State.al { s with insts := fun j =>
      if j = a then (s.insts j).breakTo b else if j = b then (s.insts j).breakTo a else s.insts j } = s.al := by
    funext k; simp only [State.al]; split
    · rfl
    · split <;> rfl
  have hJ : State.jtf { s with insts := fun j =>
      if j = a then (s.insts j).breakTo b else if j = b then (s.insts j).breakTo a else s.insts j } = s.jtf := by
    funext k; simp only [State.jtf]; split
    · rfl
    · split <;> rfl
  rw [wf_iff] at h ⊢
  intro j
  rw [hA, hJ]
  show IOK _ _ s.n j (if j = a then (s.insts j).breakTo b else if j = b then (s.insts j).breakTo a else s.insts j)
  split
  · exact (h j).breakTo fun k _ hk => ⟨hk, rfl⟩
  · split
    · exact (h j).breakTo fun k _ hk => ⟨hk, rfl⟩
    · exact h j

theorem wf_block {s : State} (h : WF s) (a b : Id) : WF (block s a b) := (wf_cut h a b).congr rfl rfl

theorem wf_unblock {s : State} (h : WF s) (a b : Id) : WF (unblock s a b) := h.congr rfl rfl

theorem wf_acquire {s : State} (h : WF s) (i : Id) : WF (acquire s i) := by
  unfold acquire
  simp only
  split
  · exact h
  · apply WF.nf
    apply WF.setHolder
    exact h.upd_weaken i _ (fun _ => rfl) (fun _ => rfl) (fun _ => Sublist.refl _) (fun _ => Or.inr rfl)

theorem wf_lead {s : State} (h : WF s) (i : Id) : WF (lead s i) := by
  unfold lead
  split
  · exact h
  · apply WF.nf
    exact h.upd_weaken i _ (fun _ => rfl) (fun _ => rfl) (fun _ => Sublist.refl _) (fun _ => Or.inl rfl)

theorem wf_observe {s : State} (h : WF s) (i : Id) : WF (observe s i) := by
  unfold observe
  simp only
  split
  · exact h
  · split
    · exact h
    · split
      · exact wf_kill h i
      · rename_i hd hdeq
        have h0 : WF (s.upd i fun x => { x with reported := some hd }) :=
          h.upd_weaken i _ (fun _ => rfl) (fun _ => rfl) (fun _ => Sublist.refl _) (fun _ => Or.inr rfl)
        split
        · exact h0.nf
        · rename_i hne
          have h1 := h0.upd_weaken i
            (fun x => { x with role := .follower, amLeader := false, services := [], leader := none })
            (fun _ => rfl) (fun _ => rfl) (fun _ => nil_sublist _) (fun _ => Or.inl rfl)
          split
          · exact h1.nf
          · rename_i hcd
            have hcd' := canDial_alive (by simpa using hcd)
            have h2 := h1.setLeader i { target := hd.1 } hne (fun _ => hcd')
            split
            · rename_i s3 hr
              exact (h2.registerAt (Ne.symm hne) hr).nf
            · exact wf_kill h2 i

theorem wf_lose {s : State} (h : WF s) (i : Id) (r : Bool) : WF (lose s i r) := by
  unfold lose
  simp only
  split
  · exact h
  · apply WF.nf
    apply WF.setHolder
    exact h.upd_weaken i _ (fun _ => rfl) (fun _ => rfl) (fun _ => nil_sublist _) (fun _ => Or.inr rfl)

theorem wf_hbFollow {s : State} (h : WF s) (i : Id) : WF (hbFollow s i) := by
  unfold hbFollow
  simp only
  split
  · exact h
  · rename_i c hc
    split
    · exact h
    · split
      · exact h
      · rename_i hcd
        have hcd' := canDial_alive (by simpa using hcd)
        have hti := h.ldTarget i c hc
        have h1 := h.setLeader i { c with broken := false } hti (fun _ => hcd')
        split
        · rename_i s2 hr
          exact (h1.registerAt (Ne.symm hti) hr).nf
        · exact h1.nf

theorem wf_hbPing {s : State} (h : WF s) (i : Id) : WF (hbPing s i) := by
  unfold hbPing
  simp only
  split
  · exact h
  · apply WF.nf
    exact h.upd_weaken i _ (fun _ => rfl) (fun _ => rfl) (fun _ => Sublist.refl _) (fun _ => Or.inr rfl)

theorem wf_hbRemove {s : State} (h : WF s) (i : Id) : WF (hbRemove s i) := by
  unfold hbRemove
  simp only
  split
  · exact h
  · apply WF.nf
    exact h.upd_weaken i _ (fun _ => rfl) (fun _ => rfl) (fun _ => filter_sublist) (fun _ => Or.inr rfl)

theorem wf_hb {s : State} (h : WF s) (i : Id) : WF (hb s i) := by
  unfold hb
  split
  · exact h
  · exact wf_hbRemove (wf_hbPing (wf_hbFollow h i) i) i

theorem wf_rebalanceAll (L : Id) (l : List (Id × (Nat × Nat))) (s : State) (h : WF s) :
    WF (rebalanceAll L s l) := by
  induction l generalizing s with
  | nil => exact h
  | cons x r ih =>
    obtain ⟨name, a⟩ := x
    simp only [rebalanceAll]
    split
    · split
      · exact ih s h
      · apply ih
        exact h.upd_weaken _ _ (fun _ => rfl) (fun _ => rfl) (fun _ => Sublist.refl _) (fun _ => Or.inr rfl)
    · exact ih s h

theorem wf_mon {s : State} (h : WF s) (i : Id) : WF (mon s i) := by
  unfold mon
  simp only
  split
  · exact h
  · refine WF.congr (s := rebalanceAll i _ _) ?_ rfl rfl
    apply wf_rebalanceAll
    exact h.upd_weaken i _ (fun _ => rfl) (fun _ => rfl) (fun _ => Sublist.refl _) (fun _ => Or.inr rfl)

theorem wf_step (s : State) (a : Action) (h : WF s) : WF (step s a) := by
  cases a with
  | start i jt => exact wf_start h i jt
  | kill i => exact wf_kill h i
  | cut a b => exact wf_cut h a b
  | block a b => exact wf_block h a b
  | unblock a b => exact wf_unblock h a b
  | acquire i => exact wf_acquire h i
  | lead i => exact wf_lead h i
  | observe i => exact wf_observe h i
  | lose i r => exact wf_lose h i r
  | hb i => exact wf_hb h i
  | hbFollow i => simp only [step]; split; exact wf_hbFollow h i; exact h
  | hbPing i => simp only [step]; split; exact wf_hbPing h i; exact h
  | hbRemove i => simp only [step]; split; exact wf_hbRemove h i; exact h
  | mon i => exact wf_mon h i

theorem wf_run (s : State) (acts : List Action) (h : WF s) : WF (run s acts) := by
  induction acts generalizing s with
  | nil => exact h
  | cons a r ih => exact ih _ (wf_step s a h)

/-! ## B. quiescence -/

/-- one leader `L` alive holding the lease; every live instance has observed `L`; every live follower is
    registered at `L` (under its current join time) with a working connection; `L` ran a complete monitor
    round since the last change (ghost `fresh`) -/
structure Quiescent (s : State) (L : Id) : Prop where
  lt : L < s.n
  alive : (s.insts L).alive = true
  leading : (s.insts L).amLeader = true
  holder : s.holder = some (L, (s.insts L).jt)
  fresh : s.fresh = true
  observed : ∀ i, i < s.n → (s.insts i).alive = true → (s.insts i).reported = s.holder
  registered : ∀ i, i < s.n → (s.insts i).alive = true → i ≠ L →
    ∃ v ∈ (s.insts L).services, v.name = i ∧ v.jt = (s.insts i).jt ∧ v.conn.broken = false

/-- the driver's decidable test is this predicate -/
theorem mem_liveIds {s : State} {i : Id} : i ∈ liveIds s ↔ i < s.n ∧ (s.insts i).alive = true := by
  simp [liveIds]

theorem quiescentB_iff (s : State) (L : Id) : quiescentB s L = true ↔ Quiescent s L := by
  simp only [quiescentB, Bool.and_eq_true, decide_eq_true_eq, all_eq_true, mem_liveIds, Bool.or_eq_true,
    beq_iff_eq, any_eq_true, Bool.not_eq_true', and_imp]
  constructor
  · rintro ⟨⟨⟨⟨⟨h1, h2⟩, h3⟩, h4⟩, h5⟩, h6⟩
    refine ⟨h1, h2, h3, h4, h5, fun i hi ha => (h6 i hi ha).1, fun i hi ha hne => ?_⟩
    rcases (h6 i hi ha).2 with h | ⟨v, hv, ⟨hn, hj⟩, hb⟩
    · exact absurd h hne
    · exact ⟨v, hv, hn, hj, hb⟩
  · intro h
    refine ⟨⟨⟨⟨⟨h.lt, h.alive⟩, h.leading⟩, h.holder⟩, h.fresh⟩, fun i hi ha => ⟨h.observed i hi ha, ?_⟩⟩
    by_cases hne : i = L
    · exact Or.inl hne
    · obtain ⟨v, hv, hn, hj, hb⟩ := h.registered i hi ha hne
      exact Or.inr ⟨v, hv, ⟨hn, hj⟩, hb⟩

/-- what a complete monitor round of `L` leaves behind: `L` holds `(1, total)` and every follower entry's
    process holds the pair `sdRound` computed for it (`Model/Membership.lean`), over connections that all work -/
def MonDone (s : State) : Prop :=
  ∃ L jt, s.holder = some (L, jt) ∧
    ((s.insts L).services.all fun v => !v.conn.broken) = true ∧
    (s.insts L).info = some (sdRound (entries (s.insts L).services)).1 ∧
    ∀ x ∈ (sdRound (entries (s.insts L).services)).2, (s.insts x.1).info = some x.2

/-! ### `mon` only writes `info` (and the ghost) -/

structure InfoOnly (s t : State) : Prop where
  n : t.n = s.n
  holder : t.holder = s.holder
  blocked : t.blocked = s.blocked
  fresh : t.fresh = s.fresh
  inst : ∀ j, t.insts j = { s.insts j with info := (t.insts j).info }

theorem InfoOnly.refl (s : State) : InfoOnly s s := ⟨rfl, rfl, rfl, rfl, fun _ => rfl⟩

theorem InfoOnly.trans {s t u : State} (h1 : InfoOnly s t) (h2 : InfoOnly t u) : InfoOnly s u :=
  ⟨h2.n.trans h1.n, h2.holder.trans h1.holder, h2.blocked.trans h1.blocked, h2.fresh.trans h1.fresh,
    fun j => by rw [h2.inst j, h1.inst j]⟩

theorem InfoOnly.upd (s : State) (i : Id) (g : Inst → Option (Nat × Nat)) :
    InfoOnly s (s.upd i fun x => { x with info := g x }) := by
  refine ⟨rfl, rfl, rfl, rfl, fun j => ?_⟩
  simp only [upd_insts]
  split <;> rfl

theorem InfoOnly.services {s t : State} (h : InfoOnly s t) (j : Id) :
    (t.insts j).services = (s.insts j).services := by rw [h.inst j]
theorem InfoOnly.leader {s t : State} (h : InfoOnly s t) (j : Id) :
    (t.insts j).leader = (s.insts j).leader := by rw [h.inst j]
theorem InfoOnly.pending {s t : State} (h : InfoOnly s t) (j : Id) :
    (t.insts j).pending = (s.insts j).pending := by rw [h.inst j]
theorem InfoOnly.frame {s t : State} (h : InfoOnly s t) : Frame s t :=
  ⟨h.n, h.holder, h.blocked, fun j => by rw [h.inst j]; rfl⟩

theorem rebalanceAll_infoOnly (L : Id) (l : List (Id × (Nat × Nat))) (s : State) :
    InfoOnly s (rebalanceAll L s l) := by
  induction l generalizing s with
  | nil => exact InfoOnly.refl s
  | cons x r ih =>
    obtain ⟨name, a⟩ := x
    simp only [rebalanceAll]
    split
    · split
      · exact ih s
      · exact (InfoOnly.upd s _ _).trans (ih _)
    · exact ih s

theorem ids_entries (l : List Svc) : ids (entries l) = l.map (·.name) := by
  simp [ids, entries, Function.comp_def]

/-- over working connections, to distinct names all stored: every addressee takes its pair, nobody else is written -/
theorem rebalanceAll_spec (L : Id) (svcs : List Svc)
    (hs : ∀ v, v ∈ svcs → v.conn.broken = false ∧ v.conn.target = v.name)
    (l : List (Id × (Nat × Nat))) (s : State) (hsv : (s.insts L).services = svcs)
    (hn : (l.map (·.1)).Nodup) (hm : ∀ x, x ∈ l → x.1 ∈ svcs.map (·.name)) :
    (∀ x, x ∈ l → ((rebalanceAll L s l).insts x.1).info = some x.2) ∧
    (∀ j, j ∉ l.map (·.1) → ((rebalanceAll L s l).insts j).info = (s.insts j).info) := by
  induction l generalizing s with
  | nil => exact ⟨fun x hx => (by cases hx), fun j _ => rfl⟩
  | cons x r ih =>
    obtain ⟨name, a⟩ := x
    rw [map_cons, nodup_cons] at hn
    obtain ⟨w, hw, hwn⟩ := mem_map.1 (hm (name, a) mem_cons_self)
    simp only [rebalanceAll, hsv]
    cases hf : svcs.find? (fun v => decide (v.name = name)) with
    | none =>
      rw [find?_eq_none] at hf
      exact absurd (by simpa using hwn) (hf w hw)
    | some v =>
      have hv := mem_of_find?_eq_some hf
      have hvn : v.name = name := by simpa using find?_some hf
      obtain ⟨hvb, hvt⟩ := hs v hv
      simp only [hvb, Bool.false_eq_true, if_false, hvt, hvn]
      have ih' := ih (s.upd name fun x => { x with info := (setInfo x.info a).1 })
        (by rw [← hsv]; simp only [upd_insts]; split <;> rfl) hn.2
        (fun x hx => hm x (mem_cons_of_mem _ hx))
      constructor
      · intro x hx
        rcases mem_cons.1 hx with rfl | hx
        · rw [ih'.2 name hn.1]
          simp [setInfo_fst]
        · exact ih'.1 x hx
      · intro j hj
        rw [map_cons, mem_cons, not_or] at hj
        rw [ih'.2 j hj.2]
        simp [hj.1]

theorem mon_eq_self {s : State} {i : Id} (h : ¬ ((s.insts i).alive = true ∧ (s.insts i).amLeader = true)) :
    mon s i = s := by
  unfold mon
  simp only
  rw [if_pos]
  cases ha : (s.insts i).alive <;> cases hl : (s.insts i).amLeader <;> simp_all

theorem mon_eq {s : State} {i : Id} (ha : (s.insts i).alive = true) (hl : (s.insts i).amLeader = true) :
    mon s i =
      { rebalanceAll i
          (s.upd i fun x => { x with info := (setInfo x.info (sdRound (entries (s.insts i).services)).1).1 })
          (sdRound (entries (s.insts i).services)).2 with
        fresh := decide (s.holder = some (i, (s.insts i).jt)) &&
          (s.insts i).services.all fun v => !v.conn.broken } := by
  unfold mon
  simp only [ha, hl]
  rfl

theorem mon_infoOnly (s : State) (i : Id) : InfoOnly s { mon s i with fresh := s.fresh } := by
  by_cases h : (s.insts i).alive = true ∧ (s.insts i).amLeader = true
  · rw [mon_eq h.1 h.2]
    have := (InfoOnly.upd s i fun x => (setInfo x.info (sdRound (entries (s.insts i).services)).1).1).trans
      (rebalanceAll_infoOnly i (sdRound (entries (s.insts i).services)).2 _)
    exact ⟨this.n, this.holder, this.blocked, rfl, this.inst⟩
  · rw [mon_eq_self h]
    exact InfoOnly.refl s

theorem sdRound_names (l : List Entry) : (sdRound l).2.map (·.1) = ids (sortJT l) :=
  sdAssignFrom_names _ _ _

/-- a monitor body of a promoted instance over working connections only -/
theorem mon_done {s : State} (h : WF s) {i : Id} (ha : (s.insts i).alive = true)
    (hl : (s.insts i).amLeader = true)
    (hall : ((s.insts i).services.all fun v => !v.conn.broken) = true) :
    ((mon s i).insts i).info = some (sdRound (entries (s.insts i).services)).1 ∧
    ∀ x, x ∈ (sdRound (entries (s.insts i).services)).2 → ((mon s i).insts x.1).info = some x.2 := by
  have hperm : (sdRound (entries (s.insts i).services)).2.map (·.1) ~ (s.insts i).services.map (·.name) := by
    rw [sdRound_names, ← ids_entries]
    exact ids_perm (sortJT_perm _)
  have hspec := rebalanceAll_spec i (s.insts i).services
    (fun v hv => ⟨by simpa using (all_eq_true.1 hall) v hv, (h.svcTarget i v hv).1⟩)
    (sdRound (entries (s.insts i).services)).2
    (s.upd i fun x => { x with info := (setInfo x.info (sdRound (entries (s.insts i).services)).1).1 })
    (by simp) (hperm.nodup_iff.2 (h.svcNodup i))
    (fun x hx => hperm.mem_iff.1 (mem_map_of_mem hx))
  rw [mon_eq ha hl]
  refine ⟨?_, hspec.1⟩
  show ((rebalanceAll i _ _).insts i).info = _
  rw [hspec.2 i]
  · simp [setInfo_fst]
  · intro hmem
    obtain ⟨v, hv, hvn⟩ := mem_map.1 (hperm.mem_iff.1 hmem)
    exact (h.svcTarget i v hv).2 hvn

/-! ### every other action that changes anything ends in `nf` -/

theorem fresh_start {s : State} {i : Id} {jt : Int} (h : (start s i jt).fresh = true) : start s i jt = s := by
  unfold start at h ⊢
  split at h
  · cases h
  · rw [if_neg (by assumption)]

theorem fresh_acquire {s : State} {i : Id} (h : (acquire s i).fresh = true) : acquire s i = s := by
  unfold acquire at h ⊢
  simp only at h ⊢
  split at h
  · rw [if_pos (by assumption)]
  · cases h

theorem fresh_lead {s : State} {i : Id} (h : (lead s i).fresh = true) : lead s i = s := by
  unfold lead at h ⊢
  split at h
  · rw [if_pos (by assumption)]
  · cases h

theorem fresh_lose {s : State} {i : Id} {r : Bool} (h : (lose s i r).fresh = true) : lose s i r = s := by
  unfold lose at h ⊢
  simp only at h ⊢
  split at h
  · rw [if_pos (by assumption)]
  · cases h

theorem fresh_observe {s : State} {i : Id} (h : (observe s i).fresh = true) : observe s i = s := by
  unfold observe at h ⊢
  simp only at h ⊢
  split at h
  · rw [if_pos (by assumption)]
  · rw [if_neg (by assumption)]
    split at h
    · rw [if_pos (by assumption)]
    · exfalso
      split at h
      · cases h
      · split at h
        · cases h
        · split at h
          · cases h
          · split at h <;> cases h

theorem fresh_hbFollow {s : State} {i : Id} (h : (hbFollow s i).fresh = true) : hbFollow s i = s := by
  unfold hbFollow at h ⊢
  simp only at h ⊢
  split at h
  · rfl
  · split at h
    · rw [if_pos (by assumption)]
    · rw [if_neg (by assumption)]
      split at h
      · rw [if_pos (by assumption)]
      · exfalso
        split at h <;> cases h

theorem fresh_hbPing {s : State} {i : Id} (h : (hbPing s i).fresh = true) : hbPing s i = s := by
  unfold hbPing at h ⊢
  simp only at h ⊢
  split at h
  · rw [if_pos (by assumption)]
  · cases h

theorem fresh_hbRemove {s : State} {i : Id} (h : (hbRemove s i).fresh = true) : hbRemove s i = s := by
  unfold hbRemove at h ⊢
  simp only at h ⊢
  split at h
  · rw [if_pos (by assumption)]
  · cases h

theorem fresh_hb {s : State} {i : Id} (h : (hb s i).fresh = true) : hb s i = s := by
  unfold hb at h ⊢
  split at h
  · rw [if_pos (by assumption)]
  · rw [if_neg (by assumption)]
    have h1 := fresh_hbRemove h
    rw [h1] at h ⊢
    have h2 := fresh_hbPing h
    rw [h2] at h ⊢
    exact fresh_hbFollow h

theorem mondone_step (s : State) (a : Action) (h : WF s) (hm : s.fresh = true → MonDone s) :
    (step s a).fresh = true → MonDone (step s a) := by
  intro hf
  cases a with
  | start i jt => simp only [step] at hf ⊢; have e := fresh_start hf; rw [e] at hf ⊢; exact hm hf
  | kill i => cases hf
  | cut a b => cases hf
  | block a b => cases hf
  | unblock a b => cases hf
  | acquire i => simp only [step] at hf ⊢; have e := fresh_acquire hf; rw [e] at hf ⊢; exact hm hf
  | lead i => simp only [step] at hf ⊢; have e := fresh_lead hf; rw [e] at hf ⊢; exact hm hf
  | observe i => simp only [step] at hf ⊢; have e := fresh_observe hf; rw [e] at hf ⊢; exact hm hf
  | lose i r => simp only [step] at hf ⊢; have e := fresh_lose hf; rw [e] at hf ⊢; exact hm hf
  | hb i => simp only [step] at hf ⊢; have e := fresh_hb hf; rw [e] at hf ⊢; exact hm hf
  | hbFollow i =>
    simp only [step] at hf ⊢
    split at hf
    · rw [if_pos (by assumption)]; have e := fresh_hbFollow hf; rw [e] at hf ⊢; exact hm hf
    · rw [if_neg (by assumption)]; exact hm hf
  | hbPing i =>
    simp only [step] at hf ⊢
    split at hf
    · rw [if_pos (by assumption)]; have e := fresh_hbPing hf; rw [e] at hf ⊢; exact hm hf
    · rw [if_neg (by assumption)]; exact hm hf
  | hbRemove i =>
    simp only [step] at hf ⊢
    split at hf
    · rw [if_pos (by assumption)]; have e := fresh_hbRemove hf; rw [e] at hf ⊢; exact hm hf
    · rw [if_neg (by assumption)]; exact hm hf
  | mon i =>
    simp only [step] at hf ⊢
    by_cases hal : (s.insts i).alive = true ∧ (s.insts i).amLeader = true
    · have hio := mon_infoOnly s i
      have hd := mon_done h hal.1 hal.2
      rw [mon_eq hal.1 hal.2] at hf
      simp only [Bool.and_eq_true, decide_eq_true_eq] at hf
      have hsv : ((mon s i).insts i).services = (s.insts i).services := hio.services i
      refine ⟨i, (s.insts i).jt, hio.holder.trans hf.1, ?_, ?_, ?_⟩
      · rw [hsv]; exact hf.2
      · rw [hsv]; exact (hd hf.2).1
      · rw [hsv]; exact (hd hf.2).2
    · rw [mon_eq_self hal] at hf ⊢
      exact hm hf

theorem mondone_run (s : State) (acts : List Action) (h : WF s) (hm : s.fresh = true → MonDone s) :
    (run s acts).fresh = true → MonDone (run s acts) := by
  induction acts generalizing s with
  | nil => exact hm
  | cons a r ih => exact ih _ (wf_step s a h) (mondone_step s a h hm)

/-- `fresh` is only ever true in a state a complete monitor round left behind -/
theorem fresh_inv (n : Nat) (acts : List Action) :
    (run (init n) acts).fresh = true → MonDone (run (init n) acts) :=
  mondone_run _ acts (wf_init n) (fun h => by cases h)

theorem nodup_liveIds (s : State) : (liveIds s).Nodup := nodup_range.filter _

/-- what quiescence + a complete monitor round say about `GetAll` of the leader -/
theorem numbering_core {s : State} {L : Id} (hwf : WF s) (hq : Quiescent s L) (hmd : MonDone s) :
    (sdGetAll (entries (s.insts L).services)).length + 1 = (liveIds s).length ∧
    (∀ a, a ∈ sdGetAll (entries (s.insts L).services) ↔ a ∈ liveIds s ∧ a ≠ L) ∧
    (s.insts L).info = some (1, (liveIds s).length) ∧
    (∀ p a, (sdGetAll (entries (s.insts L).services))[p]? = some a →
      (s.insts a).info = some (2 + p, (liveIds s).length)) ∧
    (∀ e, e ∈ sortJT (entries (s.insts L).services) → e.2 = (s.insts e.1).jt) := by
  obtain ⟨L', jt', hh, hall, hiL, hiF⟩ := hmd
  have hLL : L' = L := by
    have := hh.symm.trans hq.holder
    exact congrArg Prod.fst (Option.some.inj this)
  subst hLL
  have hallv : ∀ v, v ∈ (s.insts L').services → v.conn.broken = false := fun v hv => by
    simpa using (all_eq_true.1 hall) v hv
  have hLlive : L' ∈ liveIds s := mem_liveIds.2 ⟨hq.lt, hq.alive⟩
  -- the stored names are the live followers
  have hmem : ∀ a, a ∈ (s.insts L').services.map (·.name) ↔ a ∈ (liveIds s).erase L' := by
    intro a
    rw [(nodup_liveIds s).mem_erase_iff, mem_liveIds, mem_map]
    constructor
    · rintro ⟨v, hv, rfl⟩
      have h1 := hwf.svcLive L' v hv (hallv v hv)
      exact ⟨(hwf.svcTarget L' v hv).2, hwf.aliveLt _ h1.1, h1.1⟩
    · rintro ⟨hne, hlt, hal⟩
      obtain ⟨v, hv, hvn, _, _⟩ := hq.registered a hlt hal hne
      exact ⟨v, hv, hvn⟩
  have hperm : (s.insts L').services.map (·.name) ~ (liveIds s).erase L' :=
    (perm_ext_iff_of_nodup (hwf.svcNodup L') ((nodup_liveIds s).erase _)).2 hmem
  have hgl : sdGetAll (entries (s.insts L').services) ~ (s.insts L').services.map (·.name) := by
    rw [← ids_entries]; exact ids_perm (sortJT_perm _)
  have hlen : (sdGetAll (entries (s.insts L').services)).length + 1 = (liveIds s).length := by
    rw [(hgl.trans hperm).length_eq, length_erase_of_mem hLlive]
    have := length_pos_of_mem hLlive
    omega
  refine ⟨hlen, ?_, ?_, ?_, ?_⟩
  · intro a
    rw [(hgl.trans hperm).mem_iff, (nodup_liveIds s).mem_erase_iff, and_comm]
  · rw [hiL, ← hlen]; rfl
  · intro p a hp
    have hx : (a, (2 + p, (sdGetAll (entries (s.insts L').services)).length + 1)) ∈
        (sdRound (entries (s.insts L').services)).2 :=
      mem_sdAssignFrom.2 ⟨p, hp, rfl⟩
    rw [← hlen]
    exact hiF _ hx
  · intro e he
    rw [mem_sortJT] at he
    obtain ⟨v, hv, rfl⟩ := mem_map.1 he
    exact (hwf.svcLive L' v hv (hallv v hv)).2

/-- **C10 `ha_quiescent_numbering`.**  In EVERY state reachable by ANY schedule: if the state is quiescent
then all live instances hold the same total = the number of live instances, every number is in `1..total`,
the numbers are pairwise distinct and every number `1..total` is held, the leader has 1, and a follower that
joined strictly earlier holds the strictly smaller number (the sort key of `GetAll` is the join time alone:
followers with EQUAL join times come in map-iteration order, their numbers are distinct all the same). -/
theorem ha_quiescent_numbering (n : Nat) (acts : List Action) (L : Id)
    (hq : Quiescent (run (init n) acts) L) :
    let s := run (init n) acts
    let live := liveIds s
    (∀ i ∈ live, ∃ k, (s.insts i).info = some (k, live.length) ∧ 1 ≤ k ∧ k ≤ live.length) ∧
    (∀ i ∈ live, ∀ j ∈ live, i ≠ j → (s.insts i).info ≠ (s.insts j).info) ∧
    (∀ k, 1 ≤ k → k ≤ live.length → ∃ i ∈ live, (s.insts i).info = some (k, live.length)) ∧
    (s.insts L).info = some (1, live.length) ∧
    (∀ i ∈ live, ∀ j ∈ live, i ≠ L → j ≠ L → (s.insts i).jt < (s.insts j).jt →
      ∀ a b, (s.insts i).info = some (a, live.length) → (s.insts j).info = some (b, live.length) → a < b) := by
  intro s
  dsimp only
  have hwf : WF s := wf_run _ acts (wf_init n)
  have hmd : MonDone s := fresh_inv n acts hq.fresh
  obtain ⟨hlen, hmem, hiL, hiF, hjt⟩ := numbering_core hwf hq hmd
  have hLlive : L ∈ liveIds s := mem_liveIds.2 ⟨hq.lt, hq.alive⟩
  have hpos : 1 ≤ (liveIds s).length := length_pos_of_mem hLlive
  -- every live follower sits at some position of `GetAll`
  have hfol : ∀ i, i ∈ liveIds s → i ≠ L → ∃ p, (sdGetAll (entries (s.insts L).services))[p]? = some i ∧
      p + 2 ≤ (liveIds s).length ∧ (s.insts i).info = some (2 + p, (liveIds s).length) := by
    intro i hi hne
    obtain ⟨p, hp⟩ := mem_iff_getElem?.1 ((hmem i).2 ⟨hi, hne⟩)
    have hlt := (List.getElem?_eq_some_iff.1 hp).1
    exact ⟨p, hp, by omega, hiF p i hp⟩
  refine ⟨?_, ?_, ?_, hiL, ?_⟩
  · intro i hi
    by_cases hne : i = L
    · subst hne; exact ⟨1, hiL, Nat.le_refl _, hpos⟩
    · obtain ⟨p, _, hp, hinfo⟩ := hfol i hi hne
      exact ⟨2 + p, hinfo, by omega, by omega⟩
  · intro i hi j hj hij heq
    by_cases hiL' : i = L
    · by_cases hjL : j = L
      · exact hij (hiL'.trans hjL.symm)
      · obtain ⟨q, _, _, hinfo⟩ := hfol j hj hjL
        rw [hiL', hiL, hinfo] at heq
        have := congrArg Prod.fst (Option.some.inj heq)
        simp only at this
        omega
    · obtain ⟨p, hp, _, hinfo⟩ := hfol i hi hiL'
      by_cases hjL : j = L
      · rw [hjL, hiL, hinfo] at heq
        have := congrArg Prod.fst (Option.some.inj heq)
        simp only at this
        omega
      · obtain ⟨q, hq', _, hinfo'⟩ := hfol j hj hjL
        rw [hinfo, hinfo'] at heq
        have := congrArg Prod.fst (Option.some.inj heq)
        simp only at this
        have hpq : p = q := by omega
        subst hpq
        rw [hp] at hq'
        exact hij (Option.some.inj hq')
  · intro k hk1 hk2
    by_cases hk : k = 1
    · subst hk; exact ⟨L, hLlive, hiL⟩
    · have hlt : k - 2 < (sdGetAll (entries (s.insts L).services)).length := by omega
      have hp := getElem?_eq_getElem hlt
      refine ⟨_, ((hmem _).1 (mem_of_getElem? hp)).1, ?_⟩
      rw [hiF _ _ hp]
      congr 2
      omega
  · intro i hi j hj hiL' hjL hlt a b ha hb
    obtain ⟨p, hp, _, hinfo⟩ := hfol i hi hiL'
    obtain ⟨q, hq', _, hinfo'⟩ := hfol j hj hjL
    rw [hinfo] at ha
    rw [hinfo'] at hb
    have ha' := congrArg Prod.fst (Option.some.inj ha)
    have hb' := congrArg Prod.fst (Option.some.inj hb)
    simp only at ha' hb'
    -- positions in the sorted entry list
    simp only [sdGetAll, ids, getElem?_map, Option.map_eq_some_iff] at hp hq'
    obtain ⟨ei, hei, hei1⟩ := hp
    obtain ⟨ej, hej, hej1⟩ := hq'
    have hji := hjt ei (mem_of_getElem? hei)
    have hjj := hjt ej (mem_of_getElem? hej)
    rw [hei1] at hji
    rw [hej1] at hjj
    obtain ⟨hpl, hpe⟩ := List.getElem?_eq_some_iff.1 hei
    obtain ⟨hql, hqe⟩ := List.getElem?_eq_some_iff.1 hej
    have hsorted := pairwise_iff_getElem.1 (sortJT_sorted (entries (s.insts L).services))
    rcases Nat.lt_trichotomy p q with h | h | h
    · omega
    · subst h
      rw [hpe] at hqe
      subst hqe
      omega
    · have := hsorted q p hql hpl h
      rw [hpe, hqe] at this
      omega

/-! ## C. bounded convergence -/

/-- the hypothesis of convergence: `L` alive, promoted, holding the lease; the network lets connections through;
    every heartbeat loop is between two bodies; every live instance has observed `L`; every live follower still
    has `leaderService` pointing at `L`, and EITHER its connection to `L` is gone (its next heartbeat body
    re-registers - this is also the state of a follower that was partitioned from the leader: since commit 39ec43d a
    failed re-register keeps `leaderService`, `hbFollow_keeps_leader`) OR `L` holds a working entry for it.  (What stays
    outside: an instance whose elector has stopped, or whose `leaderService` is nil because `NewClient` failed inside
    `OnBecomeFollower` - `Props/C10HaOrphan orphan_stays`, `Props/C10HaRefute`.) -/
structure Recoverable (s : State) (L : Id) : Prop where
  lt : L < s.n
  alive : (s.insts L).alive = true
  leading : (s.insts L).amLeader = true
  holder : s.holder = some (L, (s.insts L).jt)
  net : s.blocked = []
  idle : ∀ i, (s.insts i).pending = []
  observed : ∀ i, i < s.n → (s.insts i).alive = true → (s.insts i).reported = s.holder
  followers : ∀ i, i < s.n → (s.insts i).alive = true → i ≠ L →
    ∃ c, (s.insts i).leader = some c ∧ c.target = L ∧
      (c.broken = true ∨
        ∃ v ∈ (s.insts L).services, v.name = i ∧ v.jt = (s.insts i).jt ∧ v.conn.broken = false)

/-! ### what the loop bodies do to the leader's registrations -/

/-- `L` holds a working entry for `j` under `j`'s current join time -/
def Reg (s : State) (L j : Id) : Prop :=
  ∃ v, v ∈ (s.insts L).services ∧ v.name = j ∧ v.jt = (s.insts j).jt ∧ v.conn.broken = false

theorem Reg.mono {t t' : State} {L j : Id} (hjt : (t'.insts j).jt = (t.insts j).jt)
    (hsub : ∀ v, v ∈ (t.insts L).services → v.name = j → v.conn.broken = false → v ∈ (t'.insts L).services)
    (h : Reg t L j) : Reg t' L j := by
  obtain ⟨v, hv, hn, hj, hb⟩ := h
  exact ⟨v, hsub v hv hn hb, hn, hj.trans hjt.symm, hb⟩

theorem Frame.upd' {s t : State} (h : Frame s t) (i : Id) (f : Inst → Inst)
    (hf : ∀ x, coreOf (f x) = coreOf x) : Frame s (t.upd i f) := h.trans (Frame.upd t i f hf)

theorem hbPing_props (s : State) (i : Id) :
    Frame s (hbPing s i) ∧ (∀ j, j ≠ i → (hbPing s i).insts j = s.insts j) ∧
    ((hbPing s i).insts i).leader = (s.insts i).leader := by
  unfold hbPing
  simp only
  split
  · exact ⟨Frame.refl s, fun _ _ => rfl, rfl⟩
  · refine ⟨?_, fun j hj => ?_, ?_⟩
    · apply Frame.nf; exact Frame.upd s i _ (fun _ => rfl)
    · simp [hj]
    · simp

theorem hbRemove_props (s : State) (i : Id) :
    Frame s (hbRemove s i) ∧ (∀ j, j ≠ i → (hbRemove s i).insts j = s.insts j) ∧
    ((hbRemove s i).insts i).leader = (s.insts i).leader := by
  unfold hbRemove
  simp only
  split
  · exact ⟨Frame.refl s, fun _ _ => rfl, rfl⟩
  · refine ⟨?_, fun j hj => ?_, ?_⟩
    · apply Frame.nf; exact Frame.upd s i _ (fun _ => rfl)
    · simp [hj]
    · simp

/-- ping pass + remove pass of `i`: only `services` and `pending` of `i` are written -/
theorem hbPR_props (s : State) (i : Id) :
    Frame s (hbRemove (hbPing s i) i) ∧ (∀ j, j ≠ i → (hbRemove (hbPing s i) i).insts j = s.insts j) ∧
    ((hbRemove (hbPing s i) i).insts i).leader = (s.insts i).leader := by
  obtain ⟨h1, h2, h3⟩ := hbPing_props s i
  obtain ⟨k1, k2, k3⟩ := hbRemove_props (hbPing s i) i
  exact ⟨h1.trans k1, fun j hj => (k2 j hj).trans (h2 j hj), k3.trans h3⟩

theorem hbFollow_ok {t : State} {i : Id} {c : Client} (hc : (t.insts i).leader = some c)
    (hb : c.broken = false) : hbFollow t i = t := by
  unfold hbFollow
  simp only [hc, hb]
  rfl

theorem hbFollow_rereg {t : State} {i : Id} {c : Client} (hc : (t.insts i).leader = some c)
    (hb : c.broken = true) (hLa : (t.insts c.target).alive = true) (hia : (t.insts i).alive = true)
    (hnet : t.blocked = []) :
    hbFollow t i = nf ((t.upd i fun x => { x with leader := some { c with broken := false } }).upd c.target
      fun x => { x with services := addSvc { name := i, jt := (t.insts i).jt, conn := { target := i } } x.services }) := by
  unfold hbFollow
  simp only [hc, hb, canDial_of hnet, hLa, Bool.not_true, Bool.false_eq_true, if_false]
  rw [registerAt_some]
  · simp
  · simp only [upd_insts]; split <;> simp [hLa]
  · simp [canDial, blockedB, hnet, hia]

theorem hb_alive {t : State} {i : Id} (hia : (t.insts i).alive = true) :
    hb t i = hbRemove (hbPing (hbFollow t i) i) i := by
  unfold hb
  simp [hia]

/-- one heartbeat body of a live follower whose `leaderService` points at the live leader `L` -/
theorem hb_follower {t : State} {L i : Id} (hLa : (t.insts L).alive = true) (hnet : t.blocked = [])
    (hia : (t.insts i).alive = true) (hiL : i ≠ L) {c : Client} (hc : (t.insts i).leader = some c)
    (hct : c.target = L) (hcr : c.broken = true ∨ Reg t L i) :
    Frame t (hb t i) ∧ ((hb t i).insts L).pending = (t.insts L).pending ∧
    (∀ j, j ≠ i → ((hb t i).insts j).leader = (t.insts j).leader) ∧
    (∃ c', ((hb t i).insts i).leader = some c' ∧ c'.target = L) ∧
    Reg (hb t i) L i ∧ ∀ j, Reg t L j → Reg (hb t i) L j := by
  rw [hb_alive hia]
  obtain ⟨f1, f2, f3⟩ := hbPR_props (hbFollow t i) i
  have hLi : L ≠ i := Ne.symm hiL
  cases hb : c.broken with
  | false =>
    have hreg : Reg t L i := by
      rcases hcr with h | h
      · rw [hb] at h; cases h
      · exact h
    rw [hbFollow_ok hc hb] at f1 f2 f3 ⊢
    have hmono : ∀ j, Reg t L j → Reg (hbRemove (hbPing t i) i) L j := fun j =>
      Reg.mono (f1.jt j) (fun v hv _ _ => by rw [f2 L hLi]; exact hv)
    refine ⟨f1, by rw [f2 L hLi], fun j hj => by rw [f2 j hj], ⟨c, f3.trans hc, hct⟩, hmono i hreg, hmono⟩
  | true =>
    subst hct
    have he := hbFollow_rereg hc hb hLa hia hnet
    have g1 : Frame t (hbFollow t i) := by
      rw [he]
      apply Frame.nf
      refine Frame.upd' ?_ _ _ (fun _ => rfl)
      exact Frame.upd t i _ (fun _ => rfl)
    have g2 : ((hbFollow t i).insts c.target).pending = (t.insts c.target).pending := by
      rw [he]; simp [hLi]
    have g3 : ∀ j, j ≠ i → ((hbFollow t i).insts j).leader = (t.insts j).leader := by
      intro j hj
      rw [he]; simp only [nf_insts, upd_insts, hj, if_false]
      split <;> rfl
    have g4 : ((hbFollow t i).insts i).leader = some { c with broken := false } := by
      rw [he]; simp [hiL]
    have g5 : ((hbFollow t i).insts c.target).services =
        addSvc { name := i, jt := (t.insts i).jt, conn := { target := i } } (t.insts c.target).services := by
      rw [he]; simp [hLi]
    have hF := g1.trans f1
    refine ⟨hF, by rw [f2 _ hLi, g2], fun j hj => by rw [f2 j hj, g3 j hj], ⟨_, f3.trans g4, rfl⟩, ?_, ?_⟩
    · refine ⟨{ name := i, jt := (t.insts i).jt, conn := { target := i } }, ?_, rfl, (hF.jt i).symm, rfl⟩
      rw [f2 _ hLi, g5]
      exact mem_addSvc_self _ _
    · intro j hj
      by_cases hji : j = i
      · subst hji
        refine ⟨{ name := j, jt := (t.insts j).jt, conn := { target := j } }, ?_, rfl, (hF.jt j).symm, rfl⟩
        rw [f2 _ hLi, g5]
        exact mem_addSvc_self _ _
      · refine Reg.mono (hF.jt j) (fun v hv hn _ => ?_) hj
        rw [f2 _ hLi, g5]
        exact mem_addSvc_of_ne hv (by rw [hn]; exact hji)

/-- the hypothesis of convergence as it is carried through the follower heartbeats -/
structure Rec' (t : State) (L : Id) : Prop where
  alive : (t.insts L).alive = true
  net : t.blocked = []
  idle : (t.insts L).pending = []
  followers : ∀ i, (t.insts i).alive = true → i ≠ L →
    ∃ c, (t.insts i).leader = some c ∧ c.target = L ∧ (c.broken = true ∨ Reg t L i)

theorem rec_hb_order (L : Id) (order : List Id) (t : State) (hr : Rec' t L)
    (ho : ∀ i, i ∈ order → (t.insts i).alive = true ∧ i ≠ L) :
    Frame t (run t (order.map Action.hb)) ∧ Rec' (run t (order.map Action.hb)) L ∧
    (∀ j, Reg t L j → Reg (run t (order.map Action.hb)) L j) ∧
    ∀ i, i ∈ order → Reg (run t (order.map Action.hb)) L i := by
  induction order generalizing t with
  | nil => exact ⟨Frame.refl t, hr, fun _ h => h, fun i hi => by cases hi⟩
  | cons i r ih =>
    obtain ⟨hia, hiL⟩ := ho i mem_cons_self
    obtain ⟨c, hc, hct, hcr⟩ := hr.followers i hia hiL
    obtain ⟨k1, k2, k3, ⟨c', k4, k4'⟩, k5, k6⟩ := hb_follower hr.alive hr.net hia hiL hc hct hcr
    have hr' : Rec' (hb t i) L := by
      refine ⟨(k1.alive L).trans hr.alive, k1.blocked.trans hr.net, k2.trans hr.idle, fun j hja hjL => ?_⟩
      by_cases hji : j = i
      · subst hji
        exact ⟨c', k4, k4', Or.inr k5⟩
      · rw [k1.alive j] at hja
        obtain ⟨d, hd, hdt, hdr⟩ := hr.followers j hja hjL
        exact ⟨d, (k3 j hji).trans hd, hdt, hdr.imp id (k6 j)⟩
    obtain ⟨m1, m2, m3, m4⟩ := ih (hb t i) hr'
      (fun j hj => by rw [k1.alive j]; exact ho j (mem_cons_of_mem _ hj))
    simp only [map_cons, run, step]
    refine ⟨k1.trans m1, m2, fun j hj => m3 j (k6 j hj), fun j hj => ?_⟩
    rcases mem_cons.1 hj with rfl | hj
    · exact m3 _ k5
    · exact m4 j hj

theorem hbFollow_self {t : State} (hwf : WF t) (i : Id) :
    Frame t (hbFollow t i) ∧ ((hbFollow t i).insts i).services = (t.insts i).services ∧
    ((hbFollow t i).insts i).pending = (t.insts i).pending := by
  unfold hbFollow
  simp only
  split
  · exact ⟨Frame.refl t, rfl, rfl⟩
  · rename_i c hc
    have hti := hwf.ldTarget i c hc
    split
    · exact ⟨Frame.refl t, rfl, rfl⟩
    · split
      · exact ⟨Frame.refl t, rfl, rfl⟩
      · split
        · rename_i s2 hr
          obtain ⟨rfl, -, -⟩ := registerAt_eq hr
          refine ⟨?_, by simp [Ne.symm hti], by simp [Ne.symm hti]⟩
          apply Frame.nf
          refine Frame.upd' ?_ _ _ (fun _ => rfl)
          exact Frame.upd t i _ (fun _ => rfl)
        · refine ⟨?_, by simp, by simp⟩
          apply Frame.nf
          exact Frame.upd t i _ (fun _ => rfl)

theorem hbPR_leader {u : State} {L : Id} (hnd : ((u.insts L).services.map (·.name)).Nodup)
    (hidle : (u.insts L).pending = []) :
    ((hbRemove (hbPing u L) L).insts L).services = (u.insts L).services.filter (fun v => !v.conn.broken) := by
  unfold hbPing
  simp only [hidle, isEmpty_nil, Bool.and_true]
  by_cases hp : (map (·.name) (filter (fun v => v.conn.broken) (u.insts L).services)).isEmpty = true
  · rw [if_pos hp]
    unfold hbRemove
    simp only [hidle, isEmpty_nil, if_true]
    symm
    rw [filter_eq_self]
    intro v hv
    rw [isEmpty_iff, map_eq_nil_iff, filter_eq_nil_iff] at hp
    simpa using hp v hv
  · rw [if_neg hp]
    unfold hbRemove
    simp only [nf_insts, upd_insts, if_true]
    rw [if_neg hp]
    simp only [nf_insts, upd_insts, if_true]
    apply filter_congr
    intro v hv
    cases hb : v.conn.broken with
    | true =>
      have : v.name ∈ map (fun x => x.name) (filter (fun v => v.conn.broken) (u.insts L).services) :=
        mem_map.2 ⟨v, mem_filter.2 ⟨hv, hb⟩, rfl⟩
      simpa using this
    | false =>
      have : v.name ∉ map (fun x => x.name) (filter (fun v => v.conn.broken) (u.insts L).services) := by
        intro hm
        obtain ⟨w, hw, hwn⟩ := mem_map.1 hm
        rw [mem_filter] at hw
        have := inj_of_nodup_map (·.name) hnd hw.1 hv hwn
        rw [this, hb] at hw
        exact absurd hw.2 (by simp)
      simpa using this

theorem mon_frame (s : State) (i : Id) : Frame s (mon s i) :=
  let h := (mon_infoOnly s i).frame
  ⟨h.n, h.holder, h.blocked, h.core⟩

theorem mon_services (s : State) (i j : Id) : ((mon s i).insts j).services = (s.insts j).services :=
  (mon_infoOnly s i).services j

theorem run_append (s : State) (a b : List Action) : run s (a ++ b) = run (run s a) b := by
  induction a generalizing s with
  | nil => rfl
  | cons x r ih => exact ih _

/-- the last two loop bodies: the leader's heartbeat drops exactly the dead entries, its monitor round is complete -/
theorem finish {t : State} {L : Id} (hwf : WF t) (lt : L < t.n) (ha : (t.insts L).alive = true)
    (hl : (t.insts L).amLeader = true) (hh : t.holder = some (L, (t.insts L).jt))
    (hidle : (t.insts L).pending = [])
    (hobs : ∀ i, i < t.n → (t.insts i).alive = true → (t.insts i).reported = t.holder)
    (hreg : ∀ i, i < t.n → (t.insts i).alive = true → i ≠ L → Reg t L i) :
    Quiescent (run t [Action.hb L, Action.mon L]) L ∧ Frame t (run t [Action.hb L, Action.mon L]) := by
  simp only [run, step]
  rw [hb_alive ha]
  obtain ⟨g1, g2, g3⟩ := hbFollow_self hwf L
  have hwu := wf_hbFollow hwf L
  obtain ⟨f1, -, -⟩ := hbPR_props (hbFollow t L) L
  have f2 := hbPR_leader (hwu.svcNodup L) (g3.trans hidle)
  have F2 : Frame t (hbRemove (hbPing (hbFollow t L) L) L) := g1.trans f1
  have F : Frame t (mon (hbRemove (hbPing (hbFollow t L) L) L) L) := F2.trans (mon_frame _ L)
  have hsv : ((mon (hbRemove (hbPing (hbFollow t L) L) L) L).insts L).services =
      (t.insts L).services.filter (fun v => !v.conn.broken) := by
    rw [mon_services, f2, g2]
  refine ⟨⟨?_, ?_, ?_, ?_, ?_, ?_, ?_⟩, F⟩
  · rw [F.n]; exact lt
  · rw [F.alive]; exact ha
  · rw [F.amLeader]; exact hl
  · rw [F.holder, F.jt]; exact hh
  · rw [mon_eq ((F2.alive L).trans ha) ((F2.amLeader L).trans hl)]
    show (decide _ && _) = true
    rw [Bool.and_eq_true, decide_eq_true_eq]
    refine ⟨by rw [F2.holder, F2.jt]; exact hh, ?_⟩
    rw [f2, all_eq_true]
    intro v hv
    exact (mem_filter.1 hv).2
  · intro i hi hia
    rw [F.n] at hi
    rw [F.alive] at hia
    rw [F.reported, F.holder]
    exact hobs i hi hia
  · intro i hi hia hiL
    rw [F.n] at hi
    rw [F.alive] at hia
    obtain ⟨v, hv, hn, hj, hb⟩ := hreg i hi hia hiL
    refine ⟨v, ?_, hn, by rw [F.jt]; exact hj, hb⟩
    rw [hsv, mem_filter]
    exact ⟨hv, by simp [hb]⟩

theorem mem_order_iff {s : State} {L : Id} {order : List Id} (hperm : order ~ (liveIds s).erase L) (i : Id) :
    i ∈ order ↔ i ≠ L ∧ i < s.n ∧ (s.insts i).alive = true := by
  rw [hperm.mem_iff, (nodup_liveIds s).mem_erase_iff, mem_liveIds]

/-- **C10 `ha_convergence_bounded`.**  From ANY reachable state that is `Recoverable` (live set fixed from
here on, lease holder `L`): the heartbeat body of every live follower once, in ANY order `order`, then the
heartbeat body of the leader once, then ONE monitor body of the leader - `|live| + 1` loop bodies, i.e. every
loop of `service_discovery.go` went round at most once (one 5 s period) - reach a quiescent state: a dead
instance is dropped and a (re)started or reconnecting live one is admitted within ONE monitor round. -/
theorem ha_convergence_bounded (n : Nat) (acts : List Action) (L : Id) (order : List Id)
    (hr : Recoverable (run (init n) acts) L)
    (hperm : order ~ (liveIds (run (init n) acts)).erase L) :
    let s := run (init n) acts
    let rounds := order.map Action.hb ++ [Action.hb L, Action.mon L]
    Quiescent (run s rounds) L ∧ rounds.length = (liveIds s).length + 1 ∧
      liveIds (run s rounds) = liveIds s := by
  intro s
  dsimp only
  have hwf : WF s := wf_run _ acts (wf_init n)
  have hrec : Rec' s L := ⟨hr.alive, hr.net, hr.idle L, fun i hia hiL =>
    hr.followers i (hwf.aliveLt i hia) hia hiL⟩
  obtain ⟨m1, m2, -, m4⟩ := rec_hb_order L order s hrec
    (fun i hi => ⟨((mem_order_iff hperm i).1 hi).2.2, ((mem_order_iff hperm i).1 hi).1⟩)
  rw [run_append]
  obtain ⟨hq, F⟩ := finish (L := L) (wf_run s _ hwf) (by rw [m1.n]; exact hr.lt)
    ((m1.alive L).trans hr.alive) ((m1.amLeader L).trans hr.leading)
    (by rw [m1.holder, m1.jt]; exact hr.holder) m2.idle
    (fun i hi hia => by
      rw [m1.n] at hi; rw [m1.alive] at hia
      rw [m1.reported, m1.holder]; exact hr.observed i hi hia)
    (fun i hi hia hiL => by
      rw [m1.n] at hi; rw [m1.alive] at hia
      exact m4 i ((mem_order_iff hperm i).2 ⟨hiL, hi, hia⟩))
  refine ⟨hq, ?_, (m1.trans F).liveIds⟩
  have hLlive : L ∈ liveIds s := mem_liveIds.2 ⟨hr.lt, hr.alive⟩
  have := length_pos_of_mem hLlive
  have hl : order.length = (liveIds s).length - 1 := by
    rw [hperm.length_eq]; exact length_erase_of_mem hLlive
  simp only [length_append, length_map, length_cons, length_nil, hl]
  omega

/-! ### election callbacks -/

theorem observe_follower_eq {t : State} {i L : Id} {jtL : Int} (hia : (t.insts i).alive = true)
    (hel : (t.insts i).el ≠ El.stopped) (hh : t.holder = some (L, jtL))
    (hrep : (t.insts i).reported ≠ some (L, jtL)) (hLi : L ≠ i) (hLa : (t.insts L).alive = true)
    (hnet : t.blocked = []) :
    observe t i = nf ((((t.upd i fun x => { x with reported := some (L, jtL) }).upd i
      fun x => { x with role := .follower, amLeader := false, services := [], leader := none }).upd i
      fun x => { x with leader := some { target := L } }).upd L
      fun x => { x with services := addSvc { name := i, jt := (t.insts i).jt, conn := { target := i } } x.services }) := by
  unfold observe
  simp only [hia, hh, hrep, hLi, Bool.not_true, Bool.false_or, beq_iff_eq, hel, if_false]
  rw [if_neg, registerAt_some]
  · simp
  · simp [hLi, hLa]
  · simp [canDial, blockedB, hnet, hia]
  · simp [canDial, blockedB, hnet, hLi, hLa]

/-- what `observe` of another instance leaves alone -/
def side (x : Inst) : El × Option (Id × Int) × Bool × List Id := (x.el, x.reported, x.amLeader, x.pending)

/-- one `OnNewLeader(L)` callback in a live instance `i ≠ L` that has not reported `L` yet -/
theorem observe_follower {t : State} {i L : Id} {jtL : Int} (hia : (t.insts i).alive = true)
    (hel : (t.insts i).el ≠ El.stopped) (hh : t.holder = some (L, jtL))
    (hrep : (t.insts i).reported ≠ some (L, jtL)) (hLi : L ≠ i) (hLa : (t.insts L).alive = true)
    (hnet : t.blocked = []) :
    (observe t i).n = t.n ∧ (observe t i).holder = t.holder ∧ (observe t i).blocked = t.blocked ∧
    (∀ j, ((observe t i).insts j).alive = (t.insts j).alive ∧ ((observe t i).insts j).jt = (t.insts j).jt) ∧
    (∀ j, j ≠ i → side ((observe t i).insts j) = side (t.insts j)) ∧
    ((observe t i).insts i).reported = some (L, jtL) ∧
    Reg (observe t i) L i ∧ ∀ j, Reg t L j → Reg (observe t i) L j := by
  have he := observe_follower_eq hia hel hh hrep hLi hLa hnet
  have hjt : ∀ j, ((observe t i).insts j).alive = (t.insts j).alive ∧
      ((observe t i).insts j).jt = (t.insts j).jt := by
    intro j
    rw [he]
    by_cases hjL : j = L <;> by_cases hji : j = i <;> simp [hjL, hji, hLi, Ne.symm hLi]
  have hsv : ((observe t i).insts L).services =
      addSvc { name := i, jt := (t.insts i).jt, conn := { target := i } } (t.insts L).services := by
    rw [he]; simp [hLi]
  refine ⟨by rw [he]; rfl, by rw [he]; rfl, by rw [he]; rfl, hjt, ?_, ?_, ?_, ?_⟩
  · intro j hji
    rw [he]
    by_cases hjL : j = L <;> simp [hjL, hji, hLi, side]
  · rw [he]
    simp [Ne.symm hLi]
  · refine ⟨{ name := i, jt := (t.insts i).jt, conn := { target := i } }, ?_, rfl, (hjt i).2.symm, rfl⟩
    rw [hsv]
    exact mem_addSvc_self _ _
  · intro j hj
    by_cases hji : j = i
    · subst hji
      refine ⟨{ name := j, jt := (t.insts j).jt, conn := { target := j } }, ?_, rfl, (hjt j).2.symm, rfl⟩
      rw [hsv]
      exact mem_addSvc_self _ _
    · refine Reg.mono (hjt j).2 (fun v hv hn _ => ?_) hj
      rw [hsv]
      exact mem_addSvc_of_ne hv (by rw [hn]; exact hji)

theorem obs_order (L : Id) (jtL : Int) (order : List Id) (t : State) (hh : t.holder = some (L, jtL))
    (hLa : (t.insts L).alive = true) (hnet : t.blocked = []) (hnd : order.Nodup)
    (ho : ∀ i, i ∈ order → (t.insts i).alive = true ∧ i ≠ L ∧ (t.insts i).el ≠ El.stopped ∧
      (t.insts i).reported ≠ some (L, jtL)) :
    (run t (order.map Action.observe)).n = t.n ∧ (run t (order.map Action.observe)).holder = t.holder ∧
    (∀ j, ((run t (order.map Action.observe)).insts j).alive = (t.insts j).alive ∧
      ((run t (order.map Action.observe)).insts j).jt = (t.insts j).jt) ∧
    (∀ j, j ∉ order → side ((run t (order.map Action.observe)).insts j) = side (t.insts j)) ∧
    (∀ i, i ∈ order → ((run t (order.map Action.observe)).insts i).reported = some (L, jtL) ∧
      Reg (run t (order.map Action.observe)) L i) ∧
    ∀ j, Reg t L j → Reg (run t (order.map Action.observe)) L j := by
  induction order generalizing t with
  | nil => exact ⟨rfl, rfl, fun _ => ⟨rfl, rfl⟩, fun _ _ => rfl, fun i hi => (by cases hi), fun _ h => h⟩
  | cons i r ih =>
    rw [nodup_cons] at hnd
    obtain ⟨hia, hiL, hel, hrep⟩ := ho i mem_cons_self
    obtain ⟨k1, k2, k3, k4, k5, k6, k7, k8⟩ := observe_follower hia hel hh hrep (Ne.symm hiL) hLa hnet
    obtain ⟨m1, m2, m3, m4, m5, m6⟩ := ih (observe t i) (k2.trans hh) ((k4 L).1.trans hLa) (k3.trans hnet) hnd.2
      (fun j hj => by
        have hji : j ≠ i := fun e => hnd.1 (e ▸ hj)
        obtain ⟨h1, h2, h3, h4⟩ := ho j (mem_cons_of_mem _ hj)
        have hs := k5 j hji
        simp only [side, Prod.mk.injEq] at hs
        rw [(k4 j).1, hs.1, hs.2.1]
        exact ⟨h1, h2, h3, h4⟩)
    simp only [map_cons, run, step]
    refine ⟨m1.trans k1, m2.trans k2, fun j => ⟨(m3 j).1.trans (k4 j).1, (m3 j).2.trans (k4 j).2⟩, ?_, ?_,
      fun j hj => m6 j (k8 j hj)⟩
    · intro j hj
      rw [mem_cons, not_or] at hj
      exact (m4 j hj.2).trans (k5 j hj.1)
    · intro j hj
      rcases mem_cons.1 hj with rfl | hj
      · refine ⟨?_, m6 _ k7⟩
        have hs := m4 j hnd.1
        simp only [side, Prod.mk.injEq] at hs
        rw [hs.2.1]; exact k6
      · exact m5 j hj


theorem lead_eq {s : State} {L : Id} (ha : (s.insts L).alive = true) :
    lead s L = nf (s.upd L fun x => { x with role := .leader, amLeader := true, leader := none }) := by
  unfold lead
  simp [ha]

/-- the same when the election has just happened and its callbacks are still to be delivered: `L` acquired the
    lease (the record names it, `L` has reported itself), every other live instance has a running elector that has not
    reported `L` yet.  Promotion callback, one `OnNewLeader` callback per live follower (any order), one heartbeat
    body and one monitor body of the leader reach a quiescent state: whatever the state was before the election. -/
theorem ha_convergence_after_election (n : Nat) (acts : List Action) (L : Id) (order : List Id)
    (hlt : L < n)
    (halive : ((run (init n) acts).insts L).alive = true)
    (hrep : ((run (init n) acts).insts L).reported = (run (init n) acts).holder)
    (hholder : (run (init n) acts).holder = some (L, ((run (init n) acts).insts L).jt))
    (hnet : (run (init n) acts).blocked = [])
    (hidle : ((run (init n) acts).insts L).pending = [])
    (hpending : ∀ i, ((run (init n) acts).insts i).alive = true → i ≠ L →
      ((run (init n) acts).insts i).el ≠ El.stopped ∧
        ((run (init n) acts).insts i).reported ≠ (run (init n) acts).holder)
    (hperm : order ~ (liveIds (run (init n) acts)).erase L) :
    let s := run (init n) acts
    Quiescent (run s ([Action.lead L] ++ order.map Action.observe ++ [Action.hb L, Action.mon L])) L := by
  intro s
  have hwf : WF s := wf_run _ acts (wf_init n)
  have hLn : L < s.n := hwf.aliveLt L halive
  have he1 : lead s L = nf (s.upd L fun x => { x with role := .leader, amLeader := true, leader := none }) :=
    lead_eq halive
  have hwf1 : WF (lead s L) := wf_step s (Action.lead L) hwf
  have a1 : ∀ j, ((lead s L).insts j).alive = (s.insts j).alive ∧ ((lead s L).insts j).jt = (s.insts j).jt := by
    intro j; rw [he1]; by_cases hj : j = L <;> simp [hj]
  have a2 : ∀ j, j ≠ L → (lead s L).insts j = s.insts j := by
    intro j hj; rw [he1]; simp [hj]
  have a3 : ((lead s L).insts L).amLeader = true ∧ ((lead s L).insts L).pending = (s.insts L).pending ∧
      ((lead s L).insts L).reported = (s.insts L).reported := by
    rw [he1]; simp
  have a4 : (lead s L).n = s.n ∧ (lead s L).holder = s.holder ∧ (lead s L).blocked = s.blocked := by
    rw [he1]; exact ⟨rfl, rfl, rfl⟩
  have hnd : order.Nodup := hperm.nodup_iff.2 ((nodup_liveIds s).erase L)
  obtain ⟨m1, m2, m3, m4, m5, -⟩ := obs_order L (s.insts L).jt order (lead s L) (a4.2.1.trans hholder)
    ((a1 L).1.trans halive) (a4.2.2.trans hnet) hnd
    (fun i hi => by
      obtain ⟨hiL, _, hia⟩ := (mem_order_iff hperm i).1 hi
      obtain ⟨h1, h2⟩ := hpending i hia hiL
      rw [a2 i hiL]
      exact ⟨hia, hiL, h1, fun e => h2 (e.trans hholder.symm)⟩)
  have hLo : L ∉ order := fun h => ((mem_order_iff hperm L).1 h).1 rfl
  have hsL := m4 L hLo
  simp only [side, Prod.mk.injEq] at hsL
  rw [run_append, run_append]
  show Quiescent (run (run (lead s L) (order.map Action.observe)) [Action.hb L, Action.mon L]) L
  refine (finish (L := L) (wf_run _ _ hwf1) (by rw [m1, a4.1]; exact hLn) ((m3 L).1.trans ((a1 L).1.trans halive))
    (hsL.2.2.1.trans a3.1) (by rw [m2, a4.2.1, (m3 L).2, (a1 L).2]; exact hholder)
    (hsL.2.2.2.trans (a3.2.1.trans hidle)) ?_ ?_).1
  · intro i hi hia
    rw [m1, a4.1] at hi
    rw [(m3 i).1, (a1 i).1] at hia
    rw [m2, a4.2.1]
    by_cases hiL : i = L
    · subst hiL
      rw [hsL.2.1, a3.2.2]; exact hrep
    · rw [(m5 i ((mem_order_iff hperm i).2 ⟨hiL, hi, hia⟩)).1]; exact hholder.symm
  · intro i hi hia hiL
    rw [m1, a4.1] at hi
    rw [(m3 i).1, (a1 i).1] at hia
    exact (m5 i ((mem_order_iff hperm i).2 ⟨hiL, hi, hia⟩)).2

/-! ### after the repair of finding F17: `leaderService` is kept, a partitioned follower comes back by itself -/

/-- the follower part of the heartbeat body never drops `leaderService` any more (code after commit 39ec43d) -/
theorem hbFollow_keeps_leader (s : State) (i : Id) (h : ((s.insts i).leader).isSome = true) :
    (((hbFollow s i).insts i).leader).isSome = true := by
  unfold hbFollow
  simp only
  split
  · exact h
  · split
    · exact h
    · split
      · exact h
      · split
        · rename_i s2 hr
          obtain ⟨rfl, -, -⟩ := registerAt_eq hr
          simp only [nf_insts, upd_insts, if_true]
          split <;> rfl
        · simp

/-- with distinct names `Add` REPLACES the entry of the same name -/
theorem of_mem_addSvc_nodup {v w : Svc} {l : List Svc} (hn : (l.map (·.name)).Nodup) (hw : w ∈ addSvc v l) :
    w = v ∨ (w ∈ l ∧ w.name ≠ v.name) := by
  induction l with
  | nil => simp only [addSvc, mem_singleton] at hw; exact Or.inl hw
  | cons x r ih =>
    rw [map_cons, nodup_cons] at hn
    simp only [addSvc] at hw
    split at hw
    · rename_i hx
      rcases mem_cons.1 hw with h | h
      · exact Or.inl h
      · refine Or.inr ⟨mem_cons_of_mem _ h, fun e => hn.1 ?_⟩
        rw [hx, ← e]
        exact mem_map_of_mem h
    · rename_i hx
      rcases mem_cons.1 hw with h | h
      · exact Or.inr ⟨h ▸ mem_cons_self, h ▸ hx⟩
      · rcases ih hn.2 h with h | h
        · exact Or.inl h
        · exact Or.inr ⟨mem_cons_of_mem _ h.1, h.2⟩

/-- ONE monitor body of a leader whose entries all work, cover every live follower, and whose lease everybody observed -/
theorem finish_mon {t : State} {L : Id} (lt : L < t.n) (ha : (t.insts L).alive = true)
    (hl : (t.insts L).amLeader = true) (hh : t.holder = some (L, (t.insts L).jt))
    (hall : ∀ v, v ∈ (t.insts L).services → v.conn.broken = false)
    (hobs : ∀ i, i < t.n → (t.insts i).alive = true → (t.insts i).reported = t.holder)
    (hreg : ∀ i, i < t.n → (t.insts i).alive = true → i ≠ L → Reg t L i) :
    Quiescent (mon t L) L ∧ Frame t (mon t L) := by
  have F := mon_frame t L
  refine ⟨⟨?_, ?_, ?_, ?_, ?_, ?_, ?_⟩, F⟩
  · rw [F.n]; exact lt
  · rw [F.alive]; exact ha
  · rw [F.amLeader]; exact hl
  · rw [F.holder, F.jt]; exact hh
  · rw [mon_eq ha hl]
    show (decide _ && _) = true
    rw [Bool.and_eq_true, decide_eq_true_eq, all_eq_true]
    exact ⟨hh, fun v hv => by simp [hall v hv]⟩
  · intro i hi hia
    rw [F.n] at hi
    rw [F.alive] at hia
    rw [F.reported, F.holder]
    exact hobs i hi hia
  · intro i hi hia hiL
    rw [F.n] at hi
    rw [F.alive] at hia
    obtain ⟨v, hv, hn, hj, hb⟩ := hreg i hi hia hiL
    exact ⟨v, by rw [mon_services]; exact hv, hn, by rw [F.jt]; exact hj, hb⟩

/-- a live follower `F` lost its registration through failed heartbeat bodies while it could not reach the leader
    (its `leaderService` is kept, the connection under it is gone; the leader has dropped or still holds a dead entry
    for it), the network lets connections through again, everybody else is settled -/
structure PartitionHealed (s : State) (L F : Id) : Prop where
  lt : L < s.n
  alive : (s.insts L).alive = true
  leading : (s.insts L).amLeader = true
  holder : s.holder = some (L, (s.insts L).jt)
  net : s.blocked = []
  observed : ∀ i, i < s.n → (s.insts i).alive = true → (s.insts i).reported = s.holder
  fLt : F < s.n
  fAlive : (s.insts F).alive = true
  fNe : F ≠ L
  fLeader : ∃ c, (s.insts F).leader = some c ∧ c.target = L ∧ c.broken = true
  others : ∀ i, i < s.n → (s.insts i).alive = true → i ≠ L → i ≠ F →
    ∃ v ∈ (s.insts L).services, v.name = i ∧ v.jt = (s.insts i).jt ∧ v.conn.broken = false
  clean : ∀ v ∈ (s.insts L).services, v.name ≠ F → v.conn.broken = false

/-- **C10 `ha_partition_heals`** (finding F17, fixed): ONE heartbeat body of the follower and ONE monitor body of the
leader - two loop bodies - make the state quiescent again: the follower is numbered one period after the network heals. -/
theorem ha_partition_heals (n : Nat) (acts : List Action) (L F : Id)
    (h : PartitionHealed (run (init n) acts) L F) :
    let s := run (init n) acts
    let bodies := [Action.hb F, Action.mon L]
    Quiescent (run s bodies) L ∧ bodies.length = 2 ∧ liveIds (run s bodies) = liveIds s := by
  intro s
  dsimp only
  have hwf : WF s := wf_run _ acts (wf_init n)
  obtain ⟨c, hc, hct, hcb⟩ := h.fLeader
  subst hct
  have hLF : c.target ≠ F := Ne.symm h.fNe
  simp only [run, step]
  rw [hb_alive h.fAlive]
  obtain ⟨f1, f2, -⟩ := hbPR_props (hbFollow s F) F
  have he := hbFollow_rereg hc hcb h.alive h.fAlive h.net
  have g1 : Frame s (hbFollow s F) := by
    rw [he]
    apply Frame.nf
    refine Frame.upd' ?_ _ _ (fun _ => rfl)
    exact Frame.upd s F _ (fun _ => rfl)
  have g5 : ((hbFollow s F).insts c.target).services =
      addSvc { name := F, jt := (s.insts F).jt, conn := { target := F } } (s.insts c.target).services := by
    rw [he]; simp [hLF]; rfl
  have F1 : Frame s (hbRemove (hbPing (hbFollow s F) F) F) := g1.trans f1
  have hsv : ((hbRemove (hbPing (hbFollow s F) F) F).insts c.target).services =
      addSvc { name := F, jt := (s.insts F).jt, conn := { target := F } } (s.insts c.target).services := by
    rw [f2 _ hLF, g5]
  obtain ⟨hq, F2⟩ := finish_mon (t := hbRemove (hbPing (hbFollow s F) F) F) (L := c.target)
    (by rw [F1.n]; exact h.lt) ((F1.alive _).trans h.alive) ((F1.amLeader _).trans h.leading)
    (by rw [F1.holder, F1.jt]; exact h.holder)
    (fun v hv => by
      rw [hsv] at hv
      rcases of_mem_addSvc_nodup (hwf.svcNodup _) hv with rfl | ⟨hv, hne⟩
      · rfl
      · exact h.clean v hv hne)
    (fun i hi hia => by
      rw [F1.n] at hi; rw [F1.alive] at hia
      rw [F1.reported, F1.holder]; exact h.observed i hi hia)
    (fun i hi hia hiL => by
      rw [F1.n] at hi; rw [F1.alive] at hia
      by_cases hiF : i = F
      · subst hiF
        refine ⟨{ name := i, jt := (s.insts i).jt, conn := { target := i } }, ?_, rfl, (F1.jt i).symm, rfl⟩
        rw [hsv]
        exact mem_addSvc_self _ _
      · obtain ⟨v, hv, hn, hj, hb⟩ := h.others i hi hia hiL hiF
        refine ⟨v, ?_, hn, by rw [F1.jt]; exact hj, hb⟩
        rw [hsv]
        exact mem_addSvc_of_ne hv (by rw [hn]; exact hiF))
  exact ⟨hq, rfl, (F1.trans F2).liveIds⟩

end GoDcp.HaMembership
