import GoDcp.Props.C03
/-!
# C01 — the durable checkpoint never runs ahead of what the consumer settled

Clause (a) (`C01a`): whatever a step makes durable was, in the same session, an
announced position of that vBucket (a stream request of `Open`, of a rebalance or
of a transient reopen, or a `TrackOffset` notification).  `track_only_from_settle`: notifications come only
from an acknowledgement of a delivered event or from an absorbed event.

Clause (b) (restart never skips a delivered but unsettled event):
`C01b_full_refuted` (finding F3) and `C01b_partial`; the contexts survive a rebalance
(`step_inv_rebalance`), `C01b_rebalance_reset_refuted` shows the one case in which a
rebalance passes them (latest-reset start), excluded by `KF.C01_resetJump`.
-/
namespace GoDcp.C01
open GoDcp

/-! ## clause (a) -/

/-- positions announced by one output: stream requests and `TrackOffset` notifications -/
def announced (out : List Obsv) : List (Vb × Doc) :=
  out.filterMap fun
    | .openreq vb o => some (vb, o.toDoc)
    | .track vb o => some (vb, o.toDoc)
    | _ => none

/-- what one output made durable -/
def writtenDocs (out : List Obsv) : List (Vb × Doc) :=
  out.flatMap fun
    | .written docs => docs
    | _ => []

/-- ghost component: the positions announced so far in the current session
    (reset when the session number changes, i.e. at a successful `open` and at `crash`;
    a rebalance keeps the session – its stream requests are absorbed like any other announcement) -/
def ghostStep (g : List (Vb × Doc)) (s : St) (op : Op) : List (Vb × Doc) :=
  (if (step s op).1.sess = s.sess then g else []) ++ announced (step s op).2

def ghostRun (g : List (Vb × Doc)) (s : St) : List Op → List (Vb × Doc)
  | [] => g
  | op :: r => ghostRun (ghostStep g s op) (step s op).1 r

/-- the inductive invariant: every tracked position and every entry of every
    saver's dumped state was announced in the current session -/
def Announced (s : St) (g : List (Vb × Doc)) : Prop :=
  (∀ vb o, (vb, o) ∈ s.offsets → (vb, o.toDoc) ∈ g) ∧
  (∀ k st dirty, (k, SaverPc.dumped st dirty) ∈ s.savers → ∀ p ∈ st, p ∈ g)

theorem announced_mono {s : St} {g g' : List (Vb × Doc)} (h : Announced s g) (hs : ∀ p ∈ g, p ∈ g') :
    Announced s g' :=
  ⟨fun vb o hm => hs _ (h.1 vb o hm), fun k st d hm p hp => hs _ (h.2 k st d hm p hp)⟩

theorem mem_announced_track {out : List Obsv} {vb : Vb} {o : Offset} (h : Obsv.track vb o ∈ out) :
    (vb, o.toDoc) ∈ announced out := by
  unfold announced
  exact List.mem_filterMap.mpr ⟨_, h, rfl⟩

theorem mem_announced_openreq {out : List Obsv} {vb : Vb} {o : Offset} (h : Obsv.openreq vb o ∈ out) :
    (vb, o.toDoc) ∈ announced out := by
  unfold announced
  exact List.mem_filterMap.mpr ⟨_, h, rfl⟩

/-- a new entry of the offsets map is notified -/
theorem setOffset_mem (s : St) (vb : Vb) (o : Offset) (d : Bool) (p : Vb × Offset)
    (h : p ∈ (setOffset s vb o d).1.offsets) :
    p ∈ s.offsets ∨ (p = (vb, o) ∧ Obsv.track vb o ∈ (setOffset s vb o d).2) := by
  rw [setOffset_offsets] at h
  rw [setOffset_out]
  split at h
  · rename_i ha
    rcases AMap.mem_set h with h | h
    · right; simp [h, ha]
    · left; exact h
  · left; exact h

theorem listen_mem (s : St) (vb : Vb) (le : LEvent) (p : Vb × Offset)
    (h : p ∈ (listen s vb le).1.offsets) :
    p ∈ s.offsets ∨ Obsv.track p.1 p.2 ∈ (listen s vb le).2 := by
  cases le with
  | doc d off c t =>
    simp only [listen] at h ⊢
    split at h
    · rename_i hm
      simp only [hm, if_true]
      rcases setOffset_mem _ _ _ _ _ h with h' | ⟨rfl, ht⟩
      · exact Or.inl h'
      · exact Or.inr ht
    · exact Or.inl h
  | seqAdv off =>
    simp only [listen] at h ⊢
    rcases setOffset_mem _ _ _ _ _ h with h' | ⟨rfl, ht⟩
    · exact Or.inl h'
    · exact Or.inr ht
  | sys k off =>
    simp only [listen] at h ⊢
    rcases setOffset_mem _ _ _ _ _ h with h' | ⟨rfl, ht⟩
    · exact Or.inl h'
    · exact Or.inr ht
  | marker => exact Or.inl h
  | oso => exact Or.inl h

theorem evStep_mem (s : St) (vb : Vb) (e : SrvEv) (p : Vb × Offset)
    (h : p ∈ (evStep s vb e).1.offsets) :
    p ∈ s.offsets ∨ Obsv.track p.1 p.2 ∈ (evStep s vb e).2 := by
  cases ho : s.observers.get? vb with
  | none => rw [evStep_of_no_obs e ho] at h; exact Or.inl h
  | some o =>
    rw [evStep_of_obs e ho] at h ⊢
    generalize Obs.step s.cfg.obs o e = r at h ⊢
    obtain ⟨o', out⟩ := r
    cases out with
    | fwd le => exact listen_mem _ _ _ _ h
    | _ => exact Or.inl h

theorem mdWrite_subset (s : St) (st : List (Vb × Doc)) (d : List Vb) (res : StoreRes) :
    ∀ p ∈ (mdWrite s st d res).2, p ∈ st := by
  intro p hp
  unfold mdWrite at hp
  split at hp
  · simp at hp
  · cases res with
    | ok => exact (List.mem_filter.mp hp).1
    | fail => simp at hp
    | part ws => exact (List.mem_filter.mp (List.mem_filter.mp hp).1).1

theorem mem_dumpState {s : St} {p : Vb × Doc} (h : p ∈ dumpState s) :
    ∃ o, (p.1, o) ∈ s.offsets ∧ p.2 = o.toDoc := by
  unfold dumpState at h
  obtain ⟨⟨vb, o⟩, hm, rfl⟩ := List.mem_map.mp h
  exact ⟨o, hm, rfl⟩

theorem ghostStep_same {g : List (Vb × Doc)} {s : St} {op : Op} (hs : (step s op).1.sess = s.sess) :
    ghostStep g s op = g ++ announced (step s op).2 := by
  simp [ghostStep, hs]

theorem announced_frame {s s' : St} {g : List (Vb × Doc)} (out : List Obsv) (h : Announced s g)
    (ho : s'.offsets = s.offsets) (hv : s'.savers = s.savers) : Announced s' (g ++ announced out) := by
  refine ⟨fun vb o hm => ?_, fun k st d hm p hp => ?_⟩
  · rw [ho] at hm; exact List.mem_append_left _ (h.1 vb o hm)
  · rw [hv] at hm; exact List.mem_append_left _ (h.2 k st d hm p hp)

/-- offsets grow only by notified entries, savers keep their dumped states -/
theorem announced_grow {s s' : St} {g : List (Vb × Doc)} (out : List Obsv) (h : Announced s g)
    (ho : ∀ p ∈ s'.offsets, p ∈ s.offsets ∨ Obsv.track p.1 p.2 ∈ out)
    (hv : ∀ k st d, (k, SaverPc.dumped st d) ∈ s'.savers → (k, SaverPc.dumped st d) ∈ s.savers) :
    Announced s' (g ++ announced out) := by
  refine ⟨fun vb o hm => ?_, fun k st d hm p hp => ?_⟩
  · rcases ho _ hm with h1 | h1
    · exact List.mem_append_left _ (h.1 vb o h1)
    · exact List.mem_append_right _ (mem_announced_track h1)
  · exact List.mem_append_left _ (h.2 k st d (hv k st d hm) p hp)

theorem writtenDocs_of_none {out : List Obsv} (h : ∀ x ∈ out, ∀ docs, x ≠ .written docs) :
    writtenDocs out = [] := by
  unfold writtenDocs
  apply List.flatMap_eq_nil_iff.mpr
  intro x hx
  cases x with
  | written docs => exact absurd rfl (h _ hx docs)
  | _ => rfl

theorem setOffset_no_written (s : St) (vb : Vb) (o : Offset) (d : Bool) :
    ∀ x ∈ (setOffset s vb o d).2, ∀ docs, x ≠ .written docs := by
  rw [setOffset_out]; split <;> simp

theorem evStep_no_written (s : St) (vb : Vb) (e : SrvEv) :
    ∀ x ∈ (evStep s vb e).2, ∀ docs, x ≠ .written docs := by
  cases ho : s.observers.get? vb with
  | none => rw [evStep_of_no_obs e ho]; simp
  | some o =>
    rw [evStep_of_obs e ho]
    generalize Obs.step s.cfg.obs o e = r
    obtain ⟨o', out⟩ := r
    cases out with
    | fwd le =>
      cases le with
      | doc d off c t =>
        simp only [listen]
        split
        · exact setOffset_no_written _ _ _ _
        · simp
      | seqAdv off => exact setOffset_no_written _ _ _ _
      | sys k off => exact setOffset_no_written _ _ _ _
      | marker => simp [listen]
      | oso => simp [listen]
    | _ => simp

theorem mem_filter_savers {m : AMap SaverPc} {k : Nat} {p : Nat × SaverPc}
    (h : p ∈ m.filter fun q => q.1 ≠ k) : p ∈ m := (List.mem_filter.mp h).1

/-- **one step keeps the invariant, and what it writes was announced before the step** -/
theorem step_announced (s : St) (g : List (Vb × Doc)) (op : Op) (h : Announced s g) :
    Announced (step s op).1 (ghostStep g s op) ∧ ∀ p ∈ writtenDocs (step s op).2, p ∈ g := by
  cases op with
  | setStore vb d =>
    rw [ghostStep_same (step_sess s (by rfl))]
    refine ⟨announced_frame _ h (step_offsets s (by rfl)) (step_savers s (by rfl)), ?_⟩
    simp only [step]; split <;> simp [writtenDocs]
  | setHigh vb n =>
    rw [ghostStep_same (step_sess s (by rfl))]
    exact ⟨announced_frame _ h (step_offsets s (by rfl)) (step_savers s (by rfl)), by simp [step, writtenDocs]⟩
  | setFlog vb u =>
    rw [ghostStep_same (step_sess s (by rfl))]
    exact ⟨announced_frame _ h (step_offsets s (by rfl)) (step_savers s (by rfl)), by simp [step, writtenDocs]⟩
  | reopen vb =>
    rw [ghostStep_same (step_sess s (by rfl))]
    refine ⟨announced_frame _ h (step_offsets s (by rfl)) (step_savers s (by rfl)), ?_⟩
    rw [writtenDocs_of_none]; · simp
    intro x hx docs e
    simp only [step] at hx
    rcases mem_reopenStream_out hx with ⟨_, h'⟩ | ⟨_, _, _, _, _, h', _⟩ <;> rw [h'] at e <;> cases e
  | rebalance lo hi =>
    -- the session goes on; every re-loaded position is announced by its stream request
    rw [ghostStep_same (step_sess s (by rfl))]
    have hw : ∀ p ∈ writtenDocs (step s (.rebalance lo hi)).2, p ∈ g := by
      rw [writtenDocs_of_none]; · simp
      intro x hx docs e
      simp only [step] at hx
      rcases mem_rebalanceSession_out hx with ⟨_, h'⟩ | ⟨_, h'⟩ | h' | ⟨_, _, _, _, _, _, _, _, _, _, h', _⟩ <;>
        rw [h'] at e <;> cases e
    refine ⟨?_, hw⟩
    simp only [step]
    rcases rebalanceSession_cases s lo hi with ⟨_, e⟩ | ⟨_, hs, _, _, e⟩ | ⟨offs, dirty, any, _, hs, _, _, e⟩ <;> rw [e]
    · exact announced_frame _ h rfl rfl
    · refine ⟨fun vb o hm => ?_, fun k st d hm => ?_⟩
      · simp [rebalBase, closedOf] at hm
      · simp [rebalBase, closedOf, hs] at hm
    · refine ⟨fun vb o hm => ?_, fun k st d hm => ?_⟩
      · apply List.mem_append_right
        apply mem_announced_openreq
        rw [rebalDone_offsets] at hm
        exact List.mem_append_right _ (List.mem_map.mpr ⟨(vb, o), hm, rfl⟩)
      · rw [rebalDone_savers, hs] at hm; cases hm
  | persist vb q =>
    rw [ghostStep_same (step_sess s (by rfl))]
    refine ⟨announced_frame _ h (step_offsets s (by rfl)) (step_savers s (by rfl)), ?_⟩
    simp only [step]; (repeat' split) <;> simp [writtenDocs]
  | getOffsets =>
    rw [ghostStep_same (step_sess s (by rfl))]
    exact ⟨announced_frame _ h (step_offsets s (by rfl)) (step_savers s (by rfl)), by simp [step, writtenDocs]⟩
  | metrics vb =>
    rw [ghostStep_same (step_sess s (by rfl))]
    refine ⟨announced_frame _ h (step_offsets s (by rfl)) (step_savers s (by rfl)), ?_⟩
    simp only [step]; (repeat' split) <;> simp [writtenDocs]
  | scrape =>
    rw [ghostStep_same (step_sess s (by rfl))]
    refine ⟨announced_frame _ h (step_offsets s (by rfl)) (step_savers s (by rfl)), ?_⟩
    simp only [step, scrape]; (repeat' split) <;> simp [writtenDocs]
  | ev vb e =>
    rw [ghostStep_same (step_sess s (by rfl))]
    refine ⟨announced_grow _ h (fun p hp => evStep_mem s vb e p hp) ?_, ?_⟩
    · intro k st d hm; rw [step_savers s (by rfl)] at hm; exact hm
    · simp only [step]; rw [writtenDocs_of_none (evStep_no_written s vb e)]; simp
  | ack i =>
    rw [ghostStep_same (step_sess s (by rfl))]
    refine ⟨announced_grow _ h ?_ ?_, ?_⟩
    · intro p hp
      simp only [step] at hp ⊢
      split at hp
      · exact Or.inl hp
      · split at hp
        · exact Or.inl hp
        · rename_i hne
          simp only [hne, if_false]
          rw [ack_offsets] at hp; rw [ack_out]
          rcases setOffset_mem _ _ _ _ _ hp with h1 | ⟨rfl, h1⟩
          · exact Or.inl h1
          · exact Or.inr h1
    · intro k st d hm; rw [step_savers s (by rfl)] at hm; exact hm
    · simp only [step]
      (repeat' split) <;> try (simp [writtenDocs]; done)
      rw [ack_out, writtenDocs_of_none (setOffset_no_written _ _ _ _)]; simp
  | save res =>
    rw [ghostStep_same (step_sess s (by rfl))]
    refine ⟨announced_frame _ h (step_offsets s (by rfl)) (step_savers s (by rfl)), ?_⟩
    have hsub : ∀ p ∈ (mdWrite s (dumpState s) (curDirty s) res).2, p ∈ g := by
      intro p hp
      obtain ⟨o, ho, hd⟩ := mem_dumpState (mdWrite_subset _ _ _ _ p hp)
      have := h.1 p.1 o ho
      rw [← hd] at this; exact this
    simp only [step, saveAll_eq]
    (repeat' split) <;> simp [writtenDocs] <;> exact fun a b hab => hsub (a, b) hab
  | svBegin k =>
    rw [ghostStep_same (step_sess s (by rfl))]
    refine ⟨announced_grow _ h (fun p hp => Or.inl (by rw [step_offsets s (by rfl)] at hp; exact hp)) ?_, ?_⟩
    · intro k' st d hm
      simp only [step, svBegin] at hm
      (repeat' split at hm) <;> try exact hm
      rcases AMap.mem_set hm with h1 | h1
      · cases h1
      · exact h1
    · simp only [step, svBegin]; (repeat' split) <;> simp [writtenDocs]
  | svDump k =>
    rw [ghostStep_same (step_sess s (by rfl))]
    simp only [step, svDump]
    split
    · split
      · exact ⟨announced_frame _ h rfl rfl, by simp [writtenDocs]⟩
      · refine ⟨⟨fun vb o hm => List.mem_append_left _ (h.1 vb o hm), fun k' st d hm p hp => ?_⟩,
          by simp [writtenDocs]⟩
        apply List.mem_append_left
        rcases AMap.mem_set hm with h1 | h1
        · injection h1 with _ h2
          injection h2 with h3 _
          subst h3
          obtain ⟨o, ho, hd⟩ := mem_dumpState hp
          have := h.1 p.1 o ho
          rw [← hd] at this; exact this
        · exact h.2 k' st d h1 p hp
    · exact ⟨announced_frame _ h rfl rfl, by simp [writtenDocs]⟩
  | svStore k res =>
    rw [ghostStep_same (step_sess s (by rfl))]
    cases hk : s.savers.get? k with
    | none => simp only [step, svStore, hk]; exact ⟨announced_frame _ h rfl rfl, by simp [writtenDocs]⟩
    | some pc =>
      cases pc with
      | wantLock g' => simp only [step, svStore, hk]; exact ⟨announced_frame _ h rfl rfl, by simp [writtenDocs]⟩
      | stored => simp only [step, svStore, hk]; exact ⟨announced_frame _ h rfl rfl, by simp [writtenDocs]⟩
      | dumped st d =>
        have hmem := AMap.mem_of_get?_eq_some hk
        have hsub : ∀ p ∈ (mdWrite s st d res).2, p ∈ g :=
          fun p hp => h.2 k st d hmem p (mdWrite_subset _ _ _ _ p hp)
        simp only [step, svStore_of_dumped res hk]
        split
        · refine ⟨announced_grow _ h (fun p hp => Or.inl hp) ?_, by simpa [writtenDocs] using hsub⟩
          intro k' st' d' hm
          rcases AMap.mem_set hm with h1 | h1
          · cases h1
          · exact h1
        · refine ⟨announced_grow _ h (fun p hp => Or.inl hp) ?_, by simpa [writtenDocs] using hsub⟩
          intro k' st' d' hm
          exact mem_filter_savers hm
  | svUnmark k =>
    rw [ghostStep_same (step_sess s (by rfl))]
    refine ⟨announced_grow _ h (fun p hp => Or.inl (by rw [step_offsets s (by rfl)] at hp; exact hp)) ?_, ?_⟩
    · intro k' st d hm
      simp only [step, svUnmark] at hm
      (repeat' split at hm) <;> try exact hm
      exact mem_filter_savers hm
    · simp only [step, svUnmark]; (repeat' split) <;> simp [writtenDocs]
  | close =>
    rw [ghostStep_same (step_sess s (by rfl))]
    refine ⟨announced_grow _ h ?_ ?_, ?_⟩
    · intro p hp
      simp only [step, closeSession] at hp
      split at hp
      · exact Or.inl hp
      · simp at hp
    · intro k st d hm
      simp only [step, closeSession_savers] at hm; exact hm
    · simp only [step, closeSession]
      split
      · simp [writtenDocs]
      · rw [writtenDocs_of_none]; · simp
        intro x hx docs; simp at hx; obtain ⟨a, b, _, rfl⟩ := hx; simp
  | crash =>
    refine ⟨⟨fun vb o hm => ?_, fun k st d hm => ?_⟩, by simp [step, crash, writtenDocs]⟩
    · simp [step, crash] at hm
    · simp [step, crash] at hm
  | «open» =>
    by_cases hop : s.isOpen = true
    · simp only [ghostStep, step, openSession_of_isOpen hop, if_true]
      exact ⟨announced_frame _ h rfl rfl, by simp [writtenDocs]⟩
    · have hop' : s.isOpen = false := by simpa using hop
      cases hl : load (openBase s) with
      | none =>
        simp only [ghostStep, step, openSession_of_load_none hop' hl]
        refine ⟨⟨fun vb o hm => ?_, fun k st d hm => ?_⟩, by simp [writtenDocs]⟩
        · simp [openBase] at hm
        · simp [openBase] at hm
      | some r =>
        obtain ⟨offs, dirty, any⟩ := r
        simp only [ghostStep, step, openSession_of_load_some hop' hl]
        refine ⟨⟨fun vb o hm => ?_, fun k st d hm => ?_⟩, ?_⟩
        · apply List.mem_append_right
          apply mem_announced_openreq
          simp only at hm
          exact List.mem_map.mpr ⟨(vb, o), hm, rfl⟩
        · simp [openBase] at hm
        · rw [writtenDocs_of_none]; · simp
          intro x hx docs; simp at hx; obtain ⟨a, b, _, rfl⟩ := hx; simp

theorem announced_run (s : St) (g : List (Vb × Doc)) (ops : List Op) (h : Announced s g) :
    Announced (run s ops) (ghostRun g s ops) := by
  induction ops generalizing s g with
  | nil => exact h
  | cons op r ih => exact ih _ _ (step_announced s g op h).1

theorem ghostRun_append (g : List (Vb × Doc)) (s : St) (a b : List Op) :
    ghostRun g s (a ++ b) = ghostRun (ghostRun g s a) (run s a) b := by
  induction a generalizing g s with
  | nil => rfl
  | cons op r ih => simp only [List.cons_append, ghostRun, run_cons, ih]

/-- **C01a** (ghost form): along ANY run – all ops, partial stores, crash, restart, rebalance,
    transient reopen –
    from a state satisfying the invariant, every document a step makes durable is
    in the set of positions announced earlier in the same session. -/
theorem C01a (s : St) (g : List (Vb × Doc)) (pre : List Op) (op : Op) (h : Announced s g) :
    ∀ p ∈ writtenDocs (step (run s pre) op).2, p ∈ ghostRun g s pre :=
  (step_announced _ _ op (announced_run s g pre h)).2

/-- a fresh process (nothing tracked, no saver) satisfies the invariant with the empty ghost set -/
theorem announced_init (s : St) (ho : s.offsets = []) (hv : s.savers = []) : Announced s [] := by
  constructor
  · intro vb o hm; simp [ho] at hm
  · intro k st d hm; simp [hv] at hm

/-- no session starts during these ops -/
def SameSession (s : St) : List Op → Prop
  | [] => True
  | op :: r => (step s op).1.sess = s.sess ∧ SameSession (step s op).1 r

/-- what membership in the ghost set means: announced by an earlier step with no
    session start since (a successful `open` counts as the first step of its session) -/
theorem mem_ghostRun {p : Vb × Doc} {g : List (Vb × Doc)} {s : St} {ops : List Op}
    (h : p ∈ ghostRun g s ops) :
    (p ∈ g ∧ SameSession s ops) ∨
    ∃ pre op post, ops = pre ++ op :: post ∧ p ∈ announced (step (run s pre) op).2 ∧
      SameSession (step (run s pre) op).1 post := by
  induction ops generalizing g s with
  | nil => exact Or.inl ⟨h, trivial⟩
  | cons op r ih =>
    rcases ih (g := ghostStep g s op) (s := (step s op).1) h with ⟨hg, hs⟩ | ⟨pre, op', post, hsp, ha, hs⟩
    · unfold ghostStep at hg
      rcases List.mem_append.mp hg with hg | hg
      · split at hg
        · rename_i hsess; exact Or.inl ⟨hg, hsess, hs⟩
        · simp at hg
      · exact Or.inr ⟨[], op, r, rfl, hg, hs⟩
    · exact Or.inr ⟨op :: pre, op', post, by rw [hsp]; rfl, ha, hs⟩

/-- **C01a** (explicit form): from a fresh process, if step `k` (= after the ops
    `pre`) makes `(vb, d)` durable, then an earlier step `j` of the same session –
    no session start between `j` and `k` – announced exactly that position: its
    output contains `openreq vb o` (`Open`, a rebalance or a reopen) or `track vb o` with
    `o.toDoc = d`. -/
theorem C01a_explicit (s : St) (ho : s.offsets = []) (hv : s.savers = []) (pre : List Op) (op : Op)
    (vb : Vb) (d : Doc) (hw : (vb, d) ∈ writtenDocs (step (run s pre) op).2) :
    ∃ pre₁ op₁ post₁, pre = pre₁ ++ op₁ :: post₁ ∧
      (∃ o, o.toDoc = d ∧ (Obsv.openreq vb o ∈ (step (run s pre₁) op₁).2 ∨
                            Obsv.track vb o ∈ (step (run s pre₁) op₁).2)) ∧
      SameSession (step (run s pre₁) op₁).1 post₁ := by
  have := C01a s [] pre op (announced_init s ho hv) _ hw
  rcases mem_ghostRun this with ⟨hg, _⟩ | ⟨pre₁, op₁, post₁, hsp, ha, hs⟩
  · simp at hg
  · refine ⟨pre₁, op₁, post₁, hsp, ?_, hs⟩
    unfold announced at ha
    obtain ⟨x, hx, hxe⟩ := List.mem_filterMap.mp ha
    cases x <;> simp at hxe
    · rename_i vb' o; obtain ⟨rfl, rfl⟩ := hxe; exact ⟨o, rfl, Or.inl hx⟩
    · rename_i vb' o; obtain ⟨rfl, rfl⟩ := hxe; exact ⟨o, rfl, Or.inr hx⟩

/-- the k-th output of a trace is the output of the k-th op in the state reached by the first k ops -/
theorem runTrace_get (s : St) (ops : List Op) (k : Nat) (out : List Obsv)
    (h : (runTrace s ops).2[k]? = some out) :
    ∃ op, ops[k]? = some op ∧ out = (step (run s (ops.take k)) op).2 := by
  induction ops generalizing s k with
  | nil => simp at h
  | cons op r ih =>
    rw [runTrace_cons] at h
    cases k with
    | zero => simp at h; exact ⟨op, rfl, h.symm⟩
    | succ k =>
      simp only [List.getElem?_cons_succ] at h
      obtain ⟨op', h1, h2⟩ := ih _ _ h
      exact ⟨op', by simpa using h1, by simpa using h2⟩

/-- `C01a` on the observation trace -/
theorem C01a_trace (s : St) (g : List (Vb × Doc)) (ops : List Op) (h : Announced s g) (k : Nat)
    (out : List Obsv) (hk : (runTrace s ops).2[k]? = some out) :
    ∀ p ∈ writtenDocs out, p ∈ ghostRun g s (ops.take k) := by
  obtain ⟨op, _, rfl⟩ := runTrace_get s ops k out hk
  exact C01a s g _ op h

/-! ### where `TrackOffset` notifications come from (shared with C04) -/

/-- the listener absorbs this event itself and moves the position to `o` -/
def absorbedAs (le : LEvent) (o : Offset) : Prop :=
  match le with
  | .doc d off _ _ => isMetaKey d.key = true ∧ off = o
  | .seqAdv off => off = o
  | .sys _ off => off = o
  | _ => False

theorem setOffset_track {s : St} {vb vb' : Vb} {o o' : Offset} {d : Bool}
    (h : Obsv.track vb' o' ∈ (setOffset s vb o d).2) : vb' = vb ∧ o' = o := by
  rw [setOffset_out] at h
  split at h
  · simp at h; exact h
  · simp at h

/-- **track_only_from_settle**: a `TrackOffset vb o` notification is emitted only
    by the acknowledgement of a context of the current session on `vb` carrying
    `o` (contexts are exactly the delivered events, C03 `step_ctxs_deliveries`),
    or by a server event of `vb` that the observer forwarded and the listener
    absorbed: a reserved-key document, a seqno-advanced or a system event. -/
theorem track_only_from_settle (s : St) (op : Op) (vb : Vb) (o : Offset)
    (h : Obsv.track vb o ∈ (step s op).2) :
    (∃ i p, op = .ack i ∧ s.ctxs[i]? = some p ∧ p.sess = s.sess ∧ p.vb = vb ∧ p.off = o) ∨
    (∃ e ob le, op = .ev vb e ∧ s.observers.get? vb = some ob ∧
      (Obs.step s.cfg.obs ob e).2 = .fwd le ∧ absorbedAs le o) := by
  cases op with
  | ack i =>
    left
    simp only [step] at h
    split at h
    · simp at h
    · rename_i p hp
      split at h
      · simp at h
      · rename_i hs
        rw [ack_out] at h
        obtain ⟨h1, h2⟩ := setOffset_track h
        exact ⟨i, p, rfl, hp, by simpa using hs, h1.symm, h2.symm⟩
  | ev vb' e =>
    right
    simp only [step] at h
    cases ho : s.observers.get? vb' with
    | none => rw [evStep_of_no_obs e ho] at h; simp at h
    | some ob =>
      rw [evStep_of_obs e ho] at h
      cases hout : (Obs.step s.cfg.obs ob e).2 with
      | fwd le =>
        rw [hout] at h
        simp only at h
        cases le with
        | doc d off c t =>
          simp only [listen] at h
          split at h
          · rename_i hm
            obtain ⟨h1, h2⟩ := setOffset_track h
            subst h1 h2
            exact ⟨e, ob, _, rfl, ho, hout, hm, rfl⟩
          · simp at h
        | seqAdv off =>
          obtain ⟨h1, h2⟩ := setOffset_track h
          subst h1 h2
          exact ⟨e, ob, _, rfl, ho, hout, rfl⟩
        | sys k off =>
          obtain ⟨h1, h2⟩ := setOffset_track h
          subst h1 h2
          exact ⟨e, ob, _, rfl, ho, hout, rfl⟩
        | marker => simp [listen] at h
        | oso => simp [listen] at h
      | _ => rw [hout] at h; simp at h
  | save res =>
    exfalso
    simp only [step, saveAll_eq] at h
    (repeat' split at h) <;> simp at h
  | «open» =>
    exfalso
    simp only [step, openSession] at h
    (repeat' split at h) <;> simp at h
  | close =>
    exfalso
    simp only [step, closeSession] at h
    (repeat' split at h) <;> simp at h
  | svBegin k => exfalso; simp only [step, svBegin] at h; (repeat' split at h) <;> simp at h
  | svDump k => exfalso; simp only [step, svDump] at h; (repeat' split at h) <;> simp at h
  | svStore k res => exfalso; simp only [step, svStore] at h; (repeat' split at h) <;> simp at h
  | svUnmark k => exfalso; simp only [step, svUnmark] at h; (repeat' split at h) <;> simp at h
  | scrape => exfalso; simp only [step, scrape] at h; (repeat' split at h) <;> simp at h
  | rebalance lo hi =>
    exfalso; simp only [step] at h
    rcases mem_rebalanceSession_out h with ⟨_, h⟩ | ⟨_, h⟩ | h | ⟨_, _, _, _, _, _, _, _, _, _, h, _⟩ <;> cases h
  | reopen vb' =>
    exfalso; simp only [step] at h
    rcases mem_reopenStream_out h with ⟨_, h⟩ | ⟨_, _, _, _, _, h, _⟩ <;> cases h
  | _ => exfalso; simp only [step, crash] at h; (repeat' split at h) <;> simp at h

/-- non-vacuity: a partial multi-vBucket save, a crash and a reopen; the second
    session's request and the first session's notifications are the announced positions -/
example :
    let s0 : St := { cfg := { lo := 0, hi := 1 } }
    let ops : List Op := [.setHigh 0 9, .setHigh 1 9, .open, .ev 0 (.marker 1 9), .ev 1 (.marker 1 9),
      .ev 0 (.doc ⟨.mu, 1, 0, "61", 0, ""⟩), .ev 1 (.doc ⟨.mu, 2, 0, "62", 0, ""⟩), .ack 0, .ack 1,
      .save (.part [1]), .crash, .open]
    Announced s0 [] ∧ (run s0 ops).store = [(1, ⟨0, 2, 1, 9⟩)] ∧
    ghostRun [] s0 ops = [(0, ⟨0, 0, 0, 0⟩), (1, ⟨0, 2, 1, 9⟩)] := by
  refine ⟨announced_init _ rfl rfl, by decide, by decide⟩

/-- … followed by a rebalance onto vBucket 1 alone and a transient reopen of it: the session goes
    on, the ghost absorbs the two further stream requests (same position) -/
example :
    let s0 : St := { cfg := { lo := 0, hi := 1 } }
    let ops : List Op := [.setHigh 0 9, .setHigh 1 9, .open, .ev 0 (.marker 1 9), .ev 1 (.marker 1 9),
      .ev 0 (.doc ⟨.mu, 1, 0, "61", 0, ""⟩), .ev 1 (.doc ⟨.mu, 2, 0, "62", 0, ""⟩), .ack 0, .ack 1,
      .save (.part [1]), .crash, .open, .rebalance 1 1, .reopen 1]
    ghostRun [] s0 ops = [(0, ⟨0, 0, 0, 0⟩), (1, ⟨0, 2, 1, 9⟩), (1, ⟨0, 2, 1, 9⟩), (1, ⟨0, 2, 1, 9⟩)] ∧
    (run s0 ops).sess = 3 ∧ (run s0 ops).offsets.keys = [1] := by
  refine ⟨by decide, by decide, by decide⟩

/-! ## clause (b): a restart never skips a delivered but unsettled event

Reading (DESIGN §7 C01): acknowledgement is cumulative per vBucket – acking seq
`a` settles every delivered event of that vBucket with seq ≤ `a`.  Ghost
components: `ak` = per vBucket the largest acknowledged seqno of the current
session, `hw` = per vBucket the largest seqno the server has sent since the
stream of that vBucket was last requested in the current session (initially the
requested position: the resume position of `Open` or of a rebalance, the current
position at a transient reopen – after such a request the server sends the events
above the requested position again). A rebalance keeps the session, the contexts
and `ak`. -/

structure Gh where
  ak : AMap Nat := []
  hw : AMap Nat := []
deriving Repr

def hwOf (hw : AMap Nat) (vb : Vb) : Nat := (hw.get? vb).getD 0

/-- an acknowledgement at or above `q` happened on `vb` in this session -/
def settled (ak : AMap Nat) (vb : Vb) (q : Nat) : Bool :=
  match ak.get? vb with
  | some a => decide (q ≤ a)
  | none => false

/-- seqno carried by a server event (markers and OSO boundaries carry none) -/
def srvSeq : SrvEv → Option Nat
  | .doc d => some d.seq
  | .seqAdv q => some q
  | .sys _ q _ => some q
  | _ => none

/-- the event reaches the observer and is not held back at the rollback-mitigation gate -/
def passes (s : St) (vb : Vb) (e : SrvEv) : Bool :=
  match s.observers.get? vb with
  | none => false
  | some o => decide ((Obs.step s.cfg.obs o e).2 ≠ .blocked)

/-- the rebalance goes through: accepted (open, no saver in flight, non-empty range) and
    `checkpoint.Load` succeeds -/
def rebalOk (s : St) (lo hi : Vb) : Bool :=
  s.isOpen && s.savers.isEmpty && decide (lo ≤ hi) && (load (rebalBase s lo hi)).isSome

def ghStep (g : Gh) (s : St) (op : Op) : Gh :=
  if (step s op).1.sess ≠ s.sess then
    { ak := [], hw := (step s op).1.offsets.map fun p => (p.1, p.2.seq) }
  else
    match op with
    | .ack i =>
      match s.ctxs[i]? with
      | some p =>
        if p.sess = s.sess then
          { g with ak := g.ak.set p.vb (match g.ak.get? p.vb with
                                         | some a => max a p.off.seq
                                         | none => p.off.seq) }
        else g
      | none => g
    | .ev vb e =>
      if passes s vb e then
        match srvSeq e with
        | some q => { g with hw := g.hw.set vb q }
        | none => g
      else g
    | .rebalance lo hi =>
      -- every assigned vBucket is requested again, from the re-loaded position
      if rebalOk s lo hi then { g with hw := (step s op).1.offsets.map fun p => (p.1, p.2.seq) } else g
    | .reopen _ =>
      -- an accepted reopen requests the vBucket again, from its current position
      match (step s op).2 with
      | [.openreq v o] => { g with hw := g.hw.set v o.seq }
      | _ => g
    | _ => g

def ghRun (g : Gh) (s : St) : List Op → Gh
  | [] => g
  | op :: r => ghRun (ghStep g s op) (step s op).1 r

/-- a delivered event of the current session that no acknowledgement has settled yet -/
def Unsettled (s : St) (ak : AMap Nat) (p : Pending) : Prop :=
  p ∈ s.ctxs ∧ p.sess = s.sess ∧ settled ak p.vb p.off.seq = false

/-- `x` is below every unsettled delivered event of `vb` -/
def Below (s : St) (ak : AMap Nat) (vb : Vb) (x : Nat) : Prop :=
  ∀ p, Unsettled s ak p → p.vb = vb → x < p.off.seq

/-- some delivered event of `vb` is unsettled (decidable form) -/
def anyUnsettled (s : St) (ak : AMap Nat) (vb : Vb) : Bool :=
  s.ctxs.any fun p => p.sess == s.sess && p.vb == vb && !settled ak p.vb p.off.seq

theorem anyUnsettled_false_iff (s : St) (ak : AMap Nat) (vb : Vb) :
    anyUnsettled s ak vb = false ↔ ∀ p, Unsettled s ak p → p.vb ≠ vb := by
  unfold anyUnsettled Unsettled
  rw [List.any_eq_false]
  constructor
  · intro h p ⟨hm, hs, hu⟩ hv
    have := h p hm
    subst hv
    simp [hs, hu] at this
  · intro h p hm
    by_cases hs : p.sess = s.sess
    · by_cases hv : p.vb = vb
      · cases hu : settled ak p.vb p.off.seq with
        | true => simp
        | false => exact absurd hv (h p ⟨hm, hs, hu⟩)
      · simp [hv]
    · simp [hs]

/-- F3 pattern at one step: a server event of `vb` is forwarded and absorbed by the
    listener (reserved-key document, seqno-advanced, system event) while a delivered
    event of `vb` is still unsettled -/
def overtakeAt (s : St) (g : Gh) (op : Op) : Bool :=
  match op with
  | .ev vb _ => (B.settleOf s op).isSome && anyUnsettled s g.ak vb
  | _ => false

/-- the server keeps its contract at this step: a seqno-carrying event that passes
    the gate is above everything sent on that vBucket since its stream was last requested
    in this session (and above the position the stream was requested from) -/
def monoOk (s : St) (g : Gh) (op : Op) : Bool :=
  match op with
  | .ev vb e =>
    if passes s vb e then
      match srvSeq e with
      | some q => decide (hwOf g.hw vb < q)
      | none => true
    else true
  | _ => true

def isSetStore : Op → Bool
  | .setStore _ _ => true
  | _ => false

/-- the load of this rebalance takes the latest-reset start (`resetLatest` and no stored document
    in the new range: every position jumps to the server's current high seqno) while a delivered
    event of a vBucket of the new range is still unsettled. The contexts survive a rebalance, so
    this jump passes them (after `crash` / `close` + `open` the same start concerns a new session). -/
def resetJumpAt (s : St) (g : Gh) (op : Op) : Bool :=
  match op with
  | .rebalance lo hi =>
    s.cfg.resetLatest && !((vbRange { s.cfg with lo := lo, hi := hi }).any fun vb => s.store.has vb) &&
      (vbRange { s.cfg with lo := lo, hi := hi }).any (anyUnsettled s g.ak)
  | _ => false

/-- "some step is bad" scanner that carries the ghost component -/
def scanG (bad : St → Gh → Op → Bool) : Gh → St → List Op → Bool
  | _, _, [] => false
  | g, s, op :: r => bad s g op || scanG bad (ghStep g s op) (step s op).1 r

theorem ghRun_append (g : Gh) (s : St) (a b : List Op) :
    ghRun g s (a ++ b) = ghRun (ghRun g s a) (run s a) b := by
  induction a generalizing g s with
  | nil => rfl
  | cons op r ih => simp only [List.cons_append, ghRun, run_cons, ih]

theorem scanG_eq_true_iff (bad : St → Gh → Op → Bool) (g : Gh) (s : St) (ops : List Op) :
    scanG bad g s ops = true ↔
      ∃ pre op post, ops = pre ++ op :: post ∧ bad (run s pre) (ghRun g s pre) op = true := by
  induction ops generalizing g s with
  | nil => simp [scanG]
  | cons op r ih =>
    simp only [scanG, Bool.or_eq_true, ih]
    constructor
    · rintro (h | ⟨pre, op', post, hsp, hb⟩)
      · exact ⟨[], op, r, rfl, h⟩
      · exact ⟨op :: pre, op', post, by rw [hsp]; rfl, hb⟩
    · rintro ⟨pre, op', post, hsp, hb⟩
      cases pre with
      | nil => simp at hsp; obtain ⟨rfl, rfl⟩ := hsp; exact Or.inl hb
      | cons a pre' =>
        simp at hsp; obtain ⟨rfl, rfl⟩ := hsp
        exact Or.inr ⟨pre', op', post, rfl, hb⟩

theorem scanG_append_false {bad : St → Gh → Op → Bool} {g : Gh} {s : St} {a b : List Op}
    (h : scanG bad g s (a ++ b) = false) : scanG bad g s a = false := by
  cases ha : scanG bad g s a with
  | false => rfl
  | true =>
    obtain ⟨pre, op, post, hsp, hb⟩ := (scanG_eq_true_iff bad g s a).mp ha
    have : scanG bad g s (a ++ b) = true :=
      (scanG_eq_true_iff bad g s (a ++ b)).mpr ⟨pre, op, post ++ b, by rw [hsp]; simp, hb⟩
    rw [h] at this; cases this

end GoDcp.C01

namespace GoDcp.KF
open GoDcp GoDcp.C01

/-- known finding F3 (classifier for the run-time monitor): somewhere in the run an
    absorbed event of a vBucket is forwarded while an earlier delivered event of
    that vBucket is still unsettled (cumulative reading of acknowledgement) -/
def C01_overtake (s0 : St) (ops : List Op) : Bool := scanG overtakeAt {} s0 ops

theorem C01_overtake_iff (s0 : St) (ops : List Op) :
    C01_overtake s0 ops = true ↔ ∃ pre vb e post, ops = pre ++ .ev vb e :: post ∧
      (B.settleOf (run s0 pre) (.ev vb e)).isSome = true ∧
      ∃ p, Unsettled (run s0 pre) (ghRun {} s0 pre).ak p ∧ p.vb = vb := by
  unfold C01_overtake
  rw [scanG_eq_true_iff]
  constructor
  · rintro ⟨pre, op, post, hsp, hb⟩
    cases op <;> simp only [overtakeAt, Bool.and_eq_true] at hb <;> try (cases hb; done)
    rename_i vb e
    refine ⟨pre, vb, e, post, hsp, hb.1, ?_⟩
    cases hu : anyUnsettled (run s0 pre) (ghRun {} s0 pre).ak vb with
    | true =>
      unfold anyUnsettled at hu
      obtain ⟨p, hm, hp⟩ := List.any_eq_true.mp hu
      simp only [Bool.and_eq_true, beq_iff_eq, Bool.not_eq_true'] at hp
      exact ⟨p, ⟨hm, hp.1.1, hp.2⟩, hp.1.2⟩
    | false => rw [hu] at hb; cases hb.2
  · rintro ⟨pre, vb, e, post, hsp, hs, p, hu, hv⟩
    refine ⟨pre, .ev vb e, post, hsp, ?_⟩
    simp only [overtakeAt, Bool.and_eq_true]
    refine ⟨hs, ?_⟩
    cases ha : anyUnsettled (run s0 pre) (ghRun {} s0 pre).ak vb with
    | true => rfl
    | false => exact absurd hv ((anyUnsettled_false_iff _ _ _).mp ha p hu)

/-- the server's contract over a whole run (strictly increasing seqnos per vBucket between two
    stream requests of that vBucket – `Open`, rebalance, transient reopen – and above the
    requested position), as a decidable function -/
def srvMonotone (s0 : St) (ops : List Op) : Bool := !scanG (fun s g op => !monoOk s g op) {} s0 ops

/-- somewhere in the run a rebalance takes the latest-reset start over a delivered but unsettled
    event of its new range (classifier for the run-time monitor; excluded by `C01b_partial`) -/
def C01_resetJump (s0 : St) (ops : List Op) : Bool := scanG resetJumpAt {} s0 ops

end GoDcp.KF

namespace GoDcp.C01
open GoDcp

/-- a process that has not opened a stream yet (any store, any server state) -/
def Fresh (s : St) : Prop := s.offsets = [] ∧ s.savers = [] ∧ s.ctxs = [] ∧ s.observers = [] ∧ s.isOpen = false

/-- clause (b) at the end of a run: every stored checkpoint is strictly below every
    delivered event of its vBucket that no acknowledgement has settled, so a restart
    (which requests the stream from the stored seqno, C02) delivers that event again -/
def C01b_claim (s0 : St) (ops : List Op) : Prop :=
  ∀ vb d, (run s0 ops).store.get? vb = some d → Below (run s0 ops) (ghRun {} s0 ops).ak vb d.seq

/-- **clause (b) at full strength** (every run of a fresh process against a server
    that keeps its contract; the store is written by the library only).  FALSE of
    the code: `C01b_full_refuted`. -/
def C01b_full : Prop :=
  ∀ (s0 : St) (ops : List Op), Fresh s0 → KF.srvMonotone s0 ops = true →
    (∀ op ∈ ops, isSetStore op = false) → C01b_claim s0 ops

def muEv (seq : Nat) : SrvEv := .doc ⟨.mu, seq, 0, "61", 0, ""⟩

/-- F3 witness (two vBuckets, earliest start): event 1 of vBucket 0 is delivered and
    never acknowledged; a seqno-advanced event moves vBucket 0 to 3 and marks it
    dirty; the acknowledgement on vBucket 1 raises the flag; the save stores 3. -/
def wF3 : List Op :=
  [.setHigh 0 10, .setHigh 1 10, .open, .ev 0 (.marker 1 10), .ev 0 (muEv 1), .ev 0 (.seqAdv 3),
   .ev 1 (.marker 1 10), .ev 1 (muEv 1), .ack 1, .save .ok]

def sF3 : St := { cfg := { lo := 0, hi := 1 } }

/-- the shortest witness (6 ops) uses the latest-reset start, where `Open` itself raises the flag -/
def wF3' : List Op := [.setHigh 0 5, .open, .ev 0 (.marker 6 10), .ev 0 (muEv 6), .ev 0 (.seqAdv 7), .save .ok]
def sF3' : St := { cfg := { resetLatest := true } }

/-- **C01b_full_refuted** (finding F3): context 0 (vBucket 0, seqno 1) was delivered
    and never acknowledged – nothing at all was acknowledged on vBucket 0 – yet the
    stored checkpoint of vBucket 0 is 3; after a crash the stream is requested from
    3 and event 1 is never delivered again. -/
theorem C01b_full_refuted :
    (run sF3 wF3).ctxs[0]? = some ⟨1, 0, ⟨0, 1, 1, 10, maxU64⟩⟩ ∧ (run sF3 wF3).sess = 1 ∧
    (ghRun {} sF3 wF3).ak = [(1, 1)] ∧
    (run sF3 wF3).store.get? 0 = some ⟨0, 3, 3, 3⟩ ∧
    ((run sF3 (wF3 ++ [.crash, .open])).offsets.get? 0).map (·.seq) = some 3 ∧
    KF.srvMonotone sF3 wF3 = true ∧ KF.C01_overtake sF3 wF3 = true ∧
    ¬ C01b_full := by
  refine ⟨by decide, by decide, by decide, by decide, by decide, by decide, by decide, ?_⟩
  intro h
  have := h sF3 wF3 ⟨rfl, rfl, rfl, rfl, rfl⟩ (by decide) (by decide) 0 ⟨0, 3, 3, 3⟩ (by decide)
    ⟨1, 0, ⟨0, 1, 1, 10, maxU64⟩⟩ ⟨by decide, by decide, by decide⟩ rfl
  simp at this

theorem C01b_full_refuted_short :
    (run sF3' wF3').ctxs[0]? = some ⟨1, 0, ⟨0, 6, 6, 10, maxU64⟩⟩ ∧ (ghRun {} sF3' wF3').ak = [] ∧
    (run sF3' wF3').store.get? 0 = some ⟨0, 7, 7, 7⟩ ∧
    KF.srvMonotone sF3' wF3' = true ∧ KF.C01_overtake sF3' wF3' = true := by
  decide

/-! ### the invariants behind `C01b_partial`

`Inv` carries the ghost component; `InvLe` (ghost-free) says that while the stream is open
nothing dumped or stored is ahead of the tracked position – it is what lets a transient
reopen lower `hw` to the current position. -/

/-- `x` is covered on `vb`: at or below what the server was asked to continue from / has sent
    since the last stream request of `vb`, or at or below an acknowledged seqno of `vb`.
    (After a rebalance or a reopen the server sends events again that were delivered before; an
    acknowledgement of an earlier context may then put the position above `hw` – never above `ak`.) -/
def Bnd (g : Gh) (vb : Vb) (x : Nat) : Prop := x ≤ hwOf g.hw vb ∨ settled g.ak vb x = true

structure Inv (s : St) (g : Gh) : Prop where
  sessLe : ∀ p ∈ s.ctxs, p.sess ≤ s.sess
  ctxPos : ∀ p ∈ s.ctxs, p.sess = s.sess → 0 < p.off.seq
  offBnd : ∀ vb o, (vb, o) ∈ s.offsets → Bnd g vb o.seq
  offBelow : ∀ vb o, (vb, o) ∈ s.offsets → Below s g.ak vb o.seq
  dump : ∀ k st dirty, (k, SaverPc.dumped st dirty) ∈ s.savers → ∀ vb d, (vb, d) ∈ st →
    Bnd g vb d.seq ∧ Below s g.ak vb d.seq
  storeBnd : ∀ vb d, s.store.get? vb = some d → s.observers.has vb = true → Bnd g vb d.seq
  storeBelow : ∀ vb d, s.store.get? vb = some d → Below s g.ak vb d.seq

/-- while the stream is open: one position per vBucket, one for every assigned vBucket, and no
    dumped or stored document ahead of the position of its vBucket -/
structure InvLe (s : St) : Prop where
  nodup : (AMap.keys s.offsets).Nodup
  hasEntry : s.isOpen = true → ∀ vb, inRange s.cfg vb = true → s.offsets.has vb = true
  dumpLe : s.isOpen = true → ∀ k st dirty, (k, SaverPc.dumped st dirty) ∈ s.savers → ∀ vb d, (vb, d) ∈ st →
    ∀ o, s.offsets.get? vb = some o → d.seq ≤ o.seq
  storeLe : s.isOpen = true → ∀ vb d, s.store.get? vb = some d → ∀ o, s.offsets.get? vb = some o → d.seq ≤ o.seq

theorem below_congr {s s' : St} {ak : AMap Nat} {vb : Vb} {x : Nat} (h1 : s'.sess = s.sess)
    (h2 : s'.ctxs = s.ctxs) (h : Below s ak vb x) : Below s' ak vb x := by
  intro p ⟨hm, hs, hu⟩ hv
  exact h p ⟨by rw [← h2]; exact hm, by rw [← h1]; exact hs, hu⟩ hv

/-- same ghost; the state keeps session, contexts; offsets shrink; new dumps and
    new store documents satisfy the invariant's bounds -/
theorem inv_frame {s s' : St} {g : Gh} (h : Inv s g) (h1 : s'.sess = s.sess) (h2 : s'.ctxs = s.ctxs)
    (h3 : ∀ vb o, (vb, o) ∈ s'.offsets → (vb, o) ∈ s.offsets ∨
      (Bnd g vb o.seq ∧ Below s g.ak vb o.seq))
    (h4 : ∀ k st dd, (k, SaverPc.dumped st dd) ∈ s'.savers → (k, SaverPc.dumped st dd) ∈ s.savers ∨
      ∀ vb d, (vb, d) ∈ st → Bnd g vb d.seq ∧ Below s g.ak vb d.seq)
    (h5 : ∀ vb d, s'.store.get? vb = some d → s.store.get? vb = some d ∨
      (Bnd g vb d.seq ∧ Below s g.ak vb d.seq))
    (h6 : ∀ vb, s'.observers.has vb = true → s.observers.has vb = true) : Inv s' g := by
  refine ⟨?_, ?_, ?_, ?_, ?_, ?_, ?_⟩
  · intro p hp; rw [h2] at hp; rw [h1]; exact h.sessLe p hp
  · intro p hp hs; rw [h2] at hp; rw [h1] at hs; exact h.ctxPos p hp hs
  · intro vb o hm
    rcases h3 vb o hm with hm' | hnew
    · exact h.offBnd vb o hm'
    · exact hnew.1
  · intro vb o hm
    rcases h3 vb o hm with hm' | hnew
    · exact below_congr h1 h2 (h.offBelow vb o hm')
    · exact below_congr h1 h2 hnew.2
  · intro k st dd hm vb d hd
    rcases h4 k st dd hm with hm' | hnew
    · exact ⟨(h.dump k st dd hm' vb d hd).1, below_congr h1 h2 (h.dump k st dd hm' vb d hd).2⟩
    · exact ⟨(hnew vb d hd).1, below_congr h1 h2 (hnew vb d hd).2⟩
  · intro vb d hs ho
    rcases h5 vb d hs with hs' | hnew
    · exact h.storeBnd vb d hs' (h6 vb ho)
    · exact hnew.1
  · intro vb d hs
    rcases h5 vb d hs with hs' | hnew
    · exact below_congr h1 h2 (h.storeBelow vb d hs')
    · exact below_congr h1 h2 hnew.2

theorem hwOf_set (hw : AMap Nat) (vb v : Vb) (q : Nat) :
    hwOf (hw.set vb q) v = if v = vb then q else hwOf hw v := by
  unfold hwOf; rw [AMap.get?_set]; split <;> rfl

theorem hwOf_set_ge (hw : AMap Nat) (vb v : Vb) (q : Nat) (h : hwOf hw vb ≤ q) :
    hwOf hw v ≤ hwOf (hw.set vb q) v := by
  rw [hwOf_set]; split
  · rename_i hv; subst hv; exact h
  · exact Nat.le_refl _

/-- raising `hw` keeps what was covered -/
theorem bnd_raise {g : Gh} {vb v : Vb} {q x : Nat} (hb : Bnd g v x) (hq : hwOf g.hw vb ≤ q) :
    Bnd { g with hw := g.hw.set vb q } v x := by
  rcases hb with hb | hb
  · exact Or.inl (Nat.le_trans hb (hwOf_set_ge g.hw vb v q hq))
  · exact Or.inr hb

/-- setting `hw` of one vBucket (possibly lower): the others keep their cover, `vb` needs its own -/
theorem bnd_set {g : Gh} {vb v : Vb} {q x : Nat} (hb : Bnd g v x) (hx : v = vb → x ≤ q) :
    Bnd { g with hw := g.hw.set vb q } v x := by
  by_cases hv : v = vb
  · left; show x ≤ hwOf (g.hw.set vb q) v; rw [hwOf_set, if_pos hv]; exact hx hv
  · rcases hb with hb | hb
    · left; show x ≤ hwOf (g.hw.set vb q) v; rw [hwOf_set, if_neg hv]; exact hb
    · exact Or.inr hb

/-- a covered seqno is below every event the server may send next that is not settled -/
theorem bnd_lt {g : Gh} {vb : Vb} {x q : Nat} (hb : Bnd g vb x) (h1 : hwOf g.hw vb < q)
    (h2 : settled g.ak vb q = false) : x < q := by
  rcases hb with hb | hb
  · omega
  · unfold settled at hb h2
    cases ha : g.ak.get? vb with
    | none => simp [ha] at hb
    | some a => simp [ha] at hb h2; omega

/-- what a store call writes comes from the dump it was given -/
theorem mdWrite_get?_cases (s : St) (st : List (Vb × Doc)) (dd : List Vb) (res : StoreRes) (vb : Vb) (d : Doc)
    (h : (mdWrite s st dd res).1.get? vb = some d) : s.store.get? vb = some d ∨ (vb, d) ∈ st := by
  have hm := AMap.mem_of_get?_eq_some h
  unfold mdWrite at h hm
  split at h
  · exact Or.inl h
  · simp only at h hm
    by_cases hold : s.store.get? vb = some d
    · exact Or.inl hold
    · right
      have hw : ∀ (w : List (Vb × Doc)), (∀ p ∈ w, p ∈ st) →
          (w.foldl (fun m (x : Vb × Doc) => match x with | (vb, d) => m.set vb d) s.store).get? vb = some d →
          (vb, d) ∈ st := by
        intro w hsub hg
        have : w.foldl (fun m (x : Vb × Doc) => match x with | (vb, d) => m.set vb d) s.store =
            w.foldl (fun m p => AMap.set m p.1 p.2) s.store := rfl
        rw [this, B.get?_foldl_set] at hg
        split at hg
        · rename_i p hf
          have hp := List.mem_reverse.mp (List.mem_of_find?_eq_some hf)
          have hpx : p.1 = vb := by simpa using List.find?_some hf
          injection hg with hg
          have : p = (vb, d) := by cases p; simp_all
          rw [← this]; exact hsub p hp
        · exact absurd hg hold
      cases res with
      | ok => exact hw _ (fun p hp => (List.mem_filter.mp hp).1) h
      | fail => simp at h; exact absurd h hold
      | part ws => exact hw _ (fun p hp => (List.mem_filter.mp (List.mem_filter.mp hp).1).1) h

/-- ops that issue stream requests inside a session: they move the ghost `hw` -/
def isReq : Op → Bool
  | .rebalance _ _ | .reopen _ => true
  | _ => false

theorem ghStep_other (g : Gh) (s : St) (op : Op) (hs : (step s op).1.sess = s.sess)
    (hop : B.isSettleOp op = false) (hrq : isReq op = false) : ghStep g s op = g := by
  unfold ghStep
  simp only [hs, ne_eq, not_true_eq_false, if_false]
  cases op <;> first | rfl | (simp [B.isSettleOp] at hop; done) | (simp [isReq] at hrq; done)

theorem dumpState_bounds {s : St} {g : Gh} (h : Inv s g) (vb : Vb) (d : Doc) (hd : (vb, d) ∈ dumpState s) :
    Bnd g vb d.seq ∧ Below s g.ak vb d.seq := by
  obtain ⟨o, ho, hdo⟩ := mem_dumpState hd
  simp only at ho hdo
  subst hdo
  exact ⟨h.offBnd vb o ho, h.offBelow vb o ho⟩

theorem has_map_obs (m : AMap Obs) (f : Obs → Obs) (v : Vb) :
    AMap.has (m.map fun x => (x.1, f x.2)) v = AMap.has m v := by
  unfold AMap.has
  induction m with
  | nil => rfl
  | cons hd t ih =>
    obtain ⟨k, o⟩ := hd
    by_cases hk : k = v <;> simp_all [AMap.get?]

/-- the observers `stream.Close` leaves are the old ones -/
theorem has_closedOf (s : St) (v : Vb) : (closedOf s).observers.has v = s.observers.has v := by
  have : (closedOf s).observers = s.observers.map fun x => (x.1, x.2.close.closeEnd) := by
    simp only [closedOf]
  rw [this]
  exact has_map_obs s.observers (fun o => o.close.closeEnd) v

/-- the ops that touch neither the positions nor the ghost component -/
theorem step_inv_quiet (s : St) (g : Gh) (op : Op) (h : Inv s g)
    (hop : match op with
      | .setHigh _ _ | .setFlog _ _ | .getOffsets | .metrics _ | .scrape | .persist _ _
      | .svBegin _ | .svUnmark _ | .svDump _ | .svStore _ _ | .save _ | .close => True
      | _ => False) : Inv (step s op).1 (ghStep g s op) := by
  cases op with
  | setHigh vb n =>
    rw [ghStep_other g s _ (step_sess s (by rfl)) rfl rfl]
    exact inv_frame h (step_sess s (by rfl)) (step_ctxs s (by rfl))
      (by rw [step_offsets s (by rfl)]; exact fun _ _ hp => Or.inl hp)
      (by rw [step_savers s (by rfl)]; exact fun _ _ _ hm => Or.inl hm)
      (by rw [step_store s (by rfl)]; exact fun _ _ hs => Or.inl hs)
      (by rw [step_observers s (by rfl)]; exact fun _ ho => ho)
  | setFlog vb n =>
    rw [ghStep_other g s _ (step_sess s (by rfl)) rfl rfl]
    exact inv_frame h (step_sess s (by rfl)) (step_ctxs s (by rfl))
      (by rw [step_offsets s (by rfl)]; exact fun _ _ hp => Or.inl hp)
      (by rw [step_savers s (by rfl)]; exact fun _ _ _ hm => Or.inl hm)
      (by rw [step_store s (by rfl)]; exact fun _ _ hs => Or.inl hs)
      (by rw [step_observers s (by rfl)]; exact fun _ ho => ho)
  | getOffsets =>
    rw [ghStep_other g s _ (step_sess s (by rfl)) rfl rfl]
    exact inv_frame h (step_sess s (by rfl)) (step_ctxs s (by rfl))
      (by rw [step_offsets s (by rfl)]; exact fun _ _ hp => Or.inl hp)
      (by rw [step_savers s (by rfl)]; exact fun _ _ _ hm => Or.inl hm)
      (by rw [step_store s (by rfl)]; exact fun _ _ hs => Or.inl hs)
      (by rw [step_observers s (by rfl)]; exact fun _ ho => ho)
  | metrics vb =>
    rw [ghStep_other g s _ (step_sess s (by rfl)) rfl rfl]
    exact inv_frame h (step_sess s (by rfl)) (step_ctxs s (by rfl))
      (by rw [step_offsets s (by rfl)]; exact fun _ _ hp => Or.inl hp)
      (by rw [step_savers s (by rfl)]; exact fun _ _ _ hm => Or.inl hm)
      (by rw [step_store s (by rfl)]; exact fun _ _ hs => Or.inl hs)
      (by rw [step_observers s (by rfl)]; exact fun _ ho => ho)
  | scrape =>
    rw [ghStep_other g s _ (step_sess s (by rfl)) rfl rfl]
    exact inv_frame h (step_sess s (by rfl)) (step_ctxs s (by rfl))
      (by rw [step_offsets s (by rfl)]; exact fun _ _ hp => Or.inl hp)
      (by rw [step_savers s (by rfl)]; exact fun _ _ _ hm => Or.inl hm)
      (by rw [step_store s (by rfl)]; exact fun _ _ hs => Or.inl hs)
      (by rw [step_observers s (by rfl)]; exact fun _ ho => ho)
  | persist vb q =>
    rw [ghStep_other g s _ (step_sess s (by rfl)) rfl rfl]
    refine inv_frame h (step_sess s (by rfl)) (step_ctxs s (by rfl))
      (by rw [step_offsets s (by rfl)]; exact fun _ _ hp => Or.inl hp)
      (by rw [step_savers s (by rfl)]; exact fun _ _ _ hm => Or.inl hm)
      (by rw [step_store s (by rfl)]; exact fun _ _ hs => Or.inl hs) ?_
    intro v hv
    simp only [step] at hv
    split at hv
    · exact hv
    · split at hv
      · exact hv
      · rename_i o ho
        rw [AMap.has_set] at hv
        by_cases hvv : v = vb
        · subst hvv; simp [AMap.has, ho]
        · simpa [hvv] using hv
  | svBegin k =>
    rw [ghStep_other g s _ (step_sess s (by rfl)) rfl rfl]
    refine inv_frame h (step_sess s (by rfl)) (step_ctxs s (by rfl))
      (by rw [step_offsets s (by rfl)]; exact fun _ _ hp => Or.inl hp) ?_
      (by rw [step_store s (by rfl)]; exact fun _ _ hs => Or.inl hs)
      (by rw [step_observers s (by rfl)]; exact fun _ ho => ho)
    intro k' st dd hm
    left
    simp only [step, svBegin] at hm
    (repeat' split at hm) <;> try exact hm
    rcases AMap.mem_set hm with h1 | h1
    · cases h1
    · exact h1
  | svUnmark k =>
    rw [ghStep_other g s _ (step_sess s (by rfl)) rfl rfl]
    refine inv_frame h (step_sess s (by rfl)) (step_ctxs s (by rfl))
      (by rw [step_offsets s (by rfl)]; exact fun _ _ hp => Or.inl hp) ?_
      (by rw [step_store s (by rfl)]; exact fun _ _ hs => Or.inl hs)
      (by rw [step_observers s (by rfl)]; exact fun _ ho => ho)
    intro k' st dd hm
    left
    simp only [step, svUnmark] at hm
    (repeat' split at hm) <;> try exact hm
    exact mem_filter_savers hm
  | svDump k =>
    rw [ghStep_other g s _ (step_sess s (by rfl)) rfl rfl]
    refine inv_frame h (step_sess s (by rfl)) (step_ctxs s (by rfl))
      (by rw [step_offsets s (by rfl)]; exact fun _ _ hp => Or.inl hp) ?_
      (by rw [step_store s (by rfl)]; exact fun _ _ hs => Or.inl hs)
      (by rw [step_observers s (by rfl)]; exact fun _ ho => ho)
    intro k' st dd hm
    simp only [step, svDump] at hm
    (repeat' split at hm) <;> try exact Or.inl hm
    rcases AMap.mem_set hm with h1 | h1
    · right
      injection h1 with _ h2
      injection h2 with h3 _
      subst h3
      exact fun vb d hd => dumpState_bounds h vb d hd
    · exact Or.inl h1
  | svStore k res =>
    rw [ghStep_other g s _ (step_sess s (by rfl)) rfl rfl]
    cases hk : s.savers.get? k with
    | none =>
      simp only [step, svStore, hk]
      exact inv_frame h rfl rfl (fun _ _ hp => Or.inl hp) (fun _ _ _ hm => Or.inl hm) (fun _ _ hs => Or.inl hs) (fun _ ho => ho)
    | some pc =>
      cases pc with
      | wantLock g' =>
        simp only [step, svStore, hk]
        exact inv_frame h rfl rfl (fun _ _ hp => Or.inl hp) (fun _ _ _ hm => Or.inl hm) (fun _ _ hs => Or.inl hs) (fun _ ho => ho)
      | stored =>
        simp only [step, svStore, hk]
        exact inv_frame h rfl rfl (fun _ _ hp => Or.inl hp) (fun _ _ _ hm => Or.inl hm) (fun _ _ hs => Or.inl hs) (fun _ ho => ho)
      | dumped st dd =>
        have hmem := AMap.mem_of_get?_eq_some hk
        have hst : ∀ vb d, (mdWrite s st dd res).1.get? vb = some d → s.store.get? vb = some d ∨
            (Bnd g vb d.seq ∧ Below s g.ak vb d.seq) := by
          intro vb d hg
          rcases mdWrite_get?_cases s st dd res vb d hg with h1 | h1
          · exact Or.inl h1
          · exact Or.inr (h.dump k st dd hmem vb d h1)
        simp only [step, svStore_of_dumped res hk]
        split
        · refine inv_frame h rfl rfl (fun _ _ hp => Or.inl hp) ?_ hst (fun _ ho => ho)
          intro k' st' d' hm
          rcases AMap.mem_set hm with h1 | h1
          · cases h1
          · exact Or.inl h1
        · exact inv_frame h rfl rfl (fun _ _ hp => Or.inl hp) (fun k' st' d' hm => Or.inl (mem_filter_savers hm))
            hst (fun _ ho => ho)
  | save res =>
    rw [ghStep_other g s _ (step_sess s (by rfl)) rfl rfl]
    have hst : ∀ vb d, (mdWrite s (dumpState s) (curDirty s) res).1.get? vb = some d →
        s.store.get? vb = some d ∨ (Bnd g vb d.seq ∧ Below s g.ak vb d.seq) := by
      intro vb d hg
      rcases mdWrite_get?_cases s _ _ res vb d hg with h1 | h1
      · exact Or.inl h1
      · exact Or.inr (dumpState_bounds h vb d h1)
    simp only [step, saveAll_eq]
    (repeat' split) <;>
      first
        | exact inv_frame h rfl rfl (fun _ _ hp => Or.inl hp) (fun _ _ _ hm => Or.inl hm) (fun _ _ hs => Or.inl hs) (fun _ ho => ho)
        | exact inv_frame h rfl rfl (fun _ _ hp => Or.inl hp) (fun _ _ _ hm => Or.inl hm) hst (fun _ ho => ho)
  | close =>
    rw [ghStep_other g s _ (step_sess s (by rfl)) rfl rfl]
    simp only [step]
    by_cases hio : s.isOpen = true
    · rw [closeSession_of_open hio]
      refine inv_frame h rfl rfl (fun _ _ hp => by simp [closedOf] at hp) (fun _ _ _ hm => Or.inl hm)
        (fun _ _ hs => Or.inl hs) ?_
      intro v hv
      rw [has_closedOf] at hv; exact hv
    · rw [closeSession_of_not_open (by simpa using hio)]
      exact h
  | _ => exact absurd hop (by simp)

/-- a new session has no delivered event yet -/
theorem below_new_session {s s' : St} {ak : AMap Nat} (hle : ∀ p ∈ s.ctxs, p.sess ≤ s.sess)
    (h1 : s'.sess = s.sess + 1) (h2 : s'.ctxs = s.ctxs) (vb : Vb) (x : Nat) : Below s' ak vb x := by
  intro p ⟨hm, hs, _⟩ _
  rw [h2] at hm
  have := hle p hm
  omega

/-- what `checkpoint.Load` hands out for a vBucket that has a stored document carries that document's seqno -/
theorem load_store_seq {s : St} {offs : AMap Offset} {dirty : List Vb} {any : Bool}
    (h : load s = some (offs, dirty, any)) (vb : Vb) (hvb : vb ∈ vbRange s.cfg) (d : Doc)
    (hd : s.store.get? vb = some d) : ∃ o, offs.get? vb = some o ∧ o.seq = d.seq := by
  unfold load mdLoad at h
  dsimp only at h
  split at h
  · rename_i hc
    simp only [Bool.and_eq_true, Bool.not_eq_true', List.any_eq_false] at hc
    have := hc.1 vb hvb
    simp [AMap.has, hd] at this
  · split at h
    · cases h
    · injection h with h
      injection h with h1 _
      refine ⟨d.toOffset (initLatest s.cfg.finite ((s.high.get? vb).getD 0)), ?_, rfl⟩
      rw [← h1]
      simp only [List.map_map, Function.comp_def]
      rw [AMap.get?_ofKeys (fun vb => ((s.store.get? vb).getD Doc.zero).toOffset
        (initLatest s.cfg.finite ((s.high.get? vb).getD 0)))]
      simp [hvb, hd]

/-- the two starts of `checkpoint.Load`: the latest-reset one (no stored document in the range), or
    every loaded position is the stored seqno of its vBucket (0 without a document) -/
theorem load_seq_cases {s : St} {offs : AMap Offset} {dirty : List Vb} {any : Bool}
    (h : load s = some (offs, dirty, any)) :
    (((vbRange s.cfg).any fun vb => s.store.has vb) = false ∧ s.cfg.resetLatest = true) ∨
    (∀ vb o, (vb, o) ∈ offs → o.seq = ((s.store.get? vb).getD Doc.zero).seq) := by
  unfold load mdLoad at h
  dsimp only at h
  split at h
  · rename_i hc
    simp only [Bool.and_eq_true, Bool.not_eq_true'] at hc
    exact Or.inl hc
  · split at h
    · cases h
    · injection h with h
      injection h with h1 _
      right
      intro vb o hm
      rw [← h1] at hm
      simp only [List.map_map, List.mem_map, Function.comp] at hm
      obtain ⟨v, _, he⟩ := hm
      injection he with e1 e2
      subst e1
      rw [← e2]; rfl

theorem hwOf_map_seq (offs : AMap Offset) (vb : Vb) :
    hwOf (offs.map fun p => (p.1, p.2.seq)) vb = ((offs.get? vb).map (·.seq)).getD 0 := by
  unfold hwOf
  congr 1
  induction offs with
  | nil => rfl
  | cons hd t ih =>
    obtain ⟨k, o⟩ := hd
    by_cases hk : k = vb <;> simp_all [AMap.get?]

/-- `crash` and `open` -/
theorem step_inv_session (s : St) (g : Gh) (op : Op) (h : Inv s g) (hop : op = .crash ∨ op = .open) :
    Inv (step s op).1 (ghStep g s op) := by
  rcases hop with rfl | rfl
  · -- crash
    have hs : (step s .crash).1.sess = s.sess + 1 := rfl
    have hc : (step s .crash).1.ctxs = s.ctxs := rfl
    refine ⟨?_, ?_, ?_, ?_, ?_, ?_, ?_⟩
    · intro p hp; rw [hc] at hp; rw [hs]; exact Nat.le_succ_of_le (h.sessLe p hp)
    · intro p hp hps; rw [hc] at hp; rw [hs] at hps; have := h.sessLe p hp; omega
    · intro vb o hm; simp [step, crash] at hm
    · intro vb o hm; simp [step, crash] at hm
    · intro k st dd hm; simp [step, crash] at hm
    · intro vb d _ ho; simp [step, crash, AMap.has] at ho
    · intro vb d _; exact below_new_session h.sessLe hs hc vb _
  · -- open
    by_cases hio : s.isOpen = true
    · have he : step s .open = (s, [.bad "already open"]) := by simp [step, openSession_of_isOpen hio]
      have hg : ghStep g s .open = g := by simp [ghStep, he]
      rw [hg, he]; exact h
    · have hio' : s.isOpen = false := by simpa using hio
      cases hl : load (openBase s) with
      | none =>
        have he : (step s .open).1 = { openBase s with everOpened := false } := by
          simp [step, openSession_of_load_none hio' hl]
        have hs : (step s .open).1.sess = s.sess + 1 := by rw [he]; rfl
        have hc : (step s .open).1.ctxs = s.ctxs := by rw [he]; rfl
        refine ⟨?_, ?_, ?_, ?_, ?_, ?_, ?_⟩
        · intro p hp; rw [hc] at hp; rw [hs]; exact Nat.le_succ_of_le (h.sessLe p hp)
        · intro p hp hps; rw [hc] at hp; rw [hs] at hps; have := h.sessLe p hp; omega
        · intro vb o hm; simp [he, openBase] at hm
        · intro vb o hm; simp [he, openBase] at hm
        · intro k st dd hm; simp [he, openBase] at hm
        · intro vb d _ ho; simp [he, openBase, AMap.has] at ho
        · intro vb d _; exact below_new_session h.sessLe hs hc vb _
      | some r =>
        obtain ⟨offs, dirty, any⟩ := r
        have he : (step s .open).1 =
            { openBase s with isOpen := true, everOpened := true, offsets := offs, dirtyMaps := [(0, dirty)],
                              anyDirty := any, observers := (offs.map fun p => (p.1, initObs s p.1 p.2)),
                              obsNil := false } := by
          simp [step, openSession_of_load_some hio' hl]
        have hs : (step s .open).1.sess = s.sess + 1 := by rw [he]; rfl
        have hc : (step s .open).1.ctxs = s.ctxs := by rw [he]; rfl
        have hoff : (step s .open).1.offsets = offs := by rw [he]
        have hgh : ghStep g s .open = { ak := [], hw := offs.map fun p => (p.1, p.2.seq) } := by
          simp [ghStep, hs, hoff]
        have hkeys := load_keys hl
        have hnd : (AMap.keys offs).Nodup := by rw [hkeys]; exact B.vbRange_nodup _
        rw [hgh]
        refine ⟨?_, ?_, ?_, ?_, ?_, ?_, ?_⟩
        · intro p hp; rw [hc] at hp; rw [hs]; exact Nat.le_succ_of_le (h.sessLe p hp)
        · intro p hp hps; rw [hc] at hp; rw [hs] at hps; have := h.sessLe p hp; omega
        · intro vb o hm
          rw [hoff] at hm
          left
          simp only [hwOf_map_seq, B.get?_of_mem_nodup hnd hm]
          exact Nat.le_refl _
        · intro vb o _; exact below_new_session h.sessLe hs hc vb _
        · intro k st dd hm; simp [he, openBase] at hm
        · intro vb d hst ho
          have hst' : (openBase s).store.get? vb = some d := by rw [he] at hst; exact hst
          have hvb : vb ∈ vbRange (openBase s).cfg := by
            rw [← hkeys]
            have : (step s .open).1.observers.has vb = true := ho
            rw [he] at this
            simp only at this
            rw [AMap.has_iff_mem_keys] at this
            have hk : AMap.keys (offs.map fun p => (p.1, initObs s p.1 p.2)) = AMap.keys offs :=
              AMap.keys_mapVal (fun vb o => initObs s vb o) offs
            rw [hk] at this; exact this
          obtain ⟨o, ho1, ho2⟩ := load_store_seq hl vb hvb d hst'
          left
          simp only [hwOf_map_seq, ho1, Option.map_some, Option.getD_some, ho2]
          exact Nat.le_refl _
        · intro vb d _; exact below_new_session h.sessLe hs hc vb _

theorem rebalOk_of_some {s : St} {lo hi : Vb} {r : AMap Offset × List Vb × Bool} (h1 : s.isOpen = true)
    (h2 : s.savers = []) (h3 : lo ≤ hi) (hl : load (rebalBase s lo hi) = some r) : rebalOk s lo hi = true := by
  simp [rebalOk, h1, h2, h3, hl]

theorem rebalOk_of_none {s : St} {lo hi : Vb} (hl : load (rebalBase s lo hi) = none) : rebalOk s lo hi = false := by
  simp [rebalOk, hl]

theorem rebalOk_of_refused {s : St} {lo hi : Vb} (hc : ¬ (s.isOpen = true ∧ s.savers = [] ∧ lo ≤ hi)) :
    rebalOk s lo hi = false := by
  cases hr : rebalOk s lo hi with
  | false => rfl
  | true =>
    exfalso; apply hc
    simp only [rebalOk, Bool.and_eq_true, decide_eq_true_eq, List.isEmpty_iff] at hr
    exact ⟨hr.1.1.1, hr.1.1.2, hr.1.2⟩

theorem ghStep_rebalance (g : Gh) (s : St) (lo hi : Vb) :
    ghStep g s (.rebalance lo hi) =
      if rebalOk s lo hi then
        { g with hw := (step s (.rebalance lo hi)).1.offsets.map fun p => (p.1, p.2.seq) }
      else g := by
  have hs : (step s (.rebalance lo hi)).1.sess = s.sess := step_sess s (by rfl)
  simp [ghStep, hs]

theorem ghStep_reopen (g : Gh) (s : St) (vb : Vb) :
    ghStep g s (.reopen vb) =
      match (step s (.reopen vb)).2 with
      | [.openreq v o] => { g with hw := g.hw.set v o.seq }
      | _ => g := by
  have hs : (step s (.reopen vb)).1.sess = s.sess := step_sess s (by rfl)
  simp [ghStep, hs]

/-- **a rebalance**: the session, its contexts and acknowledgements go on; positions are loaded again
    from the store, which is below every unsettled event (`storeBelow`) – unless the load takes the
    latest-reset start (`resetJumpAt`) -/
theorem step_inv_rebalance (s : St) (g : Gh) (lo hi : Vb) (h : Inv s g)
    (hrj : resetJumpAt s g (.rebalance lo hi) = false) :
    Inv (step s (.rebalance lo hi)).1 (ghStep g s (.rebalance lo hi)) := by
  rw [ghStep_rebalance]
  by_cases hc : s.isOpen = true ∧ s.savers = [] ∧ lo ≤ hi
  · obtain ⟨h1, h2, h3⟩ := hc
    cases hl : load (rebalBase s lo hi) with
    | none =>
      have he : (step s (.rebalance lo hi)).1 = { rebalBase s lo hi with everOpened := false } := by
        simp [step, rebalanceSession_of_load_none h1 h2 h3 hl]
      rw [rebalOk_of_none hl, he]
      simp only [Bool.false_eq_true, if_false]
      refine inv_frame h rfl rfl (fun _ _ hp => by simp [rebalBase, closedOf] at hp) (fun _ _ _ hm => Or.inl hm)
        (fun _ _ hs => Or.inl hs) ?_
      intro v hv
      have : (closedOf s).observers.has v = true := hv
      rw [has_closedOf] at this; exact this
    | some r =>
      obtain ⟨offs, dirty, any⟩ := r
      have he : (step s (.rebalance lo hi)).1 = rebalDone s lo hi offs dirty any := by
        simp [step, rebalanceSession_of_load_some h1 h2 h3 hl]
      rw [rebalOk_of_some h1 h2 h3 hl, he]
      simp only [if_true, rebalDone_offsets]
      have hkeys : AMap.keys offs = vbRange { s.cfg with lo := lo, hi := hi } := load_keys hl
      have hnd : (AMap.keys offs).Nodup := by rw [hkeys]; exact B.vbRange_nodup _
      have hsess : (rebalDone s lo hi offs dirty any).sess = s.sess := rfl
      have hctx : (rebalDone s lo hi offs dirty any).ctxs = s.ctxs := rfl
      refine ⟨?_, ?_, ?_, ?_, ?_, ?_, ?_⟩
      · intro p hp; exact h.sessLe p hp
      · intro p hp hps; exact h.ctxPos p hp hps
      · intro vb o hm
        left
        show o.seq ≤ hwOf (offs.map fun p => (p.1, p.2.seq)) vb
        simp only [hwOf_map_seq, B.get?_of_mem_nodup hnd hm]
        exact Nat.le_refl _
      · intro vb o hm
        apply below_congr hsess hctx
        rcases load_seq_cases hl with ⟨hne, hrl⟩ | hseq
        · -- latest-reset start: excluded unless nothing delivered in the new range is unsettled
          have hvb : vb ∈ vbRange { s.cfg with lo := lo, hi := hi } := by
            rw [← hkeys]; exact AMap.mem_keys_of_mem hm
          have hrl' : s.cfg.resetLatest = true := hrl
          have hne' : ((vbRange { s.cfg with lo := lo, hi := hi }).any fun vb => s.store.has vb) = false := hne
          have key : ∀ R : List Vb,
              (s.cfg.resetLatest && !(R.any fun vb => s.store.has vb) && R.any (anyUnsettled s g.ak)) = false →
              (R.any fun vb => s.store.has vb) = false → R.any (anyUnsettled s g.ak) = false := by
            intro R k1 k2; rw [hrl', k2] at k1; simpa using k1
          have hu := List.any_eq_false.1 (key _ hrj hne') vb hvb
          have hu' : anyUnsettled s g.ak vb = false := by simpa using hu
          intro p hp hv
          exact absurd hv ((anyUnsettled_false_iff s g.ak vb).1 hu' p hp)
        · have hq := hseq vb o hm
          have hst : (rebalBase s lo hi).store = s.store := rfl
          rw [hst] at hq
          cases hg : s.store.get? vb with
          | none =>
            rw [hg] at hq
            intro p ⟨hpm, hps, _⟩ _
            have := h.ctxPos p hpm hps
            simp only [Option.getD_none, Doc.zero] at hq
            omega
          | some d =>
            rw [hg] at hq
            simp only [Option.getD_some] at hq
            rw [hq]; exact h.storeBelow vb d hg
      · intro k st dd hm
        rw [rebalDone_savers, h2] at hm; cases hm
      · intro vb d hst ho
        have hst' : (rebalBase s lo hi).store.get? vb = some d := hst
        have hvb : vb ∈ vbRange (rebalBase s lo hi).cfg := by
          show vb ∈ vbRange { s.cfg with lo := lo, hi := hi }
          rw [← hkeys]
          rw [rebalDone_observers, AMap.has_iff_mem_keys] at ho
          have hk : AMap.keys (offs.map fun p => (p.1, initObs s p.1 p.2)) = AMap.keys offs :=
            AMap.keys_mapVal (fun vb o => initObs s vb o) offs
          rw [hk] at ho; exact ho
        obtain ⟨o, ho1, ho2⟩ := load_store_seq hl vb hvb d hst'
        left
        show d.seq ≤ hwOf (offs.map fun p => (p.1, p.2.seq)) vb
        simp only [hwOf_map_seq, ho1, Option.map_some, Option.getD_some, ho2]
        exact Nat.le_refl _
      · intro vb d hst
        exact below_congr hsess hctx (h.storeBelow vb d hst)
  · obtain ⟨w, e⟩ := rebalanceSession_of_refused (s := s) (lo := lo) (hi := hi) hc
    have he : (step s (.rebalance lo hi)).1 = s := by simp [step, e]
    rw [rebalOk_of_refused hc, he]
    simpa using h

/-- **a transient reopen**: nothing moves but the server's obligation for that vBucket, which
    starts again at the current position – nothing dumped or stored is ahead of it (`InvLe`) -/
theorem step_inv_reopen (s : St) (g : Gh) (vb : Vb) (h : Inv s g) (hle : InvLe s) :
    Inv (step s (.reopen vb)).1 (ghStep g s (.reopen vb)) := by
  rw [ghStep_reopen]
  simp only [step]
  rcases reopenStream_cases s vb with ⟨w, e⟩ | ⟨o, ob, h1, h2, h3, e⟩ <;> rw [e]
  · exact h
  · simp only
    have hob : s.observers.has vb = true := by simp [AMap.has, h3]
    refine ⟨h.sessLe, h.ctxPos, ?_, h.offBelow, ?_, ?_, h.storeBelow⟩
    · intro v o' hm
      refine bnd_set (h.offBnd v o' hm) ?_
      intro hv; subst hv
      have := B.get?_of_mem_nodup hle.nodup hm
      rw [h2] at this; cases this
      exact Nat.le_refl _
    · intro k st dd hm v d hd
      refine ⟨bnd_set (h.dump k st dd hm v d hd).1 ?_, (h.dump k st dd hm v d hd).2⟩
      intro hv; subst hv
      exact hle.dumpLe h1 k st dd hm v d hd o h2
    · intro v d hst hov
      have hov' : s.observers.has v = true := by
        simp only [] at hov
        rw [AMap.has_set] at hov
        by_cases hv : v = vb
        · subst hv; exact hob
        · simpa [hv] using hov
      refine bnd_set (h.storeBnd v d hst hov') ?_
      intro hv; subst hv
      exact hle.storeLe h1 v d hst o h2

theorem settled_mono_set (ak : AMap Nat) (vb v : Vb) (x q : Nat) (h : settled ak v q = true) :
    settled (ak.set vb (match ak.get? vb with | some a => max a x | none => x)) v q = true := by
  unfold settled at h ⊢
  rw [AMap.get?_set]
  by_cases hv : v = vb
  · subst hv
    simp only [if_true]
    cases ha : ak.get? v with
    | none => simp [ha] at h
    | some a => simp only [ha, decide_eq_true_eq] at h ⊢; omega
  · simp only [hv, if_false]; exact h

/-- an acknowledgement covers its own seqno -/
theorem settled_set_self (ak : AMap Nat) (vb : Vb) (x : Nat) :
    settled (ak.set vb (match ak.get? vb with | some a => max a x | none => x)) vb x = true := by
  unfold settled
  rw [AMap.get?_set_same]
  cases ha : ak.get? vb with
  | none => simp
  | some a => simp only [decide_eq_true_eq]; omega

/-- an effective acknowledgement -/
theorem step_inv_ack (s : St) (g : Gh) (i : Nat) (h : Inv s g) : Inv (step s (.ack i)).1 (ghStep g s (.ack i)) := by
  have hsess : (step s (.ack i)).1.sess = s.sess := step_sess s (by rfl)
  cases hc : s.ctxs[i]? with
  | none =>
    have he : step s (.ack i) = (s, [.bad "no such context"]) := by simp [step, hc]
    have hg : ghStep g s (.ack i) = g := by simp [ghStep, he, hc]
    rw [hg, he]; exact h
  | some p =>
    by_cases hps : p.sess = s.sess
    · have he : step s (.ack i) = ack s p := by simp [step, hc, hps]
      have hg : ghStep g s (.ack i) =
          { g with ak := g.ak.set p.vb (match g.ak.get? p.vb with | some a => max a p.off.seq | none => p.off.seq) } := by
        simp [ghStep, hsess, hc, hps]
      rw [hg, he]
      have hbel : ∀ v x, Below s g.ak v x →
          Below (ack s p).1 (g.ak.set p.vb (match g.ak.get? p.vb with | some a => max a p.off.seq | none => p.off.seq)) v x := by
        intro v x hb p' ⟨hm, hs, hu⟩ hv
        refine hb p' ⟨by simpa using hm, by simpa using hs, ?_⟩ hv
        cases hst : settled g.ak p'.vb p'.off.seq with
        | false => rfl
        | true => rw [settled_mono_set g.ak p.vb p'.vb p.off.seq p'.off.seq hst] at hu; cases hu
      have hbnd : ∀ v x, Bnd g v x →
          Bnd { g with ak := g.ak.set p.vb (match g.ak.get? p.vb with | some a => max a p.off.seq | none => p.off.seq) } v x := by
        intro v x hb
        rcases hb with hb | hb
        · exact Or.inl hb
        · exact Or.inr (settled_mono_set g.ak p.vb v p.off.seq x hb)
      refine ⟨?_, ?_, ?_, ?_, ?_, ?_, ?_⟩
      · intro p' hp'; simp only [ack_ctxs, ack_sess] at hp' ⊢; exact h.sessLe p' hp'
      · intro p' hp' hs'; simp only [ack_ctxs, ack_sess] at hp' hs'; exact h.ctxPos p' hp' hs'
      · intro vb o hm
        rw [ack_offsets] at hm
        rcases setOffset_mem _ _ _ _ _ hm with h1 | ⟨h1, _⟩
        · exact hbnd vb _ (h.offBnd vb o h1)
        · cases h1; exact Or.inr (settled_set_self g.ak p.vb p.off.seq)
      · intro vb o hm
        rw [ack_offsets] at hm
        rcases setOffset_mem _ _ _ _ _ hm with h1 | ⟨h1, _⟩
        · exact hbel vb _ (h.offBelow vb o h1)
        · cases h1
          intro p' ⟨_, _, hu⟩ hv
          unfold settled at hu
          rw [hv, AMap.get?_set_same] at hu
          cases ha : g.ak.get? p.vb with
          | none => simp [ha] at hu; omega
          | some a => simp [ha] at hu; omega
      · intro k st dd hm vb d hd
        simp only [ack_savers] at hm
        exact ⟨hbnd vb _ (h.dump k st dd hm vb d hd).1, hbel vb _ (h.dump k st dd hm vb d hd).2⟩
      · intro vb d hst ho
        simp only [ack_store, ack_observers] at hst ho
        exact hbnd vb _ (h.storeBnd vb d hst ho)
      · intro vb d hst
        simp only [ack_store] at hst
        exact hbel vb _ (h.storeBelow vb d hst)
    · have he : step s (.ack i) = (s, [.stale]) := by simp [step, hc, hps]
      have hg : ghStep g s (.ack i) = g := by simp [ghStep, he, hc, hps]
      rw [hg, he]; exact h

theorem passes_of_fwd {s : St} {vb : Vb} {e : SrvEv} {o : Obs} {le : LEvent}
    (ho : s.observers.get? vb = some o) (hf : (Obs.step s.cfg.obs o e).2 = .fwd le) : passes s vb e = true := by
  simp [passes, ho, hf]

/-- an absorbed server event: its vBucket, that it passed the gate, and that its offset is its own seqno -/
theorem settleOf_ev {s : St} {vb vb' : Vb} {e : SrvEv} {off : Offset} {d : Bool}
    (h : B.settleOf s (.ev vb e) = some (vb', off, d)) :
    vb' = vb ∧ passes s vb e = true ∧ srvSeq e = some off.seq := by
  unfold B.settleOf at h
  cases ho : s.observers.get? vb with
  | none => simp [ho] at h
  | some o =>
    simp only [ho] at h
    cases hout : (Obs.step s.cfg.obs o e).2 with
    | fwd le =>
      have hp := passes_of_fwd ho hout
      rw [hout] at h
      rcases Obs.step_fwd_cases hout with ⟨a, b, rfl, rfl⟩ | ⟨d', rfl, rfl, _⟩ | ⟨q, rfl, rfl⟩ |
          ⟨k, q, c, rfl, rfl, _⟩ | ⟨rfl, rfl⟩
      · simp at h
      · simp only at h
        split at h
        · injection h with h; injection h with h1 h; injection h with h2 _
          subst h1 h2; exact ⟨rfl, hp, by simp [srvSeq]⟩
        · cases h
      · simp only at h
        injection h with h; injection h with h1 h; injection h with h2 _
        subst h1 h2; exact ⟨rfl, hp, rfl⟩
      · simp only at h
        injection h with h; injection h with h1 h; injection h with h2 _
        subst h1 h2; exact ⟨rfl, hp, by simp [srvSeq]⟩
      · simp at h
    | _ => rw [hout] at h; simp at h

theorem ghStep_ev (g : Gh) (s : St) (vb : Vb) (e : SrvEv) :
    ghStep g s (.ev vb e) =
      if passes s vb e then
        match srvSeq e with
        | some q => { g with hw := g.hw.set vb q }
        | none => g
      else g := by
  have hs : (step s (.ev vb e)).1.sess = s.sess := step_sess s (by rfl)
  simp [ghStep, hs]

theorem inv_raise {s : St} {g : Gh} (h : Inv s g) (vb : Vb) (q : Nat) (hq : hwOf g.hw vb ≤ q) :
    Inv s { g with hw := g.hw.set vb q } := by
  refine ⟨h.sessLe, h.ctxPos, ?_, h.offBelow, ?_, ?_, h.storeBelow⟩
  · intro v o ho; exact bnd_raise (h.offBnd v o ho) hq
  · intro k st dd hk v d hd; exact ⟨bnd_raise (h.dump k st dd hk v d hd).1 hq, (h.dump k st dd hk v d hd).2⟩
  · intro v d hst ho; exact bnd_raise (h.storeBnd v d hst ho) hq

/-- one more context: what was below the unsettled ones stays below if it is below the new one
    (as far as the new one is unsettled) -/
theorem below_append {s s' : St} {ak : AMap Nat} {v : Vb} {x : Nat} (p0 : Pending) (hb : Below s ak v x)
    (hnew : p0.vb = v → settled ak p0.vb p0.off.seq = false → x < p0.off.seq)
    (hc : s'.ctxs = s.ctxs ++ [p0]) (hs : s'.sess = s.sess) :
    Below s' ak v x := by
  intro p ⟨hm, hps, hu⟩ hv
  rw [hc] at hm
  rcases List.mem_append.mp hm with hm | hm
  · exact hb p ⟨hm, by rw [← hs]; exact hps, hu⟩ hv
  · simp at hm; subst hm; exact hnew hv hu

theorem evStep_has (s : St) (vb : Vb) (e : SrvEv) (v : Vb) (h : (evStep s vb e).1.observers.has v = true) :
    s.observers.has v = true := by
  rw [GoDcp.C03.evStep_observers] at h
  split at h
  · exact h
  · rename_i o ho
    rw [AMap.has_set] at h
    by_cases hv : v = vb
    · subst hv; simp [AMap.has, ho]
    · simpa [hv] using h

/-- a server event -/
theorem step_inv_ev (s : St) (g : Gh) (vb : Vb) (e : SrvEv) (h : Inv s g)
    (hkf : overtakeAt s g (.ev vb e) = false) (hmono : monoOk s g (.ev vb e) = true) :
    Inv (step s (.ev vb e)).1 (ghStep g s (.ev vb e)) := by
  have hsess : (step s (.ev vb e)).1.sess = s.sess := step_sess s (by rfl)
  have hstore : (step s (.ev vb e)).1.store = s.store := step_store s (by rfl)
  have hsav : (step s (.ev vb e)).1.savers = s.savers := step_savers s (by rfl)
  have hoffs := B.settle_offsets s (.ev vb e) rfl
  rw [ghStep_ev]
  -- the ghost after the step satisfies the invariant with the old state
  have hraise : Inv s (if passes s vb e then
        match srvSeq e with
        | some q => { g with hw := g.hw.set vb q }
        | none => g
      else g) := by
    split
    · rename_i hp
      cases hq : srvSeq e with
      | none => exact h
      | some q =>
        simp only [monoOk, hp, if_true, hq, decide_eq_true_eq] at hmono
        exact inv_raise h vb q (Nat.le_of_lt hmono)
    · exact h
  simp only [step] at hsess hstore hsav hoffs ⊢
  rcases GoDcp.C03.evStep_deliver_cases s vb e with ⟨_, hctx⟩ | ⟨o, d, off, c, t, ho, hfwd, hm, _, hctx⟩
  · -- nothing delivered
    cases hso : B.settleOf s (.ev vb e) with
    | none =>
      rw [hso] at hoffs
      exact inv_frame hraise hsess hctx (by rw [hoffs]; exact fun _ _ hp => Or.inl hp)
        (by rw [hsav]; exact fun _ _ _ hm => Or.inl hm) (by rw [hstore]; exact fun _ _ hs => Or.inl hs)
        (evStep_has s vb e)
    | some r =>
      obtain ⟨vb', off, dd⟩ := r
      obtain ⟨rfl, hp, hq⟩ := settleOf_ev hso
      rw [hso] at hoffs
      simp only at hoffs
      simp only [overtakeAt, hso, Option.isSome_some, Bool.true_and] at hkf
      have hnone := (anyUnsettled_false_iff s g.ak vb').mp hkf
      simp only [hp, if_true, hq] at hraise ⊢
      refine inv_frame hraise hsess hctx ?_
        (by rw [hsav]; exact fun _ _ _ hm => Or.inl hm) (by rw [hstore]; exact fun _ _ hs => Or.inl hs)
        (evStep_has s vb' e)
      intro v o hmem
      rw [hoffs] at hmem
      split at hmem
      · rcases AMap.mem_set hmem with h1 | h1
        · right
          injection h1 with h1 h2
          subst h1 h2
          refine ⟨Or.inl (by show o.seq ≤ hwOf (g.hw.set v o.seq) v; rw [hwOf_set]; simp), ?_⟩
          intro p hu hv
          exact absurd hv (hnone p hu)
        · exact Or.inl h1
      · exact Or.inl hmem
  · -- a delivery: the event is a user document with seqno above everything sent since the last request
    have hp := passes_of_fwd ho hfwd
    obtain ⟨he, _, _, hseq, _⟩ := GoDcp.Obs.C03.obs_faithful_step s.cfg.obs o (Obs.step s.cfg.obs o e).1 e d off c t
      (by rw [← hfwd])
    subst he
    have hso : B.settleOf s (.ev vb (.doc d)) = none := by
      simp [B.settleOf, ho, hfwd, hm]
    rw [hso] at hoffs
    have hq : srvSeq (.doc d) = some off.seq := by simp [srvSeq, hseq]
    simp only [monoOk, hp, if_true, hq, decide_eq_true_eq] at hmono
    simp only [hp, if_true, hq]
    have hle : hwOf g.hw vb ≤ off.seq := Nat.le_of_lt hmono
    have hobs : s.observers.has vb = true := by simp [AMap.has, ho]
    have hbel : ∀ v x, Below s g.ak v x → (v = vb → Bnd g vb x) →
        Below (evStep s vb (.doc d)).1 g.ak v x := by
      intro v x hb hx
      refine below_append ⟨s.sess, vb, off⟩ hb ?_ hctx hsess
      intro hv hu
      exact bnd_lt (hx hv.symm) hmono hu
    refine ⟨?_, ?_, ?_, ?_, ?_, ?_, ?_⟩
    · intro p hpm
      rw [hctx] at hpm; rw [hsess]
      rcases List.mem_append.mp hpm with hpm | hpm
      · exact h.sessLe p hpm
      · simp at hpm; subst hpm; exact Nat.le_refl _
    · intro p hpm hps
      rw [hctx] at hpm; rw [hsess] at hps
      rcases List.mem_append.mp hpm with hpm | hpm
      · exact h.ctxPos p hpm hps
      · simp at hpm; subst hpm; show 0 < off.seq; omega
    · intro v o' hmem
      rw [hoffs] at hmem
      exact bnd_raise (h.offBnd v o' hmem) hle
    · intro v o' hmem
      rw [hoffs] at hmem
      exact hbel v _ (h.offBelow v o' hmem) (fun hv => hv ▸ h.offBnd v o' hmem)
    · intro k st dd hk v d' hd
      rw [hsav] at hk
      have := h.dump k st dd hk v d' hd
      exact ⟨bnd_raise this.1 hle, hbel v _ this.2 (fun hv => hv ▸ this.1)⟩
    · intro v d' hst hov
      rw [hstore] at hst
      exact bnd_raise (h.storeBnd v d' hst (evStep_has s vb _ v hov)) hle
    · intro v d' hst
      rw [hstore] at hst
      exact hbel v _ (h.storeBelow v d' hst) (fun hv => by subst hv; exact h.storeBnd v d' hst hobs)

/-- **one step keeps the invariant** provided the step shows no overtaking, the
    server keeps its contract at this step, a rebalance does not take the latest-reset start over an
    unsettled event, and the op is not an external store write -/
theorem step_inv (s : St) (g : Gh) (op : Op) (h : Inv s g) (hle : InvLe s) (hkf : overtakeAt s g op = false)
    (hmono : monoOk s g op = true) (hrj : resetJumpAt s g op = false) (hns : isSetStore op = false) :
    Inv (step s op).1 (ghStep g s op) := by
  cases op with
  | setStore vb d => simp [isSetStore] at hns
  | ev vb e => exact step_inv_ev s g vb e h hkf hmono
  | ack i => exact step_inv_ack s g i h
  | crash => exact step_inv_session s g _ h (Or.inl rfl)
  | «open» => exact step_inv_session s g _ h (Or.inr rfl)
  | rebalance lo hi => exact step_inv_rebalance s g lo hi h hrj
  | reopen vb => exact step_inv_reopen s g vb h hle
  | _ => exact step_inv_quiet s g _ h trivial

/-! #### `InvLe` -/

theorem dumpState_le {s : St} (hn : (AMap.keys s.offsets).Nodup) {vb : Vb} {d : Doc} (hd : (vb, d) ∈ dumpState s)
    {o : Offset} (ho : s.offsets.get? vb = some o) : d.seq ≤ o.seq := by
  obtain ⟨o', ho', hdo⟩ := mem_dumpState hd
  simp only at ho' hdo
  have := B.get?_of_mem_nodup hn ho'
  rw [ho] at this; cases this
  rw [hdo]; exact Nat.le_refl _

/-- positions, open flag and range stay; new dumps are dumps of the positions, new stored
    documents come from a dump in flight or from a dump of the positions -/
theorem invLe_frame {s s' : St} (h : InvLe s) (ho : s'.offsets = s.offsets) (hio : s'.isOpen = s.isOpen)
    (hc : s'.cfg = s.cfg)
    (hsav : ∀ k st d, (k, SaverPc.dumped st d) ∈ s'.savers → (k, SaverPc.dumped st d) ∈ s.savers ∨ st = dumpState s)
    (hst : ∀ vb d, s'.store.get? vb = some d → s.store.get? vb = some d ∨
      (∃ k st dd, (k, SaverPc.dumped st dd) ∈ s.savers ∧ (vb, d) ∈ st) ∨ (vb, d) ∈ dumpState s) : InvLe s' := by
  refine ⟨by rw [ho]; exact h.nodup, ?_, ?_, ?_⟩
  · intro hop vb hr; rw [hio] at hop; rw [hc] at hr; rw [ho]; exact h.hasEntry hop vb hr
  · intro hop k st dd hm vb d hd o hg
    rw [hio] at hop; rw [ho] at hg
    rcases hsav k st dd hm with hm' | rfl
    · exact h.dumpLe hop k st dd hm' vb d hd o hg
    · exact dumpState_le h.nodup hd hg
  · intro hop vb d hs o hg
    rw [hio] at hop; rw [ho] at hg
    rcases hst vb d hs with h1 | ⟨k, st, dd, hm, hd⟩ | hd
    · exact h.storeLe hop vb d h1 o hg
    · exact h.dumpLe hop k st dd hm vb d hd o hg
    · exact dumpState_le h.nodup hd hg

theorem invLe_quiet (s : St) (op : Op) (h : InvLe s) (h1 : op.touchesOffsets = false) (h2 : op.touchesIsOpen = false)
    (h3 : op.touchesCfg = false) (h4 : op.touchesStore = false) : InvLe (step s op).1 :=
  invLe_frame h (step_offsets s h1) (step_isOpen s h2) (step_cfg s h3) (fun _ _ _ hm => step_savers_dumped hm)
    (fun vb d hg => Or.inl (by rw [step_store s h4] at hg; exact hg))

/-- a stream object that is not open satisfies `InvLe` as soon as its positions have distinct keys -/
theorem invLe_closed {s : St} (hn : (AMap.keys s.offsets).Nodup) (hio : s.isOpen = false) : InvLe s := by
  refine ⟨hn, ?_, ?_, ?_⟩ <;> (intro h; rw [hio] at h; cases h)

/-- right after a successful load (`Open`, rebalance): one position per assigned vBucket, no saver,
    every position is the stored seqno or the latest-reset start (no stored document in the range) -/
theorem invLe_loaded {s0 s' : St} {offs : AMap Offset} {dirty : List Vb} {any : Bool}
    (hl : load s0 = some (offs, dirty, any)) (hc : s'.cfg = s0.cfg) (hst : s'.store = s0.store)
    (ho : s'.offsets = offs) (hsv : s'.savers = []) : InvLe s' := by
  have hkeys := load_keys hl
  have hnd : (AMap.keys offs).Nodup := by rw [hkeys]; exact B.vbRange_nodup _
  refine ⟨by rw [ho]; exact hnd, ?_, ?_, ?_⟩
  · intro _ vb hr
    rw [ho, AMap.has_iff_mem_keys, hkeys, ← hc]
    exact (inRange_iff_mem_vbRange _ _).1 hr
  · intro _ k st dd hm; rw [hsv] at hm; cases hm
  · intro _ vb d hs o hg
    rw [ho] at hg; rw [hst] at hs
    have hvb : vb ∈ vbRange s0.cfg := by
      rw [← hkeys]; exact AMap.mem_keys_of_mem (AMap.mem_of_get?_eq_some hg)
    obtain ⟨o', ho1, ho2⟩ := load_store_seq hl vb hvb d hs
    rw [hg] at ho1; cases ho1
    omega

/-- an acknowledgement or a server event: positions only move up (every assigned vBucket has one) -/
theorem invLe_settle (s : St) (op : Op) (hop : B.isSettleOp op = true) (h : InvLe s) : InvLe (step s op).1 := by
  have hio : (step s op).1.isOpen = s.isOpen :=
    step_isOpen s (by cases op <;> first | rfl | simp [B.isSettleOp] at hop)
  have hcf : (step s op).1.cfg = s.cfg :=
    step_cfg s (by cases op <;> first | rfl | simp [B.isSettleOp] at hop)
  have hst : (step s op).1.store = s.store :=
    step_store s (by cases op <;> first | rfl | simp [B.isSettleOp] at hop)
  have hsv : (step s op).1.savers = s.savers :=
    step_savers s (by cases op <;> first | rfl | simp [B.isSettleOp] at hop)
  have hget := B.settle_get? s op hop
  have hle : ∀ v o', (step s op).1.offsets.get? v = some o' → ∀ x, (∀ o, s.offsets.get? v = some o → x ≤ o.seq) →
      s.isOpen = true → x ≤ o'.seq := by
    intro v o' hg x hx hopen
    rw [hget] at hg
    cases hso : B.settleOf s op with
    | none => rw [hso] at hg; exact hx o' hg
    | some r =>
      obtain ⟨vb, off, dd⟩ := r
      rw [hso] at hg
      simp only at hg
      split at hg
      · rename_i hcond
        obtain ⟨rfl, hacc⟩ := hcond
        injection hg with hg
        subst hg
        obtain ⟨hr, hpos⟩ := (accepts_iff_pos s v off).1 hacc
        obtain ⟨cur, hcur⟩ := (AMap.has_iff_exists _ _).1 (h.hasEntry hopen v hr)
        have := hx cur hcur
        rw [posSeq_of_get? hcur] at hpos
        omega
      · exact hx o' hg
  refine ⟨B.offsets_nodup_step s op h.nodup, ?_, ?_, ?_⟩
  · intro hopen vb hr
    rw [hio] at hopen; rw [hcf] at hr
    obtain ⟨cur, hcur⟩ := (AMap.has_iff_exists _ _).1 (h.hasEntry hopen vb hr)
    rw [AMap.has_iff_exists, hget]
    cases hso : B.settleOf s op with
    | none => exact ⟨cur, hcur⟩
    | some r =>
      obtain ⟨a, b, c⟩ := r
      simp only
      split
      · exact ⟨_, rfl⟩
      · exact ⟨cur, hcur⟩
  · intro hopen k st dd hm vb d hd o' hg
    rw [hio] at hopen; rw [hsv] at hm
    exact hle vb o' hg d.seq (fun o ho => h.dumpLe hopen k st dd hm vb d hd o ho) hopen
  · intro hopen vb d hs o' hg
    rw [hio] at hopen; rw [hst] at hs
    exact hle vb o' hg d.seq (fun o ho => h.storeLe hopen vb d hs o ho) hopen

/-- **`InvLe` is preserved by every op** except an external store write -/
theorem step_invLe (s : St) (op : Op) (h : InvLe s) (hns : isSetStore op = false) : InvLe (step s op).1 := by
  have hnd := B.offsets_nodup_step s op h.nodup
  cases op with
  | setStore vb d => simp [isSetStore] at hns
  | ack i => exact invLe_settle s _ rfl h
  | ev vb e => exact invLe_settle s _ rfl h
  | setHigh vb n => exact invLe_quiet s _ h rfl rfl rfl rfl
  | setFlog vb n => exact invLe_quiet s _ h rfl rfl rfl rfl
  | svBegin k => exact invLe_quiet s _ h rfl rfl rfl rfl
  | svDump k => exact invLe_quiet s _ h rfl rfl rfl rfl
  | svUnmark k => exact invLe_quiet s _ h rfl rfl rfl rfl
  | persist vb q => exact invLe_quiet s _ h rfl rfl rfl rfl
  | getOffsets => exact invLe_quiet s _ h rfl rfl rfl rfl
  | metrics vb => exact invLe_quiet s _ h rfl rfl rfl rfl
  | scrape => exact invLe_quiet s _ h rfl rfl rfl rfl
  | reopen vb => exact invLe_quiet s _ h rfl rfl rfl rfl
  | save res =>
    refine invLe_frame h (step_offsets s (by rfl)) (step_isOpen s (by rfl)) (step_cfg s (by rfl))
      (fun _ _ _ hm => step_savers_dumped hm) ?_
    intro vb d hg
    simp only [step, saveAll_eq] at hg
    (repeat' split at hg) <;> first
      | exact Or.inl hg
      | (rcases mdWrite_get?_cases s _ _ res vb d hg with h1 | h1
         · exact Or.inl h1
         · exact Or.inr (Or.inr h1))
  | svStore k res =>
    refine invLe_frame h (step_offsets s (by rfl)) (step_isOpen s (by rfl)) (step_cfg s (by rfl))
      (fun _ _ _ hm => step_savers_dumped hm) ?_
    intro vb d hg
    cases hk : s.savers.get? k with
    | none => simp only [step, svStore, hk] at hg; exact Or.inl hg
    | some pc =>
      cases pc with
      | wantLock g' => simp only [step, svStore, hk] at hg; exact Or.inl hg
      | stored => simp only [step, svStore, hk] at hg; exact Or.inl hg
      | dumped st dd =>
        have hmem := AMap.mem_of_get?_eq_some hk
        simp only [step, svStore_of_dumped res hk] at hg
        split at hg <;>
        · rcases mdWrite_get?_cases s st dd res vb d hg with h1 | h1
          · exact Or.inl h1
          · exact Or.inr (Or.inl ⟨k, st, dd, hmem, h1⟩)
  | crash => exact invLe_closed hnd rfl
  | close =>
    by_cases hio : s.isOpen = true
    · exact invLe_closed hnd (by simp [step, closeSession_of_open hio, closedOf])
    · have : (step s .close).1 = s := by simp [step, closeSession_of_not_open (by simpa using hio)]
      rw [this]; exact h
  | «open» =>
    by_cases hio : s.isOpen = true
    · have : (step s .open).1 = s := by simp [step, openSession_of_isOpen hio]
      rw [this]; exact h
    · have hio' : s.isOpen = false := by simpa using hio
      cases hl : load (openBase s) with
      | none => exact invLe_closed hnd (by simp [step, openSession_of_load_none hio' hl, openBase])
      | some r =>
        obtain ⟨offs, dirty, any⟩ := r
        refine invLe_loaded hl ?_ ?_ ?_ ?_ <;> simp [step, openSession_of_load_some hio' hl, openBase]
  | rebalance lo hi =>
    simp only [step]
    rcases rebalanceSession_cases s lo hi with ⟨_, e⟩ | ⟨_, _, _, _, e⟩ | ⟨offs, dirty, any, _, hs, _, hl, e⟩
    · rw [e]; exact h
    · have hnd' := hnd
      simp only [step] at hnd'
      rw [e] at hnd' ⊢
      exact invLe_closed hnd' rfl
    · rw [e]
      exact invLe_loaded hl rfl rfl rfl (by rw [rebalDone_savers]; exact hs)

theorem scanG_cons_false {bad : St → Gh → Op → Bool} {g : Gh} {s : St} {op : Op} {r : List Op}
    (h : scanG bad g s (op :: r) = false) :
    bad s g op = false ∧ scanG bad (ghStep g s op) (step s op).1 r = false := by
  simpa [scanG] using h

theorem run_inv (s : St) (g : Gh) (ops : List Op) (h : Inv s g) (hle : InvLe s)
    (hkf : scanG overtakeAt g s ops = false)
    (hmono : scanG (fun s g op => !monoOk s g op) g s ops = false)
    (hrj : scanG resetJumpAt g s ops = false)
    (hns : ∀ op ∈ ops, isSetStore op = false) : Inv (run s ops) (ghRun g s ops) ∧ InvLe (run s ops) := by
  induction ops generalizing s g with
  | nil => exact ⟨h, hle⟩
  | cons op r ih =>
    obtain ⟨k1, k2⟩ := scanG_cons_false hkf
    obtain ⟨m1, m2⟩ := scanG_cons_false hmono
    obtain ⟨j1, j2⟩ := scanG_cons_false hrj
    have hn := hns op List.mem_cons_self
    exact ih _ _ (step_inv s g op h hle k1 (by simpa using m1) j1 hn) (step_invLe s op hle hn) k2 m2 j2
      (fun o ho => hns o (List.mem_cons_of_mem _ ho))

theorem inv_fresh (s : St) (h : Fresh s) : Inv s {} := by
  obtain ⟨h1, h2, h3, h4, _⟩ := h
  refine ⟨?_, ?_, ?_, ?_, ?_, ?_, ?_⟩
  · intro p hp; simp [h3] at hp
  · intro p hp; simp [h3] at hp
  · intro vb o hm; simp [h1] at hm
  · intro vb o hm; simp [h1] at hm
  · intro k st dd hm; simp [h2] at hm
  · intro vb d _ ho; simp [h4, AMap.has] at ho
  · intro vb d _ p ⟨hp, _, _⟩; simp [h3] at hp

theorem invLe_fresh (s : St) (h : Fresh s) : InvLe s := by
  obtain ⟨h1, _, _, _, h5⟩ := h
  exact invLe_closed (by rw [h1]; exact List.nodup_nil) h5

/-- **C01b_partial**: for every run of a fresh process – all ops, any interleaving
    over any number of vBuckets, partial stores, crashes, reopenings, rebalances (the contexts
    handed out before stay unsettled across them), transient reopens – in which
    * no absorbed event overtakes an unsettled delivery (`KF.C01_overtake = false`),
    * the server sends strictly increasing seqnos per vBucket between two stream requests of that
      vBucket, above the requested position (`KF.srvMonotone`),
    * no rebalance takes the latest-reset start over a delivered but unsettled event of its new
      range (`KF.C01_resetJump = false`; hypothesis added with `.rebalance`, needed:
      `C01b_rebalance_reset_refuted`), and
    * the store is written by the library only,
    at EVERY step of the run (every prefix `pre`), for every vBucket:
    the stored checkpoint and the tracked position are strictly below every
    delivered event of that vBucket that no acknowledgement has settled yet
    (cumulative reading: unsettled = no acknowledgement at or above its seqno in
    this session).  Hence a restart at that point requests the stream from before
    every such event.  After a crash / reopen the statement speaks about the new
    session (positions reload from the store); a rebalance reloads them inside the session. -/
theorem C01b_partial (s0 : St) (ops : List Op) (hf : Fresh s0) (hkf : KF.C01_overtake s0 ops = false)
    (hmono : KF.srvMonotone s0 ops = true) (hrj : KF.C01_resetJump s0 ops = false)
    (hns : ∀ op ∈ ops, isSetStore op = false)
    (pre post : List Op) (hsp : ops = pre ++ post) :
    (∀ vb d, (run s0 pre).store.get? vb = some d → Below (run s0 pre) (ghRun {} s0 pre).ak vb d.seq) ∧
    (∀ vb o, (vb, o) ∈ (run s0 pre).offsets → Below (run s0 pre) (ghRun {} s0 pre).ak vb o.seq) ∧
    (∀ k st dirty, (k, SaverPc.dumped st dirty) ∈ (run s0 pre).savers → ∀ vb d, (vb, d) ∈ st →
        Below (run s0 pre) (ghRun {} s0 pre).ak vb d.seq) := by
  subst hsp
  have hkf' : scanG overtakeAt {} s0 pre = false := scanG_append_false hkf
  have hmono' : scanG (fun s g op => !monoOk s g op) {} s0 pre = false := by
    apply scanG_append_false (b := post)
    simpa [KF.srvMonotone] using hmono
  have hrj' : scanG resetJumpAt {} s0 pre = false := scanG_append_false hrj
  have := (run_inv s0 {} pre (inv_fresh s0 hf) (invLe_fresh s0 hf) hkf' hmono' hrj'
    (fun o ho => hns o (List.mem_append_left _ ho))).1
  exact ⟨this.storeBelow, this.offBelow, fun k st dd hk vb d hd => (this.dump k st dd hk vb d hd).2⟩

/-- the final-state form: under the same hypotheses the full clause holds -/
theorem C01b_partial_claim (s0 : St) (ops : List Op) (hf : Fresh s0) (hkf : KF.C01_overtake s0 ops = false)
    (hmono : KF.srvMonotone s0 ops = true) (hrj : KF.C01_resetJump s0 ops = false)
    (hns : ∀ op ∈ ops, isSetStore op = false) : C01b_claim s0 ops :=
  (C01b_partial s0 ops hf hkf hmono hrj hns ops [] (by simp)).1

/-- the unsettled notion is the intended one: a delivered event of the current
    session with no acknowledgement of its own or of a later event of its vBucket
    is unsettled (so "never acknowledged at all on that vBucket" implies unsettled) -/
theorem unsettled_of_no_ack {s : St} {ak : AMap Nat} {p : Pending} (hm : p ∈ s.ctxs) (hs : p.sess = s.sess)
    (h : ak.get? p.vb = none) : Unsettled s ak p := by
  refine ⟨hm, hs, ?_⟩
  simp [settled, h]

/-- witness for the hypothesis on rebalances: with `resetLatest` and nothing stored, event 1 of
    vBucket 0 is delivered and never acknowledged; the rebalance loads the latest-reset start
    (position 5, marked dirty, flag up) and the save stores 5 -/
def wRJ : List Op :=
  [.open, .ev 0 (.marker 1 9), .ev 0 (muEv 1), .setHigh 0 5, .rebalance 0 0, .save .ok]
def sRJ : St := { cfg := { resetLatest := true } }

/-- **the rebalance hypothesis of `C01b_partial` is needed**: no absorbed event, the server keeps its
    contract, the library alone writes the store – and yet the stored checkpoint of vBucket 0 (5)
    is beyond the delivered, never acknowledged event 1 -/
theorem C01b_rebalance_reset_refuted :
    Fresh sRJ ∧ KF.C01_overtake sRJ wRJ = false ∧ KF.srvMonotone sRJ wRJ = true ∧
    (∀ op ∈ wRJ, isSetStore op = false) ∧ KF.C01_resetJump sRJ wRJ = true ∧
    (run sRJ wRJ).ctxs[0]? = some ⟨1, 0, ⟨0, 1, 1, 9, maxU64⟩⟩ ∧ (run sRJ wRJ).sess = 1 ∧
    (ghRun {} sRJ wRJ).ak = [] ∧ (run sRJ wRJ).store.get? 0 = some ⟨0, 5, 5, 5⟩ ∧
    ¬ C01b_claim sRJ wRJ := by
  refine ⟨⟨rfl, rfl, rfl, rfl, rfl⟩, by decide, by decide, by decide, by decide, by decide, by decide, by decide,
    by decide, ?_⟩
  intro h
  have := h 0 ⟨0, 5, 5, 5⟩ (by decide) ⟨1, 0, ⟨0, 1, 1, 9, maxU64⟩⟩ ⟨by decide, by decide, by decide⟩ rfl
  simp at this

/-- non-vacuity: deliveries on two vBuckets, a batched (cumulative) acknowledgement,
    absorbed events only when everything delivered is settled, a partial save, a
    crash and a reopening; then a rebalance with an unsettled delivery (event 4 of vBucket 0 is
    sent and delivered again, the earlier context is acknowledged afterwards), a failover and a
    transient reopen after which the server sends event 5 again; the hypotheses hold and the
    store is not empty -/
example :
    let s0 : St := { cfg := { lo := 0, hi := 1 } }
    let ops : List Op := [.setHigh 0 20, .setHigh 1 20, .open, .ev 0 (.marker 1 9), .ev 1 (.marker 1 9),
      .ev 0 (muEv 1), .ev 0 (muEv 2), .ev 1 (muEv 1), .ack 1, .ev 0 (.seqAdv 3), .ack 2,
      .ev 0 (.marker 4 9), .ev 0 (muEv 4), .save (.part [0]), .crash, .open,
      .ev 0 (.marker 4 9), .ev 0 (muEv 4), .ev 1 (.marker 1 9), .ev 1 (muEv 1), .ack 4, .save .ok,
      .ev 0 (muEv 5), .rebalance 0 0, .ev 0 (.marker 5 9), .ev 0 (muEv 5), .ack 6, .setFlog 0 7, .reopen 0,
      .ev 0 (.marker 5 9), .ev 0 (muEv 6), .ack 8, .save .ok]
    Fresh s0 ∧ KF.C01_overtake s0 ops = false ∧ KF.srvMonotone s0 ops = true ∧
    KF.C01_resetJump s0 ops = false ∧
    (∀ op ∈ ops, isSetStore op = false) ∧
    (run s0 ops).store = [(0, ⟨7, 6, 5, 9⟩)] ∧
    (run s0 ops).ctxs.length = 9 := by
  refine ⟨⟨rfl, rfl, rfl, rfl, rfl⟩, by decide, by decide, by decide, by decide, by decide, by decide⟩

end GoDcp.C01
