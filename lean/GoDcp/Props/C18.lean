import GoDcp.Model.Version
import GoDcp.Spec.C18
/-!
# C18 — server-version gating rests on a consistent total order

All order theorems quantify over **all** `Version`s with `Int` components (the
Go fields are `int`; nothing depends on a bound).  The parser theorems quantify
over all natural components and all edition strings; the only hypothesis is
that a component fits Go's 64-bit `int` (`< 2^63`) – beyond that the statement
is false of the code and the refutation is proved (`parse_render_unbounded_refuted`,
`parse_build_overflow_clamps`).
-/
namespace GoDcp.Version
open GoDcp.Spec.C18

/-! ## the order -/

/-- `Equal` coincides with equality of the 4-tuples -/
theorem equal_iff_eq (v w : Version) : equal v w = true ↔ v = w := by
  cases v; cases w
  simp [equal, Version.mk.injEq, and_assoc]

/-- `Higher v w` ⇔ `w` is lexicographically smaller than `v` -/
theorem higher_iff_lexLt (v w : Version) : higher v w = true ↔ lexLt w v := by
  unfold higher lexLt
  repeat' split
  all_goals simp
  all_goals omega

theorem lexLt_irrefl (v : Version) : ¬ lexLt v v := by
  unfold lexLt; omega

theorem lexLt_trans {a b c : Version} (h1 : lexLt a b) (h2 : lexLt b c) : lexLt a c := by
  unfold lexLt at *; omega

theorem lexLt_asymm {a b : Version} (h1 : lexLt a b) : ¬ lexLt b a := by
  unfold lexLt at *; omega

/-- the lexicographic order is total -/
theorem lexLt_total (a b : Version) : lexLt a b ∨ a = b ∨ lexLt b a := by
  cases a; cases b
  simp only [lexLt, Version.mk.injEq]
  omega

theorem lexLe_trans {a b c : Version} (h1 : lexLe a b) (h2 : lexLe b c) : lexLe a c := by
  rcases h1 with h1 | rfl
  · rcases h2 with h2 | rfl
    · exact .inl (lexLt_trans h1 h2)
    · exact .inl h1
  · exact h2

theorem lexLt_of_le_of_lt {a b c : Version} (h1 : lexLe a b) (h2 : lexLt b c) : lexLt a c := by
  rcases h1 with h1 | rfl
  · exact lexLt_trans h1 h2
  · exact h2

/-- `Lower v w` ⇔ `v` is lexicographically smaller than `w` -/
theorem lower_iff_lexLt (v w : Version) : lower v w = true ↔ lexLt v w := by
  have hh := higher_iff_lexLt v w
  have he := equal_iff_eq v w
  have ht := lexLt_total v w
  unfold lower
  cases h1 : higher v w <;> cases h2 : equal v w <;> simp
  · -- neither higher nor equal
    rcases ht with h | h | h
    · exact h
    · exact absurd (he.mpr h) (by simp [h2])
    · exact absurd (hh.mpr h) (by simp [h1])
  · intro h; have := he.mp h2; subst this; exact lexLt_irrefl _ h
  · intro h; exact lexLt_asymm h (hh.mp h1)
  · intro h; exact lexLt_asymm h (hh.mp h1)

/-- `Lower v w ⇔ Higher w v` (as Booleans) -/
theorem lower_eq_higher_swap (v w : Version) : lower v w = higher w v := by
  have h1 := lower_iff_lexLt v w
  have h2 := higher_iff_lexLt w v
  cases h : lower v w <;> cases h' : higher w v <;> simp_all

/-- **trichotomy**: for any two versions exactly one of Higher / Equal / Lower holds -/
theorem trichotomy (v w : Version) :
    (higher v w = true ∧ equal v w = false ∧ lower v w = false) ∨
    (higher v w = false ∧ equal v w = true ∧ lower v w = false) ∨
    (higher v w = false ∧ equal v w = false ∧ lower v w = true) := by
  have hh := higher_iff_lexLt v w
  have he := equal_iff_eq v w
  have hl := lower_iff_lexLt v w
  rcases lexLt_total v w with h | h | h
  · have : ¬ lexLt w v := lexLt_asymm h
    have hne : v ≠ w := fun e => by subst e; exact lexLt_irrefl _ h
    refine .inr (.inr ⟨?_, ?_, hl.mpr h⟩)
    · cases hx : higher v w <;> simp_all
    · cases hx : equal v w <;> simp_all
  · subst h
    have : ¬ lexLt v v := lexLt_irrefl v
    refine .inr (.inl ⟨?_, he.mpr rfl, ?_⟩)
    · cases hx : higher v v <;> simp_all
    · cases hx : lower v v <;> simp_all
  · have : ¬ lexLt v w := lexLt_asymm h
    have hne : v ≠ w := fun e => by subst e; exact lexLt_irrefl _ h
    refine .inl ⟨hh.mpr h, ?_, ?_⟩
    · cases hx : equal v w <;> simp_all
    · cases hx : lower v w <;> simp_all

/-- the same as the monitor states it -/
theorem trichotomy_exactlyOne (v w : Version) :
    (Tri.mk (higher v w) (equal v w) (lower v w)).exactlyOne = true := by
  rcases trichotomy v w with ⟨a, b, c⟩ | ⟨a, b, c⟩ | ⟨a, b, c⟩ <;> simp [Tri.exactlyOne, a, b, c]

theorem higher_irrefl (v : Version) : higher v v = false := by
  cases h : higher v v
  · rfl
  · exact absurd ((higher_iff_lexLt v v).mp h) (lexLt_irrefl v)

/-- antisymmetry of the strict order: never both `Higher v w` and `Higher w v` -/
theorem higher_asymm (v w : Version) (h : higher v w = true) : higher w v = false := by
  cases h' : higher w v
  · rfl
  · exact absurd ((higher_iff_lexLt w v).mp h') (lexLt_asymm ((higher_iff_lexLt v w).mp h))

theorem higher_trans (a b c : Version) (h1 : higher a b = true) (h2 : higher b c = true) :
    higher a c = true :=
  (higher_iff_lexLt a c).mpr
    (lexLt_trans ((higher_iff_lexLt b c).mp h2) ((higher_iff_lexLt a b).mp h1))

theorem lower_trans (a b c : Version) (h1 : lower a b = true) (h2 : lower b c = true) :
    lower a c = true :=
  (lower_iff_lexLt a c).mpr
    (lexLt_trans ((lower_iff_lexLt a b).mp h1) ((lower_iff_lexLt b c).mp h2))

/-- totality: two different versions are comparable -/
theorem higher_total (v w : Version) (h : v ≠ w) : higher v w = true ∨ higher w v = true := by
  rcases lexLt_total v w with h' | h' | h'
  · exact .inr ((higher_iff_lexLt w v).mpr h')
  · exact absurd h' h
  · exact .inl ((higher_iff_lexLt v w).mpr h')

theorem equal_refl (v : Version) : equal v v = true := (equal_iff_eq v v).mpr rfl

theorem equal_symm (v w : Version) : equal v w = equal w v := by
  have h1 := equal_iff_eq v w
  have h2 := equal_iff_eq w v
  cases h : equal v w <;> cases h' : equal w v <;> simp_all

theorem equal_trans (a b c : Version) (h1 : equal a b = true) (h2 : equal b c = true) :
    equal a c = true :=
  (equal_iff_eq a c).mpr (((equal_iff_eq a b).mp h1).trans ((equal_iff_eq b c).mp h2))

/-- `Equal` is a congruence for `Higher` (mixed chains) -/
theorem equal_higher_trans (a b c : Version) (h1 : equal a b = true) (h2 : higher b c = true) :
    higher a c = true := by
  have := (equal_iff_eq a b).mp h1; subst this; exact h2

theorem higher_equal_trans (a b c : Version) (h1 : higher a b = true) (h2 : equal b c = true) :
    higher a c = true := by
  have := (equal_iff_eq b c).mp h2; subst this; exact h1

/-! ## the gates -/

/-- `useExpiryOpcode` ⇔ version ≥ 6.5.0(-0) -/
theorem gateExpiry_iff (v : Version) : gateExpiry v = true ↔ lexLe srvVer650 v := by
  unfold gateExpiry lexLe
  rw [Bool.or_eq_true, higher_iff_lexLt, equal_iff_eq]
  constructor
  · rintro (h | h); exact .inl h; exact .inr h.symm
  · rintro (h | h); exact .inl h; exact .inr h.symm

/-- `useChangeStreams` ⇔ Magma ∧ version ≥ 7.2.0(-0) -/
theorem gateChangeStreams_iff (isMagma : Bool) (v : Version) :
    gateChangeStreams isMagma v = true ↔ (isMagma = true ∧ lexLe srvVer720 v) := by
  unfold gateChangeStreams lexLe
  rw [Bool.and_eq_true, Bool.or_eq_true, higher_iff_lexLt, equal_iff_eq]
  constructor
  · rintro ⟨m, h | h⟩; exact ⟨m, .inl h⟩; exact ⟨m, .inr h.symm⟩
  · rintro ⟨m, h | h⟩; exact ⟨m, .inl h⟩; exact ⟨m, .inr h.symm⟩

/-- serial stream closing ⇔ version < 5.5.0(-0) -/
theorem gateSerialClose_iff (v : Version) : gateSerialClose v = true ↔ lexLt v srvVer550 :=
  lower_iff_lexLt v srvVer550

/-- **gates_monotone** (expiry opcode): enabled for `v`, `v ≤ w` ⟹ enabled for `w` -/
theorem gates_monotone_expiry (v w : Version) (hvw : lexLe v w) (h : gateExpiry v = true) :
    gateExpiry w = true :=
  (gateExpiry_iff w).mpr (lexLe_trans ((gateExpiry_iff v).mp h) hvw)

/-- **gates_monotone** (change streams; same bucket) -/
theorem gates_monotone_changeStreams (isMagma : Bool) (v w : Version) (hvw : lexLe v w)
    (h : gateChangeStreams isMagma v = true) : gateChangeStreams isMagma w = true := by
  obtain ⟨m, hv⟩ := (gateChangeStreams_iff isMagma v).mp h
  exact (gateChangeStreams_iff isMagma w).mpr ⟨m, lexLe_trans hv hvw⟩

/-- the `Lower 5.5.0` gate is antitone: serial closing for `w`, `v ≤ w` ⟹ serial closing for `v` -/
theorem gateSerialClose_antitone (v w : Version) (hvw : lexLe v w) (h : gateSerialClose w = true) :
    gateSerialClose v = true :=
  (gateSerialClose_iff v).mpr (lexLt_of_le_of_lt hvw ((gateSerialClose_iff w).mp h))

/-- **gates_monotone**, all three at once: for `v ≤ w` (lexicographic) a feature
    enabled at `v` is enabled at `w`; serial closing needed at `w` is needed at `v` -/
theorem gates_monotone (isMagma : Bool) (v w : Version) (hvw : lexLe v w) :
    (gateExpiry v = true → gateExpiry w = true) ∧
    (gateChangeStreams isMagma v = true → gateChangeStreams isMagma w = true) ∧
    (gateSerialClose w = true → gateSerialClose v = true) :=
  ⟨gates_monotone_expiry v w hvw, gates_monotone_changeStreams isMagma v w hvw,
   gateSerialClose_antitone v w hvw⟩

/-- the thresholds are ordered, so the features switch on one after the other:
    change streams ⟹ expiry opcode ⟹ no serial closing -/
theorem gates_nested (isMagma : Bool) (v : Version) :
    (gateChangeStreams isMagma v = true → gateExpiry v = true) ∧
    (gateExpiry v = true → gateSerialClose v = false) := by
  constructor
  · intro h
    obtain ⟨_, hv⟩ := (gateChangeStreams_iff isMagma v).mp h
    exact (gateExpiry_iff v).mpr (lexLe_trans (.inl (by decide)) hv)
  · intro h
    cases hs : gateSerialClose v
    · rfl
    · have h1 := (gateExpiry_iff v).mp h
      have h2 := (gateSerialClose_iff v).mp hs
      have : lexLt srvVer650 srvVer550 := lexLt_of_le_of_lt h1 h2
      exact absurd this (by decide)

/-! ## the model passes the monitors of `Spec/C18` -/

private theorem bool_eq_decide {b : Bool} {p : Prop} [Decidable p] (h : b = true ↔ p) :
    b = decide p := by
  cases b <;> simp_all

theorem cmpClause_model (v w : Version) : cmpClause v w (triOf v w) = none := by
  unfold cmpClause triOf
  simp only [trichotomy_exactlyOne, Bool.not_true, Bool.false_eq_true, if_false]
  rw [← bool_eq_decide (equal_iff_eq v w), ← bool_eq_decide (higher_iff_lexLt v w),
    ← bool_eq_decide (lower_iff_lexLt v w)]
  simp

theorem pairClause_model (v w : Version) : pairClause v w (triOf v w) (triOf w v) = none := by
  unfold pairClause
  rw [cmpClause_model, cmpClause_model]
  simp only [triOf, lower_eq_higher_swap, equal_symm v w]
  cases h : higher v w
  · simp
  · simp [higher_asymm v w h]

theorem chainOk_model (x y z : Version) : chainOk (triOf x y) (triOf y z) (triOf x z) = true := by
  unfold chainOk triOf
  have t1 := higher_trans x y z
  have t2 := lower_trans x y z
  have t3 := equal_trans x y z
  have t4 := equal_higher_trans x y z
  have t5 := higher_equal_trans x y z
  cases h1 : higher x y <;> cases h2 : higher y z <;> cases h3 : higher x z <;>
  cases l1 : lower x y <;> cases l2 : lower y z <;> cases l3 : lower x z <;>
  cases e1 : equal x y <;> cases e2 : equal y z <;> cases e3 : equal x z <;> simp_all

theorem triClause_model (a b c : Version) :
    triClause a b c (triOf a b) (triOf b a) (triOf a c) (triOf c a) (triOf b c) (triOf c b) = none := by
  unfold triClause
  simp [pairClause_model, chainOk_model]

theorem gatesSpecOk_model (isMagma : Bool) (v : Version) :
    gatesSpecOk isMagma v (gatesOf isMagma v) = true := by
  unfold gatesSpecOk gatesOf
  have h2 : gateChangeStreams isMagma v = (isMagma && decide (lexLe srvVer720 v)) := by
    have := gateChangeStreams_iff isMagma v
    cases hg : gateChangeStreams isMagma v <;> cases isMagma <;> simp_all
  rw [Bool.and_eq_true, Bool.and_eq_true, beq_iff_eq, beq_iff_eq, beq_iff_eq]
  exact ⟨⟨bool_eq_decide (gateExpiry_iff v), h2⟩, bool_eq_decide (gateSerialClose_iff v)⟩

theorem gatesMonoOk_model (isMagma : Bool) (v w : Version) :
    gatesMonoOk v w (gatesOf isMagma v) (gatesOf isMagma w) = true := by
  unfold gatesMonoOk gatesOf
  by_cases hvw : lexLe v w
  · have m1 := gates_monotone_expiry v w hvw
    have m2 := gates_monotone_changeStreams isMagma v w hvw
    have m3 := gateSerialClose_antitone v w hvw
    cases h1 : gateExpiry v <;> cases h2 : gateExpiry w <;>
    cases h3 : gateChangeStreams isMagma v <;> cases h4 : gateChangeStreams isMagma w <;>
    cases h5 : gateSerialClose v <;> cases h6 : gateSerialClose w <;> simp_all
  · simp [hvw]

theorem gateClause_model (isMagma : Bool) (v w : Version) :
    gateClause isMagma v w (gatesOf isMagma v) (gatesOf isMagma w) = none := by
  unfold gateClause
  simp [gatesSpecOk_model, gatesMonoOk_model]

/-! ## `strings.Split` -/

/-- `strings.Split` never returns an empty slice: the `lenSplit == 0` branch and
    the index expressions `vSplit[0]`, `nodeBuild[0]`, `buildEdition[0]` are safe -/
theorem split_ne_nil (sep : Char) (l : List Char) : split sep l ≠ [] := by
  induction l with
  | nil => simp [split]
  | cons c cs ih =>
    unfold split
    split
    · simp
    · split <;> simp

theorem split_no_sep {sep : Char} {a : List Char} (h : sep ∉ a) : split sep a = [a] := by
  induction a with
  | nil => rfl
  | cons c cs ih =>
    have hc : c ≠ sep := fun e => h (by simp [e])
    have hcs : sep ∉ cs := fun e => h (by simp [e])
    simp [split, hc, ih hcs]

theorem split_append_sep {sep : Char} {a : List Char} (b : List Char) (h : sep ∉ a) :
    split sep (a ++ sep :: b) = a :: split sep b := by
  induction a with
  | nil => simp [split]
  | cons c cs ih =>
    have hc : c ≠ sep := fun e => h (by simp [e])
    have hcs : sep ∉ cs := fun e => h (by simp [e])
    simp [split, hc, ih hcs]

/-- the first piece is the longest prefix without the separator -/
theorem split_head (sep : Char) (l : List Char) :
    ∃ t, split sep l = l.takeWhile (· ≠ sep) :: t := by
  induction l with
  | nil => exact ⟨[], rfl⟩
  | cons c cs ih =>
    obtain ⟨t, ht⟩ := ih
    by_cases hc : c = sep
    · exact ⟨split sep cs, by simp [split, hc]⟩
    · exact ⟨t, by simp [split, hc, ht]⟩

/-- the dead branch of `nodeVersionFromString` is dead -/
theorem parse_ne_errNoMajor (s : List Char) : parse s ≠ .errNoMajor := by
  unfold parse
  cases h : split '.' s with
  | nil => exact absurd h (split_ne_nil _ _)
  | cons a r =>
    dsimp only
    repeat' split
    all_goals simp

/-! ## decimal round trip (no bound) -/

theorem scanU_append (l m : List Char) (acc : Nat) :
    scanU (l ++ m) acc = match scanU l acc with
      | .ok k => scanU m k
      | e => e := by
  induction l generalizing acc with
  | nil => simp [scanU]
  | cons c cs ih =>
    simp only [List.cons_append, scanU]
    split
    · split
      · rfl
      · exact ih _
    · rfl

/-- **decimal round trip**: the digit loop of `ParseUint` applied to the decimal
    rendering of ANY natural number `n` gives back `n` – or the range error,
    exactly when `n` exceeds `2^64 - 1` -/
theorem scanU_dec (n : Nat) : scanU (dec n) 0 = if n ≤ uintMax then .ok n else .range := by
  induction n using Nat.strongRecOn with
  | _ n ih =>
    unfold dec at *
    rw [Nat.toDigits_eq_if (by decide)]
    split
    · rename_i h
      have : n ≤ uintMax := by unfold uintMax; omega
      simp [scanU, Nat.isDigit_digitChar, h, this, Nat.toNat_digitChar_sub_48_of_lt_ten h]
    · rename_i h
      have hd : n % 10 < 10 := Nat.mod_lt _ (by decide)
      have hdm := Nat.div_add_mod n 10
      rw [scanU_append, ih (n / 10) (by omega)]
      by_cases hq : n / 10 ≤ uintMax
      · simp only [hq, if_true, scanU, Nat.isDigit_digitChar, hd, decide_true,
          Nat.toNat_digitChar_sub_48_of_lt_ten hd, hdm]
        by_cases hn : n ≤ uintMax
        · simp [hn, Nat.not_lt.mpr hn]
        · simp [hn, Nat.lt_of_not_le hn]
      · have : ¬ n ≤ uintMax := by omega
        simp [hq, this]

theorem dec_isDigit {n : Nat} {c : Char} (h : c ∈ dec n) : c.isDigit = true :=
  Nat.isDigit_of_mem_toDigits (by decide) (by decide) h

theorem dec_cons (n : Nat) : ∃ c rest, dec n = c :: rest ∧ c.isDigit = true := by
  cases h : dec n with
  | nil => exact absurd h Nat.toDigits_ne_nil
  | cons c rest => exact ⟨c, rest, rfl, dec_isDigit (n := n) (by rw [h]; simp)⟩

theorem dot_notin_dec (n : Nat) : '.' ∉ dec n := fun h => by
  have := dec_isDigit h; revert this; decide

theorem dash_notin_dec (n : Nat) : '-' ∉ dec n := fun h => by
  have := dec_isDigit h; revert this; decide

/-- `Atoi` of the decimal rendering of any natural number: the number itself
    when it fits an `int`, otherwise `MaxInt64` with ErrRange -/
theorem atoi_dec (n : Nat) :
    atoi (dec n) = if n < intCutoff then ⟨(n : Int), .none⟩ else ⟨(intCutoff : Int) - 1, .range⟩ := by
  obtain ⟨c, rest, hd, hc⟩ := dec_cons n
  have h1 : c ≠ '+' := fun e => by rw [e] at hc; revert hc; decide
  have h2 : c ≠ '-' := fun e => by rw [e] at hc; revert hc; decide
  have hne : (dec n).isEmpty = false := by rw [hd]; rfl
  rw [hd]; simp only [atoi, h1, h2, if_false]; rw [← hd]; simp only [atoiBody, hne, scanU_dec]
  by_cases hu : n ≤ uintMax
  · by_cases hn : n < intCutoff
    · simp [hu, hn, Nat.not_le.mpr hn]
    · simp [hu, hn, Nat.le_of_not_lt hn]
  · have : ¬ n < intCutoff := by unfold intCutoff; unfold uintMax at hu; omega
    simp [hu, this]

theorem atoi_dec_fits {n : Nat} (h : n < intCutoff) : atoi (dec n) = ⟨(n : Int), .none⟩ := by
  rw [atoi_dec, if_pos h]

/-- a leading `-` is accepted: `-n` parses to the negative number down to `MinInt64` -/
theorem atoi_neg_dec {n : Nat} (h : n ≤ intCutoff) : atoi ('-' :: dec n) = ⟨-(n : Int), .none⟩ := by
  obtain ⟨c, rest, hd, _⟩ := dec_cons n
  have hne : (dec n).isEmpty = false := by rw [hd]; rfl
  have hu : n ≤ uintMax := by unfold uintMax; unfold intCutoff at h; omega
  have : ('-' : Char) ≠ '+' := by decide
  simp [atoi, this, atoiBody, hne, scanU_dec, hu, Nat.not_lt.mpr h]

/-- a leading `+` is accepted -/
theorem atoi_plus_dec {n : Nat} (h : n < intCutoff) : atoi ('+' :: dec n) = ⟨(n : Int), .none⟩ := by
  obtain ⟨c, rest, hd, _⟩ := dec_cons n
  have hne : (dec n).isEmpty = false := by rw [hd]; rfl
  have hu : n ≤ uintMax := by unfold uintMax; unfold intCutoff at h; omega
  simp [atoi, atoiBody, hne, scanU_dec, hu, Nat.not_le.mpr h]

/-! ## the parser on rendered versions -/

/-- `M` alone -/
theorem parse_M {M : Nat} (hM : M < intCutoff) : parse (dec M) = .ok ⟨M, 0, 0, 0⟩ := by
  simp [parse, split_no_sep (dot_notin_dec M), atoi_dec_fits hM]

/-- `M.m` -/
theorem parse_Mm {M m : Nat} (hM : M < intCutoff) (hm : m < intCutoff) :
    parse (dec M ++ '.' :: dec m) = .ok ⟨M, m, 0, 0⟩ := by
  simp [parse, split_append_sep _ (dot_notin_dec M), split_no_sep (dot_notin_dec m),
    atoi_dec_fits hM, atoi_dec_fits hm]

/-- `M.m.p` -/
theorem parse_Mmp {M m p : Nat} (hM : M < intCutoff) (hm : m < intCutoff) (hp : p < intCutoff) :
    parse (dec M ++ '.' :: (dec m ++ '.' :: dec p)) = .ok ⟨M, m, p, 0⟩ := by
  simp [parse, split_append_sep _ (dot_notin_dec M), split_append_sep _ (dot_notin_dec m),
    split_no_sep (dot_notin_dec p), split_no_sep (dash_notin_dec p),
    atoi_dec_fits hM, atoi_dec_fits hm, atoi_dec_fits hp]

/-- takeWhile over a prefix that has no separator -/
private theorem takeWhile_append_of_notin {sep : Char} {a : List Char} (r : List Char) (h : sep ∉ a) :
    (a ++ r).takeWhile (· ≠ sep) = a ++ r.takeWhile (· ≠ sep) := by
  induction a with
  | nil => rfl
  | cons c cs ih =>
    have hc : c ≠ sep := fun e => h (by simp [e])
    have hcs : sep ∉ cs := fun e => h (by simp [e])
    have hdec : decide (c ≠ sep) = true := by simp [hc]
    show List.takeWhile _ (c :: (cs ++ r)) = c :: (cs ++ _)
    rw [List.takeWhile_cons, if_pos hdec, ih hcs]

/-- **the build field is lenient** (as coded): after a well-formed `M.m.p-` ANY
    text `j` (free of `.` and `-`) is accepted as build, followed by anything;
    the parse succeeds and `Build` is whatever value `Atoi` returned beside its
    error (0 on a syntax error, ±2^63-ish clamps on overflow). -/
theorem parse_build_lenient {M m p : Nat} (hM : M < intCutoff) (hm : m < intCutoff)
    (hp : p < intCutoff) (j tail : List Char) (hj1 : '.' ∉ j) (hj2 : '-' ∉ j) :
    parse (dec M ++ '.' :: (dec m ++ '.' :: (dec p ++ '-' :: (j ++ '-' :: tail))))
      = .ok ⟨M, m, p, (atoi j).val⟩ := by
  obtain ⟨t, ht⟩ := split_head '.' (dec p ++ '-' :: (j ++ '-' :: tail))
  have hd : ('-' : Char) ≠ '.' := by decide
  rw [takeWhile_append_of_notin _ (dot_notin_dec p)] at ht
  simp only [List.takeWhile_cons, ne_eq, hd, not_false_eq_true, decide_true, if_true] at ht
  rw [takeWhile_append_of_notin _ hj1] at ht
  simp only [List.takeWhile_cons, ne_eq, hd, not_false_eq_true, decide_true, if_true] at ht
  simp [parse, split_append_sep _ (dot_notin_dec M), split_append_sep _ (dot_notin_dec m), ht,
    split_append_sep _ (dash_notin_dec p), split_append_sep _ hj2, split_no_sep hj2,
    atoi_dec_fits hM, atoi_dec_fits hm, atoi_dec_fits hp]

/-- `M.m.p-b` -/
theorem parse_Mmpb {M m p b : Nat} (hM : M < intCutoff) (hm : m < intCutoff) (hp : p < intCutoff)
    (hb : b < intCutoff) :
    parse (dec M ++ '.' :: (dec m ++ '.' :: (dec p ++ '-' :: dec b))) = .ok ⟨M, m, p, b⟩ := by
  have h3 : '.' ∉ dec p ++ '-' :: dec b := by
    simp only [List.mem_append, List.mem_cons, not_or]
    exact ⟨dot_notin_dec p, by decide, dot_notin_dec b⟩
  simp [parse, split_append_sep _ (dot_notin_dec M), split_append_sep _ (dot_notin_dec m),
    split_no_sep h3, split_append_sep _ (dash_notin_dec p), split_no_sep (dash_notin_dec b),
    atoi_dec_fits hM, atoi_dec_fits hm, atoi_dec_fits hp, atoi_dec_fits hb]

/-- **parse_render**: for all naturals `M m p b` that fit an `int` and EVERY
    edition text – `-` and even `.` inside the edition are harmless, because only
    the text up to the third `.` and only the first two `-`-pieces are looked at –
    `M.m.p-b-edition` parses to `(M, m, p, b)`. -/
theorem parse_render {M m p b : Nat} (hM : M < intCutoff) (hm : m < intCutoff)
    (hp : p < intCutoff) (hb : b < intCutoff) (edition : List Char) :
    parse (render M m p b edition) = .ok ⟨M, m, p, b⟩ := by
  unfold render
  rw [parse_build_lenient hM hm hp (dec b) edition (dot_notin_dec b) (dash_notin_dec b),
    atoi_dec_fits hb]

/-- all five forms at once -/
theorem parse_renderForm {M m p b : Nat} (hM : M < intCutoff) (hm : m < intCutoff)
    (hp : p < intCutoff) (hb : b < intCutoff) (form : Nat) (edition : List Char) :
    parse (renderForm form M m p b edition) = .ok (formValue form M m p b) := by
  match form with
  | 0 => exact parse_render hM hm hp hb edition
  | 1 => exact parse_M hM
  | 2 => exact parse_Mm hM hm
  | 3 => exact parse_Mmp hM hm hp
  | 4 => exact parse_Mmpb hM hm hp hb
  | n + 5 => exact parse_render hM hm hp hb edition

/-- the string-interpolated rendering is the same text -/
theorem renderStr_toList (M m p b : Nat) (edition : String) :
    (renderStr M m p b edition).toList = render M m p b edition.toList := by
  simp [renderStr, render, dec, toString, String.toList_append]

/-- `parse_render` on `String`s -/
theorem parseStr_renderStr {M m p b : Nat} (hM : M < intCutoff) (hm : m < intCutoff)
    (hp : p < intCutoff) (hb : b < intCutoff) (edition : String) :
    parseStr (renderStr M m p b edition) = .ok ⟨M, m, p, b⟩ := by
  rw [parseStr, renderStr_toList]; exact parse_render hM hm hp hb _

/-- the monitor accepts the model's parse of every rendered form -/
theorem renderClause_model (form M m p b : Nat) (edition : List Char) :
    renderClause form M m p b (parse (renderForm form M m p b edition)) = none := by
  unfold renderClause
  split
  · rename_i h
    simp only [fits, Bool.and_eq_true, decide_eq_true_eq] at h
    obtain ⟨⟨⟨hM, hm⟩, hp⟩, hb⟩ := h
    simp [parse_renderForm hM hm hp hb]
  · rfl

/-! ## beyond the `int` range the round trip is false of the code -/

/-- a major (likewise minor, patch) component of 2^63 or more is rejected … -/
theorem parse_major_overflow {M : Nat} (hM : intCutoff ≤ M) (m p b : Nat) (edition : List Char) :
    parse (render M m p b edition) = .errMajor := by
  have : (atoi (dec M)).err = .range := by rw [atoi_dec, if_neg (Nat.not_lt.mpr hM)]
  simp [parse, render, split_append_sep _ (dot_notin_dec M), this]

/-- … so `parse_render` without the `fits` hypothesis is refuted … -/
theorem parse_render_unbounded_refuted :
    ¬ ∀ (M m p b : Nat) (edition : List Char), parse (render M m p b edition) = .ok ⟨M, m, p, b⟩ := by
  intro h
  have h1 := h intCutoff 0 0 0 []
  rw [parse_major_overflow (Nat.le_refl _)] at h1
  cases h1

/-- … while an over-long BUILD is accepted and silently clamped to `MaxInt64` -/
theorem parse_build_overflow_clamps {M m p b : Nat} (hM : M < intCutoff) (hm : m < intCutoff)
    (hp : p < intCutoff) (hb : intCutoff ≤ b) (edition : List Char) :
    parse (render M m p b edition) = .ok ⟨M, m, p, (intCutoff : Int) - 1⟩ := by
  unfold render
  rw [parse_build_lenient hM hm hp (dec b) edition (dot_notin_dec b) (dash_notin_dec b),
    atoi_dec, if_neg (Nat.not_lt.mpr hb)]

/-! ## non-vacuity and concrete readings -/

example : parseStr "7.2.0-5325-enterprise" = .ok ⟨7, 2, 0, 5325⟩ := by decide
example : parseStr "6.5.0" = .ok srvVer650 := by decide
example : parseStr "7.6" = .ok ⟨7, 6, 0, 0⟩ := by decide
example : parseStr "7.2.0-5325-enter.prise-x" = .ok ⟨7, 2, 0, 5325⟩ := by decide
-- odd but as coded: signs are accepted, a non-numeric build is 0, text after a 3rd dot is ignored
example : parseStr "+7.-2.0" = .ok ⟨7, -2, 0, 0⟩ := by decide
example : parseStr "7.2.0-enterprise" = .ok ⟨7, 2, 0, 0⟩ := by decide
example : parseStr "7.2.0.9.9" = .ok ⟨7, 2, 0, 0⟩ := by decide
example : parseStr "7.2.0-99999999999999999999x" = .ok ⟨7, 2, 0, 9223372036854775807⟩ := by decide
example : parseStr "" = .errMajor := by decide
example : parseStr "7. 2" = .errMinor := by decide
example : parseStr "7.2.1_0" = .errPatch := by decide
example : gateExpiry ⟨6, 5, 0, 0⟩ = true ∧ gateExpiry ⟨6, 4, 9, 9999⟩ = false := by decide
example : gateChangeStreams true ⟨7, 2, 0, 0⟩ = true ∧ gateChangeStreams false ⟨7, 2, 0, 0⟩ = false ∧
    gateChangeStreams true ⟨7, 1, 9, 9⟩ = false := by decide
example : gateSerialClose ⟨5, 4, 9, 9⟩ = true ∧ gateSerialClose ⟨5, 5, 0, 0⟩ = false := by decide
example : lexLe ⟨6, 5, 0, 0⟩ ⟨7, 2, 0, 5325⟩ ∧ gateExpiry ⟨6, 5, 0, 0⟩ = true := by decide
-- negative components are ordinary citizens of the order
example : higher ⟨0, 0, 0, 0⟩ ⟨0, 0, 0, -1⟩ = true ∧ lower ⟨-1, 9, 9, 9⟩ ⟨0, 0, 0, 0⟩ = true := by decide

end GoDcp.Version
