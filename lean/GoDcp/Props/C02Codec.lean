import GoDcp.Model.Codec
import GoDcp.Props.C14Keys
/-!
# C02 — "saving and re-loading a checkpoint is lossless … through every metadata
back end, and in read-only mode loads are identical while nothing is ever written";
"each assigned vBucket is requested with exactly the persisted values / zeros / the
high seqno"

All theorems are for **all** field values (any `Nat`, a fortiori every uint64),
all vBucket sets and all stores.
-/
namespace GoDcp.Codec
open GoDcp

/-! ## field mapping offset ↔ document (checkpoint.go Save l.70-84 / Load l.184-193) -/

theorem offset_doc_roundtrip (d : Doc) (l : Nat) : (d.toOffset l).toDoc = d := by
  cases d; rfl

theorem doc_offset_roundtrip (o : Offset) : (o.toDoc).toOffset o.latest = o := by
  cases o; rfl

/-- the end seqno is the only thing a document does not carry -/
theorem toOffset_fields (d : Doc) (l : Nat) :
    (d.toOffset l).uuid = d.uuid ∧ (d.toOffset l).seq = d.seq ∧ (d.toOffset l).ss = d.ss ∧
    (d.toOffset l).se = d.se ∧ (d.toOffset l).latest = l := ⟨rfl, rfl, rfl, rfl, rfl⟩

/-! ## decimal codec -/

theorem showNat_zero : showNat 0 = ['0'] := by decide

theorem showNat_ne_nil (n : Nat) : showNat n ≠ [] := Nat.toDigits_ne_nil

theorem showNat_digits (n : Nat) : (showNat n).all Char.isDigit = true := by
  rw [List.all_eq_true]
  exact fun c hc => Nat.isDigit_of_mem_toDigits (by decide) (by decide) hc

/-- **decimal round trip, no bound**: parsing the decimal rendering of ANY natural number gives it back -/
theorem u64_decimal_roundtrip (n : Nat) : parseNat (showNat n) = some n := by
  by_cases h0 : n = 0
  · subst h0; rw [showNat_zero]; rfl
  · have hlz := Keys.render_no_leading_zero n h0
    have hd := showNat_digits n
    have hv : Nat.ofDigitChars 10 (showNat n) 0 = n := Nat.ofDigitChars_ten_toDigits
    have hne := showNat_ne_nil n
    unfold Keys.render at hlz
    unfold parseNat
    cases hs : showNat n with
    | nil => exact absurd hs hne
    | cons c rest =>
      have hs' : Nat.toDigits 10 n = c :: rest := hs
      rw [hs'] at hlz
      have hc : c ≠ '0' := by simpa using hlz
      rw [hs] at hd hv
      have hne0 : (c :: rest) ≠ ['0'] := by
        intro h; injection h with h1 _; exact hc h1
      simp only [hne0, if_false, hc, hd, if_true, hv]

/-- with the decoder's range check: every uint64 survives, everything larger is rejected -/
theorem parseU64_showNat (n : Nat) : parseU64 (showNat n) = if n ≤ u64Max then some n else none := by
  simp [parseU64, u64_decimal_roundtrip]

theorem u64_roundtrip {n : Nat} (h : n ≤ u64Max) : parseU64 (showNat n) = some n := by
  rw [parseU64_showNat, if_pos h]

/-- the rendering is injective: two different values never share a text -/
theorem showNat_injective {m n : Nat} (h : showNat m = showNat n) : m = n := by
  have := congrArg parseNat h
  simpa [u64_decimal_roundtrip] using this

/-- a document whose four fields are uint64 values survives the number path unchanged -/
theorem fields_roundtrip (d : Doc) (hu : d.uuid ≤ u64Max) (hs : d.seq ≤ u64Max) (hss : d.ss ≤ u64Max)
    (hse : d.se ≤ u64Max) : decodeFields (encodeFields d) = some d := by
  cases d
  simp_all [decodeFields, encodeFields, u64_roundtrip]

/-- non-vacuity and the two ends of the range -/
example : decodeFields (encodeFields ⟨u64Max, 0, 9007199254740993, u64Max⟩) = some ⟨u64Max, 0, 9007199254740993, u64Max⟩ :=
  fields_roundtrip _ (by decide) (by decide) (by decide) (by decide)

/-- a leading zero, a sign, a fraction or an exponent is not a uint64 literal -/
example : parseNat "05".toList = none ∧ parseNat "-5".toList = none ∧ parseNat "5.5".toList = none ∧
    parseNat "5e0".toList = none ∧ parseNat [] = none ∧ parseU64 "18446744073709551616".toList = none := by decide

/-! ## per-vBucket-document store: save, then load -/

theorem get?_eq_none_of_not_mem {α : Type} (m : AMap α) (x : Vb) (h : x ∉ m.map (·.1)) : AMap.get? m x = none := by
  induction m with
  | nil => rfl
  | cons hd t ih =>
    obtain ⟨k, v⟩ := hd
    simp only [List.map_cons, List.mem_cons, not_or] at h
    simp [AMap.get?, Ne.symm h.1, ih h.2]

/-- writing a list of (vb, doc) with distinct vBuckets into a store: afterwards a lookup finds the
    written document, or what was there before -/
theorem get?_foldl_set (w : List (Vb × Doc)) (m : AMap Doc) (x : Vb) (hnd : (w.map (·.1)).Nodup) :
    AMap.get? (w.foldl (fun m p => m.set p.1 p.2) m) x =
      match AMap.get? w x with
      | some d => some d
      | none => AMap.get? m x := by
  induction w generalizing m with
  | nil => rfl
  | cons hd t ih =>
    obtain ⟨k, v⟩ := hd
    simp only [List.map_cons, List.nodup_cons] at hnd
    simp only [List.foldl_cons, AMap.get?]
    rw [ih _ hnd.2]
    by_cases hk : k = x
    · subst hk
      rw [get?_eq_none_of_not_mem t k hnd.1]
      simp [AMap.get?_set_same]
    · simp only [hk, if_false]
      cases AMap.get? t x with
      | some d => rfl
      | none => simp [AMap.get?_set_other _ _ _ _ (Ne.symm hk)]

theorem filter_keys_nodup (state : List (Vb × Doc)) (p : Vb × Doc → Bool)
    (h : (state.map (·.1)).Nodup) : ((state.filter p).map (·.1)).Nodup :=
  List.Nodup.sublist (List.Sublist.map _ List.filter_sublist) h

/-- what `mdWrite … .ok` writes: exactly the state entries of the dirty vBuckets -/
theorem mdWrite_ok_written (s : St) (state : List (Vb × Doc)) (dirty : List Vb) (h : s.cfg.readOnly = false) :
    (mdWrite s state dirty .ok).2 = state.filter (fun p => dirty.contains p.1) := by
  unfold mdWrite; rw [h]; rfl

/-- the documents a save writes: the state entries of the dirty vBuckets -/
def written (state : List (Vb × Doc)) (dirty : List Vb) : List (Vb × Doc) :=
  state.filter (fun p => dirty.contains p.1)

/-- the document a load returns for `vb` after `w` has been written over `pre` -/
def docAfter (w pre : AMap Doc) (vb : Vb) : Doc :=
  match AMap.get? w vb with
  | some d => d
  | none => (AMap.get? pre vb).getD Doc.zero

/-- **save then load** (any prior store): every assigned vBucket loads the document just written
    for it, else the one stored before, else the zero document; `exist` iff some assigned vBucket
    has a document afterwards -/
theorem save_then_load (n : Nat) (pre : AMap Doc) (state : List (Vb × Doc)) (dirty : List Vb)
    (hnd : (state.map (·.1)).Nodup) :
    saveThenLoad n pre state dirty =
      (written state dirty,
       (vbRange (storeState n pre).cfg).map (fun vb => (vb, docAfter (written state dirty) pre vb)),
       (vbRange (storeState n pre).cfg).any (fun vb => (AMap.get? (written state dirty) vb).isSome || AMap.has pre vb)) := by
  have hw : ((written state dirty).map (·.1)).Nodup := filter_keys_nodup _ _ hnd
  simp only [saveThenLoad, mdWrite, storeState, mdLoad, Bool.false_eq_true, if_false]
  refine Prod.ext rfl (Prod.ext ?_ ?_)
  · apply List.map_congr_left
    intro vb _
    show (vb, _) = (vb, _)
    congr 1
    show (AMap.get? (List.foldl _ pre (written state dirty)) vb).getD Doc.zero = _
    rw [get?_foldl_set _ _ _ hw]
    unfold docAfter
    cases AMap.get? (written state dirty) vb <;> rfl
  · show List.any _ _ = List.any _ _
    congr 1
    funext vb
    show (AMap.get? (List.foldl _ pre (written state dirty)) vb).isSome = _
    rw [get?_foldl_set _ _ _ hw]
    cases AMap.get? (written state dirty) vb <;> simp [AMap.has]

theorem mem_vbRange_storeState (n : Nat) (hn : 0 < n) (pre : AMap Doc) (vb : Vb) :
    vb ∈ vbRange (storeState n pre).cfg ↔ vb < n := by
  have e : vbRange (storeState n pre).cfg = (List.range (n - 1 + 1 - 0)).map (· + 0) := rfl
  rw [e, List.mem_map]
  constructor
  · rintro ⟨a, ha, rfl⟩
    rw [List.mem_range] at ha
    show a + 0 < n
    omega
  · intro h
    have h' : @LT.lt Nat _ vb n := h
    refine ⟨vb, List.mem_range.mpr ?_, rfl⟩
    show @LT.lt Nat _ vb (n - 1 + 1 - 0)
    omega

/-- **save_then_load_id**: from an empty store, for EVERY subset of vBuckets written (= the dirty ones
    that have a state entry), `Load` returns exactly those documents, the zero document for every other
    assigned vBucket, and `exist` holds iff the subset (inside the assignment) is non-empty -/
theorem save_then_load_id (n : Nat) (hn : 0 < n) (state : List (Vb × Doc)) (dirty : List Vb)
    (hnd : (state.map (·.1)).Nodup) :
    (saveThenLoad n [] state dirty).1 = written state dirty ∧
    (∀ vb d, (vb, d) ∈ (saveThenLoad n [] state dirty).2.1 ↔
        vb < n ∧ d = (match AMap.get? (written state dirty) vb with | some d => d | none => Doc.zero)) ∧
    ((saveThenLoad n [] state dirty).2.2 = true ↔ ∃ vb, vb < n ∧ (AMap.get? (written state dirty) vb).isSome = true) := by
  rw [save_then_load n [] state dirty hnd]
  refine ⟨rfl, ?_, ?_⟩
  · intro vb d
    show (vb, d) ∈ List.map _ _ ↔ _
    rw [List.mem_map]
    constructor
    · rintro ⟨vb', hm, he⟩
      injection he with h1 h2
      subst h1
      refine ⟨(mem_vbRange_storeState n hn [] vb').mp hm, ?_⟩
      rw [← h2]; unfold docAfter
      cases AMap.get? (written state dirty) vb' <;> rfl
    · rintro ⟨hlt, rfl⟩
      refine ⟨vb, (mem_vbRange_storeState n hn [] vb).mpr hlt, ?_⟩
      unfold docAfter
      cases AMap.get? (written state dirty) vb <;> rfl
  · show List.any _ _ = true ↔ _
    rw [List.any_eq_true]
    constructor
    · rintro ⟨vb, hm, hv⟩
      refine ⟨vb, (mem_vbRange_storeState n hn [] vb).mp hm, ?_⟩
      have : AMap.has ([] : AMap Doc) vb = false := rfl
      rw [this, Bool.or_false] at hv
      exact hv
    · rintro ⟨vb, hlt, hv⟩
      exact ⟨vb, (mem_vbRange_storeState n hn [] vb).mpr hlt, by rw [hv]; rfl⟩

theorem get?_of_mem_nodup_keys {m : AMap Doc} {x : Vb} {a : Doc} (hn : (m.map (·.1)).Nodup) (h : (x, a) ∈ m) :
    AMap.get? m x = some a := by
  induction m with
  | nil => simp at h
  | cons hd t ih =>
    obtain ⟨k, v⟩ := hd
    simp only [List.map_cons, List.nodup_cons] at hn
    rcases List.mem_cons.mp h with h | h
    · cases h; simp [AMap.get?]
    · have hk : k ≠ x := by
        intro e; subst e
        exact hn.1 (List.mem_map_of_mem (f := (·.1)) h)
      simp only [AMap.get?, hk, if_false]
      exact ih hn.2 h

/-- **large dirty sets** (the clause the `ck-bulk` monitor evaluates; C05 "the stored checkpoint of every
    advanced vBucket equals its position"): after a successful save over ANY prior store, every assigned
    vBucket that is dirty and has a state entry loads exactly the document saved for it – for every n and
    every number of dirty vBuckets (nothing in `mdWrite` depends on how many writes one save carries) -/
theorem save_then_load_dirty (n : Nat) (hn : 0 < n) (pre : AMap Doc) (state : List (Vb × Doc)) (dirty : List Vb)
    (hnd : (state.map (·.1)).Nodup) (vb : Vb) (d : Doc) (hvb : vb < n) (hd : vb ∈ dirty) (hs : (vb, d) ∈ state) :
    (vb, d) ∈ (saveThenLoad n pre state dirty).2.1 := by
  rw [save_then_load n pre state dirty hnd]
  show (vb, d) ∈ List.map _ _
  refine List.mem_map.mpr ⟨vb, (mem_vbRange_storeState n hn pre vb).mpr hvb, ?_⟩
  have hw : (vb, d) ∈ written state dirty := by
    unfold written
    exact List.mem_filter.mpr ⟨hs, by simpa using hd⟩
  have hg : AMap.get? (written state dirty) vb = some d :=
    get?_of_mem_nodup_keys (filter_keys_nodup _ _ hnd) hw
  show (vb, docAfter (written state dirty) pre vb) = (vb, d)
  unfold docAfter
  rw [hg]

/-- … and a vBucket that is not dirty keeps what the store held before (or reads as the zero document) -/
theorem save_then_load_clean (n : Nat) (hn : 0 < n) (pre : AMap Doc) (state : List (Vb × Doc)) (dirty : List Vb)
    (hnd : (state.map (·.1)).Nodup) (vb : Vb) (hvb : vb < n) (hd : vb ∉ dirty) :
    (vb, (AMap.get? pre vb).getD Doc.zero) ∈ (saveThenLoad n pre state dirty).2.1 := by
  rw [save_then_load n pre state dirty hnd]
  show (vb, _) ∈ List.map _ _
  refine List.mem_map.mpr ⟨vb, (mem_vbRange_storeState n hn pre vb).mpr hvb, ?_⟩
  have hg : AMap.get? (written state dirty) vb = none := by
    apply get?_eq_none_of_not_mem
    intro hm
    obtain ⟨p, hp, he⟩ := List.mem_map.mp hm
    have := (List.mem_filter.mp hp).2
    rw [he] at this
    exact hd (by simpa using this)
  show (vb, docAfter (written state dirty) pre vb) = _
  unfold docAfter
  rw [hg]

/-- a save in which some write was refused (`.part`, `.fail`) does not report success (metadata.go
    `eg.Wait()` returns the first error) – unless the read-only wrapper swallowed the whole save -/
theorem part_store_reports_error (s : St) (h : s.cfg.readOnly = false) (ws : List Vb) :
    storeSucceeds s (.part ws) = false ∧ storeSucceeds s .fail = false := by
  simp [storeSucceeds, h]

/-- non-vacuity of the hypotheses of `save_then_load_dirty` / `save_then_load_clean` -/
example : (2, (⟨9, 9, 9, 9⟩ : Doc)) ∈
    (saveThenLoad 3 [(1, ⟨7, 7, 7, 7⟩)] [(0, ⟨1, 2, 3, 4⟩), (1, ⟨5, 6, 7, 8⟩), (2, ⟨9, 9, 9, 9⟩)] [0, 2]).2.1 :=
  save_then_load_dirty 3 (by decide) _ _ _ (by decide) 2 _ (by decide) (by decide) (by decide)
example : (1, (⟨7, 7, 7, 7⟩ : Doc)) ∈
    (saveThenLoad 3 [(1, ⟨7, 7, 7, 7⟩)] [(0, ⟨1, 2, 3, 4⟩), (1, ⟨5, 6, 7, 8⟩), (2, ⟨9, 9, 9, 9⟩)] [0, 2]).2.1 :=
  save_then_load_clean 3 (by decide) _ _ _ (by decide) 1 (by decide) (by decide)

/-- non-vacuity: three assigned vBuckets, two state entries dirty, one not -/
example : saveThenLoad 3 [] [(0, ⟨1, 2, 3, 4⟩), (1, ⟨5, 6, 7, 8⟩), (2, ⟨9, 9, 9, 9⟩)] [0, 2] =
    ([(0, ⟨1, 2, 3, 4⟩), (2, ⟨9, 9, 9, 9⟩)], [(0, ⟨1, 2, 3, 4⟩), (1, Doc.zero), (2, ⟨9, 9, 9, 9⟩)], true) := by decide

/-! ## read-only wrapper (metadata/read_metadata.go) -/

/-- in read-only mode NO result of the store call changes the store, and nothing is written -/
theorem readonly_never_writes (s : St) (h : s.cfg.readOnly = true) (state : List (Vb × Doc)) (dirty : List Vb)
    (res : StoreRes) : mdWrite s state dirty res = (s.store, []) := by
  simp [mdWrite, h]

/-- loads are identical before and after any number of read-only saves -/
theorem readonly_load_eq (s : St) (h : s.cfg.readOnly = true) (state : List (Vb × Doc)) (dirty : List Vb)
    (res : StoreRes) : mdLoad { s with store := (mdWrite s state dirty res).1 } = mdLoad s := by
  rw [readonly_never_writes s h]

/-- the load result does not depend on the read-only flag (the wrapper delegates `Load`) -/
theorem load_ignores_readonly (s : St) (b : Bool) :
    mdLoad { s with cfg := { s.cfg with readOnly := b } } = mdLoad s := rfl

/-! ## the file back end (whole-state file) -/

/-- a successful file save followed by a load gives back the saved state entry for every requested
    vBucket that has one, `absent` for the others, and `exist = true` -/
theorem file_save_then_load (old : FileStore) (state : List (Vb × Doc)) (vbs : List Vb) :
    fileLoad (fileSave old state) vbs =
      (vbs.map fun vb => (vb, match AMap.get? state vb with | some d => Loaded.doc d | none => Loaded.absent), true) := rfl

theorem file_missing (vbs : List Vb) : fileLoad none vbs = (vbs.map fun vb => (vb, Loaded.doc Doc.zero), false) := rfl

/-- F12 as a statement about the model of the code as it is: a failed write is reported as success
    and leaves the file as it was -/
theorem file_failed_save_reported_ok_refuted :
    ∃ old : FileStore, fileSaveResult true true = true ∧ fileSaveFailed old = old := ⟨none, rfl, rfl⟩

/-- with the error handed back (the repaired code) a failed write is never reported as success -/
theorem file_failed_save_partial : fileSaveResult true false = false := rfl

/-! ## what `load` asks the server for (C02, first sentence) -/

theorem mdLoad_docs (s : St) :
    (mdLoad s).1 = (vbRange s.cfg).map fun vb => (vb, (s.store.get? vb).getD Doc.zero) := rfl

/-- **resume_exact**: outside the latest-reset branch every assigned vBucket is requested with exactly
    the four stored fields (zeros when it has no document: `earliest_zero`), and the end seqno of
    `initLatest` -/
theorem resume_exact (s : St) (offs : AMap Offset) (dirty : List Vb) (any : Bool)
    (hb : ((mdLoad s).2 = true ∨ s.cfg.resetLatest = false))
    (h : load s = some (offs, dirty, any)) :
    offs = (vbRange s.cfg).map (fun vb =>
      (vb, ((s.store.get? vb).getD Doc.zero).toOffset (initLatest s.cfg.finite ((s.high.get? vb).getD 0))))
    ∧ dirty = [] ∧ any = false := by
  unfold load at h
  have hc : (!(mdLoad s).2 && s.cfg.resetLatest) = false := by
    rcases hb with hb | hb <;> simp [hb]
  simp only [hc, Bool.false_eq_true, if_false] at h
  split at h
  · exact absurd h (by simp)
  · injection h with h
    injection h with h1 h2
    injection h2 with h2 h3
    refine ⟨?_, h2.symm, h3.symm⟩
    rw [← h1, mdLoad_docs, List.map_map]
    rfl

/-- `earliest_zero`: a vBucket without a document is requested with all-zero values -/
theorem earliest_zero (s : St) (offs : AMap Offset) (dirty : List Vb) (any : Bool)
    (hb : ((mdLoad s).2 = true ∨ s.cfg.resetLatest = false))
    (h : load s = some (offs, dirty, any)) (vb : Vb) (o : Offset) (hm : (vb, o) ∈ offs)
    (hno : s.store.get? vb = none) : o.uuid = 0 ∧ o.seq = 0 ∧ o.ss = 0 ∧ o.se = 0 := by
  obtain ⟨ho, _, _⟩ := resume_exact s offs dirty any hb h
  rw [ho, List.mem_map] at hm
  obtain ⟨vb', _, he⟩ := hm
  injection he with h1 h2
  subst h1
  rw [hno] at h2
  subst h2
  exact ⟨rfl, rfl, rfl, rfl⟩

/-- `latest_high`: when NO assigned vBucket has a document and auto-reset is `latest`, every assigned
    vBucket is requested at its current high seqno with snapshot `[high, high]` and the failover-log head -/
theorem latest_high (s : St) (hex : (mdLoad s).2 = false) (hr : s.cfg.resetLatest = true) :
    ∃ dirty any, load s = some
      ((vbRange s.cfg).map (fun vb =>
          let cur := (s.high.get? vb).getD 0
          (vb, (⟨(s.flog.get? vb).getD 0, cur, cur, cur, initLatest s.cfg.finite cur⟩ : Offset))), dirty, any) := by
  unfold load
  simp only [hex, hr, Bool.not_false, Bool.and_self, if_true]
  rw [mdLoad_docs, List.map_map]
  exact ⟨_, _, rfl⟩

/-- `end_unbounded_infinite` / `end_sampled_finite` -/
theorem end_unbounded_infinite (h : Nat) : initLatest false h = maxU64 := rfl
theorem end_sampled_finite (h : Nat) : initLatest true h = h := rfl

end GoDcp.Codec
