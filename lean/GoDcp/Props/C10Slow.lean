import GoDcp.Props.C10Join
import GoDcp.Driver.MembershipSlow
/-!
# C10 / C20, couchbase membership — a slow read of a LIVE member's document never shrinks the group

`monitor()` (couchbase/membership.go l.193-225) fetches every instance document under the
round's context.  `KeyNotFound` is the only answer that means "instance gone"; an answer that
arrives late but inside the deadline is used like any other; a read that is never answered
fails at the deadline with a time-out error and `monitor` panics – the process ends, nothing
is written.  In terms of the existing actions of `Model/Membership.lean` the first is an
ordinary round (`readStep`, `casStep`), the second is the end of the process (`.stop`).

* `slow_read_never_shrinks_group` – for every reachable state of a stable phase (any
  admissible history since its quiescent start), every member A and every LIVE member K:
  a round of A (K's document answered late) leaves K – and every live instance – in the
  index, and when A already holds the numbering of the live set it changes NOTHING (index,
  CAS, documents, every member's info); the end of A's process (K's document never
  answered) leaves index, CAS and documents untouched, K listed, every other member's
  record unchanged.  In no case does the index lose K.
* `failstop_then_only_A_dropped` – after A's fail-stop from a quiescent state the phase is
  stable for the live set WITHOUT A: by `converges` the others renumber to exactly that set
  (K included) once A's heartbeat is stale – A is dropped because it stopped heart-beating,
  and only then.
* `expired_share_as_not_found_refuted` – the shape of seeded change C20-e2
  (`readStepShareExpired`, NOT the code: the read of K gets a share of the budget and the
  expiry of the share is taken for "document gone"): A writes an index without K although
  K's document is there and fresh, announces 1/1, and K's next round fail-stops.
-/
namespace GoDcp.Membership
open List

theorem stopStep_index (s : State) (m : Id) : (stopStep s m).index = s.index ∧ (stopStep s m).cas = s.cas ∧
    (stopStep s m).docs = s.docs := by
  unfold stopStep
  cases s.mem m <;> exact ⟨rfl, rfl, rfl⟩

theorem stopStep_mem_ne (s : State) (m : Id) {j : Id} (h : j ≠ m) : (stopStep s m).mem j = s.mem j := by
  unfold stopStep
  cases s.mem m with
  | none => rfl
  | some mb => simp [setMem_mem, h]

theorem stopStep_mem_self (s : State) (m : Id) (mb : Member) (h : s.mem m = some mb) :
    (stopStep s m).mem m = some { mb with pc := .stopped } := by
  simp [stopStep, h, setMem_mem]

/-- a whole round of `A` (index read in order `iter`, documents judged at `nows`, write-back) -/
def wholeRound (c : Cfg) (s : State) (A : Id) (iter : List Entry) (nows : Id → Int) : State :=
  casStep (readStep c s A iter nows) A

/-- **C10/C20 `slow_read_never_shrinks_group`.** -/
theorem slow_read_never_shrinks_group (c : Cfg) (L : List Entry) (hnL : (ids L).Nodup)
    (s0 : State) (h0 : Stable L s0) (pre : List Action) (hpre : Admissible c L s0 pre)
    (A K : Id) (hK : K ∈ ids L) (iter : List Entry) (nows : Id → Int) :
    let s := run c s0 pre
    -- late: the answer arrives inside the deadline – an ordinary round of A
    (iter ~ s.index → ClockOK c L s nows →
      K ∈ ids (wholeRound c s A iter nows).index ∧ (∀ e ∈ L, e ∈ (wholeRound c s A iter nows).index) ∧
      (∀ mb, s.mem A = some mb → mb.pc = .idle → mb.last = ids (sortJTId L) →
        (wholeRound c s A iter nows).index = s.index ∧ (wholeRound c s A iter nows).cas = s.cas ∧
        (wholeRound c s A iter nows).docs = s.docs ∧
        ∀ m, ((wholeRound c s A iter nows).mem m).map (·.info) = (s.mem m).map (·.info) ∧
          ((wholeRound c s A iter nows).mem m).map (·.pc) = (s.mem m).map (·.pc))) ∧
    -- silent: the read fails at the deadline, `monitor` panics – the end of A's process
    ((step c s (.stop A)).index = s.index ∧ (step c s (.stop A)).cas = s.cas ∧ (step c s (.stop A)).docs = s.docs ∧
      K ∈ ids (step c s (.stop A)).index ∧
      (∀ m, m ≠ A → (step c s (.stop A)).mem m = s.mem m) ∧
      (∀ mb, s.mem A = some mb → ((step c s (.stop A)).mem A).map (·.pc) = some Pc.stopped)) := by
  intro s
  have hinv : Inv L s0 s := run_inv c L hnL s0 s0 h0.inv pre hpre
  obtain ⟨jt, hjt⟩ := mem_ids.1 hK
  refine ⟨?_, ?_⟩
  · intro hp hc
    have hinv1 : Inv L s0 (readStep c s A iter nows) := step_inv c L hnL s0 s hinv (.read A iter nows) ⟨hp, hc⟩
    have hinv2 : Inv L s0 (wholeRound c s A iter nows) := step_inv c L hnL s0 _ hinv1 (.cas A) trivial
    refine ⟨mem_ids.2 ⟨jt, hinv2.indexHas _ hjt⟩, hinv2.indexHas, ?_⟩
    intro mb hm hidle hlast
    have hv := view_stable c L hnL s hinv.indexNodup hinv.indexHas hinv.docJt iter hp nows hc
    have hch : clusterChanged mb.last (sortJTId L) = false := by simp [clusterChanged, hlast]
    have h1 : readStep c s A iter nows = s.setMem A { mb with rounds := mb.rounds + 1 } := by
      simp [readStep, hm, hidle, hv, hch]
    have h2 : wholeRound c s A iter nows = s.setMem A { mb with rounds := mb.rounds + 1 } := by
      show casStep (readStep c s A iter nows) A = _
      rw [h1]
      simp [casStep, setMem_mem, hidle]
    rw [h2]
    refine ⟨rfl, rfl, rfl, ?_⟩
    intro m
    rw [setMem_mem]
    split
    · rename_i hmA
      subst hmA
      rw [hm]; exact ⟨rfl, rfl⟩
    · exact ⟨rfl, rfl⟩
  · obtain ⟨e1, e2, e3⟩ := stopStep_index s A
    refine ⟨e1, e2, e3, ?_, fun m hm => stopStep_mem_ne s A hm, ?_⟩
    · show K ∈ ids (stopStep s A).index
      rw [e1]; exact mem_ids.2 ⟨jt, hinv.indexHas _ hjt⟩
    · intro mb hm
      show ((stopStep s A).mem A).map (·.pc) = _
      rw [stopStep_mem_self s A mb hm]; rfl

/-- after the fail-stop of A from a quiescent state the phase is stable for the live set without A -/
theorem failstop_leaves_stable (L : List Entry) (s0 : State) (h0 : Stable L s0) (A : Id) :
    Stable (L.filter fun e => e.1 ≠ A) (stopStep s0 A) := by
  obtain ⟨e1, -, e3⟩ := stopStep_index s0 A
  refine ⟨by rw [e1]; exact h0.indexNodup, ?_, ?_, ?_⟩
  · intro e he
    rw [e1]; exact h0.indexHas e (mem_filter.1 he).1
  · intro e he d hd
    rw [e3] at hd
    exact h0.docJt e (mem_filter.1 he).1 d hd
  · intro m mb hm
    by_cases hmA : m = A
    · subst hmA
      cases hA : s0.mem m with
      | none =>
        have : stopStep s0 m = s0 := by simp [stopStep, hA]
        rw [this, hA] at hm; cases hm
      | some mbA =>
        rw [stopStep_mem_self s0 m mbA hA] at hm
        cases hm
        exact Or.inl (Or.inl rfl)
    · rw [stopStep_mem_ne s0 A hmA] at hm
      rcases h0.mem m mb hm with hd | ⟨h1, h2, h3⟩
      · exact Or.inl hd
      · exact Or.inr ⟨mem_filter.2 ⟨h1, by simpa using hmA⟩, h2, h3⟩

/-- **`failstop_then_only_A_dropped`.**  A's process ends in a quiescent stable state.  For every
continuation in which A's document is seen stale or missing and the others' fresh (`ClockOK` for
the live set without A): a member that completes one round holds exactly `rankNumbering` of the
live set without A, nobody else fail-stops, the first index write leaves exactly that set – every
other live member K is in it. -/
theorem failstop_then_only_A_dropped (c : Cfg) (L : List Entry) (hnL : (ids L).Nodup)
    (s0 : State) (h0 : Stable L s0) (A K : Id) (hK : K ∈ ids L) (hKA : K ≠ A)
    (acts : List Action) :
    let L' := L.filter fun e => e.1 ≠ A
    let s1 := step c s0 (.stop A)
    K ∈ ids L' ∧ A ∉ ids L' ∧
    (Admissible c L' s1 acts →
      (∀ m mb1 mb, s1.mem m = some mb1 → (run c s1 acts).mem m = some mb → mb1.pc = .idle →
        (mb1.rounds < mb.rounds → mb.info = rankNumbering L' m) ∧ mb.pc ≠ .crashed ∧ mb.pc ≠ .stopped) ∧
      ((run c s1 acts).cas ≠ s1.cas → (run c s1 acts).index = sortJTId L' ∧ K ∈ ids (run c s1 acts).index)) := by
  intro L' s1
  have hnL' : (ids L').Nodup := hnL.sublist (filter_sublist.map _)
  have hK' : K ∈ ids L' := by
    obtain ⟨jt, hjt⟩ := mem_ids.1 hK
    exact mem_ids.2 ⟨jt, mem_filter.2 ⟨hjt, by simpa using hKA⟩⟩
  refine ⟨hK', ?_, ?_⟩
  · intro h
    obtain ⟨jt, hjt⟩ := mem_ids.1 h
    have := (mem_filter.1 hjt).2
    simp at this
  · intro hadm
    obtain ⟨c1, c2⟩ := converges c L' hnL' s1 (failstop_leaves_stable L s0 h0 A) acts hadm
    refine ⟨c1, fun hcas => ?_⟩
    have := c2 hcas
    refine ⟨this, ?_⟩
    rw [this]
    exact (ids_perm (sortJTId_perm L')).mem_iff.2 hK'

/-! ## the seeded shape -/

/-- NOT the code.  The shape of seeded change C20-e2 (`readInstance` with `Timeout/4` as its own
    deadline): the read of `K`'s document is not answered within its share and the expiry is
    taken for `KeyNotFound` – the first half of the round sees K's document as missing although it
    is there -/
def readStepShareExpired (c : Cfg) (s : State) (m : Id) (iter : List Entry) (nows : Id → Int) (K : Id) : State :=
  { readStep c (s.setDoc K none) m iter nows with docs := s.docs }

/-- members 1 and 2 have converged to 1/2 and 2/2; both are alive and have heart-beaten at 1000 -/
def slS0 : State :=
  { index := [(1, 10), (2, 20)], cas := 4,
    docs := fun j => if j = 1 then some ⟨1000, 10⟩ else if j = 2 then some ⟨1000, 20⟩ else none,
    mem := fun j =>
      if j = 1 then some { jt := 10, info := some (1, 2), last := [1, 2], rounds := 1, events := [(1, 2)] }
      else if j = 2 then some { jt := 20, info := some (2, 2), last := [1, 2], rounds := 1, events := [(2, 2)] }
      else none }

/-- **`expired_share_as_not_found_refuted`.**  K = 2 is alive (document present, heartbeat fresh at
the observer's clock).  The code as it is (`readStep`: a late answer is used): member 1's round
changes nothing.  The seeded shape: 1 writes the index `[1]` – 2 is gone from it although its
document is there and fresh –, announces 1/1, and 2's next round ends in the fail-stop. -/
theorem expired_share_as_not_found_refuted :
    -- K is alive at the observer's clock
    ((slS0.docs 2).map (fun d => isAlive exCfg 1010 d.hb) = some true) ∧
    -- the code: nothing changes
    ((casStep (readStep exCfg slS0 1 slS0.index (fun _ => 1010)) 1).index = slS0.index ∧
      ((casStep (readStep exCfg slS0 1 slS0.index (fun _ => 1010)) 1).mem 1).map (·.info) = some (some (1, 2))) ∧
    -- the seeded shape: the index loses the live member
    ((casStep (readStepShareExpired exCfg slS0 1 slS0.index (fun _ => 1010) 2) 1).index = [(1, 10)] ∧
      ((casStep (readStepShareExpired exCfg slS0 1 slS0.index (fun _ => 1010) 2) 1).docs 2).isSome = true ∧
      ((casStep (readStepShareExpired exCfg slS0 1 slS0.index (fun _ => 1010) 2) 1).mem 1).map (·.info) = some (some (1, 1)) ∧
      ((run exCfg (casStep (readStepShareExpired exCfg slS0 1 slS0.index (fun _ => 1010) 2) 1)
          [.read 2 [(1, 10)] (fun _ => 1020), .cas 2]).mem 2).map (·.pc) = some Pc.crashed) := by
  decide

/-- non-vacuity of `slow_read_never_shrinks_group`: `slS0` is a quiescent stable state for the live
    set [(1, 10), (2, 20)], the clock hypothesis holds, and member 1 holds the numbering of that set -/
example : Stable [(1, 10), (2, 20)] slS0 ∧ ClockOK exCfg [(1, 10), (2, 20)] slS0 (fun _ => 1010) ∧
    (slS0.mem 1).map (·.last) = some (ids (sortJTId [(1, 10), (2, 20)])) := by
  refine ⟨⟨by decide, by decide, ?_, ?_⟩, ⟨?_, ?_⟩, by decide⟩
  · intro e he d hd
    simp only [mem_cons, not_mem_nil, or_false] at he
    rcases he with rfl | rfl <;> simp [slS0] at hd <;> subst hd <;> rfl
  · intro m mb hm
    simp only [slS0] at hm
    split at hm
    · rename_i h1; subst h1; cases hm
      exact Or.inr ⟨by decide, Or.inr ⟨0, by decide, rfl⟩, rfl⟩
    · split at hm
      · rename_i h2; subst h2; cases hm
        exact Or.inr ⟨by decide, Or.inr ⟨1, by decide, rfl⟩, rfl⟩
      · cases hm
  · intro e he
    simp only [mem_cons, not_mem_nil, or_false] at he
    rcases he with rfl | rfl
    · exact ⟨⟨1000, 10⟩, by simp [slS0], by decide⟩
    · exact ⟨⟨1000, 20⟩, by simp [slS0], by decide⟩
  · intro a ha d hd
    have h : a ≠ 1 ∧ a ≠ 2 := by simpa [ids] using ha
    simp [slS0, h.1, h.2] at hd

open GoDcp.Driver in
/-- the driver's schedules: late – nothing changes; silent – A is gone, the other member holds 1/1, K stays listed -/
example : ((swScenario 2 0 false).2.mem 2).map (·.info) = some (some (1, 2)) ∧
    ((swScenario 2 0 false).2.mem 4).map (·.info) = some (some (2, 2)) ∧
    (swScenario 2 0 false).2.index = [(2, 10), (4, 20)] ∧
    (swScenario 2 1 true).1.index = [(2, 10), (4, 20)] ∧ (swScenario 2 1 true).2.index = [(2, 10)] ∧
    ((swScenario 2 1 true).2.mem 2).map (·.info) = some (some (1, 1)) := by decide

end GoDcp.Membership
