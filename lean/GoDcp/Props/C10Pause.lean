import GoDcp.Props.C10
import GoDcp.Driver.MembershipPause
/-!
# C10, couchbase variant — a member that was dropped and comes back fail-stops

`register()` is the only place that creates an index entry (`createIndex`), and
every index rewrite (`updateIndex`) writes exactly what the writer saw alive.
So an instance whose heart-beats paused long enough for the others to rewrite
the index without it can never reappear under its id.  The code relies on
FAIL-STOP for that case: the instance's next monitor round does not find itself
(`rebalance`, `selfOrder == 0`) and panics – in the model `pc := .crashed`.
That fail-stop is what keeps the numbering collision-free: a dropped instance
that kept running would keep its old (number, total) while the survivors
renumber, and two live processes would stream the same vBuckets.

* `dropped_step` / `dropped_never_completes_round` – SAFETY, for every
  continuation whatsoever in which the instance does not register anew (any
  interleaving of anybody's round halves, heart-beats, expiries, stops, other
  instances joining): the dropped instance never completes a monitor round,
  never publishes an event, never re-enters the index.
* `dropped_failstops` – PROGRESS: its next undisturbed round (index read, CAS
  write with no foreign write in between) ends in the fail-stop; a disturbed one
  (CAS mismatch) is retried by the code (`h.monitor()`), state unchanged.
* `step_agree` / `run_agree` – frame: a member that takes no step (its process
  or its network path is stalled) does not influence what the others do.
* `survivors_renumber_during_pause` – corollary of `converges`: while Z is
  stalled and its document is stale, each survivor holds `rankNumbering` of the
  survivor set after ONE completed round, nobody fail-stops, and the first
  index write leaves exactly the survivor set.
* `paused_member_failstops` – the scenario of stream `c10pause` for all sizes,
  positions, interleavings: pause, drop, resume ⇒ Z never completes a round
  again and its next undisturbed round is the fail-stop.

The model is the current tree (`monitor` sorts by join time, then id): like
`converges`, nothing here needs a hypothesis on the join times.
-/
namespace GoDcp.Membership
open List

/-! ## what a round sees is part of the index it read -/

theorem view_ids_sub (c : Cfg) (docs : Id → Option InstDoc) (nows : Id → Int) (iter : List Entry)
    {a : Id} (h : a ∈ ids (view c docs nows iter)) : a ∈ ids iter := by
  unfold view at h
  simp only [ids, mem_map, mem_filterMap] at h
  obtain ⟨e, ⟨e0, he0, hf⟩, rfl⟩ := h
  have he1 : e.1 = e0.1 := by
    cases hd : docs e0.1 with
    | none => simp [hd] at hf
    | some d =>
      simp only [hd] at hf
      split at hf
      · cases hf; rfl
      · cases hf
  have hmem : e0 ∈ iter := by
    exact mem_sortJTId.1 he0
  simp only [ids, mem_map]
  exact ⟨e0, hmem, he1.symm⟩

theorem ids_upsert_sub (e : Entry) (l : List Entry) {a : Id} (h : a ∈ ids (upsert e l)) :
    a = e.1 ∨ a ∈ ids l := by
  induction l with
  | nil => simp [upsert, ids] at h; exact Or.inl h
  | cons y r ih =>
    simp only [upsert] at h
    split at h
    · rename_i hy
      simp only [ids, map_cons, mem_cons] at h
      rcases h with h | h
      · exact Or.inl h
      · right; simp only [ids, map_cons, mem_cons]; exact Or.inr h
    · simp only [ids, map_cons, mem_cons] at h
      rcases h with h | h
      · right; simp only [ids, map_cons, mem_cons]; exact Or.inl h
      · rcases ih (by simpa [ids] using h) with h' | h'
        · exact Or.inl h'
        · right; simp only [ids, map_cons, mem_cons]; exact Or.inr (by simpa [ids] using h')

theorem setMem_mem (s : State) (m : Id) (mb : Member) (k : Id) :
    (s.setMem m mb).mem k = if k = m then some mb else s.mem k := rfl

theorem rebalance_not_pending (m : Id) (mb : Member) (f f' : List Entry) (cas : Nat) :
    (rebalance m mb f).pc ≠ .pending f' cas := by
  unfold rebalance
  split
  · simp
  · dsimp only
    split <;> simp

theorem rebalance_crash (m : Id) (mb : Member) (f : List Entry) (h : m ∉ ids f) :
    rebalance m mb f = { mb with pc := .crashed } := by
  unfold rebalance
  rw [pos_none h]

/-! ## the CAS values held by pending rounds are never ahead of the document's -/

/-- `data.Cas` of a round in progress was read from the document: it is at most the current one -/
def PendLe (s : State) : Prop :=
  ∀ j mbj f cas, s.mem j = some mbj → mbj.pc = .pending f cas → cas ≤ s.cas

theorem pendLe_step (c : Cfg) (s : State) (h : PendLe s) (a : Action) : PendLe (step c s a) := by
  cases a with
  | register1 j now =>
    intro k mbk f cas hk hpc
    simp only [step, register1, setMem_mem] at hk
    split at hk
    · cases hk; cases hpc
    · have := h k mbk f cas hk hpc
      show cas ≤ s.cas + 1
      omega
  | register2 j =>
    simp only [step, register2]
    cases hm : s.mem j with
    | none => exact h
    | some mb => exact h
  | heartbeat j now =>
    simp only [step, heartbeatStep]
    cases hm : s.mem j with
    | none => exact h
    | some mb =>
      dsimp only
      split <;> exact h
  | expire j => exact h
  | stop j =>
    simp only [step, stopStep]
    cases hm : s.mem j with
    | none => exact h
    | some mb =>
      intro k mbk f cas hk hpc
      simp only [setMem_mem] at hk
      split at hk
      · cases hk; cases hpc
      · exact h k mbk f cas hk hpc
  | read j iter nows =>
    simp only [step, readStep]
    cases hm : s.mem j with
    | none => exact h
    | some mb =>
      dsimp only
      cases hpc : mb.pc with
      | pending f cas => exact h
      | crashed => exact h
      | stopped => exact h
      | idle =>
        dsimp only
        split
        · intro k mbk f cas hk hpck
          simp only [setMem_mem] at hk
          split at hk
          · cases hk; cases hpck; exact Nat.le_refl _
          · exact h k mbk f cas hk hpck
        · intro k mbk f cas hk hpck
          simp only [setMem_mem] at hk
          split at hk
          · cases hk; simp at hpck
          · exact h k mbk f cas hk hpck
  | cas j =>
    simp only [step, casStep]
    cases hm : s.mem j with
    | none => exact h
    | some mb =>
      dsimp only
      cases hpc : mb.pc with
      | idle => exact h
      | crashed => exact h
      | stopped => exact h
      | pending f cas =>
        dsimp only
        split
        · intro k mbk f' cas' hk hpck
          simp only [setMem_mem] at hk
          split at hk
          · cases hk; exact absurd hpck (rebalance_not_pending _ _ _ _ _)
          · have := h k mbk f' cas' hk hpck
            show cas' ≤ s.cas + 1
            omega
        · intro k mbk f' cas' hk hpck
          simp only [setMem_mem] at hk
          split at hk
          · cases hk; cases hpck
          · exact h k mbk f' cas' hk hpck

theorem pendLe_run (c : Cfg) (s : State) (h : PendLe s) (acts : List Action) : PendLe (run c s acts) := by
  induction acts generalizing s with
  | nil => exact h
  | cons a r ih => exact ih _ (pendLe_step c s h a)

/-! ## SAFETY: a dropped member never completes a round again -/

/-- member `m` has been dropped: it is in no index entry, no round in progress
    whose CAS can still succeed would write it back, and `m` itself still holds a
    numbering that contains itself (`m ∈ last`: it had converged before) with
    `r0` completed rounds, info `i0` and published events `e0` -/
structure Dropped (m : Id) (r0 : Nat) (i0 : Option (Nat × Nat)) (e0 : List (Nat × Nat)) (s : State) : Prop where
  notIn : m ∉ ids s.index
  pend : ∀ j mbj f cas, s.mem j = some mbj → mbj.pc = .pending f cas → cas = s.cas → m ∉ ids f
  self : ∃ mb, s.mem m = some mb ∧ m ∈ mb.last ∧ mb.rounds = r0 ∧ mb.info = i0 ∧ mb.events = e0

/-- the continuations considered: anything, except that `m` does not register
    anew (a restarted process is a NEW instance with a new id), and every index
    read returns the index (in some iteration order) -/
def NoRejoin (m : Id) (s : State) : Action → Prop
  | .read _ iter _ => iter ~ s.index
  | .register1 j _ => j ≠ m
  | _ => True

def NoRejoinRun (c : Cfg) (m : Id) : State → List Action → Prop
  | _, [] => True
  | s, a :: r => NoRejoin m s a ∧ NoRejoinRun c m (step c s a) r

theorem dropped_step (c : Cfg) (m : Id) (r0 : Nat) (i0 : Option (Nat × Nat)) (e0 : List (Nat × Nat))
    (s : State) (hle : PendLe s) (h : Dropped m r0 i0 e0 s) (a : Action) (ha : NoRejoin m s a) :
    Dropped m r0 i0 e0 (step c s a) := by
  obtain ⟨mbm, hmm, hlast, hr, hi, he⟩ := h.self
  cases a with
  | register1 j now =>
    have hj : j ≠ m := ha
    refine ⟨?_, ?_, ?_⟩
    · intro hin
      rcases ids_upsert_sub (j, now) s.index hin with h' | h'
      · exact hj h'.symm
      · exact h.notIn h'
    · intro k mbk f cas hk hpc hc
      simp only [step, register1, setMem_mem] at hk
      split at hk
      · cases hk; cases hpc
      · have := hle k mbk f cas hk hpc
        have hc' : cas = s.cas + 1 := hc
        omega
    · refine ⟨mbm, ?_, hlast, hr, hi, he⟩
      simp only [step, register1, setMem_mem]
      rw [if_neg (Ne.symm hj)]
      exact hmm
  | register2 j =>
    simp only [step, register2]
    cases hm : s.mem j with
    | none => exact h
    | some mb => exact ⟨h.notIn, h.pend, h.self⟩
  | heartbeat j now =>
    simp only [step, heartbeatStep]
    cases hm : s.mem j with
    | none => exact h
    | some mb =>
      dsimp only
      split
      · exact h
      · exact h
      · exact h
      · exact ⟨h.notIn, h.pend, h.self⟩
  | expire j => exact ⟨h.notIn, h.pend, h.self⟩
  | stop j =>
    simp only [step, stopStep]
    cases hm : s.mem j with
    | none => exact h
    | some mb =>
      refine ⟨h.notIn, ?_, ?_⟩
      · intro k mbk f cas hk hpc hc
        simp only [setMem_mem] at hk
        split at hk
        · cases hk; cases hpc
        · exact h.pend k mbk f cas hk hpc hc
      · by_cases hjm : m = j
        · subst hjm
          rw [hmm] at hm; cases hm
          exact ⟨{ mbm with pc := .stopped }, by simp [setMem_mem], hlast, hr, hi, he⟩
        · exact ⟨mbm, by rw [setMem_mem, if_neg hjm]; exact hmm, hlast, hr, hi, he⟩
  | read j iter nows =>
    have hp : iter ~ s.index := ha
    have hview : m ∉ ids (view c s.docs nows iter) := fun hin =>
      h.notIn ((ids_perm hp).mem_iff.1 (view_ids_sub c s.docs nows iter hin))
    simp only [step, readStep]
    cases hm : s.mem j with
    | none => exact h
    | some mb =>
      dsimp only
      cases hpc : mb.pc with
      | pending f cas => exact h
      | crashed => exact h
      | stopped => exact h
      | idle =>
        dsimp only
        split
        · refine ⟨h.notIn, ?_, ?_⟩
          · intro k mbk f cas hk hpck hc
            simp only [setMem_mem] at hk
            split at hk
            · cases hk; cases hpck; exact hview
            · exact h.pend k mbk f cas hk hpck hc
          · by_cases hjm : m = j
            · subst hjm
              rw [hmm] at hm; cases hm
              exact ⟨{ mbm with pc := .pending (view c s.docs nows iter) s.cas }, by simp [setMem_mem], hlast, hr, hi, he⟩
            · exact ⟨mbm, by rw [setMem_mem, if_neg hjm]; exact hmm, hlast, hr, hi, he⟩
        · rename_i hch
          have hl : mb.last = ids (view c s.docs nows iter) := by simpa [clusterChanged] using hch
          have hjm : m ≠ j := by
            intro hjm
            subst hjm
            rw [hmm] at hm; cases hm
            exact hview (hl ▸ hlast)
          refine ⟨h.notIn, ?_, ⟨mbm, by rw [setMem_mem, if_neg hjm]; exact hmm, hlast, hr, hi, he⟩⟩
          intro k mbk f cas hk hpck hc
          simp only [setMem_mem] at hk
          split at hk
          · cases hk; simp at hpck
          · exact h.pend k mbk f cas hk hpck hc
  | cas j =>
    simp only [step, casStep]
    cases hm : s.mem j with
    | none => exact h
    | some mb =>
      dsimp only
      cases hpc : mb.pc with
      | idle => exact h
      | crashed => exact h
      | stopped => exact h
      | pending f cas =>
        dsimp only
        split
        · rename_i hcas
          have hf : m ∉ ids f := h.pend j mb f cas hm hpc hcas
          refine ⟨hf, ?_, ?_⟩
          · intro k mbk f' cas' hk hpck hc
            simp only [setMem_mem] at hk
            split at hk
            · cases hk; exact absurd hpck (rebalance_not_pending _ _ _ _ _)
            · have := hle k mbk f' cas' hk hpck
              have hc' : cas' = s.cas + 1 := hc
              omega
          · by_cases hjm : m = j
            · subst hjm
              rw [hmm] at hm; cases hm
              refine ⟨{ mbm with pc := .crashed }, ?_, hlast, hr, hi, he⟩
              rw [setMem_mem, if_pos rfl, rebalance_crash m mbm f hf]
            · exact ⟨mbm, by rw [setMem_mem, if_neg hjm]; exact hmm, hlast, hr, hi, he⟩
        · refine ⟨h.notIn, ?_, ?_⟩
          · intro k mbk f' cas' hk hpck hc
            simp only [setMem_mem] at hk
            split at hk
            · cases hk; cases hpck
            · exact h.pend k mbk f' cas' hk hpck hc
          · by_cases hjm : m = j
            · subst hjm
              rw [hmm] at hm; cases hm
              exact ⟨{ mbm with pc := .idle }, by simp [setMem_mem], hlast, hr, hi, he⟩
            · exact ⟨mbm, by rw [setMem_mem, if_neg hjm]; exact hmm, hlast, hr, hi, he⟩

theorem dropped_run (c : Cfg) (m : Id) (r0 : Nat) (i0 : Option (Nat × Nat)) (e0 : List (Nat × Nat))
    (s : State) (hle : PendLe s) (h : Dropped m r0 i0 e0 s) (acts : List Action)
    (hadm : NoRejoinRun c m s acts) : Dropped m r0 i0 e0 (run c s acts) := by
  induction acts generalizing s with
  | nil => exact h
  | cons a r ih =>
    exact ih _ (pendLe_step c s hle a) (dropped_step c m r0 i0 e0 s hle h a hadm.1) hadm.2

/-- **C10 `dropped_never_completes_round` (safety).**  Once member `m` has been
dropped (`Dropped`), then after ANY continuation in which it does not register
anew – rounds of anybody in any interleaving, heart-beats of anybody including
`m` itself (its document may well be fresh again), expiries, stops, other
instances joining – `m` has completed no further monitor round, its info and
its published events are what they were, and it is in no index entry.  (The only
way out of a round attempt is the fail-stop, see `dropped_failstops`.) -/
theorem dropped_never_completes_round (c : Cfg) (m : Id) (r0 : Nat) (i0 : Option (Nat × Nat))
    (e0 : List (Nat × Nat)) (s : State) (hle : PendLe s) (h : Dropped m r0 i0 e0 s) (acts : List Action)
    (hadm : NoRejoinRun c m s acts) :
    m ∉ ids (run c s acts).index ∧
    ∃ mb, (run c s acts).mem m = some mb ∧ mb.rounds = r0 ∧ mb.info = i0 ∧ mb.events = e0 := by
  have hd := dropped_run c m r0 i0 e0 s hle h acts hadm
  obtain ⟨mb, h1, -, h3, h4, h5⟩ := hd.self
  exact ⟨hd.notIn, mb, h1, h3, h4, h5⟩

/-- entry: a quiescent state (no round in progress) in which `m` is in no index
    entry and still holds a numbering that contains itself -/
theorem dropped_of_quiescent (m : Id) (s : State) (mb : Member) (hm : s.mem m = some mb) (hlast : m ∈ mb.last)
    (hnot : m ∉ ids s.index)
    (hq : ∀ j mbj f cas, s.mem j = some mbj → mbj.pc ≠ .pending f cas) :
    PendLe s ∧ Dropped m mb.rounds mb.info mb.events s :=
  ⟨fun j mbj f cas hj hpc => absurd hpc (hq j mbj f cas hj),
   ⟨hnot, fun j mbj f cas hj hpc _ => absurd hpc (hq j mbj f cas hj), ⟨mb, hm, hlast, rfl, rfl, rfl⟩⟩⟩

/-! ## PROGRESS: the next undisturbed round is the fail-stop -/

/-- **C10 `dropped_failstops` (progress).**  A dropped member that is between
rounds runs its next round (index read in any iteration order, documents judged
at any clock readings – its own document may be fresh again) and, when no
foreign index write falls between its read and its CAS write, ends in
`panic("cant find self in cluster")`: the process is gone. -/
theorem dropped_failstops (c : Cfg) (m : Id) (r0 : Nat) (i0 : Option (Nat × Nat)) (e0 : List (Nat × Nat))
    (s : State) (h : Dropped m r0 i0 e0 s) (mb : Member) (hm : s.mem m = some mb) (hidle : mb.pc = .idle)
    (iter : List Entry) (hp : iter ~ s.index) (nows : Id → Int) :
    ((casStep (readStep c s m iter nows) m).mem m).map (·.pc) = some Pc.crashed := by
  obtain ⟨mbm, hmm, hlast, -⟩ := h.self
  rw [hm] at hmm; cases hmm
  have hview : m ∉ ids (view c s.docs nows iter) := fun hin =>
    h.notIn ((ids_perm hp).mem_iff.1 (view_ids_sub c s.docs nows iter hin))
  have hch : clusterChanged mb.last (view c s.docs nows iter) = true := by
    simp only [clusterChanged, decide_eq_true_eq]
    intro heq
    exact hview (heq ▸ hlast)
  have h1 : readStep c s m iter nows =
      s.setMem m { mb with pc := .pending (view c s.docs nows iter) s.cas } := by
    simp only [readStep, hm, hidle, hch, if_true]
  rw [h1]
  simp only [casStep, setMem_mem, if_true]
  have hc : (s.setMem m { mb with pc := .pending (view c s.docs nows iter) s.cas }).cas = s.cas := rfl
  rw [if_pos hc.symm, setMem_mem, if_pos rfl, rebalance_crash _ _ _ hview]
  rfl

/-- a disturbed round (foreign index write between read and CAS: `ErrCasMismatch`)
    leaves the dropped member between rounds again (`h.monitor()` starts over) -/
theorem dropped_retry (s : State) (m : Id) (mb : Member) (f : List Entry) (cas : Nat)
    (hm : s.mem m = some mb) (hpc : mb.pc = .pending f cas) (hne : cas ≠ s.cas) :
    (casStep s m).mem m = some { mb with pc := .idle } := by
  simp only [casStep, hm, hpc, if_neg hne, setMem_mem, if_true]

/-! ## FRAME: a stalled member does not influence the others -/

/-- the instance an action belongs to -/
def actor : Action → Id
  | .register1 m _ => m
  | .register2 m => m
  | .heartbeat m _ => m
  | .read m _ _ => m
  | .cas m => m
  | .stop m => m
  | .expire m => m

/-- two states that differ at most in the record of member `z` -/
def AgreeExcept (z : Id) (s s' : State) : Prop :=
  s.index = s'.index ∧ s.cas = s'.cas ∧ s.docs = s'.docs ∧ ∀ j, j ≠ z → s.mem j = s'.mem j

theorem agree_setMem {z : Id} {s s' : State} (h : AgreeExcept z s s') (m : Id) (mb : Member) :
    AgreeExcept z (s.setMem m mb) (s'.setMem m mb) := by
  obtain ⟨h1, h2, h3, h4⟩ := h
  refine ⟨h1, h2, h3, ?_⟩
  intro j hj
  simp only [setMem_mem]
  split
  · rfl
  · exact h4 j hj

theorem agree_setDoc {z : Id} {s s' : State} (h : AgreeExcept z s s') (m : Id) (d : Option InstDoc) :
    AgreeExcept z (s.setDoc m d) (s'.setDoc m d) := by
  obtain ⟨h1, h2, h3, h4⟩ := h
  refine ⟨h1, h2, ?_, h4⟩
  simp only [State.setDoc, h3]

theorem step_agree (c : Cfg) (z : Id) (s s' : State) (h : AgreeExcept z s s') (a : Action)
    (ha : actor a ≠ z) : AgreeExcept z (step c s a) (step c s' a) := by
  obtain ⟨h1, h2, h3, h4⟩ := h
  cases a with
  | register1 j now =>
    simp only [step, register1]
    have hb : AgreeExcept z { s with index := upsert (j, now) s.index, cas := s.cas + 1 }
        { s' with index := upsert (j, now) s'.index, cas := s'.cas + 1 } :=
      ⟨by show upsert (j, now) s.index = upsert (j, now) s'.index; rw [h1],
       by show s.cas + 1 = s'.cas + 1; rw [h2], h3, h4⟩
    exact agree_setMem hb j _
  | register2 j =>
    have hj : s.mem j = s'.mem j := h4 j ha
    simp only [step, register2, ← hj]
    cases s.mem j with
    | none => exact ⟨h1, h2, h3, h4⟩
    | some mb => exact agree_setDoc ⟨h1, h2, h3, h4⟩ j _
  | heartbeat j now =>
    have hj : s.mem j = s'.mem j := h4 j ha
    simp only [step, heartbeatStep, ← hj, ← h3]
    cases s.mem j with
    | none => exact ⟨h1, h2, h3, h4⟩
    | some mb =>
      dsimp only
      split
      · exact ⟨h1, h2, h3, h4⟩
      · exact ⟨h1, h2, h3, h4⟩
      · exact ⟨h1, h2, h3, h4⟩
      · exact agree_setDoc ⟨h1, h2, h3, h4⟩ j _
  | expire j => exact agree_setDoc ⟨h1, h2, h3, h4⟩ j none
  | stop j =>
    have hj : s.mem j = s'.mem j := h4 j ha
    simp only [step, stopStep, ← hj]
    cases s.mem j with
    | none => exact ⟨h1, h2, h3, h4⟩
    | some mb => exact agree_setMem ⟨h1, h2, h3, h4⟩ j _
  | read j iter nows =>
    have hj : s.mem j = s'.mem j := h4 j ha
    simp only [step, readStep, ← hj, ← h3, ← h2]
    cases s.mem j with
    | none => exact ⟨h1, h2, h3, h4⟩
    | some mb =>
      dsimp only
      cases mb.pc with
      | idle =>
        dsimp only
        split
        · exact agree_setMem ⟨h1, h2, h3, h4⟩ j _
        · exact agree_setMem ⟨h1, h2, h3, h4⟩ j _
      | pending f cas => exact ⟨h1, h2, h3, h4⟩
      | crashed => exact ⟨h1, h2, h3, h4⟩
      | stopped => exact ⟨h1, h2, h3, h4⟩
  | cas j =>
    have hj : s.mem j = s'.mem j := h4 j ha
    simp only [step, casStep, ← hj, ← h2]
    cases s.mem j with
    | none => exact ⟨h1, h2, h3, h4⟩
    | some mb =>
      dsimp only
      cases mb.pc with
      | pending f cas =>
        dsimp only
        split
        · have hb : AgreeExcept z { s with index := f, cas := s.cas + 1 } { s' with index := f, cas := s.cas + 1 } :=
            ⟨rfl, rfl, h3, h4⟩
          exact agree_setMem hb j _
        · exact agree_setMem ⟨h1, h2, h3, h4⟩ j _
      | idle => exact ⟨h1, h2, h3, h4⟩
      | crashed => exact ⟨h1, h2, h3, h4⟩
      | stopped => exact ⟨h1, h2, h3, h4⟩

theorem run_agree (c : Cfg) (z : Id) (s s' : State) (h : AgreeExcept z s s') (acts : List Action)
    (ha : ∀ a ∈ acts, actor a ≠ z) : AgreeExcept z (run c s acts) (run c s' acts) := by
  induction acts generalizing s s' with
  | nil => exact h
  | cons a r ih =>
    exact ih _ _ (step_agree c z s s' h a (ha a mem_cons_self)) fun b hb => ha b (mem_cons_of_mem _ hb)

/-- a member that takes no step keeps its record -/
theorem step_frozen (c : Cfg) (z : Id) (s : State) (a : Action) (ha : actor a ≠ z) :
    (step c s a).mem z = s.mem z := by
  have hz : ∀ (t : State) (j : Id) (mb : Member), j ≠ z → (t.setMem j mb).mem z = t.mem z := by
    intro t j mb hj
    rw [setMem_mem, if_neg (Ne.symm hj)]
  cases a with
  | register1 j now => simp only [step, register1]; exact hz _ j _ ha
  | register2 j =>
    simp only [step, register2]
    cases s.mem j <;> rfl
  | heartbeat j now =>
    simp only [step, heartbeatStep]
    cases s.mem j with
    | none => rfl
    | some mb => dsimp only; split <;> rfl
  | expire j => rfl
  | stop j =>
    simp only [step, stopStep]
    cases s.mem j with
    | none => rfl
    | some mb => exact hz _ j _ ha
  | read j iter nows =>
    simp only [step, readStep]
    cases s.mem j with
    | none => rfl
    | some mb =>
      dsimp only
      cases mb.pc with
      | idle => dsimp only; split <;> exact hz _ j _ ha
      | pending f cas => rfl
      | crashed => rfl
      | stopped => rfl
  | cas j =>
    simp only [step, casStep]
    cases s.mem j with
    | none => rfl
    | some mb =>
      dsimp only
      cases mb.pc with
      | pending f cas =>
        dsimp only
        split
        · exact hz _ j _ ha
        · exact hz _ j _ ha
      | idle => rfl
      | crashed => rfl
      | stopped => rfl

theorem run_frozen (c : Cfg) (z : Id) (s : State) (acts : List Action) (ha : ∀ a ∈ acts, actor a ≠ z) :
    (run c s acts).mem z = s.mem z := by
  induction acts generalizing s with
  | nil => rfl
  | cons a r ih =>
    show (run c (step c s a) r).mem z = s.mem z
    rw [ih _ fun b hb => ha b (mem_cons_of_mem _ hb), step_frozen c z s a (ha a mem_cons_self)]

theorem clockOK_agree {c : Cfg} {L : List Entry} {s s' : State} (h : s.docs = s'.docs) (nows : Id → Int)
    (hc : ClockOK c L s nows) : ClockOK c L s' nows := by
  unfold ClockOK at *
  rw [← h]; exact hc

theorem admissible_agree (c : Cfg) (L : List Entry) (z : Id) (s s' : State) (h : AgreeExcept z s s')
    (acts : List Action) (ha : ∀ a ∈ acts, actor a ≠ z) (hadm : Admissible c L s acts) :
    Admissible c L s' acts := by
  induction acts generalizing s s' with
  | nil => trivial
  | cons a r ih =>
    obtain ⟨h1, h2⟩ := hadm
    refine ⟨?_, ih _ _ (step_agree c z s s' h a (ha a mem_cons_self)) (fun b hb => ha b (mem_cons_of_mem _ hb)) h2⟩
    cases a with
    | read j iter nows => exact ⟨h.1 ▸ h1.1, clockOK_agree h.2.2.1 nows h1.2⟩
    | cas j => trivial
    | heartbeat j now => trivial
    | expire j => exact h1
    | register1 j now => exact h1
    | register2 j => exact h1
    | stop j => exact h1

theorem stopStep_agree (z : Id) (s : State) : AgreeExcept z s (stopStep s z) := by
  unfold stopStep
  cases hm : s.mem z with
  | none => exact ⟨rfl, rfl, rfl, fun _ _ => rfl⟩
  | some mb =>
    refine ⟨rfl, rfl, rfl, ?_⟩
    intro j hj
    rw [setMem_mem, if_neg hj]

/-! ## the survivors while Z is stalled -/

/-- **C10 `survivors_renumber_during_pause` (corollary of `converges`; partial under
its hypotheses).**  `L` = the survivors.  From `s0` on member `z ∉ L` takes no
step (stalled) and the survivors' clock hypothesis holds for `L` (`ClockOK`
inside `Admissible`: every survivor's heart-beat fresh, every other document –
in particular `z`'s – stale or missing).  Apart from `z`'s frozen record, `s0` is
a stable start for `L` (`Stable L (stopStep s0 z)`).  Then, for any admissible
interleaving of the survivors' rounds: a survivor that completed ONE round holds
`rankNumbering L` of itself, no survivor fail-stops, the first index write
leaves exactly the survivor set (so `z` is in no index entry any more), and
`z`'s record is untouched. -/
theorem survivors_renumber_during_pause (c : Cfg) (L : List Entry) (hnL : (ids L).Nodup)
    (z : Id) (hzL : z ∉ ids L) (s0 : State)
    (h0 : Stable L (stopStep s0 z)) (acts : List Action) (hnz : ∀ a ∈ acts, actor a ≠ z)
    (hadm : Admissible c L s0 acts) :
    (∀ m mb0 mb, m ≠ z → s0.mem m = some mb0 → (run c s0 acts).mem m = some mb → mb0.pc = .idle →
        (mb0.rounds < mb.rounds → mb.info = rankNumbering L m) ∧ mb.pc ≠ .crashed ∧ mb.pc ≠ .stopped) ∧
    ((run c s0 acts).cas ≠ s0.cas → (run c s0 acts).index ~ L ∧ z ∉ ids (run c s0 acts).index) ∧
    (run c s0 acts).mem z = s0.mem z := by
  have hag0 := stopStep_agree z s0
  have hadm' := admissible_agree c L z s0 (stopStep s0 z) hag0 acts hnz hadm
  have hag := run_agree c z s0 (stopStep s0 z) hag0 acts hnz
  have hconv : (∀ m mb0 mb, (stopStep s0 z).mem m = some mb0 → (run c (stopStep s0 z) acts).mem m = some mb →
        mb0.pc = .idle →
        (mb0.rounds < mb.rounds → mb.info = rankNumbering L m) ∧ mb.pc ≠ .crashed ∧ mb.pc ≠ .stopped) ∧
      ((run c (stopStep s0 z) acts).cas ≠ (stopStep s0 z).cas → (run c (stopStep s0 z) acts).index ~ L) := by
    obtain ⟨ha, hb⟩ := converges c L hnL (stopStep s0 z) h0 acts hadm'
    exact ⟨ha, fun hne => by rw [hb hne]; exact sortJTId_perm L⟩
  refine ⟨?_, ?_, run_frozen c z s0 acts hnz⟩
  · intro m mb0 mb hmz hm0 hm hidle
    exact hconv.1 m mb0 mb (by rw [← hag0.2.2.2 m hmz]; exact hm0) (by rw [← hag.2.2.2 m hmz]; exact hm) hidle
  · intro hne
    have hp : (run c s0 acts).index ~ L := by
      rw [hag.1]
      apply hconv.2
      rw [← hag.2.1, ← hag0.2.1]
      exact hne
    exact ⟨hp, fun hin => hzL ((ids_perm hp).mem_iff.1 hin)⟩

/-! ## the scenario of stream `c10pause` -/

/-- **C10 `paused_member_failstops`.**  Member `z` had converged (`z ∈ last`), is
between rounds and then stalls (takes no step during `pause`) while the
survivors `L` (`z ∉ L`) run under their clock hypothesis and write the index at
least once.  Whatever happens afterwards (`resume`: any interleaving of
anybody's steps, `z`'s own heart-beats and rounds included, no new registration
of `z`): `z` never completes a monitor round again, publishes nothing, holds the
info it held before the pause – and is in no index entry; and from every such
state in which `z` is between rounds, its next undisturbed round is the
fail-stop `panic("cant find self in cluster")`. -/
theorem paused_member_failstops (c : Cfg) (L : List Entry) (hnL : (ids L).Nodup)
    (z : Id) (hzL : z ∉ ids L) (s0 : State) (mbz : Member)
    (hz : s0.mem z = some mbz) (hzidle : mbz.pc = .idle) (hzlast : z ∈ mbz.last)
    (h0 : Stable L (stopStep s0 z)) (pause : List Action) (hnz : ∀ a ∈ pause, actor a ≠ z)
    (hadm : Admissible c L s0 pause) (hwritten : (run c s0 pause).cas ≠ s0.cas)
    (resume : List Action) (hres : NoRejoinRun c z (run c s0 pause) resume) :
    z ∉ ids (run c (run c s0 pause) resume).index ∧
    (∃ mb, (run c (run c s0 pause) resume).mem z = some mb ∧ mb.rounds = mbz.rounds ∧
        mb.info = mbz.info ∧ mb.events = mbz.events) ∧
    (∀ mb, (run c (run c s0 pause) resume).mem z = some mb → mb.pc = .idle →
        ∀ iter, iter ~ (run c (run c s0 pause) resume).index → ∀ nows,
        ((casStep (readStep c (run c (run c s0 pause) resume) z iter nows) z).mem z).map (·.pc)
          = some Pc.crashed) := by
  have hag0 := stopStep_agree z s0
  have hadm' := admissible_agree c L z s0 (stopStep s0 z) hag0 pause hnz hadm
  have hag := run_agree c z s0 (stopStep s0 z) hag0 pause hnz
  obtain ⟨-, hidx, hfro⟩ := survivors_renumber_during_pause c L hnL z hzL s0 h0 pause hnz hadm
  obtain ⟨-, hznot⟩ := hidx hwritten
  have hs1z : (run c s0 pause).mem z = some mbz := by rw [hfro]; exact hz
  -- rounds in progress at the end of the pause are the survivors', and they carry the survivor set
  have hinv : Inv L (stopStep s0 z) (run c (stopStep s0 z) pause) := by
    exact run_inv c L hnL (stopStep s0 z) (stopStep s0 z) h0.inv pause hadm'
  have hle0 : PendLe (stopStep s0 z) := by
    intro j mbj f cas hj hpc
    rcases h0.mem j mbj hj with hd | ⟨-, -, hi⟩
    · rcases hd with hd | hd <;> rw [hpc] at hd <;> cases hd
    · rw [hpc] at hi; cases hi
  have hle1' : PendLe (run c (stopStep s0 z) pause) := pendLe_run c _ hle0 pause
  have hle1 : PendLe (run c s0 pause) := by
    intro j mbj f cas hj hpc
    by_cases hjz : j = z
    · subst hjz
      rw [hs1z] at hj; cases hj
      rw [hzidle] at hpc; cases hpc
    · rw [hag.2.1]
      exact hle1' j mbj f cas (by rw [← hag.2.2.2 j hjz]; exact hj) hpc
  have hdrop : Dropped z mbz.rounds mbz.info mbz.events (run c s0 pause) := by
    refine ⟨hznot, ?_, ⟨mbz, hs1z, hzlast, rfl, rfl, rfl⟩⟩
    intro j mbj f cas hj hpc _
    by_cases hjz : j = z
    · subst hjz
      rw [hs1z] at hj; cases hj
      rw [hzidle] at hpc; cases hpc
    · have hj' : (run c (stopStep s0 z) pause).mem j = some mbj := by rw [← hag.2.2.2 j hjz]; exact hj
      rcases hinv.mem j mbj hj' with ⟨hd, -⟩ | ⟨-, -, hpcok, -⟩
      · rcases hd with hd | hd <;> rw [hpc] at hd <;> cases hd
      · rcases hpcok with hi | ⟨cas', hp'⟩
        · rw [hpc] at hi; cases hi
        · rw [hpc] at hp'; cases hp'
          intro hin
          apply hzL
          exact (ids_perm (sortJTId_perm L)).mem_iff.1 hin
  have hd2 := dropped_run c z _ _ _ _ hle1 hdrop resume hres
  obtain ⟨h1, h2⟩ := dropped_never_completes_round c z _ _ _ _ hle1 hdrop resume hres
  refine ⟨h1, h2, ?_⟩
  intro mb hm hidle iter hp nows
  exact dropped_failstops c z _ _ _ _ hd2 mb hm hidle iter hp nows

/-! ## non-vacuity: the schedule the driver runs for `mb-pause 3 2 690 40 500` and friends -/

/-- three members, the youngest (2) stalls for 690 ms ≥ 40 + 500: dropped, and fail-stops when it resumes -/
example : ((Driver.mpScenario 3 2 690 40 500).mem 2).map (·.pc) = some Pc.crashed ∧
    ((Driver.mpScenario 3 2 690 40 500).mem 0).map (·.info) = some (some (1, 2)) ∧
    ((Driver.mpScenario 3 2 690 40 500).mem 1).map (·.info) = some (some (2, 2)) ∧
    ids (Driver.mpScenario 3 2 690 40 500).index = [0, 1] := by decide

/-- the oldest (0) stalls: every survivor's number changes -/
example : ((Driver.mpScenario 3 0 840 40 500).mem 0).map (·.pc) = some Pc.crashed ∧
    ((Driver.mpScenario 3 0 840 40 500).mem 1).map (·.info) = some (some (1, 2)) ∧
    ((Driver.mpScenario 3 0 840 40 500).mem 2).map (·.info) = some (some (2, 2)) := by decide

/-- a pause shorter than the tolerance: nobody is dropped, Z keeps its number legitimately -/
example : ((Driver.mpScenario 3 1 200 40 500).mem 1).map (fun mb => (mb.pc, mb.info)) = some (Pc.idle, some (2, 3)) ∧
    ids (Driver.mpScenario 3 1 200 40 500).index = [0, 1, 2] := by decide

end GoDcp.Membership
