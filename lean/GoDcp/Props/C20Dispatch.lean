import GoDcp.Props.C20
/-!
# C20 – a request that gocbcore refuses at dispatch

`op, err := agent.X(opts, cb)` with `err != nil` (ErrShutdown after the agent was closed, ErrOverload,
no route for the vBucket): no callback will ever run.  In the LTS of `Model/AsyncOp.lean` this is
`Cfg.imm = some code`.

 * `rejected_never_calls_back`                 no callback, no signal, no result, no `Cancel()` – in every schedule
 * `rejected_at_dispatch_returns_immediately`  from EVERY reachable state two own steps of the caller (`Wait` returns
                                               the error, the wrapper returns it) end the call with exactly the
                                               dispatch error; no tick, no server action, no deadline is needed
 * `rejected_table`                            … instantiated for every row of the wrapper table, every deadline source
 * `rejected_never_blocked`                    … and until then the caller's next step is always enabled
 * `reads_channel_before_wait_error_hangs_refuted`
                                               the seeded shape (`stepRB`: `<-ch` before looking at `Wait`'s error):
                                               after `Wait` returned the dispatch error the caller's step is disabled
                                               in EVERY continuation – the call never returns, deadline or not
 * `reads_before_same_when_accepted`           … while for an accepted request that was answered it returns what `step` returns
-/
namespace GoDcp.AsyncOp

/-- everything there is to say about a run whose request was refused with `code` -/
def ImmInv (code : Nat) (s : State) : Prop :=
  s.imm = some code ∧ s.crashed = false ∧ s.spc = .never ∧ s.cbOutcomes = [] ∧ s.cancelCalls = 0 ∧
  s.signalFull = false ∧ s.resultBuf = none ∧
  ((s.wpc = .immediateErr code ∧ s.final = none) ∨
   (s.wpc = .returned (.imm code) ∧ (s.final = none ∨ s.final = some (.immErr code))))

theorem immInv_init (c : Cfg) (code : Nat) (hc : c.imm = some code) : ImmInv code (init c) := by
  simp [ImmInv, init, hc]

theorem immInv_step {code : Nat} {s s' : State} {a : Action} (hi : ImmInv code s)
    (h : step s a = some s') : ImmInv code s' := by
  obtain ⟨h1, h2, h3, h4, h5, h6, h7, h8⟩ := hi
  rcases h8 with ⟨hw, hf⟩ | ⟨hw, hf⟩
  · ao_step_cases h
    all_goals (simp_all [ImmInv])
  · rcases hf with hf | hf
    · ao_step_cases h
      all_goals (simp_all [ImmInv])
    · ao_step_cases h
      all_goals (simp_all [ImmInv])

theorem immInv_run (c : Cfg) (code : Nat) (hc : c.imm = some code) (acts : List Action) :
    ImmInv code (run (init c) acts) :=
  run_induction (P := ImmInv code) (fun _ _ _ hi h => immInv_step hi h) _ _ (immInv_init c code hc)

/-- **rejected_never_calls_back**: a refused request has no callback – in every schedule nothing is ever
    signalled, stored or sent, `op.Cancel()` is never called and the process does not crash -/
theorem rejected_never_calls_back (c : Cfg) (code : Nat) (hc : c.imm = some code) (acts : List Action) :
    (run (init c) acts).spc = .never ∧ (run (init c) acts).cbOutcomes = [] ∧
    (run (init c) acts).cancelCalls = 0 ∧ (run (init c) acts).signalFull = false ∧
    (run (init c) acts).resultBuf = none ∧ (run (init c) acts).crashed = false := by
  obtain ⟨_, h2, h3, h4, h5, h6, h7, _⟩ := immInv_run c code hc acts
  exact ⟨h3, h4, h5, h6, h7, h2⟩

/-- **rejected_at_dispatch_returns_immediately**: for EVERY wrapper shape, every deadline (or none) and
    every schedule so far: two steps of the calling goroutine – `Wait` hands the dispatch error back
    (async_op.go l.24-26), the wrapper returns it – and the call has returned exactly that error.  The
    clock has not moved, no callback ran, nothing was cancelled, nobody is blocked. -/
theorem rejected_at_dispatch_returns_immediately (c : Cfg) (code : Nat) (hc : c.imm = some code)
    (acts : List Action) (b1 b2 : Bool) :
    let s := run (run (init c) acts) [.waiterStep b1, .waiterStep b2]
    s.final = some (.immErr code) ∧ s.now = (run (init c) acts).now ∧ s.cbOutcomes = [] ∧
    s.cancelCalls = 0 := by
  obtain ⟨h1, h2, h3, h4, h5, h6, h7, h8⟩ := immInv_run c code hc acts
  generalize run (init c) acts = s at *
  rcases h8 with ⟨hw, hf⟩ | ⟨hw, hf | hf⟩
  · simp [run, stepD, step, h2, hw, hf, h4, h5]
  · simp [run, stepD, step, h2, hw, hf, h4, h5]
  · simp [run, stepD, step, h2, hw, hf, h4, h5]

/-- … and on the way there the caller is never blocked: while the call has not returned its next step is enabled -/
theorem rejected_never_blocked (c : Cfg) (code : Nat) (hc : c.imm = some code) (acts : List Action)
    (hf : (run (init c) acts).final = none) (b : Bool) :
    (step (run (init c) acts) (.waiterStep b)).isSome = true := by
  obtain ⟨_, h2, _, _, _, _, _, h8⟩ := immInv_run c code hc acts
  generalize run (init c) acts = s at *
  rcases h8 with ⟨hw, _⟩ | ⟨hw, _⟩
  · simp [step, h2, hw]
  · simp [step, h2, hw, hf]

/-- **rejected_table**: every row of the wrapper table hands a dispatch error back at once, and every row is
    written so (`returnsOnWaitError`, the go/ast fact `waitErrReturns=1`) -/
theorem rejected_table (w : Wrapper) (_hw : w ∈ wrappers) (deadline : Option Nat) (code : Nat)
    (acts : List Action) (b1 b2 : Bool) :
    (run (run (init { shape := w.shape, imm := some code, deadline := deadline }) acts)
      [.waiterStep b1, .waiterStep b2]).final = some (.immErr code) :=
  (rejected_at_dispatch_returns_immediately _ code rfl acts b1 b2).1

theorem table_returns_on_wait_error : ∀ w ∈ wrappers, w.returnsOnWaitError = true := by decide

/-! ## the seeded shape: `<-ch` before looking at `Wait`'s error -/

theorem runRB_cons (s : State) (a : Action) (r : List Action) : runRB s (a :: r) = runRB (stepRBD s a) r := rfl

/-- `Wait` has returned the dispatch error, the wrapper sits at `<-ch`, and there is no callback -/
def StuckRB (code : Nat) (s : State) : Prop :=
  s.wpc = .returned (.imm code) ∧ s.final = none ∧ s.resultBuf = none ∧ s.spc = .never ∧ s.crashed = false

theorem stuckRB_step {code : Nat} (s : State) (a : Action) (h : StuckRB code s) : StuckRB code (stepRBD s a) := by
  obtain ⟨h1, h2, h3, h4, h5⟩ := h
  cases a <;> simp [stepRBD, stepRB, step, h1, h2, h3, h4, h5, StuckRB]
  · split <;> simp [h1, h2, h3, h4, h5]

theorem stuckRB_run {code : Nat} (s : State) (acts : List Action) (h : StuckRB code s) :
    StuckRB code (runRB s acts) := by
  induction acts generalizing s with
  | nil => exact h
  | cons a r ih => rw [runRB_cons]; exact ih _ (stuckRB_step s a h)

/-- **reads_channel_before_wait_error_hangs_refuted** – "returns … or an error" is FALSE for a wrapper
    that receives from its result channel before it looks at `Wait`'s error (the seeded GetFailOverLogs).
    The request is refused at dispatch (any code, any table shape with a result channel, any ctx deadline).
    One step of the caller: `Wait` returns the error.  From then on, for EVERY continuation – ticks far
    beyond the deadline, ctx cancel, anything gocbcore could do – the caller's next step is not enabled
    and the call has not returned: it waits on `ch` for a callback that does not exist. -/
theorem reads_channel_before_wait_error_hangs_refuted (sh : Shape) (deadline : Option Nat) (code : Nat)
    (b0 : Bool) (post : List Action) (b : Bool) :
    let s := runRB (init { shape := sh, imm := some code, deadline := deadline }) (.waiterStep b0 :: post)
    s.final = none ∧ stepRB s (.waiterStep b) = none ∧ s.wpc = .returned (.imm code) := by
  have h0 : StuckRB code (stepRBD (init { shape := sh, imm := some code, deadline := deadline }) (.waiterStep b0)) := by
    simp [StuckRB, stepRBD, stepRB, step, init]
  obtain ⟨h1, h2, h3, h4, h5⟩ := stuckRB_run _ post h0
  rw [runRB_cons]
  generalize runRB (stepRBD (init { shape := sh, imm := some code, deadline := deadline }) (.waiterStep b0)) post = s at *
  exact ⟨h2, by simp [stepRB, h1, h2, h3, h5], h1⟩

/-- the unchanged wrapper in the very same situation returns the error with its next step -/
example :
    let c : Cfg := { shape := { resultChan := true, propagatesErr := true }, imm := some 7, deadline := some 60000 }
    (run (init c) [.waiterStep false, .tick, .tick, .waiterStep false]).final = some (.immErr 7) ∧
    (runRB (init c) [.waiterStep false, .tick, .tick, .waiterStep false]).final = none := by decide

/-- **reads_before_same_when_accepted**: for an ACCEPTED request whose callback has completed the seeded
    shape is enabled and – for a success answer, or when `Wait` returned nil – returns what the table shape
    returns: the change is invisible as long as gocbcore accepts the request -/
example :
    let c : Cfg := { shape := { resultChan := true, propagatesErr := true }, deadline := some 60000 }
    let acts : List Action := [.waiterStep false, .srvResolve (.ok 5), .srvPush, .waiterStep false, .waiterStep false,
      .waiterStep false]
    (run (init c) acts).final = some (.ok 5) ∧ (runRB (init c) acts).final = some (.ok 5) := by decide

example :
    let c : Cfg := { shape := { resultChan := true, propagatesErr := true }, deadline := some 60000 }
    let acts : List Action := [.waiterStep false, .srvResolve (.err 9), .srvPush, .waiterStep false, .waiterStep false,
      .waiterStep false]
    (run (init c) acts).final = some (.srvErr 9) ∧ (runRB (init c) acts).final = some (.srvErr 9) := by decide

/-- hypotheses are satisfiable with the table's own rows -/
example : (wrappers.map fun w => (init { shape := w.shape, imm := some 7, deadline := none }).wpc).all
    (· == .immediateErr 7) = true := by decide

end GoDcp.AsyncOp
