import GoDcp.Proofs.LifeLemmas
import GoDcp.Props.C11Run
import GoDcp.Props.C12Run
/-!
# C13 — graceful shutdown is clean from every lifecycle state
(run level; stream-level part of `dcp.close`: final save in auto mode, then `stream.Close`)

`Settled s` (no timer is due at `s.now`) holds after every `step` whose `fireDue` fuel sufficed; it is
needed only to exclude a `Rebalance` timer that is *already due* when the shutdown is processed: that
timer fires into the closed stream and fail-stops (`reb_timer_after_shutdown_failstops`), the
timer-driven sibling of F4. After the shutdown the model drops every op except shutdown / query
(`stopCh` is closed), time does not advance, so a timer that is not yet due never fires.

The count after `Close()` (section "the count after `Close()`"): `doClose` only subtracts the offsets entries whose
vBucket is not in `endedVbs` (a finally ended stream answers `CloseStream` with "no such stream", no `End`), so under the
server hypothesis `EndsOnce` of `Props/C12Run.lean` the count reaches exactly 0 whatever had ended before
(`close_after_ends_reaches_zero`, `shutdown_after_ends`).
-/
namespace GoDcp.Life
open GoDcp

/-- **KF F4 classifier**: the stream is inside a rebalance window (closed by `Rebalance()`, reopen pending) -/
def KF_C13_in_rebalance_window (s : LSt) : Bool := s.obsNil && s.balancing

/-! ## shutdown from the streaming phase -/

/-- the state reached by the shutdown step from a settled streaming state -/
theorem shutdown_from_A_eq {s : LSt} (c : Bool) (hd : s.dead = false) (hi : Inv s) (ho : s.isOpen = true)
    (hs : Settled s) :
    step s (.shutdown c) = ((closeCore (finalSave s).1 c).1, (finalSave s).2 ++ (closeCore (finalSave s).1 c).2) := by
  have g := finalSave_good hi hd
  have hd1 : (finalSave s).1.dead = false := (finalSave_dead s).trans hd
  have hA1 : PhA (finalSave s).1 := g.inv.phA hd1 ((finalSave_isOpen s).trans ho)
  rw [step_of_live hd (ignored_shutdown s c), stepCore_shutdown, closeOp_open _ c hA1.obsNil]
  have hdue : dueTimer (closeCore (finalSave s).1 c).1 (closeCore (finalSave s).1 c).1.now = none := by
    rw [closeCore_now, finalSave_now, dueTimer_congr s.now ((closeCore_timers _ c).trans (finalSave_timers s))]
    exact hs
  rw [fireDue_of_none _ _ _ hdue]
  simp

/-- **C13 `shutdown_from_A_clean`.** From every settled phase-A state of the invariant, `Close()` produces
    no fail-stop, ends in phase C (`isOpen = false`, observers closed so that nothing is delivered any
    more and late ends are ignored, every vBucket stream closed), `stopCh` is closed, and the monitor
    accepts `[written …] BSP closereq… [stop] ASP [stop]`. -/
theorem shutdown_from_A_clean {s : LSt} (c : Bool) (hd : s.dead = false) (hi : Inv s) (ho : s.isOpen = true)
    (hs : Settled s) :
    (∀ w, LObs.failstop w ∉ (step s (.shutdown c)).2) ∧ (step s (.shutdown c)).1.dead = false ∧
    PhC (step s (.shutdown c)).1 ∧ Settled (step s (.shutdown c)).1 ∧
    obsRun 2 (step s (.shutdown c)).2 = some 11 ∧
    (∀ vb q, (vb, q) ∈ (finalSave s).1.pos → LObs.closereq vb ∈ (step s (.shutdown c)).2) := by
  have g := finalSave_good hi hd
  have hd1 : (finalSave s).1.dead = false := (finalSave_dead s).trans hd
  have hA1 : PhA (finalSave s).1 := g.inv.phA hd1 ((finalSave_isOpen s).trans ho)
  have hA : PhA s := hi.phA hd ho
  rw [shutdown_from_A_eq c hd hi ho hs]
  have hrun : obsRun 2 ((finalSave s).2 ++ (closeCore (finalSave s).1 c).2) = some 11 := by
    have h1 := g.run hd1
    rw [hA.code, hA1.code] at h1
    exact obsRun_append_of h1 (obsRun_close_final _ c 2 rfl)
  refine ⟨fun w => no_failstop_of_obsRun hrun w, by simp [hd1], PhC_of_close c hA1, ?_, hrun, ?_⟩
  · show dueTimer (closeCore (finalSave s).1 c).1 (closeCore (finalSave s).1 c).1.now = none
    rw [closeCore_now, finalSave_now, dueTimer_congr s.now ((closeCore_timers _ c).trans (finalSave_timers s))]
    exact hs
  · intro vb q hq
    obtain ⟨o2, o4, hout, _, _⟩ := closeCore_out (finalSave s).1 c
    show LObs.closereq vb ∈ (finalSave s).2 ++ (closeCore (finalSave s).1 c).2
    rw [hout]
    simp only [List.mem_append, List.mem_cons, List.mem_map]
    exact Or.inr (Or.inl (Or.inl (Or.inl (Or.inr ⟨(vb, q), hq, rfl⟩))))

/-! ## after the shutdown -/

/-- what can still be observed after `Close()` has returned -/
def AfterShutdown : LObs → Prop
  | .status .. => True
  | .cb .BSP | .cb .BRS | .failstop _ => True
  | _ => False

/-- **the timer-driven sibling of F4**: a `Rebalance` timer that fires on a shut-down stream calls
    `Close` on the nil observers map and fail-stops -/
theorem reb_timer_after_shutdown_failstops {s : LSt} {t : Timer} (hC : PhC s) (ht : t ∈ s.timers)
    (hp : t.pending = true) :
    (fireOne s t).1.dead = true ∧ (fireOne s t).2 = [.cb .BRS, .failstop "nil-observers"] := by
  have hk := hC.noReb t ht hp
  rw [fireOne_Reb s hk,
    callRebalance_streaming (s := setTimer s { t with pending := false }) t.deadline hC.balancing hC.lockHeld,
    rebalanceLocked_closed (setTimer s { t with pending := false }) t.deadline hC.obsNil hC.balancing]
  exact ⟨rfl, by simp [silent]⟩

theorem fireDue_C {s : LSt} (upto fuel : Nat) (hC : PhC s) :
    fireDue upto fuel s = (s, []) ∨
    ((fireDue upto fuel s).1.dead = true ∧ (fireDue upto fuel s).2 = [.cb .BRS, .failstop "nil-observers"]) := by
  cases fuel with
  | zero => exact Or.inl rfl
  | succ fuel =>
    rw [fireDue_succ]
    split
    · exact Or.inl rfl
    · cases hdue : dueTimer s upto with
      | none => exact Or.inl rfl
      | some t =>
        obtain ⟨ht, hp, _⟩ := dueTimer_some hdue
        obtain ⟨h1, h2⟩ := reb_timer_after_shutdown_failstops hC ht hp
        right
        simp only [fireDue_of_dead _ _ _ h1, h2]
        exact ⟨h1, by simp⟩

/-- a `Close()` on a stream whose observers map is nil (rebalance window, or already shut down):
    the nil dereference of F4 -/
theorem shutdown_on_nil {s : LSt} (c : Bool) (hd : s.dead = false) (hn : s.obsNil = true) (hp : s.pos = []) :
    step s (.shutdown c) = ({ (finalSave s).1 with dead := true }, [.cb .BSP, .failstop "nil-observers"]) := by
  rw [step_of_live hd (ignored_shutdown s c), stepCore_shutdown, closeOp_nil _ c ((finalSave_obsNil s).trans hn),
    finalSave_out_nil s hp, fireDue_of_dead _ _ _ rfl]
  simp

/-- one step from phase C: nothing happens, a status is reported, or the process fail-stops; in every case
    only `status`, `BSP`, `BRS` and `failstop` can be observed -/
theorem step_from_C {s : LSt} (op : LOp) (hd : s.dead = false) (hC : PhC s) :
    ((step s op).1 = s ∨ (step s op).1.dead = true) ∧ ∀ x ∈ (step s op).2, AfterShutdown x := by
  by_cases hi : ignored s op = true
  · rw [step_eq, hd, hi]; simp
  · have hi' : ignored s op = false := by simpa using hi
    have hop : (∃ c, op = .shutdown c) ∨ op = .query := by
      cases op <;> simp [ignored, hC.stop] at hi' <;> simp
    rcases hop with ⟨c, rfl⟩ | rfl
    · rw [shutdown_on_nil c hd hC.obsNil hC.pos]
      exact ⟨Or.inr rfl, by simp [AfterShutdown]⟩
    · rw [step_of_live hd hi']
      have hcore : stepCore s .query = (s, [.status s.isOpen s.active s.rebalances s.stopClosed s.lo s.hi]) := rfl
      rw [hcore]
      rcases fireDue_C s.now 64 hC with h | ⟨h1, h2⟩
      · rw [h]; exact ⟨Or.inl rfl, by simp [AfterShutdown]⟩
      · exact ⟨Or.inr h1, by simp [h2, AfterShutdown]⟩

/-- **C13 "no event is handed to the consumer after Close() has returned", "every stream stopped".**
    After the shutdown, whatever ops follow: no `deliver`, no `openreq`, no `written`, no callback other
    than the `BSP` / `BRS` that immediately precede a fail-stop (second `Close()`, or a `Rebalance` timer
    that was already due) – only `status` reports. -/
theorem after_shutdown_quiet {s : LSt} (ops : List LOp) (h : s.dead = true ∨ PhC s) :
    ∀ x ∈ (runTrace s ops).flatten, AfterShutdown x := by
  induction ops generalizing s with
  | nil => simp [runTrace_nil]
  | cons op r ih =>
    rw [runTrace_cons, List.flatten_cons]
    intro x hx
    cases hd : s.dead with
    | true =>
      rw [dead_step s op hd] at hx
      exact ih (Or.inl hd) x (by simpa using hx)
    | false =>
      have hC : PhC s := by
        rcases h with h | h
        · rw [hd] at h; cases h
        · exact h
      obtain ⟨h1, h2⟩ := step_from_C op hd hC
      rcases List.mem_append.1 hx with hx | hx
      · exact h2 x hx
      · refine ih ?_ x hx
        rcases h1 with h1 | h1
        · rw [h1]; exact Or.inr hC
        · exact Or.inl h1

/-- in particular nothing is delivered, requested or written after the shutdown -/
theorem after_shutdown_no_delivery {s : LSt} (ops : List LOp) (hC : PhC s) (vb q : Nat) :
    LObs.deliver vb q ∉ (runTrace s ops).flatten ∧ LObs.openreq vb q ∉ (runTrace s ops).flatten ∧
    LObs.written vb q ∉ (runTrace s ops).flatten :=
  ⟨fun h => after_shutdown_quiet ops (Or.inr hC) _ h, fun h => after_shutdown_quiet ops (Or.inr hC) _ h,
   fun h => after_shutdown_quiet ops (Or.inr hC) _ h⟩

/-- in a settled phase-C state every op other than a second `Close()` leaves the state alone and reports at
    most a status: no timer fires, no callback is emitted -/
theorem after_shutdown_settled {s : LSt} (op : LOp) (hd : s.dead = false) (hC : PhC s) (hs : Settled s)
    (hns : ∀ c, op ≠ .shutdown c) :
    (step s op).1 = s ∧ ∀ x ∈ (step s op).2, ∃ o a r st lo hi, x = LObs.status o a r st lo hi := by
  by_cases hi : ignored s op = true
  · rw [step_eq, hd, hi]; simp
  · have hi' : ignored s op = false := by simpa using hi
    have hop : op = .query := by
      cases op <;> simp [ignored, hC.stop] at hi' <;> first | rfl | exact absurd rfl (hns _)
    subst hop
    rw [step_of_live hd hi']
    have hcore : stepCore s .query = (s, [.status s.isOpen s.active s.rebalances s.stopClosed s.lo s.hi]) := rfl
    rw [hcore, fireDue_of_none _ _ _ hs]
    refine ⟨rfl, ?_⟩
    intro x hx
    simp only [List.append_nil, List.mem_cons, List.not_mem_nil, or_false] at hx
    exact ⟨_, _, _, _, _, _, hx⟩

/-! ## F4: the exact characterisation -/

/-- the callbacks of the F4 step are still accepted by the automaton (`6 –BSP→ 10`): the run-time monitor of
    the driver flags the fail-stop, not a bracketing error -/
theorem F4_callbacks_accepted {s : LSt} (c : Bool) (hd : s.dead = false) (hB : PhB s) :
    cbRun (code s) (cbOf (step s (.shutdown c)).2) = some 10 := by
  rw [shutdown_on_nil c hd hB.1.obsNil hB.1.pos, hB.1.code]
  rfl


/-- **C13 `shutdown_in_window_failstop`.** In phase B `Close()` always fail-stops, right after
    `BeforeStreamStop` (nothing is written by the final save: the offsets map is empty). -/
theorem shutdown_in_window_failstop {s : LSt} (c : Bool) (hd : s.dead = false) (hB : PhB s) :
    step s (.shutdown c) = ({ (finalSave s).1 with dead := true }, [.cb .BSP, .failstop "nil-observers"]) :=
  shutdown_on_nil c hd hB.1.obsNil hB.1.pos

/-- phase B is exactly the classifier among the live states of the invariant -/
theorem window_iff_KF {s : LSt} (hi : Inv s) (hd : s.dead = false) :
    KF_C13_in_rebalance_window s = true ↔ PhB s := by
  constructor
  · intro h
    simp only [KF_C13_in_rebalance_window, Bool.and_eq_true] at h
    exact hi.phB hd h.2
  · intro h
    simp [KF_C13_in_rebalance_window, h.1.obsNil, h.1.balancing]

/-- **C13 `close_terminates_partial`.** For every live state of the invariant in which the stream was
    opened and not yet shut down, settled, and NOT inside a rebalance window, `Close()` does not
    fail-stop and reaches phase C. -/
theorem close_terminates_partial {s : LSt} (c : Bool) (hi : Inv s) (hd : s.dead = false)
    (hoc : s.isOpen = true ∨ s.balancing = true) (hs : Settled s)
    (hkf : KF_C13_in_rebalance_window s = false) :
    (∀ w, LObs.failstop w ∉ (step s (.shutdown c)).2) ∧ (step s (.shutdown c)).1.dead = false ∧
    PhC (step s (.shutdown c)).1 := by
  have ho : s.isOpen = true := by
    have hoc' := hoc
    rcases hoc' with h | h
    · exact h
    · have hB := hi.phB hd h
      rw [(window_iff_KF hi hd).2 hB] at hkf; cases hkf
  obtain ⟨h1, h2, h3, _⟩ := shutdown_from_A_clean c hd hi ho hs
  exact ⟨h1, h2, h3⟩

/-- **the exact characterisation of F4**: among those states, `Close()` fail-stops iff the classifier holds -/
theorem close_failstops_iff {s : LSt} (c : Bool) (hi : Inv s) (hd : s.dead = false)
    (hoc : s.isOpen = true ∨ s.balancing = true) (hs : Settled s) :
    (∃ w, LObs.failstop w ∈ (step s (.shutdown c)).2) ↔ KF_C13_in_rebalance_window s = true := by
  constructor
  · rintro ⟨w, hw⟩
    cases hk : KF_C13_in_rebalance_window s with
    | true => rfl
    | false => exact absurd hw ((close_terminates_partial c hi hd hoc hs hk).1 w)
  · intro hk
    have hB := (window_iff_KF hi hd).1 hk
    rw [shutdown_in_window_failstop c hd hB]
    exact ⟨"nil-observers", by simp⟩

/-- **C13 `shutdown_idempotence`.** A second `Close()` (the stream is in phase C) fail-stops on the nil
    observers map; `dcp.go` calls `close()` once. -/
theorem shutdown_idempotence {s : LSt} (c : Bool) (hd : s.dead = false) (hC : PhC s) :
    step s (.shutdown c) = ({ (finalSave s).1 with dead := true }, [.cb .BSP, .failstop "nil-observers"]) :=
  shutdown_on_nil c hd hC.obsNil hC.pos

/-- `Close()` before `Open()` has the same shape -/
theorem shutdown_before_open {s : LSt} (c : Bool) (hd : s.dead = false) (hP : PhPre s) :
    step s (.shutdown c) = ({ (finalSave s).1 with dead := true }, [.cb .BSP, .failstop "nil-observers"]) :=
  shutdown_on_nil c hd hP.obsNil hP.pos

/-- **C13 `close_terminates_partial`** (run form). `Open`, then any benign op list (no second `Open`, no earlier
    shutdown, transient ends only for assigned vBuckets): in the state reached, if it is settled and not inside
    a rebalance window, `Close()` does not fail-stop and reaches phase C; inside a window it always
    fail-stops (`close_failstops_iff`). -/
theorem close_terminates_partial_run {s0 : LSt} (c : Bool) (hd : s0.dead = false) (ok : TimersOk s0) (hpre : PhPre s0)
    (ops : List LOp) (hb : BenignRun (step s0 .open).1 ops)
    (hs : Settled (run s0 (LOp.open :: ops)))
    (hkf : KF_C13_in_rebalance_window (run s0 (LOp.open :: ops)) = false) :
    (∀ w, LObs.failstop w ∉ (step (run s0 (LOp.open :: ops)) (.shutdown c)).2) ∧
    (step (run s0 (LOp.open :: ops)) (.shutdown c)).1.dead = false ∧
    PhC (step (run s0 (LOp.open :: ops)) (.shutdown c)).1 := by
  obtain ⟨hr, _⟩ := rebalance_never_kills_client hd ok hpre ops hb
  have hok : OpsOk s0 (LOp.open :: ops) := ⟨fun _ => hpre.everOpened, hb.opsOk⟩
  have hi : Inv (run s0 (LOp.open :: ops)) := (run_good (.pre hd ok hpre) hok).inv
  exact close_terminates_partial c hi hr.1 hr.2 hs hkf

/-- on calm runs (no notification ever queued on the lock or re-armed a fired timer) from an initial state
    without pending timers the reached state is always settled: the fuel of `fireDue` suffices -/
theorem settled_of_calm_run {s0 : LSt} (hd : s0.dead = false) (ok : TimersOk s0) (hpre : PhPre s0)
    (hnt : ∀ t ∈ s0.timers, t.pending = false) (ops : List LOp) (hno : NoOpen ops)
    (hkf1 : KF_C11_first_timer_nil (runTrace s0 (LOp.open :: ops)) = false)
    (hkf2 : KF_C11_timer_reassigned (runTrace s0 (LOp.open :: ops)) = false)
    (halive : (run s0 (LOp.open :: ops)).dead = false) : Settled (run s0 (LOp.open :: ops)) :=
  run_calm_settled (.pre hd ok hpre) (OpsOk_open hpre.everOpened hno)
    ⟨hpre.queued, fun t ht hp => by rw [hnt t ht] at hp; cases hp⟩
    (dueTimer_none_of_no_pending _ hnt) (calm_of_KF hkf1 hkf2) halive

/-! ## the final save -/

/-- writing a list of pairs with distinct keys into a store -/
theorem foldl_set_get? (w : AMap Nat) (st : AMap Nat) (hn : (AMap.keys w).Nodup) (x : Nat) :
    (∀ q, (x, q) ∈ w → (w.foldl (fun m (p : Nat × Nat) => m.set p.1 p.2) st).get? x = some q) ∧
    (x ∉ AMap.keys w → (w.foldl (fun m (p : Nat × Nat) => m.set p.1 p.2) st).get? x = st.get? x) := by
  induction w generalizing st with
  | nil => simp
  | cons hd t ih =>
    obtain ⟨k, v⟩ := hd
    simp only [AMap.keys, List.map_cons, List.nodup_cons] at hn
    have iht := ih (st.set k v) hn.2
    simp only [List.foldl_cons]
    constructor
    · intro q hq
      rcases List.mem_cons.1 hq with e | hq
      · cases e
        rw [iht.2 hn.1, AMap.get?_set_same]
      · exact iht.1 q hq
    · intro hx
      simp only [AMap.keys, List.map_cons, List.mem_cons, not_or] at hx
      rw [iht.2 hx.2, AMap.get?_set_other _ _ _ _ hx.1]

/-- **C13 `final_save_covers_settled`.** With `checkpoint.type = auto` the shutdown first saves: from a
    phase-A state, after the save every vBucket marked dirty is durably stored at its current (settled)
    position; the stored value of every other vBucket is unchanged (it was written by the save that
    cleared its dirty mark, or is the value the session started from). Nothing is written when
    `anyDirty = false` – under the invariant that means no vBucket is dirty (`PhA.dirtyFlag`). -/
theorem final_save_covers_settled {s : LSt} (hA : PhA s) (hauto : s.auto = true) :
    (∀ vb q, s.pos.get? vb = some q → vb ∈ s.dirty → (finalSave s).1.store.get? vb = some q) ∧
    (∀ vb, vb ∉ s.dirty → (finalSave s).1.store.get? vb = s.store.get? vb) ∧
    (finalSave s).1.dirty = [] := by
  have hkeys : (AMap.keys s.pos).Nodup := by rw [hA.keys]; exact vbs_nodup _ _
  have hw : (AMap.keys (s.pos.filter fun (p : Nat × Nat) => s.dirty.contains p.1)).Nodup :=
    List.Nodup.sublist (List.Sublist.map _ List.filter_sublist) hkeys
  cases hany : s.anyDirty with
  | false =>
    have hdirty := hA.dirtyFlag hany
    have e : finalSave s = (s, []) := by simp [finalSave, hauto, saveStep, hany]
    rw [e]
    exact ⟨fun vb q _ hv => by rw [hdirty] at hv; simp at hv, fun _ _ => rfl, hdirty⟩
  | true =>
    have e : (finalSave s).1.store =
        (s.pos.filter fun (p : Nat × Nat) => s.dirty.contains p.1).foldl (fun m (p : Nat × Nat) => m.set p.1 p.2) s.store := by
      simp [finalSave, hauto, saveStep, hany]
    have e2 : (finalSave s).1.dirty = [] := by simp [finalSave, hauto, saveStep, hany]
    refine ⟨?_, ?_, e2⟩
    · intro vb q hq hv
      rw [e]
      refine (foldl_set_get? _ s.store hw vb).1 q ?_
      exact List.mem_filter.2 ⟨AMap.mem_of_get?_eq_some hq, by simpa using hv⟩
    · intro vb hv
      rw [e]
      refine (foldl_set_get? _ s.store hw vb).2 ?_
      intro hmem
      simp only [AMap.keys, List.mem_map, List.mem_filter] at hmem
      obtain ⟨p, ⟨_, hp⟩, rfl⟩ := hmem
      exact hv (by simpa using hp)

/-- the store after the whole shutdown step from a settled phase-A state is the store after the final save -/
theorem shutdown_store {s : LSt} (c : Bool) (hd : s.dead = false) (hi : Inv s) (ho : s.isOpen = true)
    (hs : Settled s) : (step s (.shutdown c)).1.store = (finalSave s).1.store := by
  rw [shutdown_from_A_eq c hd hi ho hs]
  simp

/-! ## the count after `Close()` -/

/-- **`close_after_ends_reaches_zero`.** In phase A under the exact count (server hypothesis `EndsOnce`), `Close`
    brings the active count to exactly 0 WHATEVER subset of the assigned vBuckets had finally ended before: only
    the streams the server still has answer `CloseStream` with an `End`. So the end-event token is produced by the
    `End` of the LAST live stream (`finishedWithEnd`), `Close` does not send the close token, and `stop` is
    emitted exactly once, inside `BSP … ASP` – unless `stopCh` was already closed by the last final end. -/
theorem close_after_ends_reaches_zero {s : LSt} (c : Bool) (hA : PhA s) (hx : Exact s) (hd : s.dead = false) :
    doClose s c = some (closeCore s c) ∧
    (closeCore s c).1.active = 0 ∧ (closeCore s c).1.finishedWithEnd = true ∧
    (closeCore s c).1.finishedWithClose = false ∧ (closeCore s c).1.stopClosed = true ∧
    (closeCore s c).2 = [.cb .BSP] ++ s.pos.map (fun (vb, _) => LObs.closereq vb) ++
      (if s.stopClosed then [] else [.stop]) ++ [.cb .ASP] := by
  have h0 : s.active - ((live s).length : Int) = 0 := by rw [hA.exact_live hx hd]; omega
  refine ⟨by rw [doClose_eq, hA.obsNil]; rfl, closeCore_active_zero c hA hx hd, ?_, ?_,
    closeCore_stop_streaming s c hA.balancing hA.fwc hA.fwe, ?_⟩
  · simp only [closeCore, waitFires, h0, hA.fwc, hA.balancing]
    cases s.stopClosed <;> simp
  · simp only [closeCore, waitFires, h0, hA.fwc, hA.balancing]
    cases s.stopClosed <;> simp
  · simp only [closeCore, waitFires, h0, hA.fwc, hA.balancing]
    cases s.stopClosed <;> simp

/-- number of times `stopCh` is closed in an output (the model emits `stop` only when it closes the channel) -/
def stopCount (o : List LObs) : Nat := (o.filter (· == LObs.stop)).length

theorem stopCount_append (a b : List LObs) : stopCount (a ++ b) = stopCount a + stopCount b := by
  simp [stopCount, List.filter_append]

theorem stopCount_writtens (w : List (Nat × Nat)) : stopCount (w.map fun (vb, q) => LObs.written vb q) = 0 := by
  induction w with
  | nil => rfl
  | cons p r ih =>
    have : stopCount ((p :: r).map fun (vb, q) => LObs.written vb q) =
        stopCount (r.map fun (vb, q) => LObs.written vb q) := by
      simp [stopCount]
    rw [this, ih]

theorem stopCount_closereqs (m : List (Nat × Nat)) : stopCount (m.map fun (vb, _) => LObs.closereq vb) = 0 := by
  induction m with
  | nil => rfl
  | cons p r ih =>
    have : stopCount ((p :: r).map fun (vb, _) => LObs.closereq vb) =
        stopCount (r.map fun (vb, _) => LObs.closereq vb) := by
      simp [stopCount]
    rw [this, ih]

/-- **the shutdown step after any number of final ends** (settled phase-A state, exact count): the count is 0 after
    `Close()`, the output is `[written …] BSP closereq… [stop] ASP`, and `stopCh` is closed by this step exactly once –
    not at all iff the last final end had closed it before -/
theorem shutdown_after_ends {s : LSt} (c : Bool) (hd : s.dead = false) (hi : Inv s) (ho : s.isOpen = true)
    (hs : Settled s) (hx : Exact s) :
    (step s (.shutdown c)).1.active = 0 ∧ Exact (step s (.shutdown c)).1 ∧
    (step s (.shutdown c)).2 = (finalSave s).2 ++ ([.cb .BSP] ++ s.pos.map (fun (vb, _) => LObs.closereq vb) ++
      (if s.stopClosed then [] else [.stop]) ++ [.cb .ASP]) ∧
    stopCount (step s (.shutdown c)).2 = (if s.stopClosed then 0 else 1) := by
  have g := finalSave_good hi hd
  have hd1 : (finalSave s).1.dead = false := (finalSave_dead s).trans hd
  have hA1 : PhA (finalSave s).1 := g.inv.phA hd1 ((finalSave_isOpen s).trans ho)
  have e := finalSave_fields s
  have hx1 : Exact (finalSave s).1 :=
    hx.congr (s' := (finalSave s).1) ⟨e.dead, e.isOpen, e.everOpened, e.active, e.lo, e.hi, e.endedVbs⟩
  have hst : (finalSave s).1.stopClosed = s.stopClosed := e.stopClosed
  obtain ⟨_, h0, _, _, _, hout⟩ := close_after_ends_reaches_zero c hA1 hx1 hd1
  rw [finalSave_pos, hst] at hout
  obtain ⟨w, hw⟩ := finalSave_out s
  rw [shutdown_from_A_eq c hd hi ho hs]
  refine ⟨h0, Exact.zero (by simp) h0, by rw [hout], ?_⟩
  show stopCount ((finalSave s).2 ++ (closeCore (finalSave s).1 c).2) = _
  rw [hout, hw, stopCount_append, stopCount_append, stopCount_append, stopCount_append, stopCount_writtens,
    stopCount_closereqs]
  cases s.stopClosed <;> rfl

/-- the same at the end of a run: `Open`, then any op list under the server hypothesis `EndsOnce` – whatever final
    ends happened – then `Close()` from a settled open state -/
theorem shutdown_after_ends_run {s0 : LSt} (c : Bool) (hd : s0.dead = false) (ok : TimersOk s0) (hpre : PhPre s0)
    (ops : List LOp) (hno : NoOpen ops) (hsrv : EndsOnce s0 (LOp.open :: ops)) :
    let s := run s0 (LOp.open :: ops)
    s.dead = false → s.isOpen = true → Settled s →
      (step s (.shutdown c)).1.active = 0 ∧ stopCount (step s (.shutdown c)).2 = (if s.stopClosed then 0 else 1) := by
  intro s hds hos hs
  have hx : Exact s := exact_from_open hd ok hpre ops hno hsrv
  have hi : Inv s := (run_good (.pre hd ok hpre) (OpsOk_open hpre.everOpened hno)).inv
  obtain ⟨h1, _, _, h4⟩ := shutdown_after_ends c hds hi hos hs hx
  exact ⟨h1, h4⟩

/-- non-vacuity: one of three streams has finally ended; the shutdown closes the two live ones, the count reaches 0
    (it was −1 when `Close` subtracted every offsets entry) and `stop` is emitted once -/
example :
    let s0 : LSt := { memLo := 0, memHi := 2 }
    let s := run s0 [.open, .endEv 1 .final]
    s.active = 2 ∧ (step s (.shutdown false)).1.active = 0 ∧
    (step s (.shutdown false)).2 = [.cb .BSP, .closereq 0, .closereq 1, .closereq 2, .stop, .cb .ASP] := by decide

/-- all streams had ended (the last end closed `stopCh`): the shutdown does not close it a second time -/
example :
    let s0 : LSt := { memLo := 0, memHi := 1 }
    let s := run s0 [.open, .endEv 1 .final, .endEv 0 .clean]
    s.stopClosed = true ∧ (step s (.shutdown false)).1.active = 0 ∧
    (step s (.shutdown false)).2 = [.cb .BSP, .closereq 0, .closereq 1, .cb .ASP] := by decide

/-! ## non-vacuity -/

/-- settled phase-A states exist and the clean shutdown theorem applies to them -/
example :
    let s0 : LSt := { memLo := 0, memHi := 1, auto := true }
    let s := run s0 [.open, .ev 0, .ev 1, .ev 0]
    s.isOpen = true ∧ s.dead = false ∧ dueTimer s s.now = none ∧
    (step s (.shutdown true)).2 =
      [.written 0 2, .written 1 1, .cb .BSP, .closereq 0, .closereq 1, .stop, .cb .ASP] := by decide

end GoDcp.Life
