import GoDcp.Model.Session
/-!
# C16 — exposed metrics and state endpoints tell the truth
`metric/collector.go` as the pure function `scrape` of the session state (Model/Session.lean).
The counters clause ("equal the number of events of each kind accepted") is the observer
invariant `obs_counters` in `Props/C03.lean`.
-/
namespace GoDcp

/-- the `uint64` computation of the collector never wraps: the guard is exactly what prevents it -/
theorem lag_no_wrap (a b : UInt64) :
    (if a > b then a - b else 0).toNat = a.toNat - b.toNat := by
  by_cases h : a > b
  · have h' : b.toNat < a.toNat := UInt64.lt_iff_toNat_lt.mp h
    simp only [h, if_true]
    rw [UInt64.toNat_sub_of_le _ _ (UInt64.le_iff_toNat_le.mpr (Nat.le_of_lt h'))]
  · have h' : a.toNat ≤ b.toNat := by
      have := UInt64.not_lt.mp h
      exact UInt64.le_iff_toNat_le.mp this
    simp [h]; omega

/-- the model's `lagOf` is that computation on naturals … -/
theorem lagOf_eq_sub (high seq : Nat) : lagOf high seq = high - seq := by
  unfold lagOf; split <;> omega

/-- … i.e. `max 0 (high − seq)` over the integers -/
theorem lagOf_eq_max (high seq : Nat) : (lagOf high seq : Int) = max 0 ((high : Int) - (seq : Int)) := by
  rw [lagOf_eq_sub]; omega

/-- agreement of the model with the machine computation for all 64-bit values -/
theorem lagOf_uint64 (a b : UInt64) : lagOf a.toNat b.toNat = (if a > b then a - b else 0).toNat := by
  rw [lag_no_wrap, lagOf_eq_sub]

theorem foldl_add_lag (rows : List ScrapeRow) (acc : Nat) :
    rows.foldl (fun a r => a + r.lag) acc = acc + (rows.map (·.lag)).sum := by
  induction rows generalizing acc with
  | nil => simp
  | cons r t ih => simp [List.foldl_cons, ih, Nat.add_assoc]

/-- total lag is the sum of the per-vBucket lags -/
theorem total_lag_is_sum (s : St) (rows : List ScrapeRow) (total : Nat)
    (h : scrape s = .scrape rows total) : total = (rows.map (·.lag)).sum := by
  unfold scrape at h
  split at h
  · cases h
  · injection h with h1 h2
    subst h1 h2
    simpa using foldl_add_lag (scrapeRows s) 0

/-- the per-vBucket gauges equal the tracked position and its snapshot range, lag is
    `max(0, high − seq)`, counters and the persisted seqno are the observer's -/
theorem gauges_equal_state (s : St) (vb : Vb) (o : Offset) (h : (vb, o) ∈ s.offsets) :
    ∃ r ∈ scrapeRows s, r.vb = vb ∧ r.cur = o.seq ∧ r.ss = o.ss ∧ r.se = o.se ∧
      r.lag = (s.high.get? vb).getD 0 - o.seq ∧
      r.nmut = ((s.observers.get? vb).getD {}).nMut ∧ r.ndel = ((s.observers.get? vb).getD {}).nDel ∧
      r.nexp = ((s.observers.get? vb).getD {}).nExp ∧ r.persist = ((s.observers.get? vb).getD {}).persist := by
  refine ⟨_, List.mem_map.2 ⟨(vb, o), h, rfl⟩, rfl, rfl, rfl, rfl, lagOf_eq_sub _ _, rfl, rfl, rfl, rfl⟩

/-- every row of a scrape stems from a tracked position (nothing is invented) -/
theorem rows_from_offsets (s : St) (r : ScrapeRow) (h : r ∈ scrapeRows s) :
    ∃ o, (r.vb, o) ∈ s.offsets ∧ r.cur = o.seq := by
  obtain ⟨⟨vb, o⟩, hm, rfl⟩ := List.mem_map.1 h
  exact ⟨o, hm, rfl⟩

/-- scraping while the stream is closed returns at once with nothing; a scrape never changes the state -/
theorem closed_scrape_is_empty_and_total (s : St) :
    (s.obsNil = true → (step s .scrape).2 = [.scrapeClosed]) ∧ (step s .scrape).1 = s := by
  constructor
  · intro h; simp [step, scrape, h]
  · simp [step]

/-- non-vacuity: a high seqno below the tracked position gives lag 0, not a wrapped value -/
example : lagOf 5 9 = 0 ∧ lagOf 9 5 = 4 ∧ (if (5 : UInt64) > 9 then (5 : UInt64) - 9 else 0) = 0 := by decide

end GoDcp
