import GoDcp.Proofs.SessionLemmas
/-!
# C06 — every offset handed out or persisted is a valid, untorn resume point

`Inv_valid` is the inductive invariant (`step_inv_valid`, for every op), `step_out_valid`
the output side, `untorn` / `ctx_immutable` the provenance statements,
`outside_snapshot_failstop` the fail-stop, `uuid_is_branch` the branch id.
-/
namespace GoDcp

/-- `snapshotStart ≤ seqNo ≤ snapshotEnd` -/
def Offset.valid (o : Offset) : Prop := o.ss ≤ o.seq ∧ o.seq ≤ o.se
def Doc.valid (d : Doc) : Prop := d.ss ≤ d.seq ∧ d.seq ≤ d.se

instance (o : Offset) : Decidable o.valid := by unfold Offset.valid; exact inferInstance
instance (d : Doc) : Decidable d.valid := by unfold Doc.valid; exact inferInstance

namespace C06

theorem toDoc_valid {o : Offset} (h : o.valid) : o.toDoc.valid := h
theorem toOffset_valid {d : Doc} (h : d.valid) (l : Nat) : (d.toOffset l).valid := h
theorem zero_valid : Doc.zero.valid := ⟨Nat.le_refl _, Nat.le_refl _⟩

/-- every offset / document the state holds anywhere is valid -/
structure Inv_valid (s : St) : Prop where
  offsets : ∀ q ∈ s.offsets, q.2.valid
  ctxs : ∀ p ∈ s.ctxs, p.off.valid
  store : ∀ q ∈ s.store, q.2.valid
  savers : ∀ k st d, (k, SaverPc.dumped st d) ∈ s.savers → ∀ q ∈ st, q.2.valid

theorem inv_valid_init : Inv_valid {} :=
  { offsets := by intro q h; cases h
    ctxs := by intro q h; cases h
    store := by intro q h; cases h
    savers := by intro k st d h; cases h }

/-- the invariant does not look at the configuration (the driver's `cfg` command) -/
theorem inv_valid_cfg {s : St} (c : Cfg) (h : Inv_valid s) : Inv_valid { s with cfg := c } :=
  ⟨h.offsets, h.ctxs, h.store, h.savers⟩

theorem inv_valid_init_cfg (c : Cfg) : Inv_valid { cfg := c } := inv_valid_cfg c inv_valid_init

/-! ### producers -/

theorem mkOffset_valid {o : Obs} {seq : Nat} (h : Obs.inSnap o seq = true) : (Obs.mkOffset o seq).valid := by
  obtain ⟨a, b, _, h1, h2, he⟩ := Obs.mkOffset_of_inSnap h
  rw [he]; exact ⟨h1, h2⟩

/-- whatever the observer forwards with an offset carries a valid one -/
theorem fwd_valid {c : ObsCfg} {o : Obs} {e : SrvEv} {le : LEvent} (h : (Obs.step c o e).2 = .fwd le) :
    match le with
    | .doc _ off _ _ => off.valid
    | .seqAdv off => off.valid
    | .sys _ off => off.valid
    | _ => True := by
  rcases Obs.step_fwd_cases h with ⟨_, _, _, rfl⟩ | ⟨d, _, rfl, _, _, _, hin⟩ | ⟨seq, _, rfl⟩ |
      ⟨_, seq, _, _, rfl, _, _, hin⟩ | ⟨_, rfl⟩
  · trivial
  · exact mkOffset_valid hin
  · exact ⟨Nat.le_refl _, Nat.le_refl _⟩
  · exact mkOffset_valid hin
  · trivial

theorem dumpState_valid {s : St} (h : ∀ q ∈ s.offsets, q.2.valid) : ∀ q ∈ dumpState s, q.2.valid := by
  intro q hq
  obtain ⟨o, ho, he⟩ := mem_dumpState hq
  rw [he]; exact toDoc_valid (h _ ho)

/-- `checkpoint.Load` produces valid offsets from a valid store (zero document, latest-reset
    `[cur, cur]`, stored documents) -/
theorem load_valid {s : St} {offs : AMap Offset} {dirty : List Vb} {any : Bool}
    (hs : ∀ q ∈ s.store, q.2.valid) (h : load s = some (offs, dirty, any)) : ∀ q ∈ offs, q.2.valid := by
  intro q hq
  rcases load_some_cases h with ⟨_, ho⟩ | ⟨_, _, _, ho⟩
  · rw [ho] at hq
    obtain ⟨vb, _, rfl⟩ := List.mem_map.1 hq
    exact ⟨Nat.le_refl _, Nat.le_refl _⟩
  · rw [ho] at hq
    obtain ⟨vb, _, rfl⟩ := List.mem_map.1 hq
    apply toOffset_valid
    cases hg : s.store.get? vb with
    | none => exact zero_valid
    | some d => exact hs _ (AMap.mem_of_get?_eq_some hg)

/-- what an op tries to settle is valid -/
theorem settle_valid {s : St} {op : Op} {vb : Vb} {o : Offset} (hinv : Inv_valid s)
    (h : settle? s op = some (vb, o)) : o.valid := by
  cases op <;> simp only [settle?] at h <;> try (cases h)
  case ack i =>
    cases hc : s.ctxs[i]? with
    | none => simp [hc] at h
    | some p =>
      simp only [hc] at h
      split at h
      · injection h with h; injection h with h1 h2
        rw [← h2]; exact hinv.ctxs p (List.mem_of_getElem? hc)
      · cases h
  case ev v e =>
    cases ho : s.observers.get? v with
    | none => simp [ho] at h
    | some ob =>
      simp only [ho] at h
      cases hout : (Obs.step s.cfg.obs ob e).2 with
      | fwd le =>
        have hv := fwd_valid hout
        rw [hout] at h
        cases le with
        | doc d off coll t =>
          simp only [] at h hv
          split at h
          · injection h with h; injection h with h1 h2; rw [← h2]; exact hv
          · cases h
        | seqAdv off => simp only [] at h hv; injection h with h; injection h with h1 h2; rw [← h2]; exact hv
        | sys k off => simp only [] at h hv; injection h with h; injection h with h1 h2; rw [← h2]; exact hv
        | marker => simp at h
        | oso => simp at h
      | _ => rw [hout] at h; simp at h

/-! ### the inductive invariant -/

/-- **`Inv_valid` is preserved by every op** (the environment may only put valid documents) -/
theorem step_inv_valid (s : St) (op : Op) (hinv : Inv_valid s)
    (henv : ∀ vb d, op = .setStore vb d → d.valid) : Inv_valid (step s op).1 := by
  refine ⟨?_, ?_, ?_, ?_⟩
  · -- positions
    intro q hq
    by_cases hin : inSession op = true
    · rw [step_offsets_eq s hin] at hq
      cases hx : settle? s op with
      | none => rw [hx] at hq; exact hinv.offsets q hq
      | some p =>
        obtain ⟨v, o⟩ := p
        rw [hx] at hq
        simp only [applySettle] at hq
        split at hq
        · rcases AMap.mem_set hq with rfl | hq
          · exact settle_valid hinv hx
          · exact hinv.offsets q hq
        · exact hinv.offsets q hq
    · cases op <;> simp [inSession] at hin
      case setStore v d =>
        have : (step s (.setStore v d)).1.offsets = s.offsets := step_offsets s rfl
        rw [this] at hq; exact hinv.offsets q hq
      case setFlog v u =>
        have : (step s (.setFlog v u)).1.offsets = s.offsets := step_offsets s rfl
        rw [this] at hq; exact hinv.offsets q hq
      case «open» =>
        simp only [step] at hq
        by_cases h0 : s.isOpen = true
        · rw [openSession_of_isOpen h0] at hq; exact hinv.offsets q hq
        · have h0 : s.isOpen = false := by simpa using h0
          cases hl : load (openBase s) with
          | none => rw [openSession_of_load_none h0 hl] at hq; simp [openBase] at hq
          | some r =>
            obtain ⟨offs, dirty, any⟩ := r
            rw [openSession_of_load_some h0 hl] at hq
            exact load_valid (s := openBase s) hinv.store hl q hq
      case close =>
        simp only [step, closeSession] at hq
        split at hq
        · exact hinv.offsets q hq
        · simp at hq
      case crash => simp [step, crash] at hq
      case rebalance lo hi =>
        -- positions are loaded again from the (valid) store
        simp only [step] at hq
        rcases rebalanceSession_cases s lo hi with ⟨_, e⟩ | ⟨_, _, _, _, e⟩ | ⟨offs, dirty, any, _, _, _, hl, e⟩ <;>
          rw [e] at hq
        · exact hinv.offsets q hq
        · simp [rebalBase, closedOf] at hq
        · rw [rebalDone_offsets] at hq
          exact load_valid (s := rebalBase s lo hi) hinv.store hl q hq
  · -- contexts
    intro p hp
    rcases step_ctxs_cases s op with h | ⟨i, vb, d, off, coll, t, hout, hc⟩
    · rw [h] at hp; exact hinv.ctxs p hp
    · rw [hc] at hp
      rcases List.mem_append.1 hp with hp | hp
      · exact hinv.ctxs p hp
      · simp only [List.mem_singleton] at hp
        subst hp
        have hd : Obsv.deliver i vb d off coll t ∈ (step s op).2 := by rw [hout]; exact List.mem_singleton_self _
        obtain ⟨o, _, _, hoff, hin, _⟩ := step_deliver hd
        rw [hoff]; exact mkOffset_valid hin
  · -- durable store
    intro q hq
    rcases step_store_mem hq with h | ⟨vb, d, hop, rfl⟩ | ⟨w, hw, hqw⟩
    · exact hinv.store q h
    · exact henv vb d hop
    · rcases step_written hw with ⟨k, st, d, hk, hsub⟩ | hsub
      · exact hinv.savers k st d hk q (hsub q hqw).1
      · exact dumpState_valid hinv.offsets q (hsub q hqw).1
  · -- dumps held by savers
    intro k st d hk q hq
    rcases step_savers_dumped hk with hk | rfl
    · exact hinv.savers k st d hk q hq
    · exact dumpState_valid hinv.offsets q hq

theorem run_inv_valid (s : St) (ops : List Op) (hinv : Inv_valid s)
    (henv : ∀ op ∈ ops, ∀ vb d, op = .setStore vb d → d.valid) : Inv_valid (run s ops) :=
  run_induction (P := Inv_valid) (ok := fun op => ∀ vb d, op = .setStore vb d → d.valid)
    (fun s op hok h => step_inv_valid s op h hok) s ops henv hinv

/-! ### the output side -/

/-- validity of what one observation carries -/
def obsvValid : Obsv → Prop
  | .openreq _ o => o.valid
  | .deliver _ _ _ off _ _ => off.valid
  | .track _ o => o.valid
  | .saveCall st _ => ∀ q ∈ st, q.2.valid
  | .written w => ∀ q ∈ w, q.2.valid
  | .pos offs _ _ => ∀ q ∈ offs, q.2.valid
  | _ => True

/-- every stream request (of an open, a rebalance or a reopen), delivery, `TrackOffset` call, `Metadata.Save` argument, durable write and
    `GetOffsets` answer of a step from an `Inv_valid` state carries only valid offsets / documents -/
theorem step_out_valid (s : St) (op : Op) (hinv : Inv_valid s) : ∀ x ∈ (step s op).2, obsvValid x := by
  intro x hx
  cases x <;> simp only [obsvValid] <;> try trivial
  case openreq vb o =>
    rcases (step_openreq hx).1 with ⟨offs, dirty, any, _, _, hl, hm⟩ | ⟨lo, hi, offs, dirty, any, _, _, _, _, hl, hm, _⟩ |
        ⟨_, _, hg⟩
    · exact load_valid (s := openBase s) hinv.store hl _ hm
    · exact load_valid (s := rebalBase s lo hi) hinv.store hl _ hm
    · exact hinv.offsets _ (AMap.mem_of_get?_eq_some hg)
  case deliver i vb d off coll t =>
    obtain ⟨o, _, _, hoff, hin, _⟩ := step_deliver hx
    rw [hoff]; exact mkOffset_valid hin
  case track vb o =>
    rw [← mem_tracksOut, step_tracks] at hx
    cases hs : settle? s op with
    | none => simp [hs, settleOut] at hx
    | some p =>
      obtain ⟨v, o'⟩ := p
      simp only [hs, settleOut] at hx
      split at hx
      · simp only [List.mem_singleton, Prod.mk.injEq] at hx
        obtain ⟨rfl, rfl⟩ := hx
        exact settle_valid hinv hs
      · simp at hx
  case saveCall st d =>
    rw [step_saveCall hx]; exact dumpState_valid hinv.offsets
  case written w =>
    intro q hq
    rcases step_written hx with ⟨k, st, d, hk, hsub⟩ | hsub
    · exact hinv.savers k st d hk q (hsub q hq).1
    · exact dumpState_valid hinv.offsets q (hsub q hq).1
  case pos offs dirty any =>
    cases op <;> simp only [step] at hx
    case getOffsets => simp at hx; obtain ⟨rfl, _, _⟩ := hx; exact hinv.offsets
    case setStore => split at hx <;> simp at hx
    case setHigh => simp at hx
    case setFlog => simp at hx
    case rebalance lo hi =>
      rcases mem_rebalanceSession_out hx with ⟨_, h⟩ | ⟨_, h⟩ | h | ⟨_, _, _, _, _, _, _, _, _, _, h, _⟩ <;> cases h
    case reopen vb =>
      rcases mem_reopenStream_out hx with ⟨_, h⟩ | ⟨_, _, _, _, _, h, _⟩ <;> cases h
    case «open» =>
      simp only [openSession] at hx
      split at hx
      · simp at hx
      · split at hx <;> simp at hx
    case close => simp only [closeSession] at hx; split at hx <;> simp at hx
    case crash => simp [crash] at hx
    case ev vb' e =>
      cases ho : s.observers.get? vb' with
      | none => rw [evStep_of_no_obs e ho] at hx; simp at hx
      | some o =>
        rw [evStep_of_obs e ho] at hx
        split at hx
        · rename_i le _
          cases le <;> simp only [listen] at hx
          case doc => split at hx <;> simp [setOffset_out] at hx <;> split at hx <;> simp at hx
          all_goals (try simp [setOffset_out] at hx) <;> (try split at hx) <;> simp at hx
        all_goals simp at hx
    case ack i =>
      split at hx
      · simp at hx
      · split at hx
        · simp at hx
        · rw [ack_out, setOffset_out] at hx; split at hx <;> simp at hx
    case save res => rw [saveAll_eq] at hx; (repeat' split at hx) <;> simp at hx
    case svBegin k => simp only [svBegin] at hx; (repeat' split at hx) <;> simp at hx
    case svDump k => simp only [svDump] at hx; (repeat' split at hx) <;> simp at hx
    case svStore k res => simp only [svStore] at hx; (repeat' split at hx) <;> simp at hx
    case svUnmark k => simp only [svUnmark] at hx; (repeat' split at hx) <;> simp at hx
    case persist => (repeat' split at hx) <;> simp at hx
    case metrics => (repeat' split at hx) <;> simp at hx
    case scrape => simp only [scrape] at hx; split at hx <;> simp at hx


/-! ### provenance -/

/-- **untorn**: a delivery produced by a server event stems from that single event — it is that
    document, its seqno, and the marker / branch id / end seqno of the vBucket's observer as they are
    at that event (after the observer's own update, which for a document leaves all three alone) -/
theorem untorn (s : St) (vb vb' : Vb) (e : SrvEv) (i : Nat) (d : DocEv) (off : Offset) (coll : String) (t : Nat)
    (h : Obsv.deliver i vb' d off coll t ∈ (step s (.ev vb e)).2) :
    vb' = vb ∧ e = .doc d ∧ off.seq = d.seq ∧
    ∃ o, s.observers.get? vb = some o ∧
      (Obs.step s.cfg.obs o e).1.snap = some (off.ss, off.se) ∧ o.snap = some (off.ss, off.se) ∧
      off.uuid = (Obs.step s.cfg.obs o e).1.uuid ∧ off.latest = (Obs.step s.cfg.obs o e).1.latest ∧
      off.ss ≤ d.seq ∧ d.seq ≤ off.se ∧
      (step s (.ev vb e)).1.ctxs = s.ctxs ++ [⟨s.sess, vb, off⟩] ∧ i = s.ctxs.length := by
  obtain ⟨o, hop, ho, hoff, hin, _, hi, _, _, hc, _⟩ := step_deliver h
  injection hop with hv he
  subst hv he
  obtain ⟨a, b, hs, h1, h2, hm⟩ := Obs.mkOffset_of_inSnap hin
  have hoff' : off = ⟨o.uuid, d.seq, a, b, o.latest⟩ := by rw [hoff, hm]
  subst hoff'
  refine ⟨rfl, rfl, rfl, o, ho, ?_, hs, ?_, ?_, h1, h2, hc, hi⟩
  · rw [Obs.step_doc_snap]; exact hs
  · rw [Obs.step_uuid]
  · rw [Obs.step_latest]

/-- contexts are never modified: the old list is a prefix of the new one, for every op -/
theorem ctx_immutable (s : St) (op : Op) : s.ctxs <+: (step s op).1.ctxs := step_ctxs_prefix s op

theorem ctx_immutable_run (s : St) (ops : List Op) : s.ctxs <+: (run s ops).ctxs := run_ctxs_prefix s ops

/-- so a context, once handed out, reads the same for ever — an old event acknowledged after newer
    markers arrived still carries its own marker -/
theorem ctx_stable (s : St) (ops : List Op) (i : Nat) (p : Pending) (h : s.ctxs[i]? = some p) :
    (run s ops).ctxs[i]? = some p := by
  obtain ⟨t, ht⟩ := ctx_immutable_run s ops
  rw [← ht, List.getElem?_append_left (List.getElem?_eq_some_iff.1 h).1]; exact h

/-- **fail-stop outside the snapshot**: a document or system event that passes the gate, the catch-up
    filter and the skip window but lies outside the current marker (or arrives before any marker)
    stops the client: nothing delivered, nothing tracked, nothing moved -/
theorem outside_snapshot_failstop_doc (s : St) (vb : Vb) (o : Obs) (d : DocEv)
    (ho : s.observers.get? vb = some o) (hg : Obs.gateOpen s.cfg.obs o d.seq = true)
    (hc : (Obs.needCatchup o d.seq).1 = false) (hs : Obs.beforeSkip s.cfg.obs (d.cas / 1000000000) = false)
    (hin : Obs.inSnap o d.seq = false) :
    (step s (.ev vb (.doc d))).2 = [.failstop "snapshot"] ∧
    (step s (.ev vb (.doc d))).1.offsets = s.offsets ∧ (step s (.ev vb (.doc d))).1.ctxs = s.ctxs ∧
    (step s (.ev vb (.doc d))).1.store = s.store ∧ (step s (.ev vb (.doc d))).1.dirtyMaps = s.dirtyMaps ∧
    (step s (.ev vb (.doc d))).1.anyDirty = s.anyDirty := by
  have hstep : Obs.step s.cfg.obs o (.doc d) = ((Obs.needCatchup o d.seq).2, .failstop) := by
    rw [Obs.step_doc]; simp [hg, hc, hs, hin]
  simp only [step]
  rw [evStep_of_obs _ ho, hstep]
  exact ⟨rfl, rfl, rfl, rfl, rfl, rfl⟩

theorem outside_snapshot_failstop_sys (s : St) (vb : Vb) (o : Obs) (k : SysKind) (seq coll : Nat)
    (ho : s.observers.get? vb = some o) (hg : Obs.gateOpen s.cfg.obs o seq = true)
    (hc : (Obs.needCatchup o seq).1 = false) (hin : Obs.inSnap o seq = false) :
    (step s (.ev vb (.sys k seq coll))).2 = [.failstop "snapshot"] ∧
    (step s (.ev vb (.sys k seq coll))).1.offsets = s.offsets ∧ (step s (.ev vb (.sys k seq coll))).1.ctxs = s.ctxs ∧
    (step s (.ev vb (.sys k seq coll))).1.store = s.store ∧
    (step s (.ev vb (.sys k seq coll))).1.dirtyMaps = s.dirtyMaps ∧
    (step s (.ev vb (.sys k seq coll))).1.anyDirty = s.anyDirty := by
  have hstep : Obs.step s.cfg.obs o (.sys k seq coll) = ((Obs.needCatchup o seq).2, .failstop) := by
    rw [Obs.step_sys]; simp [hg, hc, hin]
  simp only [step]
  rw [evStep_of_obs _ ho, hstep]
  exact ⟨rfl, rfl, rfl, rfl, rfl, rfl⟩

/-- both cases in one statement; "no deliver / track" follows from the output being the single
    fail-stop observation -/
theorem outside_snapshot_failstop (s : St) (vb : Vb) (o : Obs) (e : SrvEv) (seq : Nat)
    (he : (∃ d, e = .doc d ∧ d.seq = seq ∧ Obs.beforeSkip s.cfg.obs (d.cas / 1000000000) = false) ∨
          (∃ k coll, e = .sys k seq coll))
    (ho : s.observers.get? vb = some o) (hg : Obs.gateOpen s.cfg.obs o seq = true)
    (hc : (Obs.needCatchup o seq).1 = false) (hin : Obs.inSnap o seq = false) :
    (step s (.ev vb e)).2 = [.failstop "snapshot"] ∧
    (∀ i v d off c t, Obsv.deliver i v d off c t ∉ (step s (.ev vb e)).2) ∧
    (∀ v off, Obsv.track v off ∉ (step s (.ev vb e)).2) ∧
    (step s (.ev vb e)).1.offsets = s.offsets ∧ (step s (.ev vb e)).1.ctxs = s.ctxs ∧
    (step s (.ev vb e)).1.store = s.store := by
  rcases he with ⟨d, rfl, rfl, hs⟩ | ⟨k, coll, rfl⟩
  · obtain ⟨h1, h2, h3, h4, _⟩ := outside_snapshot_failstop_doc s vb o d ho hg hc hs hin
    refine ⟨h1, ?_, ?_, h2, h3, h4⟩ <;> (intros; rw [h1]; simp)
  · obtain ⟨h1, h2, h3, h4, _⟩ := outside_snapshot_failstop_sys s vb o k seq coll ho hg hc hin
    refine ⟨h1, ?_, ?_, h2, h3, h4⟩ <;> (intros; rw [h1]; simp)

/-! ### the branch id

A failover may happen while the stream is open (`.setFlog` is accepted in every state), so "every
observer's branch id is the head of the failover log" can be false between a `.setFlog` and the
next stream request of that vBucket (`inv_uuid_now_refuted`). What holds in every reachable state
is: the branch id is the head **that answered the last accepted stream request** of the vBucket.
Those heads are carried as a ghost function `acc` (`accStep`): an observer's branch id is set by
`open`, by a rebalance and by a reopen only, each time to the then-current head, and is changed by
nothing else (`step_obs_uuid`). -/

/-- the head of a vBucket's failover log as the server has it now -/
def flogHead (s : St) (vb : Vb) : Nat := (s.flog.get? vb).getD 0

/-- ghost: the failover-log head that answered the last accepted stream request of each vBucket.
    `open` (on a closed stream) and an accepted rebalance request every assigned vBucket, an accepted
    reopen requests one; a refused op requests nothing -/
def accStep (s : St) (acc : Vb → Nat) : Op → Vb → Nat
  | .open => if s.isOpen then acc else flogHead s
  | .rebalance lo hi => if s.isOpen = true ∧ s.savers = [] ∧ lo ≤ hi then flogHead s else acc
  | .reopen vb =>
    if s.isOpen = true ∧ (s.offsets.get? vb).isSome = true ∧ (s.observers.get? vb).isSome = true then
      fun v => if v = vb then flogHead s vb else acc v
    else acc
  | _ => acc

/-- the ghost along a run -/
def accRun (s : St) (acc : Vb → Nat) : List Op → Vb → Nat
  | [] => acc
  | op :: r => accRun (step s op).1 (accStep s acc op) r

/-- while the stream is open every observer's branch id is the head of the failover log that the
    last accepted stream request of its vBucket returned -/
def Inv_uuid (s : St) (acc : Vb → Nat) : Prop :=
  s.isOpen = true → ∀ vb o, s.observers.get? vb = some o → o.uuid = acc vb

theorem inv_uuid_init (c : Cfg) (acc : Vb → Nat) : Inv_uuid { cfg := c } acc := by intro h; cases h

/-- right after a successful `open` -/
theorem uuid_is_branch_open (s : St) (h0 : s.isOpen = false) (h : (openSession s).1.isOpen = true) (vb : Vb) (o : Obs)
    (ho : (openSession s).1.observers.get? vb = some o) : o.uuid = (s.flog.get? vb).getD 0 := by
  cases hl : load (openBase s) with
  | none => rw [openSession_of_load_none h0 hl] at h; simp [openBase] at h
  | some r =>
    obtain ⟨offs, dirty, any⟩ := r
    rw [openSession_of_load_some h0 hl] at ho
    simp only [] at ho
    rw [AMap.get?_mapVal (fun v p => initObs s v p)] at ho
    cases hg : offs.get? vb with
    | none => simp [hg] at ho
    | some p => simp [hg] at ho; rw [← ho]; rfl

/-- right after a successful rebalance: every observer is new and carries the current head -/
theorem uuid_is_branch_rebalance (s : St) (lo hi : Vb) (offs : AMap Offset) (dirty : List Vb) (any : Bool) (vb : Vb)
    (o : Obs) (ho : (rebalDone s lo hi offs dirty any).observers.get? vb = some o) : o.uuid = flogHead s vb := by
  rw [rebalDone_observers, AMap.get?_mapVal (fun v p => initObs s v p)] at ho
  cases hg : offs.get? vb with
  | none => simp [hg] at ho
  | some p => simp [hg] at ho; rw [← ho]; rfl

/-- ops that answer stream requests: only these set an observer's branch id -/
def setsUuid : Op → Bool
  | .open | .rebalance _ _ | .reopen _ => true
  | _ => false

/-- observers' branch ids are changed by nothing but `open`, a rebalance and a reopen (in particular
    not by a failover `.setFlog` while streaming, nor by `close`) -/
theorem step_obs_uuid (s : St) (op : Op) (hin : setsUuid op = false) (vb : Vb) (o' : Obs)
    (h : (step s op).1.observers.get? vb = some o') :
    ∃ o, s.observers.get? vb = some o ∧ o'.uuid = o.uuid := by
  by_cases ht : op.touchesObservers = false
  · rw [step_observers s ht] at h; exact ⟨o', h, rfl⟩
  · cases op <;> simp [Op.touchesObservers] at ht <;> simp [setsUuid] at hin
    case close =>
      simp only [step, closeSession] at h
      split at h
      · exact ⟨o', h, rfl⟩
      · have hm : AMap.get? (s.observers.map fun p => (p.1, p.2.close.closeEnd)) vb =
            (s.observers.get? vb).map (fun o => o.close.closeEnd) :=
          AMap.get?_mapVal (fun _ (o : Obs) => o.close.closeEnd) s.observers vb
        rw [hm] at h
        cases hg : s.observers.get? vb with
        | none => simp [hg] at h
        | some ob => simp [hg] at h; exact ⟨ob, rfl, by rw [← h]; rfl⟩
    case crash => simp [step, crash] at h
    case ev v e =>
      simp only [step] at h
      cases ho : s.observers.get? v with
      | none => rw [evStep_of_no_obs e ho] at h; exact ⟨o', h, rfl⟩
      | some ob =>
        have hobs : (evStep s v e).1.observers = s.observers.set v (Obs.step s.cfg.obs ob e).1 := by
          rw [evStep_of_obs e ho]; split <;> simp
        rw [hobs, AMap.get?_set] at h
        by_cases hv : vb = v
        · subst hv; simp at h; subst h; exact ⟨ob, ho, Obs.step_uuid _ _ _⟩
        · simp [hv] at h; exact ⟨o', h, rfl⟩
    case persist v n =>
      simp only [step] at h
      split at h
      · exact ⟨o', h, rfl⟩
      · split at h
        · exact ⟨o', h, rfl⟩
        · rename_i ob hob
          simp only [] at h
          rw [AMap.get?_set] at h
          by_cases hv : vb = v
          · subst hv; simp at h; subst h
            refine ⟨ob, hob, ?_⟩
            unfold Obs.setPersist; split <;> rfl
          · simp [hv] at h; exact ⟨o', h, rfl⟩

/-- a reopen that is accepted sets the branch id of that one observer to the current head and leaves
    the others alone; a refused one changes nothing -/
theorem reopenStream_accept {s : St} {vb : Vb}
    (hc : s.isOpen = true ∧ (s.offsets.get? vb).isSome = true ∧ (s.observers.get? vb).isSome = true) :
    ∃ o ob, s.offsets.get? vb = some o ∧ s.observers.get? vb = some ob ∧
      reopenStream s vb = ({ s with observers := s.observers.set vb (ob.setUuid (flogHead s vb)) }, [.openreq vb o]) := by
  obtain ⟨h1, h2, h3⟩ := hc
  obtain ⟨o, ho⟩ := Option.isSome_iff_exists.1 h2
  obtain ⟨ob, hob⟩ := Option.isSome_iff_exists.1 h3
  exact ⟨o, ob, ho, hob, by simp [reopenStream, h1, ho, hob, flogHead]⟩

theorem reopenStream_refuse {s : St} {vb : Vb}
    (hc : ¬ (s.isOpen = true ∧ (s.offsets.get? vb).isSome = true ∧ (s.observers.get? vb).isSome = true)) :
    (reopenStream s vb).1 = s := by
  rcases reopenStream_cases s vb with ⟨_, e⟩ | ⟨o, ob, h1, h2, h3, _⟩
  · rw [e]
  · exact absurd ⟨h1, by simp [h2], by simp [h3]⟩ hc

theorem rebalanceSession_refuse {s : St} {lo hi : Vb} (hc : ¬ (s.isOpen = true ∧ s.savers = [] ∧ lo ≤ hi)) :
    (rebalanceSession s lo hi).1 = s := by
  rcases rebalanceSession_cases s lo hi with ⟨_, e⟩ | ⟨h1, h2, h3, _⟩ | ⟨_, _, _, h1, h2, h3, _⟩
  · rw [e]
  · exact absurd ⟨h1, h2, h3⟩ hc
  · exact absurd ⟨h1, h2, h3⟩ hc

/-- **`Inv_uuid` is preserved by every op**, the ghost moving by `accStep` -/
theorem step_inv_uuid (s : St) (op : Op) (acc : Vb → Nat) (hinv : Inv_uuid s acc) :
    Inv_uuid (step s op).1 (accStep s acc op) := by
  intro hopen vb o' ho'
  by_cases hset : setsUuid op = false
  · have hacc : accStep s acc op = acc := by cases op <;> simp [setsUuid] at hset <;> rfl
    rw [hacc]
    obtain ⟨o, ho, hu⟩ := step_obs_uuid s op hset vb o' ho'
    rw [hu]
    refine hinv ?_ vb o ho
    by_cases hto : op.touchesIsOpen = false
    · rw [step_isOpen s hto] at hopen; exact hopen
    · cases op <;> simp [Op.touchesIsOpen] at hto <;> simp [setsUuid] at hset
      case close =>
        simp only [step, closeSession] at hopen
        split at hopen
        · exact hopen
        · simp at hopen
      case crash => simp [step, crash] at hopen
  · cases op <;> simp [setsUuid] at hset
    case «open» =>
      simp only [step, accStep] at hopen ho' ⊢
      by_cases h0 : s.isOpen = true
      · rw [openSession_of_isOpen h0] at ho'; simp only [h0, if_true]; exact hinv h0 vb o' ho'
      · have h0 : s.isOpen = false := by simpa using h0
        simp only [h0, Bool.false_eq_true, if_false]
        exact uuid_is_branch_open s h0 hopen vb o' ho'
    case rebalance lo hi =>
      simp only [step, accStep] at hopen ho' ⊢
      by_cases hc : s.isOpen = true ∧ s.savers = [] ∧ lo ≤ hi
      · rw [if_pos hc]
        rcases rebalanceSession_cases s lo hi with ⟨_, e⟩ | ⟨_, _, _, _, e⟩ | ⟨offs, dirty, any, _, _, _, _, e⟩
        · obtain ⟨h1, h2, h3⟩ := hc
          cases hl : load (rebalBase s lo hi) with
          | none => rw [rebalanceSession_of_load_none h1 h2 h3 hl] at hopen; simp [rebalBase, closedOf] at hopen
          | some r =>
            obtain ⟨offs, dirty, any⟩ := r
            rw [rebalanceSession_of_load_some h1 h2 h3 hl] at ho'
            exact uuid_is_branch_rebalance s lo hi offs dirty any vb o' ho'
        · rw [e] at hopen; simp [rebalBase, closedOf] at hopen
        · rw [e] at ho'; exact uuid_is_branch_rebalance s lo hi offs dirty any vb o' ho'
      · rw [if_neg hc]
        rw [rebalanceSession_refuse hc] at hopen ho'
        exact hinv hopen vb o' ho'
    case reopen v =>
      simp only [step, accStep] at hopen ho' ⊢
      by_cases hc : s.isOpen = true ∧ (s.offsets.get? v).isSome = true ∧ (s.observers.get? v).isSome = true
      · rw [if_pos hc]
        obtain ⟨o, ob, _, hob, e⟩ := reopenStream_accept hc
        rw [e] at ho'
        simp only [] at ho'
        rw [AMap.get?_set] at ho'
        by_cases hv : vb = v
        · subst hv; simp at ho'; subst ho'; simp [Obs.setUuid]
        · simp only [hv, if_false] at ho' ⊢
          exact hinv hc.1 vb o' ho'
      · rw [if_neg hc]
        rw [reopenStream_refuse hc] at hopen ho'
        exact hinv hopen vb o' ho'

theorem run_inv_uuid (s : St) (ops : List Op) (acc : Vb → Nat) (hinv : Inv_uuid s acc) :
    Inv_uuid (run s ops) (accRun s acc ops) := by
  induction ops generalizing s acc with
  | nil => exact hinv
  | cons op r ih => rw [run_cons]; exact ih _ _ (step_inv_uuid s op acc hinv)

/-- the offsets handed out carry that branch id: a delivery's `uuid` is the failover-log head that
    answered the last accepted stream request of its vBucket -/
theorem deliver_uuid_is_branch (s : St) (acc : Vb → Nat) (hinv : Inv_uuid s acc) (hopen : s.isOpen = true) (op : Op)
    (i : Nat) (vb : Vb) (d : DocEv) (off : Offset) (coll : String) (t : Nat)
    (h : Obsv.deliver i vb d off coll t ∈ (step s op).2) :
    off.uuid = acc vb := by
  obtain ⟨o, _, ho, hoff, _⟩ := step_deliver h
  rw [hoff, Obs.mkOffset_uuid]; exact hinv hopen vb o ho

/-! #### the earlier form: "the branch id is the CURRENT head" -/

/-- every observer of the open stream carries the current head of its failover log -/
def Inv_uuid_now (s : St) : Prop := Inv_uuid s (flogHead s)

/-- as long as the ghost is the current head, it stays the current head through every op that is
    not a failover -/
theorem accStep_flogHead (s : St) (op : Op) (hf : op.touchesFlog = false) :
    accStep s (flogHead s) op = flogHead (step s op).1 := by
  have e : flogHead (step s op).1 = flogHead s := by funext v; simp only [flogHead, step_flog s hf]
  rw [e]
  cases op <;> simp only [accStep] <;> try rfl
  case «open» => split <;> rfl
  case rebalance lo hi => split <;> rfl
  case reopen vb =>
    split
    · funext v; by_cases hv : v = vb
      · subst hv; simp
      · simp [hv]
    · rfl

/-- **the earlier invariant holds with the minimal extra hypothesis**: it is preserved by every op
    except a failover (`.setFlog`) that happens while the stream is open -/
theorem step_inv_uuid_now (s : St) (op : Op) (hinv : Inv_uuid_now s)
    (hf : ∀ v u, op = .setFlog v u → s.isOpen = false) : Inv_uuid_now (step s op).1 := by
  by_cases ht : op.touchesFlog = false
  · have := step_inv_uuid s op (flogHead s) hinv
    rw [accStep_flogHead s op ht] at this
    exact this
  · cases op <;> simp [Op.touchesFlog] at ht
    rename_i v u
    intro hopen
    have h0 := hf v u rfl
    simp only [step] at hopen
    rw [h0] at hopen; cases hopen

/-- **uuid_is_branch**: after a successful `open`, through any in-session ops (reopens included: no
    failover is among them), every observer of the open stream still carries the failover-log head
    that `open` was answered with -/
theorem uuid_is_branch (s : St) (h0 : s.isOpen = false) (h : (openSession s).1.isOpen = true) (ops : List Op)
    (hin : ∀ op ∈ ops, inSession op = true) (vb : Vb) (o : Obs)
    (ho : (run (openSession s).1 ops).observers.get? vb = some o) : o.uuid = (s.flog.get? vb).getD 0 := by
  have hnow : Inv_uuid_now (openSession s).1 := by
    intro _ v ob hob
    rw [flogHead, openSession_flog]
    exact uuid_is_branch_open s h0 h v ob hob
  have key : ∀ (l : List Op) (s1 : St), (∀ op ∈ l, inSession op = true) → s1.isOpen = true → Inv_uuid_now s1 →
      Inv_uuid_now (run s1 l) ∧ (run s1 l).isOpen = true ∧ (run s1 l).flog = s1.flog := by
    intro l
    induction l with
    | nil => intro s1 _ h1 h2; exact ⟨h2, h1, rfl⟩
    | cons op r ih =>
      intro s1 hl h1 h2
      rw [run_cons]
      have hop := hl op List.mem_cons_self
      have h3 : Inv_uuid_now (step s1 op).1 :=
        step_inv_uuid_now s1 op h2 (by intro v u e; subst e; simp [inSession] at hop)
      have h4 : (step s1 op).1.isOpen = true := by rw [step_isOpen_of_inSession s1 hop]; exact h1
      obtain ⟨a, b, c⟩ := ih (step s1 op).1 (fun o ho => hl o (List.mem_cons_of_mem _ ho)) h4 h3
      exact ⟨a, b, by rw [c, step_flog_of_inSession s1 hop]⟩
  obtain ⟨a, b, c⟩ := key ops _ hin h hnow
  have := a b vb o ho
  rw [this, flogHead, c, openSession_flog]

/-! ### non-vacuity -/

/-- vBuckets 0 and 1 assigned, checkpoints at 5 and 7, opened -/
def exInit : St :=
  { cfg := { lo := 0, hi := 1 }, store := [(0, ⟨11, 5, 5, 5⟩), (1, ⟨12, 7, 7, 7⟩)],
    high := [(0, 20), (1, 20)], flog := [(0, 11), (1, 12)] }

def exOpen : St := (openSession exInit).1

/-- … then the server announces snapshot [6, 10] on vBucket 0 -/
def exMarked : St := (step exOpen (.ev 0 (.marker 6 10))).1

def exDoc (seq : Nat) : DocEv := ⟨.mu, seq, 0, "6162", 0, ""⟩

theorem exDoc_user (seq : Nat) : isMetaKey (exDoc seq).key = false := by
  show isMetaKey "6162" = false
  exact isMetaKey_eq_false (by decide) (by decide)

/-- the invariant holds in a reachable, non-trivial state (so `step_inv_valid` applies to it) -/
example : Inv_valid exMarked :=
  run_inv_valid exInit [.open, .ev 0 (.marker 6 10)]
    { offsets := by intro q h; cases h
      ctxs := by intro q h; cases h
      store := by decide
      savers := by intro k st d h; cases h }
    (by intro op hop vb d he; subst he; simp at hop)

/-- a document inside the snapshot is delivered with the untorn tuple ⟨branch 11, seq 7, [6,10]⟩ -/
example : (step exMarked (.ev 0 (.doc (exDoc 7)))).2 = [.deliver 0 0 (exDoc 7) ⟨11, 7, 6, 10, maxU64⟩ "_default" 0] :=
  (step_ev_doc_user exMarked 0 { snap := some (6, 10), uuid := 11, latest := maxU64 } (exDoc 7)
    (.doc (exDoc 7) ⟨11, 7, 6, 10, maxU64⟩ "_default" 0) (exDoc_user 7) (by decide) (by decide)).1

/-- a document outside the snapshot: all hypotheses of `outside_snapshot_failstop_doc` hold -/
example : (step exMarked (.ev 0 (.doc (exDoc 11)))).2 = [.failstop "snapshot"] :=
  (outside_snapshot_failstop_doc exMarked 0 { snap := some (6, 10), uuid := 11, latest := maxU64 } (exDoc 11)
    (by decide) (by decide) (by decide) (by decide) (by decide)).1

/-- … and so do they for a document before any marker -/
example : (step exOpen (.ev 1 (.doc (exDoc 8)))).2 = [.failstop "snapshot"] :=
  (outside_snapshot_failstop_doc exOpen 1 { uuid := 12, latest := maxU64 } (exDoc 8)
    (by decide) (by decide) (by decide) (by decide) (by decide)).1

/-- the branch id of the observers is the failover-log head -/
example : Inv_uuid_now exMarked := by
  have h0 : Inv_uuid_now exInit := by intro h; cases h
  exact step_inv_uuid_now _ _ (step_inv_uuid_now _ .open h0 (by intro v u e; cases e)) (by intro v u e; cases e)

/-- … of the last accepted stream request: the ghost form holds in the same state -/
example : Inv_uuid exMarked (accRun exInit (fun _ => 0) [.open, .ev 0 (.marker 6 10)]) :=
  show Inv_uuid (run exInit [.open, .ev 0 (.marker 6 10)]) _ from run_inv_uuid exInit _ _ (by intro h; cases h)

/-- **the earlier form is refuted** now that a failover may happen while streaming: after
    `.setFlog 0 99` on the open stream the observer of vBucket 0 still carries branch 11 -/
theorem inv_uuid_now_refuted : Inv_uuid_now exOpen ∧ ¬ Inv_uuid_now (step exOpen (.setFlog 0 99)).1 := by
  refine ⟨step_inv_uuid_now _ .open (by intro h; cases h) (by intro v u e; cases e), ?_⟩
  intro h
  have := h (by decide) 0 { uuid := 11, latest := maxU64 } (by decide)
  revert this; decide

/-- … while the ghost form survives it, and a reopen of the vBucket picks the new head up -/
example : (step (step exOpen (.setFlog 0 99)).1 (.reopen 0)).2 = [.openreq 0 ⟨11, 5, 5, 5, maxU64⟩] ∧
    ((step (step exOpen (.setFlog 0 99)).1 (.reopen 0)).1.observers.get? 0).map (·.uuid) = some 99 :=
  ⟨rfl, by decide⟩

end C06
end GoDcp
