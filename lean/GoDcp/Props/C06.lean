import GoDcp.Proofs.SessionLemmas
/-!
# C06 — every offset handed out or persisted is a valid, untorn resume point

`Inv_valid` is the inductive invariant (`step_inv_valid`, for every op), `step_out_valid`
the output side, `untorn` / `ctx_immutable` the provenance statements,
`outside_snapshot_failstop` the fail-stop, `uuid_is_branch` the branch id.
-/
namespace GoDcp

/-- `snapshotStart ≤ seqNo ≤ snapshotEnd` -/
def Offset.valid (o : Offset) : Prop := o.ss ≤ o.seq ∧ o.seq ≤ o.se
def Doc.valid (d : Doc) : Prop := d.ss ≤ d.seq ∧ d.seq ≤ d.se

instance (o : Offset) : Decidable o.valid := by unfold Offset.valid; exact inferInstance
instance (d : Doc) : Decidable d.valid := by unfold Doc.valid; exact inferInstance

namespace C06

theorem toDoc_valid {o : Offset} (h : o.valid) : o.toDoc.valid := h
theorem toOffset_valid {d : Doc} (h : d.valid) (l : Nat) : (d.toOffset l).valid := h
theorem zero_valid : Doc.zero.valid := ⟨Nat.le_refl _, Nat.le_refl _⟩

/-- every offset / document the state holds anywhere is valid -/
structure Inv_valid (s : St) : Prop where
  offsets : ∀ q ∈ s.offsets, q.2.valid
  ctxs : ∀ p ∈ s.ctxs, p.off.valid
  store : ∀ q ∈ s.store, q.2.valid
  savers : ∀ k st d, (k, SaverPc.dumped st d) ∈ s.savers → ∀ q ∈ st, q.2.valid

theorem inv_valid_init : Inv_valid {} :=
  { offsets := by intro q h; cases h
    ctxs := by intro q h; cases h
    store := by intro q h; cases h
    savers := by intro k st d h; cases h }

/-- the invariant does not look at the configuration (the driver's `cfg` command) -/
theorem inv_valid_cfg {s : St} (c : Cfg) (h : Inv_valid s) : Inv_valid { s with cfg := c } :=
  ⟨h.offsets, h.ctxs, h.store, h.savers⟩

theorem inv_valid_init_cfg (c : Cfg) : Inv_valid { cfg := c } := inv_valid_cfg c inv_valid_init

/-! ### producers -/

theorem mkOffset_valid {o : Obs} {seq : Nat} (h : Obs.inSnap o seq = true) : (Obs.mkOffset o seq).valid := by
  obtain ⟨a, b, _, h1, h2, he⟩ := Obs.mkOffset_of_inSnap h
  rw [he]; exact ⟨h1, h2⟩

/-- whatever the observer forwards with an offset carries a valid one -/
theorem fwd_valid {c : ObsCfg} {o : Obs} {e : SrvEv} {le : LEvent} (h : (Obs.step c o e).2 = .fwd le) :
    match le with
    | .doc _ off _ _ => off.valid
    | .seqAdv off => off.valid
    | .sys _ off => off.valid
    | _ => True := by
  rcases Obs.step_fwd_cases h with ⟨_, _, _, rfl⟩ | ⟨d, _, rfl, _, _, _, hin⟩ | ⟨seq, _, rfl⟩ |
      ⟨_, seq, _, _, rfl, _, _, hin⟩ | ⟨_, rfl⟩
  · trivial
  · exact mkOffset_valid hin
  · exact ⟨Nat.le_refl _, Nat.le_refl _⟩
  · exact mkOffset_valid hin
  · trivial

theorem dumpState_valid {s : St} (h : ∀ q ∈ s.offsets, q.2.valid) : ∀ q ∈ dumpState s, q.2.valid := by
  intro q hq
  obtain ⟨o, ho, he⟩ := mem_dumpState hq
  rw [he]; exact toDoc_valid (h _ ho)

/-- `checkpoint.Load` produces valid offsets from a valid store (zero document, latest-reset
    `[cur, cur]`, stored documents) -/
theorem load_valid {s : St} {offs : AMap Offset} {dirty : List Vb} {any : Bool}
    (hs : ∀ q ∈ s.store, q.2.valid) (h : load s = some (offs, dirty, any)) : ∀ q ∈ offs, q.2.valid := by
  intro q hq
  rcases load_some_cases h with ⟨_, ho⟩ | ⟨_, _, _, ho⟩
  · rw [ho] at hq
    obtain ⟨vb, _, rfl⟩ := List.mem_map.1 hq
    exact ⟨Nat.le_refl _, Nat.le_refl _⟩
  · rw [ho] at hq
    obtain ⟨vb, _, rfl⟩ := List.mem_map.1 hq
    apply toOffset_valid
    cases hg : s.store.get? vb with
    | none => exact zero_valid
    | some d => exact hs _ (AMap.mem_of_get?_eq_some hg)

/-- what an op tries to settle is valid -/
theorem settle_valid {s : St} {op : Op} {vb : Vb} {o : Offset} (hinv : Inv_valid s)
    (h : settle? s op = some (vb, o)) : o.valid := by
  cases op <;> simp only [settle?] at h <;> try (cases h)
  case ack i =>
    cases hc : s.ctxs[i]? with
    | none => simp [hc] at h
    | some p =>
      simp only [hc] at h
      split at h
      · injection h with h; injection h with h1 h2
        rw [← h2]; exact hinv.ctxs p (List.mem_of_getElem? hc)
      · cases h
  case ev v e =>
    cases ho : s.observers.get? v with
    | none => simp [ho] at h
    | some ob =>
      simp only [ho] at h
      cases hout : (Obs.step s.cfg.obs ob e).2 with
      | fwd le =>
        have hv := fwd_valid hout
        rw [hout] at h
        cases le with
        | doc d off coll t =>
          simp only [] at h hv
          split at h
          · injection h with h; injection h with h1 h2; rw [← h2]; exact hv
          · cases h
        | seqAdv off => simp only [] at h hv; injection h with h; injection h with h1 h2; rw [← h2]; exact hv
        | sys k off => simp only [] at h hv; injection h with h; injection h with h1 h2; rw [← h2]; exact hv
        | marker => simp at h
        | oso => simp at h
      | _ => rw [hout] at h; simp at h

/-! ### the inductive invariant -/

/-- **`Inv_valid` is preserved by every op** (the environment may only put valid documents) -/
theorem step_inv_valid (s : St) (op : Op) (hinv : Inv_valid s)
    (henv : ∀ vb d, op = .setStore vb d → d.valid) : Inv_valid (step s op).1 := by
  refine ⟨?_, ?_, ?_, ?_⟩
  · -- positions
    intro q hq
    by_cases hin : inSession op = true
    · rw [step_offsets_eq s hin] at hq
      cases hx : settle? s op with
      | none => rw [hx] at hq; exact hinv.offsets q hq
      | some p =>
        obtain ⟨v, o⟩ := p
        rw [hx] at hq
        simp only [applySettle] at hq
        split at hq
        · rcases AMap.mem_set hq with rfl | hq
          · exact settle_valid hinv hx
          · exact hinv.offsets q hq
        · exact hinv.offsets q hq
    · cases op <;> simp [inSession] at hin
      case setStore v d =>
        have : (step s (.setStore v d)).1.offsets = s.offsets := step_offsets s rfl
        rw [this] at hq; exact hinv.offsets q hq
      case setFlog v u =>
        have : (step s (.setFlog v u)).1.offsets = s.offsets := step_offsets s rfl
        rw [this] at hq; exact hinv.offsets q hq
      case «open» =>
        simp only [step] at hq
        by_cases h0 : s.isOpen = true
        · rw [openSession_of_isOpen h0] at hq; exact hinv.offsets q hq
        · have h0 : s.isOpen = false := by simpa using h0
          cases hl : load (openBase s) with
          | none => rw [openSession_of_load_none h0 hl] at hq; simp [openBase] at hq
          | some r =>
            obtain ⟨offs, dirty, any⟩ := r
            rw [openSession_of_load_some h0 hl] at hq
            exact load_valid (s := openBase s) hinv.store hl q hq
      case close =>
        simp only [step, closeSession] at hq
        split at hq
        · exact hinv.offsets q hq
        · simp at hq
      case crash => simp [step, crash] at hq
  · -- contexts
    intro p hp
    rcases step_ctxs_cases s op with h | ⟨i, vb, d, off, coll, t, hout, hc⟩
    · rw [h] at hp; exact hinv.ctxs p hp
    · rw [hc] at hp
      rcases List.mem_append.1 hp with hp | hp
      · exact hinv.ctxs p hp
      · simp only [List.mem_singleton] at hp
        subst hp
        have hd : Obsv.deliver i vb d off coll t ∈ (step s op).2 := by rw [hout]; exact List.mem_singleton_self _
        obtain ⟨o, _, _, hoff, hin, _⟩ := step_deliver hd
        rw [hoff]; exact mkOffset_valid hin
  · -- durable store
    intro q hq
    rcases step_store_mem hq with h | ⟨vb, d, hop, rfl⟩ | ⟨w, hw, hqw⟩
    · exact hinv.store q h
    · exact henv vb d hop
    · rcases step_written hw with ⟨k, st, d, hk, hsub⟩ | hsub
      · exact hinv.savers k st d hk q (hsub q hqw).1
      · exact dumpState_valid hinv.offsets q (hsub q hqw).1
  · -- dumps held by savers
    intro k st d hk q hq
    rcases step_savers_dumped hk with hk | rfl
    · exact hinv.savers k st d hk q hq
    · exact dumpState_valid hinv.offsets q hq

theorem run_inv_valid (s : St) (ops : List Op) (hinv : Inv_valid s)
    (henv : ∀ op ∈ ops, ∀ vb d, op = .setStore vb d → d.valid) : Inv_valid (run s ops) :=
  run_induction (P := Inv_valid) (ok := fun op => ∀ vb d, op = .setStore vb d → d.valid)
    (fun s op hok h => step_inv_valid s op h hok) s ops henv hinv

/-! ### the output side -/

/-- validity of what one observation carries -/
def obsvValid : Obsv → Prop
  | .openreq _ o => o.valid
  | .deliver _ _ _ off _ _ => off.valid
  | .track _ o => o.valid
  | .saveCall st _ => ∀ q ∈ st, q.2.valid
  | .written w => ∀ q ∈ w, q.2.valid
  | .pos offs _ _ => ∀ q ∈ offs, q.2.valid
  | _ => True

/-- every stream request, delivery, `TrackOffset` call, `Metadata.Save` argument, durable write and
    `GetOffsets` answer of a step from an `Inv_valid` state carries only valid offsets / documents -/
theorem step_out_valid (s : St) (op : Op) (hinv : Inv_valid s) : ∀ x ∈ (step s op).2, obsvValid x := by
  intro x hx
  cases x <;> simp only [obsvValid] <;> try trivial
  case openreq vb o =>
    obtain ⟨⟨offs, dirty, any, _, hl, hm⟩, _⟩ := step_openreq hx
    exact load_valid (s := openBase s) hinv.store hl _ hm
  case deliver i vb d off coll t =>
    obtain ⟨o, _, _, hoff, hin, _⟩ := step_deliver hx
    rw [hoff]; exact mkOffset_valid hin
  case track vb o =>
    rw [← mem_tracksOut, step_tracks] at hx
    cases hs : settle? s op with
    | none => simp [hs, settleOut] at hx
    | some p =>
      obtain ⟨v, o'⟩ := p
      simp only [hs, settleOut] at hx
      split at hx
      · simp only [List.mem_singleton, Prod.mk.injEq] at hx
        obtain ⟨rfl, rfl⟩ := hx
        exact settle_valid hinv hs
      · simp at hx
  case saveCall st d =>
    rw [step_saveCall hx]; exact dumpState_valid hinv.offsets
  case written w =>
    intro q hq
    rcases step_written hx with ⟨k, st, d, hk, hsub⟩ | hsub
    · exact hinv.savers k st d hk q (hsub q hq).1
    · exact dumpState_valid hinv.offsets q (hsub q hq).1
  case pos offs dirty any =>
    cases op <;> simp only [step] at hx
    case getOffsets => simp at hx; obtain ⟨rfl, _, _⟩ := hx; exact hinv.offsets
    case setStore => split at hx <;> simp at hx
    case setHigh => simp at hx
    case setFlog => split at hx <;> simp at hx
    case «open» =>
      simp only [openSession] at hx
      split at hx
      · simp at hx
      · split at hx <;> simp at hx
    case close => simp only [closeSession] at hx; split at hx <;> simp at hx
    case crash => simp [crash] at hx
    case ev vb' e =>
      cases ho : s.observers.get? vb' with
      | none => rw [evStep_of_no_obs e ho] at hx; simp at hx
      | some o =>
        rw [evStep_of_obs e ho] at hx
        split at hx
        · rename_i le _
          cases le <;> simp only [listen] at hx
          case doc => split at hx <;> simp [setOffset_out] at hx <;> split at hx <;> simp at hx
          all_goals (try simp [setOffset_out] at hx) <;> (try split at hx) <;> simp at hx
        all_goals simp at hx
    case ack i =>
      split at hx
      · simp at hx
      · split at hx
        · simp at hx
        · rw [ack_out, setOffset_out] at hx; split at hx <;> simp at hx
    case save res => rw [saveAll_eq] at hx; (repeat' split at hx) <;> simp at hx
    case svBegin k => simp only [svBegin] at hx; (repeat' split at hx) <;> simp at hx
    case svDump k => simp only [svDump] at hx; (repeat' split at hx) <;> simp at hx
    case svStore k res => simp only [svStore] at hx; (repeat' split at hx) <;> simp at hx
    case svUnmark k => simp only [svUnmark] at hx; (repeat' split at hx) <;> simp at hx
    case persist => (repeat' split at hx) <;> simp at hx
    case metrics => (repeat' split at hx) <;> simp at hx
    case scrape => simp only [scrape] at hx; split at hx <;> simp at hx


/-! ### provenance -/

/-- **untorn**: a delivery produced by a server event stems from that single event — it is that
    document, its seqno, and the marker / branch id / end seqno of the vBucket's observer as they are
    at that event (after the observer's own update, which for a document leaves all three alone) -/
theorem untorn (s : St) (vb vb' : Vb) (e : SrvEv) (i : Nat) (d : DocEv) (off : Offset) (coll : String) (t : Nat)
    (h : Obsv.deliver i vb' d off coll t ∈ (step s (.ev vb e)).2) :
    vb' = vb ∧ e = .doc d ∧ off.seq = d.seq ∧
    ∃ o, s.observers.get? vb = some o ∧
      (Obs.step s.cfg.obs o e).1.snap = some (off.ss, off.se) ∧ o.snap = some (off.ss, off.se) ∧
      off.uuid = (Obs.step s.cfg.obs o e).1.uuid ∧ off.latest = (Obs.step s.cfg.obs o e).1.latest ∧
      off.ss ≤ d.seq ∧ d.seq ≤ off.se ∧
      (step s (.ev vb e)).1.ctxs = s.ctxs ++ [⟨s.sess, vb, off⟩] ∧ i = s.ctxs.length := by
  obtain ⟨o, hop, ho, hoff, hin, _, hi, _, _, hc, _⟩ := step_deliver h
  injection hop with hv he
  subst hv he
  obtain ⟨a, b, hs, h1, h2, hm⟩ := Obs.mkOffset_of_inSnap hin
  have hoff' : off = ⟨o.uuid, d.seq, a, b, o.latest⟩ := by rw [hoff, hm]
  subst hoff'
  refine ⟨rfl, rfl, rfl, o, ho, ?_, hs, ?_, ?_, h1, h2, hc, hi⟩
  · rw [Obs.step_doc_snap]; exact hs
  · rw [Obs.step_uuid]
  · rw [Obs.step_latest]

/-- contexts are never modified: the old list is a prefix of the new one, for every op -/
theorem ctx_immutable (s : St) (op : Op) : s.ctxs <+: (step s op).1.ctxs := step_ctxs_prefix s op

theorem ctx_immutable_run (s : St) (ops : List Op) : s.ctxs <+: (run s ops).ctxs := run_ctxs_prefix s ops

/-- so a context, once handed out, reads the same for ever — an old event acknowledged after newer
    markers arrived still carries its own marker -/
theorem ctx_stable (s : St) (ops : List Op) (i : Nat) (p : Pending) (h : s.ctxs[i]? = some p) :
    (run s ops).ctxs[i]? = some p := by
  obtain ⟨t, ht⟩ := ctx_immutable_run s ops
  rw [← ht, List.getElem?_append_left (List.getElem?_eq_some_iff.1 h).1]; exact h

/-- **fail-stop outside the snapshot**: a document or system event that passes the gate, the catch-up
    filter and the skip window but lies outside the current marker (or arrives before any marker)
    stops the client: nothing delivered, nothing tracked, nothing moved -/
theorem outside_snapshot_failstop_doc (s : St) (vb : Vb) (o : Obs) (d : DocEv)
    (ho : s.observers.get? vb = some o) (hg : Obs.gateOpen s.cfg.obs o d.seq = true)
    (hc : (Obs.needCatchup o d.seq).1 = false) (hs : Obs.beforeSkip s.cfg.obs (d.cas / 1000000000) = false)
    (hin : Obs.inSnap o d.seq = false) :
    (step s (.ev vb (.doc d))).2 = [.failstop "snapshot"] ∧
    (step s (.ev vb (.doc d))).1.offsets = s.offsets ∧ (step s (.ev vb (.doc d))).1.ctxs = s.ctxs ∧
    (step s (.ev vb (.doc d))).1.store = s.store ∧ (step s (.ev vb (.doc d))).1.dirtyMaps = s.dirtyMaps ∧
    (step s (.ev vb (.doc d))).1.anyDirty = s.anyDirty := by
  have hstep : Obs.step s.cfg.obs o (.doc d) = ((Obs.needCatchup o d.seq).2, .failstop) := by
    rw [Obs.step_doc]; simp [hg, hc, hs, hin]
  simp only [step]
  rw [evStep_of_obs _ ho, hstep]
  exact ⟨rfl, rfl, rfl, rfl, rfl, rfl⟩

theorem outside_snapshot_failstop_sys (s : St) (vb : Vb) (o : Obs) (k : SysKind) (seq coll : Nat)
    (ho : s.observers.get? vb = some o) (hg : Obs.gateOpen s.cfg.obs o seq = true)
    (hc : (Obs.needCatchup o seq).1 = false) (hin : Obs.inSnap o seq = false) :
    (step s (.ev vb (.sys k seq coll))).2 = [.failstop "snapshot"] ∧
    (step s (.ev vb (.sys k seq coll))).1.offsets = s.offsets ∧ (step s (.ev vb (.sys k seq coll))).1.ctxs = s.ctxs ∧
    (step s (.ev vb (.sys k seq coll))).1.store = s.store ∧
    (step s (.ev vb (.sys k seq coll))).1.dirtyMaps = s.dirtyMaps ∧
    (step s (.ev vb (.sys k seq coll))).1.anyDirty = s.anyDirty := by
  have hstep : Obs.step s.cfg.obs o (.sys k seq coll) = ((Obs.needCatchup o seq).2, .failstop) := by
    rw [Obs.step_sys]; simp [hg, hc, hin]
  simp only [step]
  rw [evStep_of_obs _ ho, hstep]
  exact ⟨rfl, rfl, rfl, rfl, rfl, rfl⟩

/-- both cases in one statement; "no deliver / track" follows from the output being the single
    fail-stop observation -/
theorem outside_snapshot_failstop (s : St) (vb : Vb) (o : Obs) (e : SrvEv) (seq : Nat)
    (he : (∃ d, e = .doc d ∧ d.seq = seq ∧ Obs.beforeSkip s.cfg.obs (d.cas / 1000000000) = false) ∨
          (∃ k coll, e = .sys k seq coll))
    (ho : s.observers.get? vb = some o) (hg : Obs.gateOpen s.cfg.obs o seq = true)
    (hc : (Obs.needCatchup o seq).1 = false) (hin : Obs.inSnap o seq = false) :
    (step s (.ev vb e)).2 = [.failstop "snapshot"] ∧
    (∀ i v d off c t, Obsv.deliver i v d off c t ∉ (step s (.ev vb e)).2) ∧
    (∀ v off, Obsv.track v off ∉ (step s (.ev vb e)).2) ∧
    (step s (.ev vb e)).1.offsets = s.offsets ∧ (step s (.ev vb e)).1.ctxs = s.ctxs ∧
    (step s (.ev vb e)).1.store = s.store := by
  rcases he with ⟨d, rfl, rfl, hs⟩ | ⟨k, coll, rfl⟩
  · obtain ⟨h1, h2, h3, h4, _⟩ := outside_snapshot_failstop_doc s vb o d ho hg hc hs hin
    refine ⟨h1, ?_, ?_, h2, h3, h4⟩ <;> (intros; rw [h1]; simp)
  · obtain ⟨h1, h2, h3, h4, _⟩ := outside_snapshot_failstop_sys s vb o k seq coll ho hg hc hin
    refine ⟨h1, ?_, ?_, h2, h3, h4⟩ <;> (intros; rw [h1]; simp)

/-! ### the branch id -/

/-- while the stream is open every observer's branch id is the head of the failover log the
    accepting stream request returned -/
def Inv_uuid (s : St) : Prop :=
  s.isOpen = true → ∀ vb o, s.observers.get? vb = some o → o.uuid = (s.flog.get? vb).getD 0

theorem inv_uuid_init (c : Cfg) : Inv_uuid { cfg := c } := by intro h; cases h

/-- right after a successful `open` -/
theorem uuid_is_branch_open (s : St) (h0 : s.isOpen = false) (h : (openSession s).1.isOpen = true) (vb : Vb) (o : Obs)
    (ho : (openSession s).1.observers.get? vb = some o) : o.uuid = (s.flog.get? vb).getD 0 := by
  cases hl : load (openBase s) with
  | none => rw [openSession_of_load_none h0 hl] at h; simp [openBase] at h
  | some r =>
    obtain ⟨offs, dirty, any⟩ := r
    rw [openSession_of_load_some h0 hl] at ho
    simp only [] at ho
    rw [AMap.get?_mapVal (fun v p => initObs s v p)] at ho
    cases hg : offs.get? vb with
    | none => simp [hg] at ho
    | some p => simp [hg] at ho; rw [← ho]; rfl

/-- observers' branch ids are not changed by any in-session op -/
theorem step_obs_uuid (s : St) (op : Op) (hin : inSession op = true) (vb : Vb) (o' : Obs)
    (h : (step s op).1.observers.get? vb = some o') :
    ∃ o, s.observers.get? vb = some o ∧ o'.uuid = o.uuid := by
  by_cases ht : op.touchesObservers = false
  · rw [step_observers s ht] at h; exact ⟨o', h, rfl⟩
  · cases op <;> simp [Op.touchesObservers] at ht <;> simp [inSession] at hin
    case ev v e =>
      simp only [step] at h
      cases ho : s.observers.get? v with
      | none => rw [evStep_of_no_obs e ho] at h; exact ⟨o', h, rfl⟩
      | some ob =>
        have hobs : (evStep s v e).1.observers = s.observers.set v (Obs.step s.cfg.obs ob e).1 := by
          rw [evStep_of_obs e ho]; split <;> simp
        rw [hobs, AMap.get?_set] at h
        by_cases hv : vb = v
        · subst hv; simp at h; subst h; exact ⟨ob, ho, Obs.step_uuid _ _ _⟩
        · simp [hv] at h; exact ⟨o', h, rfl⟩
    case persist v n =>
      simp only [step] at h
      split at h
      · exact ⟨o', h, rfl⟩
      · split at h
        · exact ⟨o', h, rfl⟩
        · rename_i ob hob
          simp only [] at h
          rw [AMap.get?_set] at h
          by_cases hv : vb = v
          · subst hv; simp at h; subst h
            refine ⟨ob, hob, ?_⟩
            unfold Obs.setPersist; split <;> rfl
          · simp [hv] at h; exact ⟨o', h, rfl⟩

/-- **`Inv_uuid` is preserved by every op** -/
theorem step_inv_uuid (s : St) (op : Op) (hinv : Inv_uuid s) : Inv_uuid (step s op).1 := by
  intro hopen vb o' ho'
  by_cases hin : inSession op = true
  · rw [step_flog_of_inSession s hin]
    rw [step_isOpen_of_inSession s hin] at hopen
    obtain ⟨o, ho, hu⟩ := step_obs_uuid s op hin vb o' ho'
    rw [hu]; exact hinv hopen vb o ho
  · cases op <;> simp [inSession] at hin
    case setStore v d =>
      simp only [step] at hopen ho' ⊢
      split at hopen
      · rename_i h0; simp only [h0, if_true] at ho' ⊢; exact hinv h0 vb o' ho'
      · rename_i h0; simp at hopen; exact absurd hopen h0
    case setFlog v u =>
      simp only [step] at hopen ho' ⊢
      split at hopen
      · rename_i h0; simp only [h0, if_true] at ho' ⊢; exact hinv h0 vb o' ho'
      · rename_i h0; simp at hopen; exact absurd hopen h0
    case «open» =>
      simp only [step] at hopen ho' ⊢
      by_cases h0 : s.isOpen = true
      · rw [openSession_of_isOpen h0] at ho' ⊢; exact hinv h0 vb o' ho'
      · have h0 : s.isOpen = false := by simpa using h0
        rw [openSession_flog]
        exact uuid_is_branch_open s h0 hopen vb o' ho'
    case close =>
      simp only [step, closeSession] at hopen
      split at hopen
      · rename_i h0; simp at h0; rw [h0] at hopen; cases hopen
      · simp at hopen
    case crash => simp [step, crash] at hopen

/-- **uuid_is_branch**: after a successful `open`, through any in-session ops, every observer of the
    open stream still carries the failover-log head that `open` was answered with -/
theorem uuid_is_branch (s : St) (h0 : s.isOpen = false) (h : (openSession s).1.isOpen = true) (ops : List Op)
    (hin : ∀ op ∈ ops, inSession op = true) (vb : Vb) (o : Obs)
    (ho : (run (openSession s).1 ops).observers.get? vb = some o) : o.uuid = (s.flog.get? vb).getD 0 := by
  have key : ∀ (l : List Op) (s1 : St), (∀ op ∈ l, inSession op = true) →
      (∀ v ob, s1.observers.get? v = some ob → ob.uuid = (s.flog.get? v).getD 0) →
      ∀ v ob, (run s1 l).observers.get? v = some ob → ob.uuid = (s.flog.get? v).getD 0 := by
    intro l
    induction l with
    | nil => intro s1 _ h1; exact h1
    | cons op r ih =>
      intro s1 hl h1
      rw [run_cons]
      apply ih _ (fun o ho => hl o (List.mem_cons_of_mem _ ho))
      intro v ob hob
      obtain ⟨ob0, h2, h3⟩ := step_obs_uuid s1 op (hl op List.mem_cons_self) v ob hob
      rw [h3]; exact h1 v ob0 h2
  exact key ops _ hin (fun v ob hob => uuid_is_branch_open s h0 h v ob hob) vb o ho

/-- the offsets handed out carry that branch id: a delivery's `uuid` is the failover-log head -/
theorem deliver_uuid_is_branch (s : St) (hinv : Inv_uuid s) (hopen : s.isOpen = true) (op : Op) (i : Nat) (vb : Vb)
    (d : DocEv) (off : Offset) (coll : String) (t : Nat) (h : Obsv.deliver i vb d off coll t ∈ (step s op).2) :
    off.uuid = (s.flog.get? vb).getD 0 := by
  obtain ⟨o, _, ho, hoff, _⟩ := step_deliver h
  rw [hoff, Obs.mkOffset_uuid]; exact hinv hopen vb o ho


/-! ### non-vacuity -/

/-- vBuckets 0 and 1 assigned, checkpoints at 5 and 7, opened -/
def exInit : St :=
  { cfg := { lo := 0, hi := 1 }, store := [(0, ⟨11, 5, 5, 5⟩), (1, ⟨12, 7, 7, 7⟩)],
    high := [(0, 20), (1, 20)], flog := [(0, 11), (1, 12)] }

def exOpen : St := (openSession exInit).1

/-- … then the server announces snapshot [6, 10] on vBucket 0 -/
def exMarked : St := (step exOpen (.ev 0 (.marker 6 10))).1

def exDoc (seq : Nat) : DocEv := ⟨.mu, seq, 0, "6162", 0, ""⟩

theorem exDoc_user (seq : Nat) : isMetaKey (exDoc seq).key = false := by
  show isMetaKey "6162" = false
  exact isMetaKey_eq_false (by decide) (by decide)

/-- the invariant holds in a reachable, non-trivial state (so `step_inv_valid` applies to it) -/
example : Inv_valid exMarked :=
  run_inv_valid exInit [.open, .ev 0 (.marker 6 10)]
    { offsets := by intro q h; cases h
      ctxs := by intro q h; cases h
      store := by decide
      savers := by intro k st d h; cases h }
    (by intro op hop vb d he; subst he; simp at hop)

/-- a document inside the snapshot is delivered with the untorn tuple ⟨branch 11, seq 7, [6,10]⟩ -/
example : (step exMarked (.ev 0 (.doc (exDoc 7)))).2 = [.deliver 0 0 (exDoc 7) ⟨11, 7, 6, 10, maxU64⟩ "_default" 0] :=
  (step_ev_doc_user exMarked 0 { snap := some (6, 10), uuid := 11, latest := maxU64 } (exDoc 7)
    (.doc (exDoc 7) ⟨11, 7, 6, 10, maxU64⟩ "_default" 0) (exDoc_user 7) (by decide) (by decide)).1

/-- a document outside the snapshot: all hypotheses of `outside_snapshot_failstop_doc` hold -/
example : (step exMarked (.ev 0 (.doc (exDoc 11)))).2 = [.failstop "snapshot"] :=
  (outside_snapshot_failstop_doc exMarked 0 { snap := some (6, 10), uuid := 11, latest := maxU64 } (exDoc 11)
    (by decide) (by decide) (by decide) (by decide) (by decide)).1

/-- … and so do they for a document before any marker -/
example : (step exOpen (.ev 1 (.doc (exDoc 8)))).2 = [.failstop "snapshot"] :=
  (outside_snapshot_failstop_doc exOpen 1 { uuid := 12, latest := maxU64 } (exDoc 8)
    (by decide) (by decide) (by decide) (by decide) (by decide)).1

/-- the branch id of the observers is the failover-log head -/
example : Inv_uuid exMarked := by
  have h0 : Inv_uuid exInit := by intro h; cases h
  exact step_inv_uuid _ _ (step_inv_uuid _ .open h0)

end C06
end GoDcp
