import GoDcp.Proofs.SessionLemmasB
/-!
# C03 — per-vBucket delivery is complete, ordered, duplicate-free and faithful

Observer level (`Obs.step`, M1) first, then the session level (`GoDcp.step`, M2).
All theorems are for every configuration, observer state and event list.
-/
namespace GoDcp.Obs.C03

/-! ## observer level: definitions -/

/-- a list of server events through one observer: final state and the outputs in order -/
def runObs (c : ObsCfg) (o : Obs) : List SrvEv → Obs × List ObsOut
  | [] => (o, [])
  | e :: r => ((runObs c (step c o e).1 r).1, (step c o e).2 :: (runObs c (step c o e).1 r).2)

/-- the document events handed to the listener (the server's `DocEv` component) -/
def fwdDocs (outs : List ObsOut) : List DocEv :=
  outs.filterMap fun | .fwd (.doc d _ _ _) => some d | _ => none

/-- the documented observer-level filter without catch-up: the skip window only -/
def keepDoc (c : ObsCfg) : SrvEv → Option DocEv
  | .doc d => if beforeSkip c (d.cas / 1000000000) then none else some d
  | _ => none

/-- the documented filter during catch-up at `F` -/
def keepDocAbove (c : ObsCfg) (F : Nat) : SrvEv → Option DocEv
  | .doc d => if d.seq ≤ F ∨ beforeSkip c (d.cas / 1000000000) = true then none else some d
  | _ => none

/-- the snapshot as the server's own events define it (markers and seqno-advanced) -/
def snapAfter (snap : Option (Nat × Nat)) : SrvEv → Option (Nat × Nat)
  | .marker s e => some (s, e)
  | .seqAdv q => some (q, q)
  | _ => snap

def inSnapOf (snap : Option (Nat × Nat)) (seq : Nat) : Bool :=
  match snap with
  | none => false
  | some (s, e) => s ≤ seq && seq ≤ e

/-- **well-formed server trace** relative to a snapshot: every document / system
    event lies inside the marker current at that point (decidable) -/
def WF (snap : Option (Nat × Nat)) : List SrvEv → Bool
  | [] => true
  | .doc d :: r => inSnapOf snap d.seq && WF snap r
  | .sys _ q _ :: r => inSnapOf snap q && WF snap r
  | e :: r => WF (snapAfter snap e) r

/-- the run neither dies in `IsInSnapshotMarker` nor waits at the rollback-mitigation gate -/
def Clean (c : ObsCfg) (o : Obs) : List SrvEv → Prop
  | [] => True
  | e :: r => (step c o e).2 ≠ .failstop ∧ (step c o e).2 ≠ .blocked ∧ Clean c (step c o e).1 r

/-- seqnos of the events that pass through `needCatchup` -/
def gatedSeqs : List SrvEv → List Nat
  | [] => []
  | .doc d :: r => d.seq :: gatedSeqs r
  | .sys _ q _ :: r => q :: gatedSeqs r
  | _ :: r => gatedSeqs r

/-! ## frame facts of one step -/

theorem needCatchup_off (o : Obs) (q : Nat) (h : o.catchNeed = false) : needCatchup o q = (false, o) := by
  simp [needCatchup, h]

/-- without a pending catch-up none starts -/
theorem step_catchNeed (c : ObsCfg) (o : Obs) (e : SrvEv) (h : o.catchNeed = false) :
    (step c o e).1.catchNeed = false := by
  cases e with
  | marker s e => simp only [step]; split <;> simp [h]
  | doc d =>
    simp only [step, needCatchup_off o _ h]
    repeat' split
    all_goals simp [count_catchNeed, h]
  | seqAdv q => simp only [step]; split <;> simp [h]
  | sys k q cl =>
    simp only [step, needCatchup_off o _ h]
    repeat' split
    all_goals simp [h]
  | oso => exact h

theorem runObs_cons (c : ObsCfg) (o : Obs) (e : SrvEv) (r : List SrvEv) :
    runObs c o (e :: r) =
      ((runObs c (step c o e).1 r).1, (step c o e).2 :: (runObs c (step c o e).1 r).2) := rfl

theorem fwdDocs_cons (x : ObsOut) (r : List ObsOut) : fwdDocs (x :: r) = fwdDocs [x] ++ fwdDocs r := by
  simp only [fwdDocs, List.filterMap_cons, List.filterMap_nil]
  split <;> simp

/-- one step in normal mode (not closed, no catch-up), neither fail-stop nor blocked -/
theorem step_fwdDocs_normal (c : ObsCfg) (o : Obs) (e : SrvEv) (hcl : o.closed = false)
    (hcn : o.catchNeed = false) (hf : (step c o e).2 ≠ .failstop) (hb : (step c o e).2 ≠ .blocked) :
    fwdDocs [(step c o e).2] = (keepDoc c e).toList := by
  cases e with
  | marker s e =>
    simp only [step] at hb ⊢
    split
    · rename_i h; simp [h] at hb
    · simp [send, hcl, fwdDocs, keepDoc]
  | doc d =>
    simp only [step, needCatchup_off o _ hcn] at hb hf ⊢
    split
    · rename_i h; simp [h] at hb
    · simp only [Bool.false_eq_true, if_false] at hf ⊢
      split
      · simp [fwdDocs, keepDoc, *]
      · split
        · rename_i h1 h2 h3; simp [h1, h2, h3] at hf
        · rename_i h1 h2 h3
          simp [send, hcl, fwdDocs, keepDoc, h2]
  | seqAdv q =>
    simp only [step] at hb ⊢
    split
    · rename_i h; simp [h] at hb
    · simp [send, hcl, fwdDocs, keepDoc]
  | sys k q cl =>
    simp only [step, needCatchup_off o _ hcn] at hb hf ⊢
    split
    · rename_i h; simp [h] at hb
    · simp only [Bool.false_eq_true, if_false] at hf ⊢
      split
      · rename_i h1 h2; simp [h1, h2] at hf
      · simp [send, hcl, fwdDocs, keepDoc]
  | oso => simp [step, send, hcl, fwdDocs, keepDoc]

/-- **obs_docs_filter** (refinement): outside catch-up, an open observer forwards
    exactly the server's document events that are not before `skipUntil` – same
    order, each once.  `Clean` = no fail-stop, no wait at the gate
    (see `clean_of_WF` for the syntactic condition). -/
theorem obs_docs_filter (c : ObsCfg) (o : Obs) (evs : List SrvEv) (hcl : o.closed = false)
    (hcn : o.catchNeed = false) (hclean : Clean c o evs) :
    fwdDocs (runObs c o evs).2 = evs.filterMap (keepDoc c) := by
  induction evs generalizing o with
  | nil => rfl
  | cons e r ih =>
    obtain ⟨hf, hb, hr⟩ := hclean
    rw [runObs_cons, fwdDocs_cons, step_fwdDocs_normal c o e hcl hcn hf hb,
      ih _ (by rw [step_closed]; exact hcl) (step_catchNeed c o e hcn) hr]
    simp only [List.filterMap_cons]
    cases keepDoc c e <;> rfl

theorem gateOpen_of_rm_off (c : ObsCfg) (o : Obs) (q : Nat) (h : c.rmEnabled = false) :
    gateOpen c o q = true := by simp [gateOpen, h]

theorem inSnap_eq (o : Obs) (q : Nat) : inSnap o q = inSnapOf o.snap q := rfl

/-- with the gate open the observer's snapshot is the one the server's events define -/
theorem step_snap (c : ObsCfg) (o : Obs) (e : SrvEv) (hb : (step c o e).2 ≠ .blocked) :
    (step c o e).1.snap = snapAfter o.snap e := by
  cases e with
  | marker s e =>
    simp only [step] at hb ⊢
    split
    · rename_i h; simp [h] at hb
    · rfl
  | doc d =>
    simp only [step]
    repeat' split
    all_goals simp [count_snap, needCatchup_snap, snapAfter]
  | seqAdv q =>
    simp only [step] at hb ⊢
    split
    · rename_i h; simp [h] at hb
    · rfl
  | sys k q cl =>
    simp only [step]
    repeat' split
    all_goals simp [needCatchup_snap, snapAfter]
  | oso => rfl

theorem send_ne_blocked (o : Obs) (e : LEvent) : send o e ≠ .blocked := by
  unfold send; split <;> simp
theorem send_ne_failstop (o : Obs) (e : LEvent) : send o e ≠ .failstop := by
  unfold send; split <;> simp

theorem step_not_blocked (c : ObsCfg) (o : Obs) (e : SrvEv) (h : c.rmEnabled = false) :
    (step c o e).2 ≠ .blocked := by
  cases e with
  | marker s e =>
    simp only [step, gateOpen_of_rm_off c o _ h, Bool.not_true, Bool.false_eq_true, if_false]
    exact send_ne_blocked _ _
  | doc d =>
    simp only [step, gateOpen_of_rm_off c o _ h, Bool.not_true, Bool.false_eq_true, if_false]
    repeat' split
    all_goals first | exact send_ne_blocked _ _ | simp
  | seqAdv q =>
    simp only [step, gateOpen_of_rm_off c o _ h, Bool.not_true, Bool.false_eq_true, if_false]
    exact send_ne_blocked _ _
  | sys k q cl =>
    simp only [step, gateOpen_of_rm_off c o _ h, Bool.not_true, Bool.false_eq_true, if_false]
    repeat' split
    all_goals first | exact send_ne_blocked _ _ | simp
  | oso => exact send_ne_blocked _ _

/-- a well-formed trace never reaches the panic of `IsInSnapshotMarker` -/
theorem step_not_failstop_of_WF (c : ObsCfg) (o : Obs) (e : SrvEv) (r : List SrvEv)
    (h : WF o.snap (e :: r) = true) : (step c o e).2 ≠ .failstop := by
  cases e with
  | marker s e => simp only [step, send]; repeat' split <;> simp
  | doc d =>
    simp only [WF, Bool.and_eq_true] at h
    simp only [step, send]
    repeat' split
    all_goals simp
    rename_i h1 h2 h3 h4
    rw [inSnap_eq, needCatchup_snap] at h4
    · simp [h.1] at h4
  | seqAdv q => simp only [step, send]; repeat' split <;> simp
  | sys k q cl =>
    simp only [WF, Bool.and_eq_true] at h
    simp only [step, send]
    repeat' split
    all_goals simp
    rename_i h1 h2 h3
    rw [inSnap_eq, needCatchup_snap] at h3
    · simp [h.1] at h3
  | oso => simp only [step, send]; split <;> simp

theorem WF_tail (snap : Option (Nat × Nat)) (e : SrvEv) (r : List SrvEv) (h : WF snap (e :: r) = true) :
    WF (snapAfter snap e) r = true := by
  cases e <;> simp_all [WF, snapAfter]

/-- **clean_of_WF**: with rollback mitigation off, a server trace that keeps every
    document / system event inside the current marker is processed without
    fail-stop and without waiting -/
theorem clean_of_WF (c : ObsCfg) (o : Obs) (evs : List SrvEv) (hrm : c.rmEnabled = false)
    (h : WF o.snap evs = true) : Clean c o evs := by
  induction evs generalizing o with
  | nil => trivial
  | cons e r ih =>
    refine ⟨step_not_failstop_of_WF c o e r h, step_not_blocked c o e hrm, ih _ ?_⟩
    rw [step_snap c o e (step_not_blocked c o e hrm)]
    exact WF_tail _ _ _ h

/-- `obs_docs_filter` for syntactically well-formed traces -/
theorem obs_docs_filter_WF (c : ObsCfg) (o : Obs) (evs : List SrvEv) (hrm : c.rmEnabled = false)
    (hcl : o.closed = false) (hcn : o.catchNeed = false) (h : WF o.snap evs = true) :
    fwdDocs (runObs c o evs).2 = evs.filterMap (keepDoc c) :=
  obs_docs_filter c o evs hcl hcn (clean_of_WF c o evs hrm h)

theorem runObs_append (c : ObsCfg) (o : Obs) (l1 l2 : List SrvEv) :
    runObs c o (l1 ++ l2) =
      ((runObs c (runObs c o l1).1 l2).1, (runObs c o l1).2 ++ (runObs c (runObs c o l1).1 l2).2) := by
  induction l1 generalizing o with
  | nil => rfl
  | cons e r ih => simp only [List.cons_append, runObs_cons, ih, List.cons_append]

theorem fwdDocs_append (a b : List ObsOut) : fwdDocs (a ++ b) = fwdDocs a ++ fwdDocs b := by
  simp [fwdDocs, List.filterMap_append]

/-- **the ill-formed case**: if the trace is fine up to `pre` and the next event
    is outside the current marker, the output for that event is `failstop`, it
    forwards nothing and leaves the counters alone; what was forwarded up to and
    including the offending event is the filter of the good prefix. -/
theorem obs_docs_filter_prefix (c : ObsCfg) (o : Obs) (pre : List SrvEv) (e : SrvEv)
    (hcl : o.closed = false) (hcn : o.catchNeed = false) (hclean : Clean c o pre)
    (hbad : (step c (runObs c o pre).1 e).2 = .failstop) :
    fwdDocs (runObs c o (pre ++ [e])).2 = pre.filterMap (keepDoc c) := by
  rw [runObs_append, fwdDocs_append, obs_docs_filter c o pre hcl hcn hclean, runObs_cons]
  simp [hbad, fwdDocs, runObs]

/-- the panic happens exactly for a document / system event that passed the gate,
    the catch-up and the skip window and is outside the current marker (or before any marker) -/
theorem failstop_iff_outside (c : ObsCfg) (o : Obs) (e : SrvEv) (hcn : o.catchNeed = false) :
    (step c o e).2 = .failstop ↔
      (∃ d, e = .doc d ∧ gateOpen c o d.seq = true ∧ beforeSkip c (d.cas / 1000000000) = false ∧
          inSnapOf o.snap d.seq = false) ∨
      (∃ k q cl, e = .sys k q cl ∧ gateOpen c o q = true ∧ inSnapOf o.snap q = false) := by
  cases e with
  | marker s e => simp only [step, send]; repeat' split <;> simp
  | doc d =>
    simp only [step, send, needCatchup_off o _ hcn, inSnap_eq]
    repeat' split
    all_goals simp_all
  | seqAdv q => simp only [step, send]; repeat' split <;> simp
  | sys k q cl =>
    simp only [step, send, needCatchup_off o _ hcn, inSnap_eq]
    repeat' split
    all_goals simp_all
    exact ⟨k, q, ⟨rfl, rfl⟩, by assumption, by assumption⟩
  | oso => simp only [step, send]; split <;> simp

/-! ## catch-up after a server-requested rollback -/

theorem keepAbove_eq_keep (c : ObsCfg) (F : Nat) (r : List SrvEv) (h : ∀ q ∈ gatedSeqs r, F < q) :
    r.filterMap (keepDocAbove c F) = r.filterMap (keepDoc c) := by
  induction r with
  | nil => rfl
  | cons e r ih =>
    cases e with
    | doc d =>
      have hd : F < d.seq := h d.seq (by simp [gatedSeqs])
      have hr := ih (fun q hq => h q (by simp [gatedSeqs, hq]))
      simp only [List.filterMap_cons, keepDocAbove, keepDoc, hr, Nat.not_le.mpr hd, false_or]
    | sys k q cl =>
      have hr := ih (fun q hq => h q (by simp [gatedSeqs, hq]))
      simp [List.filterMap_cons, keepDocAbove, keepDoc, hr]
    | marker s e => simpa [List.filterMap_cons, keepDocAbove, keepDoc, gatedSeqs] using ih (by simpa [gatedSeqs] using h)
    | seqAdv q => simpa [List.filterMap_cons, keepDocAbove, keepDoc, gatedSeqs] using ih (by simpa [gatedSeqs] using h)
    | oso => simpa [List.filterMap_cons, keepDocAbove, keepDoc, gatedSeqs] using ih (by simpa [gatedSeqs] using h)

theorem gate_of_not_blocked_doc (c : ObsCfg) (o : Obs) (d : DocEv) (hb : (step c o (.doc d)).2 ≠ .blocked) :
    gateOpen c o d.seq = true := by
  cases hg : gateOpen c o d.seq with
  | true => rfl
  | false => simp [step, hg] at hb

theorem gate_of_not_blocked_sys (c : ObsCfg) (o : Obs) (k : SysKind) (q cl : Nat)
    (hb : (step c o (.sys k q cl)).2 ≠ .blocked) : gateOpen c o q = true := by
  cases hg : gateOpen c o q with
  | true => rfl
  | false => simp [step, hg] at hb

/-- the first gated event above `F` ends the catch-up and is then treated normally -/
theorem step_doc_above (c : ObsCfg) (o : Obs) (d : DocEv) (hcn : o.catchNeed = true)
    (h : o.catchSeq < d.seq) (hg : gateOpen c o d.seq = true) :
    step c o (.doc d) = step c { o with catchNeed := false } (.doc d) := by
  have h1 : ¬ d.seq = o.catchSeq := by omega
  have h2 : o.catchSeq ≤ d.seq := by omega
  have hg' : gateOpen c { o with catchNeed := false } d.seq = true := hg
  simp [step, needCatchup, hcn, h1, h2, hg, hg']

theorem step_sys_above (c : ObsCfg) (o : Obs) (k : SysKind) (q cl : Nat) (hcn : o.catchNeed = true)
    (h : o.catchSeq < q) (hg : gateOpen c o q = true) :
    step c o (.sys k q cl) = step c { o with catchNeed := false } (.sys k q cl) := by
  have h1 : ¬ q = o.catchSeq := by omega
  have h2 : o.catchSeq ≤ q := by omega
  have hg' : gateOpen c { o with catchNeed := false } q = true := hg
  simp [step, needCatchup, hcn, h1, h2, hg, hg']

theorem runObs_congr_head (c : ObsCfg) (o o' : Obs) (e : SrvEv) (r : List SrvEv)
    (h : step c o e = step c o' e) : runObs c o (e :: r) = runObs c o' (e :: r) := by
  simp only [runObs_cons, h]

theorem clean_congr_head (c : ObsCfg) (o o' : Obs) (e : SrvEv) (r : List SrvEv)
    (h : step c o e = step c o' e) (hc : Clean c o (e :: r)) : Clean c o' (e :: r) := by
  simpa only [Clean, h] using hc

/-- **obs_catchup_filter**: an open observer in catch-up at `F`
    (`SetCatchup(F)` after a rollback), fed a server trace whose gated events
    (documents and system events) carry strictly increasing seqnos, forwards
    exactly the documents with `seq > F` that are not before `skipUntil` – in
    order, each once: nothing at or below `F` is shown again, nothing above is lost. -/
theorem obs_catchup_filter (c : ObsCfg) (o : Obs) (evs : List SrvEv) (F : Nat) (hcl : o.closed = false)
    (hcn : o.catchNeed = true) (hF : o.catchSeq = F)
    (hinc : (gatedSeqs evs).Pairwise (· < ·)) (hclean : Clean c o evs) :
    fwdDocs (runObs c o evs).2 = evs.filterMap (keepDocAbove c F) := by
  induction evs generalizing o with
  | nil => rfl
  | cons e r ih =>
    have hclean0 := hclean
    obtain ⟨hf, hb, hr⟩ := hclean
    cases e with
    | marker s e =>
      have hst : (step c o (.marker s e)).1 = { o with snap := some (s, e) } := by
        simp only [step] at hb ⊢
        split
        · rename_i h; simp [h] at hb
        · rfl
      have h0 : fwdDocs [(step c o (.marker s e)).2] = [] := by
        simp only [step, send]; (repeat' split) <;> first | rfl | simp_all [fwdDocs]
      rw [runObs_cons, fwdDocs_cons, h0, hst]
      rw [hst] at hr
      simpa [keepDocAbove, List.filterMap_cons] using
        ih { o with snap := some (s, e) } hcl hcn hF (by simpa [gatedSeqs] using hinc) hr
    | seqAdv q =>
      have hst : (step c o (.seqAdv q)).1 = { o with snap := some (q, q) } := by
        simp only [step] at hb ⊢
        split
        · rename_i h; simp [h] at hb
        · rfl
      have h0 : fwdDocs [(step c o (.seqAdv q)).2] = [] := by
        simp only [step, send]; (repeat' split) <;> first | rfl | simp_all [fwdDocs]
      rw [runObs_cons, fwdDocs_cons, h0, hst]
      rw [hst] at hr
      simpa [keepDocAbove, List.filterMap_cons] using
        ih { o with snap := some (q, q) } hcl hcn hF (by simpa [gatedSeqs] using hinc) hr
    | oso =>
      have hst : (step c o .oso).1 = o := rfl
      have h0 : fwdDocs [(step c o .oso).2] = [] := by
        simp only [step, send]; (repeat' split) <;> first | rfl | simp_all [fwdDocs]
      rw [runObs_cons, fwdDocs_cons, h0, hst]
      rw [hst] at hr
      simpa [keepDocAbove, List.filterMap_cons] using ih o hcl hcn hF (by simpa [gatedSeqs] using hinc) hr
    | doc d =>
      simp only [gatedSeqs, List.pairwise_cons] at hinc
      obtain ⟨hlt, hinc'⟩ := hinc
      have hg := gate_of_not_blocked_doc c o d hb
      rcases Nat.lt_trichotomy d.seq F with hlo | heq | hhi
      · -- below F: dropped, the catch-up goes on
        have hst : step c o (.doc d) = (o, .dropCatchup) := by
          have : ¬ o.catchSeq ≤ d.seq := by omega
          simp [step, needCatchup, hcn, hg, this]
        rw [runObs_cons, fwdDocs_cons, hst]
        rw [hst] at hr
        simp only [List.filterMap_cons, keepDocAbove, Nat.le_of_lt hlo, true_or, if_true]
        simpa [fwdDocs] using ih o hcl hcn hF hinc' hr
      · -- exactly F: dropped, the catch-up ends
        have hst : step c o (.doc d) = ({ o with catchNeed := false }, .dropCatchup) := by
          have hg' : gateOpen c o F = true := heq ▸ hg
          simp [step, needCatchup, hcn, hg', heq, hF]
        rw [runObs_cons, fwdDocs_cons, hst]
        rw [hst] at hr
        simp only [List.filterMap_cons, keepDocAbove, Nat.le_of_eq heq, true_or, if_true]
        rw [keepAbove_eq_keep c F r (fun q hq => by have := hlt q hq; omega)]
        simpa [fwdDocs] using obs_docs_filter c { o with catchNeed := false } r hcl rfl hr
      · -- above F: the catch-up ends and the event is treated normally
        have hst := step_doc_above c o d hcn (by omega) hg
        rw [runObs_congr_head c o { o with catchNeed := false } _ r hst,
          obs_docs_filter c { o with catchNeed := false } (.doc d :: r) hcl rfl
            (clean_congr_head c o { o with catchNeed := false } _ r hst hclean0)]
        symm
        apply keepAbove_eq_keep
        intro q hq
        simp only [gatedSeqs, List.mem_cons] at hq
        rcases hq with rfl | hq
        · exact hhi
        · have := hlt q hq; omega
    | sys k q cl =>
      simp only [gatedSeqs, List.pairwise_cons] at hinc
      obtain ⟨hlt, hinc'⟩ := hinc
      have hg := gate_of_not_blocked_sys c o k q cl hb
      rcases Nat.lt_trichotomy q F with hlo | heq | hhi
      · have hst : step c o (.sys k q cl) = (o, .dropCatchup) := by
          have : ¬ o.catchSeq ≤ q := by omega
          simp [step, needCatchup, hcn, hg, this]
        rw [runObs_cons, fwdDocs_cons, hst]
        rw [hst] at hr
        simp only [List.filterMap_cons, keepDocAbove]
        simpa [fwdDocs] using ih o hcl hcn hF hinc' hr
      · have hst : step c o (.sys k q cl) = ({ o with catchNeed := false }, .dropCatchup) := by
          have hg' : gateOpen c o F = true := heq ▸ hg
          simp [step, needCatchup, hcn, hg', heq, hF]
        rw [runObs_cons, fwdDocs_cons, hst]
        rw [hst] at hr
        simp only [List.filterMap_cons, keepDocAbove]
        rw [keepAbove_eq_keep c F r (fun q' hq => by have := hlt q' hq; omega)]
        simpa [fwdDocs] using obs_docs_filter c { o with catchNeed := false } r hcl rfl hr
      · have hst := step_sys_above c o k q cl hcn (by omega) hg
        rw [runObs_congr_head c o { o with catchNeed := false } _ r hst,
          obs_docs_filter c { o with catchNeed := false } (.sys k q cl :: r) hcl rfl
            (clean_congr_head c o { o with catchNeed := false } _ r hst hclean0)]
        symm
        apply keepAbove_eq_keep
        intro q' hq
        simp only [gatedSeqs, List.mem_cons] at hq
        rcases hq with rfl | hq
        · exact hhi
        · have := hlt q' hq; omega

/-! ## faithfulness -/

/-- `Obs.step` on a document event, with the pair returned by `needCatchup` projected -/
theorem step_doc_eq (c : ObsCfg) (o : Obs) (d : DocEv) :
    step c o (.doc d) =
      if !gateOpen c o d.seq then (o, .blocked) else
      if (needCatchup o d.seq).1 then ((needCatchup o d.seq).2, .dropCatchup) else
      if beforeSkip c (d.cas / 1000000000) then ((needCatchup o d.seq).2, .dropSkip) else
      if !inSnap (needCatchup o d.seq).2 d.seq then ((needCatchup o d.seq).2, .failstop) else
      (count (needCatchup o d.seq).2 d.kind,
        send (needCatchup o d.seq).2
          (.doc d (mkOffset (needCatchup o d.seq).2 d.seq) (collName c d.coll) (d.cas / 1000000000))) := rfl

theorem step_sys_eq (c : ObsCfg) (o : Obs) (k : SysKind) (q cl : Nat) :
    step c o (.sys k q cl) =
      if !gateOpen c o q then (o, .blocked) else
      if (needCatchup o q).1 then ((needCatchup o q).2, .dropCatchup) else
      if !inSnap (needCatchup o q).2 q then ((needCatchup o q).2, .failstop) else
      ((needCatchup o q).2, send (needCatchup o q).2 (.sys k (mkOffset (needCatchup o q).2 q))) := rfl

/-- **obs_faithful** (one step): a forwarded document event is the server's own
    event, unchanged (kind, key, cas, seq, collection id, payload = value / revNo /
    flags / expiry / datatype); the collection name is the configured one or
    `_default`; the event time is `cas / 10^9`; the offset is the event's own
    seqno with the stream's vbUUID, the latest-seqno bound and the marker current
    at that point, and the seqno lies inside that marker. -/
theorem obs_faithful_step (c : ObsCfg) (o o' : Obs) (e : SrvEv) (d : DocEv) (off : Offset)
    (coll : String) (t : Nat) (h : step c o e = (o', .fwd (.doc d off coll t))) :
    e = .doc d ∧ coll = collName c d.coll ∧ t = d.cas / 1000000000 ∧
    off.seq = d.seq ∧ off.uuid = o.uuid ∧ off.latest = o.latest ∧
    o.snap = some (off.ss, off.se) ∧ off.ss ≤ d.seq ∧ d.seq ≤ off.se ∧
    beforeSkip c (d.cas / 1000000000) = false ∧ o.closed = false := by
  cases e with
  | marker s e =>
    simp only [step] at h
    split at h
    · cases h
    · have := send_eq_fwd (congrArg Prod.snd h); cases this.1
  | seqAdv q =>
    simp only [step] at h
    split at h
    · cases h
    · have := send_eq_fwd (congrArg Prod.snd h); cases this.1
  | sys k q cl =>
    simp only [step] at h
    repeat' split at h
    all_goals first | (cases h; done) | skip
    have := send_eq_fwd (congrArg Prod.snd h); cases this.1
  | oso =>
    have := send_eq_fwd (congrArg Prod.snd h); cases this.1
  | doc d0 =>
    rw [step_doc_eq] at h
    repeat' split at h
    all_goals first | (cases h; done) | skip
    rename_i hg hneed hskip hin
    have hs := send_eq_fwd (congrArg Prod.snd h)
    obtain ⟨hle, hclosed⟩ := hs
    injection hle with hd hoff hcoll ht
    subst hd
    have hsnap : (needCatchup o d.seq).2.snap = o.snap := needCatchup_snap _ _
    have hin' : inSnap (needCatchup o d.seq).2 d.seq = true := by simpa using hin
    rw [inSnap_eq, hsnap] at hin'
    refine ⟨rfl, hcoll, ht, ?_⟩
    subst hoff
    cases hsn : o.snap with
    | none => simp [inSnapOf, hsn] at hin'
    | some se =>
      obtain ⟨s, e⟩ := se
      simp only [inSnapOf, hsn, Bool.and_eq_true, decide_eq_true_eq] at hin'
      have : (needCatchup o d.seq).2.snap = some (s, e) := by rw [hsnap, hsn]
      simp only [mkOffset, this, needCatchup_uuid, needCatchup_latest, true_and]
      exact ⟨hin'.1, hin'.2, by simpa using hskip, by rw [← needCatchup_closed o d.seq]; exact hclosed⟩

/-- **obs_faithful** (whole run): every document event handed to the listener is
    one of the server's events with all its fields, the configured collection
    name (or `_default`), event time `cas / 10^9`, and an offset that is that
    event's own position (own seqno, the stream's vbUUID, inside its marker). -/
theorem obs_faithful (c : ObsCfg) (o : Obs) (evs : List SrvEv) (d : DocEv) (off : Offset)
    (coll : String) (t : Nat) (h : ObsOut.fwd (.doc d off coll t) ∈ (runObs c o evs).2) :
    SrvEv.doc d ∈ evs ∧ coll = collName c d.coll ∧ t = d.cas / 1000000000 ∧
    off.seq = d.seq ∧ off.uuid = o.uuid ∧ off.ss ≤ d.seq ∧ d.seq ≤ off.se := by
  induction evs generalizing o with
  | nil => simp [runObs] at h
  | cons e r ih =>
    rw [runObs_cons] at h
    rcases List.mem_cons.mp h with h | h
    · have := obs_faithful_step c o (step c o e).1 e d off coll t (by rw [h])
      obtain ⟨he, h1, h2, h3, h4, _, _, h5, h6, _⟩ := this
      exact ⟨by simp [he], h1, h2, h3, h4, h5, h6⟩
    · obtain ⟨h0, h1, h2, h3, h4, h5, h6⟩ := ih _ h
      exact ⟨List.mem_cons_of_mem _ h0, h1, h2, h3, by rw [h4, step_uuid], h5, h6⟩

/-! ## counters -/

def cnt (o : Obs) : DocKind → Nat
  | .mu => o.nMut
  | .de => o.nDel
  | .ex => o.nExp

/-- "accepted": a document event of kind `k` that passed the gate, the catch-up,
    the skip window and the snapshot check – whether or not the observer is `closed` -/
def accepted (k : DocKind) (e : SrvEv) (out : ObsOut) : Bool :=
  match e with
  | .doc d =>
    (match out with
     | .fwd _ => d.kind == k
     | .dropClosed => d.kind == k
     | _ => false)
  | _ => false

def nAccepted (k : DocKind) (c : ObsCfg) (o : Obs) : List SrvEv → Nat
  | [] => 0
  | e :: r => (if accepted k e (step c o e).2 then 1 else 0) + nAccepted k c (step c o e).1 r

theorem needCatchup_cnt (o : Obs) (q : Nat) (k : DocKind) : cnt (needCatchup o q).2 k = cnt o k := by
  unfold needCatchup; (repeat' split) <;> cases k <;> rfl

theorem count_cnt (o : Obs) (k k' : DocKind) : cnt (count o k) k' = cnt o k' + (if k == k' then 1 else 0) := by
  cases k <;> cases k' <;> rfl

theorem accepted_send (k : DocKind) (d : DocEv) (o : Obs) (le : LEvent) :
    accepted k (.doc d) (send o le) = (d.kind == k) := by
  unfold send; split <;> rfl

theorem step_cnt (c : ObsCfg) (o : Obs) (e : SrvEv) (k : DocKind) :
    cnt (step c o e).1 k = cnt o k + (if accepted k e (step c o e).2 then 1 else 0) := by
  cases e with
  | marker s e => simp only [step, accepted]; split <;> cases k <;> rfl
  | seqAdv q => simp only [step, accepted]; split <;> cases k <;> rfl
  | oso => cases k <;> rfl
  | sys k' q cl =>
    have : ∀ out, accepted k (.sys k' q cl) out = false := fun _ => rfl
    simp only [this, Bool.false_eq_true, if_false, Nat.add_zero]
    rw [step_sys_eq]
    repeat' split
    all_goals simp [needCatchup_cnt]
  | doc d =>
    rw [step_doc_eq]
    by_cases hg : gateOpen c o d.seq = true
    · by_cases hn : (needCatchup o d.seq).1 = true
      · simp [hg, hn, accepted, needCatchup_cnt]
      · by_cases hs : beforeSkip c (d.cas / 1000000000) = true
        · simp [hg, hn, hs, accepted, needCatchup_cnt]
        · by_cases hi : inSnap (needCatchup o d.seq).2 d.seq = true
          · simp [hg, hn, hs, hi, accepted_send, count_cnt, needCatchup_cnt]
          · simp [hg, hn, hs, hi, accepted, needCatchup_cnt]
    · simp [hg, accepted]

/-- **obs_counters** (also C16 `counters_equal_accepted`): after any run the
    mutation / deletion / expiration counters have grown by exactly the number of
    accepted document events of that kind; an event is counted even when the
    observer is `closed` and the event is then not handed on. -/
theorem obs_counters (c : ObsCfg) (o : Obs) (evs : List SrvEv) (k : DocKind) :
    cnt (runObs c o evs).1 k = cnt o k + nAccepted k c o evs := by
  induction evs generalizing o with
  | nil => rfl
  | cons e r ih => rw [runObs_cons, ih, step_cnt, nAccepted, Nat.add_assoc]

/-- what "accepted" means, spelled out on the observer's state -/
theorem accepted_iff (c : ObsCfg) (o : Obs) (e : SrvEv) (k : DocKind) :
    accepted k e (step c o e).2 = true ↔
      ∃ d, e = .doc d ∧ d.kind = k ∧ gateOpen c o d.seq = true ∧ (needCatchup o d.seq).1 = false ∧
        beforeSkip c (d.cas / 1000000000) = false ∧ inSnapOf o.snap d.seq = true := by
  cases e with
  | marker s e => simp [accepted]
  | seqAdv q => simp [accepted]
  | oso => simp [accepted]
  | sys k' q cl => simp [accepted]
  | doc d =>
    rw [step_doc_eq]
    have hsnap : inSnap (needCatchup o d.seq).2 d.seq = inSnapOf o.snap d.seq := by
      rw [inSnap_eq, needCatchup_snap]
    by_cases hg : gateOpen c o d.seq = true
    · by_cases hn : (needCatchup o d.seq).1 = true
      · simp [hg, hn, accepted]
      · by_cases hs : beforeSkip c (d.cas / 1000000000) = true
        · simp [hg, hn, hs, accepted]
        · by_cases hi : inSnap (needCatchup o d.seq).2 d.seq = true
          · have hi' := hi
            rw [hsnap] at hi'
            simp [hg, hn, hs, hi, hi', accepted_send]
          · have hi' := hi
            rw [hsnap] at hi'
            simp [hg, hn, hs, hi, hi', accepted]
    · simp [hg, accepted]

/-- non-vacuity of `obs_docs_filter_WF` / `obs_catchup_filter`: two snapshots, a
    seqno-advanced and a system event in between, an event before `skipUntil` -/
example :
    let c : ObsCfg := { skipUntil := some 5 }
    let evs : List SrvEv := [.marker 1 3, .doc ⟨.mu, 1, 9000000000, "61", 0, "v"⟩,
      .doc ⟨.de, 2, 1000000000, "62", 0, ""⟩, .sys .cc 3 8, .seqAdv 4, .marker 5 6,
      .doc ⟨.ex, 6, 7000000000, "63", 8, ""⟩]
    WF none evs = true ∧
    fwdDocs (runObs c {} evs).2 = [⟨.mu, 1, 9000000000, "61", 0, "v"⟩, ⟨.ex, 6, 7000000000, "63", 8, ""⟩] ∧
    (gatedSeqs evs).Pairwise (· < ·) ∧
    fwdDocs (runObs c { catchNeed := true, catchSeq := 2 } evs).2 = [⟨.ex, 6, 7000000000, "63", 8, ""⟩] := by
  decide

end GoDcp.Obs.C03

/-! ## session level -/
namespace GoDcp.C03
open GoDcp GoDcp.Obs.C03

/-- ops that keep the stream object and its observers: everything but open / close / crash and
    a rebalance (which replaces every observer by a new one; a transient `.reopen` keeps them) -/
def sessionOp : Op → Bool
  | .open | .close | .crash | .rebalance _ _ => false
  | _ => true

/-- the server events of vBucket `v` in an op list, in order -/
def evsOn (v : Vb) : List Op → List SrvEv
  | [] => []
  | .ev vb e :: r => if vb = v then e :: evsOn v r else evsOn v r
  | _ :: r => evsOn v r

def docsOf (evs : List SrvEv) : List DocEv := evs.filterMap fun | .doc d => some d | _ => none

/-- the documented filters outside catch-up: reserved key prefixes and the skip window -/
def keepUser (c : ObsCfg) (d : DocEv) : Option DocEv :=
  if isMetaKey d.key || Obs.beforeSkip c (d.cas / 1000000000) then none else some d

def isDeliver : Obsv → Bool
  | .deliver .. => true
  | _ => false

/-- the document events delivered to the consumer for vBucket `v` in one output -/
def delivOn (v : Vb) (out : List Obsv) : List DocEv :=
  out.filterMap fun | .deliver _ vb d _ _ _ => if vb = v then some d else none | _ => none

/-- … and everything the consumer sees of them (all but the context index) -/
def delivFullOn (v : Vb) (out : List Obsv) : List (DocEv × Offset × String × Nat) :=
  out.filterMap fun | .deliver _ vb d off c t => if vb = v then some (d, off, c, t) else none | _ => none

def delivIdx (out : List Obsv) : List Nat := out.filterMap fun | .deliver i .. => some i | _ => none

theorem delivOn_of_none {v : Vb} {out : List Obsv} (h : ∀ x ∈ out, isDeliver x = false) : delivOn v out = [] := by
  unfold delivOn
  apply List.filterMap_eq_nil_iff.mpr
  intro x hx
  have := h x hx
  cases x <;> simp_all [isDeliver]

theorem delivFullOn_of_none {v : Vb} {out : List Obsv} (h : ∀ x ∈ out, isDeliver x = false) :
    delivFullOn v out = [] := by
  unfold delivFullOn
  apply List.filterMap_eq_nil_iff.mpr
  intro x hx
  have := h x hx
  cases x <;> simp_all [isDeliver]

theorem delivIdx_of_none {out : List Obsv} (h : ∀ x ∈ out, isDeliver x = false) : delivIdx out = [] := by
  unfold delivIdx
  apply List.filterMap_eq_nil_iff.mpr
  intro x hx
  have := h x hx
  cases x <;> simp_all [isDeliver]

theorem setOffset_no_deliver (s : St) (vb : Vb) (o : Offset) (d : Bool) :
    ∀ x ∈ (setOffset s vb o d).2, isDeliver x = false := by
  rw [setOffset_out]; split <;> simp [isDeliver]

/-- only a server event produces a delivery -/
theorem step_no_deliver (s : St) (op : Op) (h : ∀ vb e, op ≠ .ev vb e) :
    ∀ x ∈ (step s op).2, isDeliver x = false := by
  cases op with
  | ev vb e => exact absurd rfl (h vb e)
  | ack i =>
    simp only [step]
    (repeat' split) <;> try (simp [isDeliver]; done)
    rw [ack_out]; exact setOffset_no_deliver _ _ _ _
  | save res =>
    simp only [step, saveAll_eq]
    (repeat' split) <;> simp [isDeliver]
  | «open» =>
    simp only [step, openSession]
    (repeat' split) <;> simp [isDeliver]
    intro x a b _ hx; subst hx; rfl
  | close =>
    simp only [step, closeSession]
    (repeat' split) <;> simp [isDeliver]
    intro x a b _ hx; subst hx; rfl
  | svBegin k => simp only [step, svBegin]; (repeat' split) <;> simp [isDeliver]
  | svDump k => simp only [step, svDump]; (repeat' split) <;> simp [isDeliver]
  | svStore k res => simp only [step, svStore]; (repeat' split) <;> simp [isDeliver]
  | svUnmark k => simp only [step, svUnmark]; (repeat' split) <;> simp [isDeliver]
  | scrape => simp only [step, scrape]; (repeat' split) <;> simp [isDeliver]
  | rebalance lo hi =>
    intro x hx
    simp only [step] at hx
    rcases mem_rebalanceSession_out hx with ⟨_, h⟩ | ⟨_, h⟩ | h | ⟨_, _, _, _, _, _, _, _, _, _, h, _⟩ <;> subst h <;> rfl
  | reopen vb =>
    intro x hx
    simp only [step] at hx
    rcases mem_reopenStream_out hx with ⟨_, h⟩ | ⟨_, _, _, _, _, h, _⟩ <;> subst h <;> rfl
  | _ => simp only [step, crash]; (repeat' split) <;> simp [isDeliver]

/-- the observers after a server event: only that vBucket's observer moves -/
theorem evStep_observers (s : St) (vb : Vb) (e : SrvEv) :
    (evStep s vb e).1.observers =
      match s.observers.get? vb with
      | none => s.observers
      | some o => s.observers.set vb (Obs.step s.cfg.obs o e).1 := by
  cases h : s.observers.get? vb with
  | none => rw [evStep_of_no_obs e h]
  | some o => rw [evStep_of_obs e h]; split <;> simp

/-- what the listener makes of one observer output -/
def delivOfOut (vb v : Vb) : ObsOut → List (DocEv × Offset × String × Nat)
  | .fwd (.doc d off c t) => if isMetaKey d.key = false ∧ vb = v then [(d, off, c, t)] else []
  | _ => []

/-- what one server event delivers: the observer's forwarded document unless its
    key has a reserved prefix; always for the event's own vBucket -/
theorem evStep_delivFull (s : St) (vb v : Vb) (e : SrvEv) :
    delivFullOn v (evStep s vb e).2 =
      match s.observers.get? vb with
      | none => []
      | some o => delivOfOut vb v (Obs.step s.cfg.obs o e).2 := by
  cases h : s.observers.get? vb with
  | none => rw [evStep_of_no_obs e h]; rfl
  | some o =>
    rw [evStep_of_obs e h]
    simp only
    generalize Obs.step s.cfg.obs o e = r
    obtain ⟨o', out⟩ := r
    cases out with
    | fwd le =>
      cases le with
      | doc d off c t =>
        simp only [delivOfOut]
        cases hm : isMetaKey d.key with
        | true =>
          rw [listen_doc_meta _ _ _ _ _ hm]
          simp [delivFullOn_of_none (setOffset_no_deliver _ _ _ _)]
        | false =>
          rw [listen_doc_user _ _ _ _ _ hm]
          by_cases hv : vb = v <;> simp [delivFullOn, hv]
      | seqAdv off => exact delivFullOn_of_none (setOffset_no_deliver _ _ _ _)
      | sys k off => exact delivFullOn_of_none (setOffset_no_deliver _ _ _ _)
      | marker => rfl
      | oso => rfl
    | _ => rfl

theorem delivOn_eq_map (v : Vb) (out : List Obsv) : delivOn v out = (delivFullOn v out).map (·.1) := by
  unfold delivOn delivFullOn
  induction out with
  | nil => rfl
  | cons x r ih =>
    cases x with
    | deliver i vb d off c t =>
      simp only [List.filterMap_cons]
      by_cases hv : vb = v <;> simp [hv, ih]
    | _ => simpa [List.filterMap_cons] using ih

/-- the observer of `v` is open, outside catch-up and holds the snapshot `snap` -/
def ObsReady (v : Vb) (snap : Option (Nat × Nat)) (s : St) : Prop :=
  ∃ o, s.observers.get? v = some o ∧ o.closed = false ∧ o.catchNeed = false ∧ o.snap = snap

def traceDelivOn (v : Vb) (tr : List (List Obsv)) : List DocEv := tr.flatMap (delivOn v)

theorem keep_head (c : ObsCfg) (e : SrvEv) :
    ((keepDoc c e).toList).filter (fun d => !isMetaKey d.key) = (docsOf [e]).filterMap (keepUser c) := by
  cases e with
  | doc d =>
    simp only [keepDoc, docsOf, List.filterMap_cons, List.filterMap_nil, keepUser]
    cases hm : isMetaKey d.key <;> cases hb : Obs.beforeSkip c (d.cas / 1000000000) <;> simp [hm]
  | _ => simp [keepDoc, docsOf]

theorem docsOf_cons (e : SrvEv) (r : List SrvEv) : docsOf (e :: r) = docsOf [e] ++ docsOf r := by
  cases e <;> simp [docsOf]

/-- a session op other than a server event on `v` keeps `v`'s observer ready -/
theorem obsReady_step_other (s : St) (op : Op) (v : Vb) (snap : Option (Nat × Nat))
    (hop : sessionOp op = true) (hne : ∀ e, op ≠ .ev v e) (h : ObsReady v snap s) :
    ObsReady v snap (step s op).1 := by
  obtain ⟨o, ho, hcl, hcn, hsn⟩ := h
  cases op with
  | ev vb e =>
    have hvb : v ≠ vb := fun e' => hne e (by rw [e'])
    refine ⟨o, ?_, hcl, hcn, hsn⟩
    simp only [step, evStep_observers]
    split
    · exact ho
    · rw [AMap.get?_set_other _ _ _ _ hvb]; exact ho
  | persist vb q =>
    simp only [step]
    split
    · exact ⟨o, ho, hcl, hcn, hsn⟩
    · split
      · exact ⟨o, ho, hcl, hcn, hsn⟩
      · rename_i o' ho'
        by_cases hv : v = vb
        · subst hv
          rw [ho] at ho'; cases ho'
          refine ⟨o.setPersist q, by simp [AMap.get?_set_same], ?_, ?_, ?_⟩ <;>
            (unfold Obs.setPersist; split <;> assumption)
        · exact ⟨o, by simp [AMap.get?_set_other _ _ _ _ hv, ho], hcl, hcn, hsn⟩
  | «open» => simp [sessionOp] at hop
  | close => simp [sessionOp] at hop
  | crash => simp [sessionOp] at hop
  | rebalance lo hi => simp [sessionOp] at hop
  | reopen vb =>
    -- the observer object stays; only its branch id may be set again
    simp only [step]
    rcases reopenStream_cases s vb with ⟨_, e⟩ | ⟨_, ob, _, _, hob, e⟩ <;> rw [e]
    · exact ⟨o, ho, hcl, hcn, hsn⟩
    · by_cases hv : v = vb
      · subst hv
        rw [ho] at hob; cases hob
        exact ⟨o.setUuid ((s.flog.get? v).getD 0), by simp [AMap.get?_set_same], hcl, hcn, hsn⟩
      · exact ⟨o, by simp [AMap.get?_set_other _ _ _ _ hv, ho], hcl, hcn, hsn⟩
  | _ => exact ⟨o, by rw [step_observers s (by rfl)]; exact ho, hcl, hcn, hsn⟩

/-- **deliver_eq_filter**: run any interleaving of server events (of any number
    of vBuckets), acknowledgements, saves and saver micro-steps, persistence
    reports, offset / metric reads, transient reopens, failovers – but no open / close / crash
    and no rebalance (each of these replaces or drops the observers) – from a state in
    which the observer of `v` is open and outside catch-up, with rollback
    mitigation off.  If `v`'s own server events are well-formed (each document /
    system event inside the marker current at that point), the consumer receives
    for `v` exactly the server's document events of `v`, in the server's order,
    each once, minus those with a reserved key prefix and those before `skipUntil`. -/
theorem deliver_eq_filter (s : St) (ops : List Op) (v : Vb) (snap : Option (Nat × Nat))
    (hops : ∀ op ∈ ops, sessionOp op = true) (hrm : s.cfg.obs.rmEnabled = false)
    (hready : ObsReady v snap s) (hwf : WF snap (evsOn v ops) = true) :
    traceDelivOn v (runTrace s ops).2 = (docsOf (evsOn v ops)).filterMap (keepUser s.cfg.obs) := by
  induction ops generalizing s snap with
  | nil => rfl
  | cons op r ih =>
    have hop := hops op List.mem_cons_self
    have hr : ∀ op ∈ r, sessionOp op = true := fun o ho => hops o (List.mem_cons_of_mem _ ho)
    rw [runTrace_cons]
    simp only [traceDelivOn, List.flatMap_cons]
    by_cases hev : ∃ e, op = .ev v e
    · obtain ⟨e, rfl⟩ := hev
      obtain ⟨o, ho, hcl, hcn, hsn⟩ := hready
      simp only [evsOn, if_true] at hwf ⊢
      subst hsn
      have hnb := step_not_blocked s.cfg.obs o e hrm
      have hnf := step_not_failstop_of_WF s.cfg.obs o e _ hwf
      have hhead : delivOn v (step s (.ev v e)).2 = (docsOf [e]).filterMap (keepUser s.cfg.obs) := by
        rw [← keep_head, ← step_fwdDocs_normal s.cfg.obs o e hcl hcn hnf hnb, delivOn_eq_map]
        simp only [step, evStep_delivFull, ho]
        generalize (Obs.step s.cfg.obs o e).2 = out
        cases out with
        | fwd le =>
          cases le with
          | doc d off c t => cases hm : isMetaKey d.key <;> simp [fwdDocs, delivOfOut, hm]
          | _ => simp [fwdDocs, delivOfOut]
        | _ => simp [fwdDocs, delivOfOut]
      have hready' : ObsReady v (snapAfter o.snap e) (step s (.ev v e)).1 := by
        refine ⟨(Obs.step s.cfg.obs o e).1, ?_, ?_, step_catchNeed _ _ _ hcn, step_snap _ _ _ hnb⟩
        · simp only [step, evStep_observers, ho, AMap.get?_set_same]
        · rw [Obs.step_closed]; exact hcl
      have := ih (step s (.ev v e)).1 (snapAfter o.snap e) hr (by rw [step_cfg_obs]; exact hrm) hready'
        (WF_tail _ _ _ hwf)
      simp only [traceDelivOn, step_cfg_obs] at this
      rw [this, hhead]
      conv => rhs; rw [docsOf_cons, List.filterMap_append]
    · have hne : ∀ e, op ≠ .ev v e := fun e h => hev ⟨e, h⟩
      have hevs : evsOn v (op :: r) = evsOn v r := by
        cases op with
        | ev vb e =>
          have : vb ≠ v := fun h => hne e (by rw [h])
          simp [evsOn, this]
        | _ => rfl
      have hhead : delivOn v (step s op).2 = [] := by
        cases op with
        | ev vb e =>
          have : vb ≠ v := fun h => hne e (by rw [h])
          rw [delivOn_eq_map]
          simp only [step, evStep_delivFull]
          split
          · rfl
          · generalize (Obs.step s.cfg.obs _ e).2 = out
            cases out with
            | fwd le => cases le <;> simp [delivOfOut, this]
            | _ => rfl
        | _ => exact delivOn_of_none (step_no_deliver s _ (by intro vb e h; cases h))
      rw [hevs] at hwf ⊢
      have := ih (step s op).1 snap hr (by rw [step_cfg_obs]; exact hrm)
        (obsReady_step_other s op v snap hop hne hready) hwf
      simp only [traceDelivOn, step_cfg_obs] at this
      rw [this, hhead, List.nil_append]

/-! ### faithfulness and context indices at the session level -/

/-- the two outcomes of a server event as far as the consumer is concerned -/
theorem evStep_deliver_cases (s : St) (vb : Vb) (e : SrvEv) :
    ((∀ x ∈ (evStep s vb e).2, isDeliver x = false) ∧ (evStep s vb e).1.ctxs = s.ctxs) ∨
    (∃ o d off c t, s.observers.get? vb = some o ∧
      (Obs.step s.cfg.obs o e).2 = .fwd (.doc d off c t) ∧ isMetaKey d.key = false ∧
      (evStep s vb e).2 = [.deliver s.ctxs.length vb d off c t] ∧
      (evStep s vb e).1.ctxs = s.ctxs ++ [⟨s.sess, vb, off⟩]) := by
  cases h : s.observers.get? vb with
  | none => left; rw [evStep_of_no_obs e h]; simp [isDeliver]
  | some o =>
    rw [evStep_of_obs e h]
    cases hout : (Obs.step s.cfg.obs o e).2 with
    | fwd le =>
      cases le with
      | doc d off c t =>
        cases hm : isMetaKey d.key with
        | true =>
          left; simp only [listen_doc_meta _ _ _ _ _ hm]
          exact ⟨setOffset_no_deliver _ _ _ _, by simp⟩
        | false =>
          right
          refine ⟨o, d, off, c, t, rfl, hout, hm, ?_, ?_⟩ <;> simp only [listen_doc_user _ _ _ _ _ hm]
      | seqAdv off => left; exact ⟨setOffset_no_deliver _ _ _ _, by simp [listen]⟩
      | sys k off => left; exact ⟨setOffset_no_deliver _ _ _ _, by simp [listen]⟩
      | marker => left; simp [listen]
      | oso => left; simp [listen]
    | _ => left; simp [isDeliver]

/-- **deliver_faithful**: every event handed to the consumer is, field by field,
    a server event of that vBucket that the observer accepted: same DocEv (kind,
    key, cas, seq, collection id, payload), configured collection name or
    `_default`, event time `cas / 10^9`, an offset that is the event's own position
    (own seqno, the observer's vbUUID, inside its marker), a key without a reserved
    prefix, and the next free context index. -/
theorem deliver_faithful (s : St) (op : Op) (i : Nat) (vb : Vb) (d : DocEv) (off : Offset)
    (coll : String) (t : Nat) (h : Obsv.deliver i vb d off coll t ∈ (step s op).2) :
    ∃ o, op = .ev vb (.doc d) ∧ s.observers.get? vb = some o ∧
      coll = Obs.collName s.cfg.obs d.coll ∧ t = d.cas / 1000000000 ∧
      off.seq = d.seq ∧ off.uuid = o.uuid ∧ off.latest = o.latest ∧ o.snap = some (off.ss, off.se) ∧
      off.ss ≤ d.seq ∧ d.seq ≤ off.se ∧ isMetaKey d.key = false ∧
      Obs.beforeSkip s.cfg.obs (d.cas / 1000000000) = false ∧ o.closed = false ∧ i = s.ctxs.length := by
  by_cases hev : ∃ vb' e, op = .ev vb' e
  · obtain ⟨vb', e, rfl⟩ := hev
    simp only [step] at h
    rcases evStep_deliver_cases s vb' e with ⟨hno, _⟩ | ⟨o, d', off', c', t', ho, hfwd, hm, hout, _⟩
    · have := hno _ h; simp [isDeliver] at this
    · rw [hout] at h
      simp only [List.mem_singleton] at h
      injection h with h1 h2 h3 h4 h5 h6
      subst h1 h2 h3 h4 h5 h6
      have := obs_faithful_step s.cfg.obs o (Obs.step s.cfg.obs o e).1 e d off coll t
        (by rw [← hfwd])
      obtain ⟨he, f1, f2, f3, f4, f5, f6, f7, f8, f9, f10⟩ := this
      exact ⟨o, by rw [he], ho, f1, f2, f3, f4, f5, f6, f7, f8, hm, f9, f10, rfl⟩
  · have := step_no_deliver s op (fun vb e h => hev ⟨vb, e, h⟩) _ h
    simp [isDeliver] at this

/-- the listener context a delivery creates -/
def pendOf (sess : Nat) : Obsv → Option Pending
  | .deliver _ vb _ off _ _ => some ⟨sess, vb, off⟩
  | _ => none

theorem pendOf_of_none {sess : Nat} {out : List Obsv} (h : ∀ x ∈ out, isDeliver x = false) :
    out.filterMap (pendOf sess) = [] := by
  apply List.filterMap_eq_nil_iff.mpr
  intro x hx
  have := h x hx
  cases x <;> simp_all [isDeliver, pendOf]

/-- **contexts are exactly the deliveries**: one step appends one context per
    delivery (vBucket and offset of that delivery, current session number), and the
    delivery's index is the position of that context -/
theorem step_ctxs_deliveries (s : St) (op : Op) :
    (step s op).1.ctxs = s.ctxs ++ (step s op).2.filterMap (pendOf s.sess) ∧
    delivIdx (step s op).2 = List.range' s.ctxs.length ((step s op).2.filterMap (pendOf s.sess)).length := by
  by_cases hev : ∃ vb' e, op = .ev vb' e
  · obtain ⟨vb', e, rfl⟩ := hev
    simp only [step]
    rcases evStep_deliver_cases s vb' e with ⟨hno, hc⟩ | ⟨o, d', off', c', t', ho, hfwd, hm, hout, hc⟩
    · rw [pendOf_of_none hno, delivIdx_of_none hno, hc]; simp
    · rw [hout, hc]; simp [pendOf, delivIdx]
  · have hno := step_no_deliver s op (fun vb e h => hev ⟨vb, e, h⟩)
    have hc : (step s op).1.ctxs = s.ctxs :=
      step_ctxs s (by cases op <;> first | rfl | exact absurd ⟨_, _, rfl⟩ hev)
    rw [pendOf_of_none hno, delivIdx_of_none hno, hc]; simp

theorem range_glue (A B : List Nat) (a : Nat) (hA : A = List.range' a A.length)
    (hB : B = List.range' (a + A.length) B.length) : A ++ B = List.range' a (A ++ B).length := by
  rw [List.length_append, ← List.range'_append_1]
  congr 1

/-- **deliver_indices**: along any run (all ops) the context indices handed out
    are consecutive, starting at the number of contexts that existed before -/
theorem deliver_indices (s : St) (ops : List Op) :
    ((runTrace s ops).2.flatMap delivIdx) =
      List.range' s.ctxs.length ((runTrace s ops).2.flatMap delivIdx).length ∧
    (run s ops).ctxs.length = s.ctxs.length + ((runTrace s ops).2.flatMap delivIdx).length := by
  induction ops generalizing s with
  | nil => simp
  | cons op r ih =>
    obtain ⟨h1, h2⟩ := step_ctxs_deliveries s op
    obtain ⟨i1, i2⟩ := ih (step s op).1
    have hn : (delivIdx (step s op).2).length = ((step s op).2.filterMap (pendOf s.sess)).length := by
      rw [h2]; simp
    have hl : (step s op).1.ctxs.length = s.ctxs.length + (delivIdx (step s op).2).length := by
      rw [h1, hn]; simp
    rw [runTrace_cons, run_cons]
    simp only [List.flatMap_cons]
    constructor
    · apply range_glue
      · rw [hn]; exact h2
      · rw [← hl]; exact i1
    · rw [i2, hl, List.length_append]; omega

/-! ### independence of vBuckets -/

/-- the ops that belong to vBucket `v`: its server events and its persistence reports -/
def ownOp (v : Vb) : Op → Bool
  | .ev vb _ => vb == v
  | .persist vb _ => vb == v
  | _ => false

/-- what the deliveries of `v` depend on -/
def SameFor (v : Vb) (s s' : St) : Prop :=
  s.cfg.obs = s'.cfg.obs ∧ s.obsNil = s'.obsNil ∧ s.observers.get? v = s'.observers.get? v

def traceDelivFullOn (v : Vb) (tr : List (List Obsv)) : List (DocEv × Offset × String × Nat) :=
  tr.flatMap (delivFullOn v)

theorem own_step (v : Vb) (s s' : St) (op : Op) (hown : ownOp v op = true) (h : SameFor v s s') :
    SameFor v (step s op).1 (step s' op).1 ∧ delivFullOn v (step s op).2 = delivFullOn v (step s' op).2 := by
  obtain ⟨hc, hn, ho⟩ := h
  cases op with
  | ev vb e =>
    have hv : vb = v := by simpa [ownOp] using hown
    subst hv
    refine ⟨⟨by simp [hc], by rw [step_obsNil s (by rfl), step_obsNil s' (by rfl)]; exact hn, ?_⟩, ?_⟩
    · simp only [step, evStep_observers, ← ho, ← hc]
      cases h1 : s.observers.get? vb with
      | none => simpa [h1] using ho
      | some o => simp [AMap.get?_set_same]
    · simp only [step, evStep_delivFull, ← ho, ← hc]
  | persist vb q =>
    have hv : vb = v := by simpa [ownOp] using hown
    subst hv
    refine ⟨⟨by simp [hc], ?_, ?_⟩, ?_⟩
    · rw [step_obsNil s (by rfl), step_obsNil s' (by rfl)]; exact hn
    · simp only [step, ← hn, ← ho]
      cases s.obsNil with
      | true => simpa using ho
      | false =>
        simp only [Bool.false_eq_true, if_false]
        cases h1 : s.observers.get? vb with
        | none => rw [h1] at ho; simp [← ho, h1]
        | some o => rw [h1] at ho; simp [AMap.get?_set_same]
    · rw [delivFullOn_of_none (step_no_deliver s _ (by intro vb e h; cases h)),
        delivFullOn_of_none (step_no_deliver s' _ (by intro vb e h; cases h))]
  | _ => simp [ownOp] at hown

/-- a transient reopen of `v` itself: when accepted it sets the branch id of `v`'s observer to the
    current head of the failover log – which depends on more than `v`'s observer (the open flag, the
    presence of a position for `v`, the failover log). The independence theorems below exclude it
    (`deliveries_own_reopen_refuted` shows that they have to). -/
def reopensVb (v : Vb) : Op → Bool
  | .reopen vb => vb == v
  | _ => false

theorem other_step (v : Vb) (s s' : St) (op : Op) (hses : sessionOp op = true) (hown : ownOp v op = false)
    (hre : reopensVb v op = false)
    (h : SameFor v s s') : SameFor v (step s op).1 s' ∧ delivFullOn v (step s op).2 = [] := by
  obtain ⟨hc, hn, ho⟩ := h
  cases op with
  | ev vb e =>
    have hv : vb ≠ v := by simpa [ownOp] using hown
    have hv' : v ≠ vb := fun e => hv e.symm
    refine ⟨⟨by simp [hc], by rw [step_obsNil s (by rfl)]; exact hn, ?_⟩, ?_⟩
    · simp only [step, evStep_observers]
      split
      · exact ho
      · rw [AMap.get?_set_other _ _ _ _ hv']; exact ho
    · simp only [step, evStep_delivFull]
      split
      · rfl
      · generalize (Obs.step s.cfg.obs _ e).2 = out
        cases out with
        | fwd le => cases le <;> simp [delivOfOut, hv]
        | _ => rfl
  | persist vb q =>
    have hv : vb ≠ v := by simpa [ownOp] using hown
    have hv' : v ≠ vb := fun e => hv e.symm
    refine ⟨⟨by simp [hc], by rw [step_obsNil s (by rfl)]; exact hn, ?_⟩,
      delivFullOn_of_none (step_no_deliver s _ (by intro vb e h; cases h))⟩
    simp only [step]
    (repeat' split) <;> first | exact ho | (simp only [AMap.get?_set_other _ _ _ _ hv']; exact ho)
  | «open» => simp [sessionOp] at hses
  | close => simp [sessionOp] at hses
  | crash => simp [sessionOp] at hses
  | rebalance lo hi => simp [sessionOp] at hses
  | reopen vb =>
    have hv : vb ≠ v := by simpa [reopensVb] using hre
    have hv' : v ≠ vb := fun e => hv e.symm
    refine ⟨⟨by simp [hc], by rw [step_obsNil s (by rfl)]; exact hn, ?_⟩,
      delivFullOn_of_none (step_no_deliver s _ (by intro vb e h; cases h))⟩
    simp only [step]
    rcases reopenStream_cases s vb with ⟨_, e⟩ | ⟨_, _, _, _, _, e⟩ <;> rw [e]
    · exact ho
    · simp only [AMap.get?_set_other _ _ _ _ hv']; exact ho
  | _ =>
    exact ⟨⟨by simp [hc], by rw [step_obsNil s (by rfl)]; exact hn, by rw [step_observers s (by rfl)]; exact ho⟩,
      delivFullOn_of_none (step_no_deliver s _ (by intro vb e h; cases h))⟩

/-- **deliveries of `v` depend only on `v`'s own ops**: whatever else happens in
    the session (events of other vBuckets, acknowledgements, saves, failovers, reopens of other
    vBuckets, …), the consumer's view of `v` (event, offset, collection name, event time) is the one
    obtained by running `v`'s server events and persistence reports alone, from
    any state that agrees on `v`'s observer.
    Extra hypothesis since `.reopen` exists: no transient reopen of `v` itself among the ops
    (`hre`) – an accepted reopen re-reads the branch id, which is part of the offsets the consumer
    sees, from state outside `v`'s observer. -/
theorem deliveries_own (v : Vb) (s s' : St) (ops : List Op) (hses : ∀ op ∈ ops, sessionOp op = true)
    (hre : ∀ op ∈ ops, reopensVb v op = false)
    (h : SameFor v s s') :
    traceDelivFullOn v (runTrace s ops).2 = traceDelivFullOn v (runTrace s' (ops.filter (ownOp v))).2 := by
  induction ops generalizing s s' with
  | nil => rfl
  | cons op r ih =>
    have hr : ∀ op ∈ r, sessionOp op = true := fun o ho => hses o (List.mem_cons_of_mem _ ho)
    have hre' : ∀ op ∈ r, reopensVb v op = false := fun o ho => hre o (List.mem_cons_of_mem _ ho)
    cases hown : ownOp v op with
    | true =>
      obtain ⟨h1, h2⟩ := own_step v s s' op hown h
      simp only [List.filter_cons, hown, if_true, runTrace_cons, traceDelivFullOn, List.flatMap_cons, h2]
      congr 1
      exact ih _ _ hr hre' h1
    | false =>
      obtain ⟨h1, h2⟩ := other_step v s s' op (hses op List.mem_cons_self) hown (hre op List.mem_cons_self) h
      simp only [List.filter_cons, hown, Bool.false_eq_true, if_false, runTrace_cons, traceDelivFullOn,
        List.flatMap_cons, h2, List.nil_append]
      exact ih _ _ hr hre' h1

/-- ops on other vBuckets (their server events, persistence reports and transient reopens) -/
def onOther (v : Vb) : Op → Bool
  | .ev vb _ => vb != v
  | .persist vb _ => vb != v
  | .reopen vb => vb != v
  | _ => false

/-- **vbuckets_independent**: delete every op on other vBuckets – the consumer's
    view of `v` is the same. (Extra hypothesis `hre`: no transient reopen of `v` itself, see
    `deliveries_own`.) -/
theorem vbuckets_independent (v : Vb) (s : St) (ops : List Op) (hses : ∀ op ∈ ops, sessionOp op = true)
    (hre : ∀ op ∈ ops, reopensVb v op = false) :
    traceDelivFullOn v (runTrace s ops).2 =
      traceDelivFullOn v (runTrace s (ops.filter fun op => !onOther v op)).2 := by
  have hses' : ∀ op ∈ ops.filter (fun op => !onOther v op), sessionOp op = true :=
    fun op h => hses op (List.mem_filter.mp h).1
  have hre' : ∀ op ∈ ops.filter (fun op => !onOther v op), reopensVb v op = false :=
    fun op h => hre op (List.mem_filter.mp h).1
  have hf : (ops.filter fun op => !onOther v op).filter (ownOp v) = ops.filter (ownOp v) := by
    rw [List.filter_filter]
    apply List.filter_congr
    intro op _
    cases op <;> simp [ownOp, onOther]
  rw [deliveries_own v s s ops hses hre ⟨rfl, rfl, rfl⟩, deliveries_own v s s _ hses' hre' ⟨rfl, rfl, rfl⟩, hf]

/-- two interleavings with the same events of `v` (and no transient reopen of `v`) give the same
    view of `v` -/
theorem vbuckets_independent' (v : Vb) (s : St) (ops₁ ops₂ : List Op)
    (h₁ : ∀ op ∈ ops₁, sessionOp op = true) (h₂ : ∀ op ∈ ops₂, sessionOp op = true)
    (r₁ : ∀ op ∈ ops₁, reopensVb v op = false) (r₂ : ∀ op ∈ ops₂, reopensVb v op = false)
    (hsame : ops₁.filter (ownOp v) = ops₂.filter (ownOp v)) :
    traceDelivFullOn v (runTrace s ops₁).2 = traceDelivFullOn v (runTrace s ops₂).2 := by
  rw [deliveries_own v s s ops₁ h₁ r₁ ⟨rfl, rfl, rfl⟩, deliveries_own v s s ops₂ h₂ r₂ ⟨rfl, rfl, rfl⟩, hsame]

/-- **the extra hypothesis of `deliveries_own` is needed**: after a failover of vBucket 0
    (`.setFlog 0 99` while streaming) a transient reopen of vBucket 0 makes the following delivery
    carry branch id 99; the own ops of vBucket 0 alone (the reopen is not one of them) deliver the
    same event with the branch id the open was answered with (0). -/
theorem deliveries_own_reopen_refuted :
    ∃ (s : St) (ops : List Op), (∀ op ∈ ops, sessionOp op = true) ∧
      traceDelivFullOn 0 (runTrace s ops).2 ≠ traceDelivFullOn 0 (runTrace s (ops.filter (ownOp 0))).2 :=
  ⟨run { cfg := { lo := 0, hi := 0 } } [.open, .setFlog 0 99, .ev 0 (.marker 1 5)],
   [.reopen 0, .ev 0 (.doc ⟨.mu, 1, 0, "61", 0, "a"⟩)], by decide, by decide⟩

/-- non-vacuity of `deliver_eq_filter` and `vbuckets_independent`: two vBuckets
    interleaved with an acknowledgement, a save, a failover and a transient reopen of the other
    vBucket and a reserved-key document -/
example :
    let s0 : St := { cfg := { lo := 0, hi := 1 } }
    let s : St := (step s0 .open).1
    let ops : List Op := [.ev 0 (.marker 1 5), .ev 1 (.marker 1 5),
      .ev 0 (.doc ⟨.mu, 1, 0, "61", 0, "a"⟩), .ev 1 (.doc ⟨.mu, 1, 0, "62", 0, "b"⟩), .ack 0, .save .ok,
      .setFlog 1 7, .reopen 1,
      .ev 0 (.doc ⟨.mu, 2, 0, "5f74786e3a61", 0, ""⟩), .ev 0 (.doc ⟨.de, 3, 0, "63", 0, ""⟩)]
    ObsReady 0 none s ∧ WF none (evsOn 0 ops) = true ∧
    (∀ op ∈ ops, sessionOp op = true) ∧ (∀ op ∈ ops, reopensVb 0 op = false) ∧
    evsOn 0 (ops.filter fun op => !onOther 0 op) = evsOn 0 ops := by
  refine ⟨⟨{ latest := maxU64 }, by decide, rfl, rfl, rfl⟩, by decide, by decide, by decide, by decide⟩

/-- **skipUntil with a sub-second part.**  The observer compares `time.Unix(cas / 10^9, 0)` – whole seconds `e` – with the
configured instant `S` s + `N` ns (`N < 10^9`): `e·10^9 < S·10^9 + N` holds exactly when `e < S + 1` for `N > 0` and when `e < S`
for `N = 0`.  The model's whole-second `skipUntil` is therefore the ceiling of the configured instant (the driver applies it); a
configuration layer that truncated the instant instead would deliver the events of second `S`. -/
theorem skipUntil_subsecond_ceil (e S N : Nat) (hN : N < 1000000000) :
    (e * 1000000000 < S * 1000000000 + N) ↔ e < S + (if 0 < N then 1 else 0) := by
  split <;> omega

end GoDcp.C03
