import GoDcp.Proofs.SessionLemmas
import GoDcp.Props.C02Codec
import GoDcp.Driver.ReadOnly
/-!
# C02, last clause: "in read-only metadata mode loads are identical while nothing is ever written"

For EVERY history of the session model (`Model/Session.lean`: open, events, acknowledgements, whole saves and the
micro steps of concurrent saves with any store answer, close, crash, rebalance, reopen …) – lifted from the
per-call lemmas `readonly_never_writes` / `load_ignores_readonly` of `Props/C02Codec` by induction over the ops.
`setStore` is the environment writing the store from outside; it is excluded where the statement speaks about
what the library writes.  Stream `c02ro` ties the configuration switch to the real `dcp.Start()` for every back end,
also one installed through `Dcp.SetMetadata`.
-/
namespace GoDcp
open GoDcp.Driver.ROd

/-- the op is not the environment's own write -/
def Op.isSetStore : Op → Bool
  | .setStore _ _ => true
  | _ => false

/-- one step in read-only mode never changes the store -/
theorem readonly_step_store (s : St) (op : Op) (hro : s.cfg.readOnly = true) (hop : op.isSetStore = false) :
    (step s op).1.store = s.store := by
  by_cases ht : op.touchesStore = false
  · exact step_store s ht
  · cases op <;> simp [Op.touchesStore] at ht
    case setStore vb d => simp [Op.isSetStore] at hop
    case save res =>
      simp only [step]
      rw [saveAll_eq]
      (repeat' split) <;> simp [mdWrite_readOnly hro]
    case svStore k res =>
      simp only [step, svStore]
      (repeat' split) <;> simp_all [mdWrite_readOnly hro]

/-- **readonly_store_unchanged**: with `metadata.readOnly` the store after ANY history equals the store before it -/
theorem readonly_store_unchanged (s : St) (ops : List Op) (hro : s.cfg.readOnly = true)
    (hops : ∀ op ∈ ops, op.isSetStore = false) : (run s ops).store = s.store := by
  induction ops generalizing s with
  | nil => rfl
  | cons op rest ih =>
    show (run (step s op).1 rest).store = s.store
    rw [ih (step s op).1 (by rw [step_cfg_readOnly]; exact hro) (fun o ho => hops o (List.mem_cons_of_mem _ ho)),
      readonly_step_store s op hro (hops op (List.mem_cons_self ..))]

/-- `checkpoint.Load` does not look at the read-only switch (the wrapper delegates `Load`) -/
theorem load_ignores_readOnly (s : St) (b : Bool) : load { s with cfg := { s.cfg with readOnly := b } } = load s := rfl

/-- … so a session opens identically with and without it: same requests, same positions -/
theorem open_ignores_readOnly (s : St) (b : Bool) :
    (openSession { s with cfg := { s.cfg with readOnly := b } }).2 = (openSession s).2 := by
  unfold openSession
  by_cases ho : s.isOpen = true
  · simp [ho]
  · simp only [ho, Bool.false_eq_true, if_false]
    split
    · rename_i h1
      split
      · rfl
      · rename_i h2
        exact absurd (h1.symm.trans h2) (by simp)
    · rename_i h1
      split
      · rename_i h2
        exact absurd (h2.symm.trans h1) (by simp)
      · rename_i h2
        have := Option.some.inj (h1.symm.trans h2)
        simp only [Prod.mk.injEq] at this
        obtain ⟨rfl, rfl, rfl⟩ := this
        rfl

/-- ops that change what `load` reads besides the store: high seqnos, failover logs, the assigned range -/
def Op.touchesLoadEnv : Op → Bool
  | .setStore _ _ | .setHigh _ _ | .setFlog _ _ | .rebalance _ _ => true
  | _ => false

/-- **readonly_load_identical**: in read-only mode, after ANY history of the library (the environment left high seqnos,
    failover logs and the assignment alone) a restart loads exactly what it would have loaded before that history – and
    that is what it loads without the switch: the checkpoint is frozen -/
theorem readonly_load_identical (s : St) (ops : List Op) (hro : s.cfg.readOnly = true)
    (hops : ∀ op ∈ ops, op.touchesLoadEnv = false) :
    load (run s ops) = load s ∧ load (run s ops) = load { s with cfg := { s.cfg with readOnly := false } } := by
  have hstore : (run s ops).store = s.store :=
    readonly_store_unchanged s ops hro (fun op ho => by
      have := hops op ho
      cases op <;> simp_all [Op.touchesLoadEnv, Op.isSetStore])
  have hrest : (run s ops).cfg = s.cfg ∧ (run s ops).high = s.high ∧ (run s ops).flog = s.flog := by
    clear hstore hro
    induction ops generalizing s with
    | nil => exact ⟨rfl, rfl, rfl⟩
    | cons op rest ih =>
      have hop := hops op (List.mem_cons_self ..)
      obtain ⟨h1, h2, h3⟩ := ih (step s op).1 (fun o ho => hops o (List.mem_cons_of_mem _ ho))
      show (run (step s op).1 rest).cfg = _ ∧ (run (step s op).1 rest).high = _ ∧ (run (step s op).1 rest).flog = _
      rw [h1, h2, h3]
      refine ⟨?_, ?_, ?_⟩
      · rcases step_cfg_cases s op with h | ⟨lo, hi, rfl, _⟩
        · exact h
        · simp [Op.touchesLoadEnv] at hop
      · exact step_high s (by cases op <;> simp_all [Op.touchesLoadEnv, Op.touchesHigh])
      · exact step_flog s (by cases op <;> simp_all [Op.touchesLoadEnv, Op.touchesFlog])
  have h1 : load (run s ops) = load s := load_congr hrest.1 hstore hrest.2.1 hrest.2.2
  exact ⟨h1, h1.trans (load_ignores_readOnly s false).symm⟩

/-- the contrast (non-vacuity of the switch): without it an acknowledged position is written by a successful save -/
example :
    let c : Case := { ro := false, be := "custom", auto := false, pre := [(0, ⟨5, 10, 10, 10⟩)], evs := [(0, 11, true)] }
    (predict c).changed = true ∧ (predict c).saves = "1" ∧
    (predict { c with ro := true }).changed = false ∧ (predict { c with ro := true }).saves = "0" ∧
    (predict { c with ro := true }).opened = (predict c).opened ∧
    (predict { c with ro := true }).resumed = (predict c).opened := by
  decide

/-- **roCheck_model**: the model's own observation passes the monitor of stream `c02ro` -/
theorem roCheck_model (c : Case) : check c (predict c) (showPred (predict c)) = none := by
  simp [check]

end GoDcp
