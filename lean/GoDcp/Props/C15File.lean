import GoDcp.Props.C15
/-!
# C15 — the FILE metadata back end with its file present

`fileMetadata.Load` (metadata/file_metadata.go l.31-52) hands back the file's whole map, whatever vBuckets it
names; the assignment is only consulted when the file is missing.  `Startup.startFile` (Model/Startup.lean) is
that code path, `Startup.startAny` the start-up decision for every back end.

* `file_partial_basis_failstop` / `_class`: an assigned vBucket the file does not name never leaves a running
  session (`openStream`'s "not found on offset map" → panic) – the only back-stop of the clause "never runs a
  session that silently covers only part of its assignment" for this back end.
* `file_running_covers_assignment`: a running session has requested exactly the assigned vBuckets, each from the
  tuple the file stores for it.
* `file_unassigned_ahead_failstop` / `_class`: a stored vBucket – assigned or NOT – whose seqno lies beyond the
  high seqno `checkpoint.Load` saw (absent from the answer = 0) is a fail-stop "checkpoint-ahead".
* `startFile_eq_start`: when the file names every assigned vBucket and no unassigned entry is ahead,
  `startFile c = start c`: every theorem of Props/C15 about `start` then speaks about the file back end too.
* `startAny_session_complete_or_dead`, `startAny_running_start_reachable`: the C15 statement over `startAny`.
* observation (no violation): `file_unassigned_zero_invisible` + `file_offsets_name_every_stored_vbucket` – an extra
  unassigned entry with seqno 0 changes nothing about the verdict, and the session's offset map (and observer
  map) then contains a vBucket outside the assignment.
-/
namespace GoDcp.Startup
open GoDcp

/-! ## association lists -/

theorem get?_isSome_iff_mem_keys {α : Type} (m : AMap α) (x : Vb) :
    (AMap.get? m x).isSome = true ↔ x ∈ m.map (·.1) := by
  induction m with
  | nil => simp [AMap.get?]
  | cons h t ih =>
    obtain ⟨k, v⟩ := h
    by_cases hk : k = x
    · simp [AMap.get?, hk]
    · simp only [AMap.get?, hk, if_false, List.map_cons, List.mem_cons]
      rw [ih]
      constructor
      · intro h; exact Or.inr h
      · intro h
        rcases h with h | h
        · exact absurd h.symm hk
        · exact h

theorem has_iff_mem_keys {α : Type} (m : AMap α) (x : Vb) : m.has x = true ↔ x ∈ m.map (·.1) :=
  get?_isSome_iff_mem_keys m x

theorem get?_map_key {α : Type} (l : List Vb) (g : Vb → α) (x : Vb) :
    AMap.get? (l.map fun k => (k, g k)) x = if x ∈ l then some (g x) else none := by
  induction l with
  | nil => simp [AMap.get?]
  | cons k t ih =>
    by_cases hk : k = x
    · subst hk; simp [AMap.get?]
    · have hk' : ¬ x = k := fun h => hk h.symm
      simp only [List.map_cons, AMap.get?, hk, if_false, List.mem_cons, hk', false_or]
      exact ih

/-! ## `loadFile` -/

theorem seenHigh_eq_highOf (s : St) (vb : Vb) : seenHigh s vb = highOf s vb := rfl

/-- the offset map `loadFile` builds names exactly the vBuckets of the file -/
theorem loadFile_has (s : St) (offs : AMap Offset) (h : loadFile s = some offs) (vb : Vb) :
    offs.has vb = s.store.has vb := by
  unfold loadFile at h
  split at h
  · exact absurd h (by simp)
  · injection h with h
    subst h
    have h1 := has_iff_mem_keys ((fileKeys s).map fun vb => (vb, (fileDoc s vb).toOffset (initLatest s.cfg.finite (seenHigh s vb)))) vb
    have h2 := has_iff_mem_keys s.store vb
    rw [List.map_map] at h1
    have h3 : (List.map ((fun (x : Vb × Offset) => x.1) ∘ fun vb => (vb, (fileDoc s vb).toOffset (initLatest s.cfg.finite (seenHigh s vb)))) (fileKeys s))
        = fileKeys s := by
      simp [Function.comp_def]
    rw [h3] at h1
    unfold fileKeys at h1
    cases ha : AMap.has (List.map (fun vb => (vb, (fileDoc s vb).toOffset (initLatest s.cfg.finite (seenHigh s vb)))) (fileKeys s)) vb <;>
      cases hb : AMap.has s.store vb <;> simp_all [fileKeys]

/-- and holds, for each of them, the stored tuple -/
theorem loadFile_get? (s : St) (offs : AMap Offset) (h : loadFile s = some offs) (vb : Vb) (d : Doc)
    (hst : s.store.get? vb = some d) :
    offs.get? vb = some (d.toOffset (initLatest s.cfg.finite (seenHigh s vb))) := by
  unfold loadFile at h
  split at h
  · exact absurd h (by simp)
  · injection h with h
    subst h
    rw [get?_map_key]
    have hm : vb ∈ fileKeys s := by
      unfold fileKeys
      rw [← get?_isSome_iff_mem_keys, hst]; rfl
    simp [hm, fileDoc, hst]

/-- `loadFile` returns iff no stored vBucket is ahead of what was seen -/
theorem loadFile_isSome_iff (s : St) :
    (loadFile s).isSome = true ↔ ∀ vb ∈ fileKeys s, (fileDoc s vb).seq ≤ seenHigh s vb := by
  unfold loadFile
  split
  · rename_i h
    rw [List.any_eq_true] at h
    obtain ⟨vb, hvb, hgt⟩ := h
    constructor
    · intro h'; exact absurd h' (by simp)
    · intro h'
      have := h' vb hvb
      have hgt' : (fileDoc s vb).seq > seenHigh s vb := by simpa using hgt
      omega
  · rename_i h
    constructor
    · intro _ vb hvb
      have := List.any_eq_false.mp (Bool.eq_false_iff.mpr h) vb hvb
      simpa using this
    · intro _; rfl

/-- a stored vBucket beyond its seen high seqno makes `checkpoint.Load` panic – assigned or not -/
theorem loadFile_ahead_none (s : St) (vb : Vb) (d : Doc) (hst : s.store.get? vb = some d)
    (hahead : d.seq > seenHigh s vb) : loadFile s = none := by
  cases hl : loadFile s with
  | none => rfl
  | some offs =>
    have hs : (loadFile s).isSome = true := by rw [hl]; rfl
    have hm : vb ∈ fileKeys s := by
      unfold fileKeys
      rw [← get?_isSome_iff_mem_keys, hst]; rfl
    have := (loadFile_isSome_iff s).mp hs vb hm
    simp only [fileDoc, hst, Option.getD_some] at this
    omega

/-! ## `startFile` -/

/-- what a running session behind an existing file implies about every guard on the way -/
theorem startFile_running_inv (c : Case) (offs : List (Vb × Offset)) (h : startFile c = .running offs) :
    knownMetadata c.metaType = true ∧ knownMembership c.memberType = true ∧ c.loadErr = false ∧
    c.seq ≠ .errPropagated ∧
    ∃ fo, loadFile (seenState c) = some fo ∧
      (vbRange c.st.cfg).any (fun vb => !fo.has vb) = false ∧
      (vbRange c.st.cfg).any c.openErr.contains = false ∧
      (vbRange c.st.cfg).any (fun vb => c.ended.contains vb && c.reopenErr.contains vb) = false ∧
      offs = (vbRange c.st.cfg).map fun vb => (vb, (fo.get? vb).getD noOffset) := by
  unfold startFile at h
  by_cases h1 : knownMetadata c.metaType = true
  case neg => simp [h1] at h
  by_cases h2 : knownMembership c.memberType = true
  case neg => simp [h1, h2] at h
  by_cases h3 : c.loadErr = true
  case pos => simp [h1, h2, h3] at h
  by_cases h4 : c.seq = .errPropagated
  case pos => simp [h1, h2, h3, h4] at h
  simp only [h1, h2, h3, h4, Bool.not_true, Bool.false_eq_true, if_false, seenState_cfg] at h
  cases hl : loadFile (seenState c) with
  | none => rw [hl] at h; exact absurd h (by simp)
  | some fo =>
    rw [hl] at h
    simp only at h
    by_cases h5 : ((vbRange c.st.cfg).any fun vb => !fo.has vb) = true
    · rw [if_pos h5] at h; exact absurd h (by simp)
    · rw [if_neg h5] at h
      by_cases h6 : ((vbRange c.st.cfg).any c.openErr.contains) = true
      · rw [if_pos h6] at h; exact absurd h (by simp)
      · rw [if_neg h6] at h
        by_cases h7 : ((vbRange c.st.cfg).any fun vb => c.ended.contains vb && c.reopenErr.contains vb) = true
        · rw [if_pos h7] at h; exact absurd h (by simp)
        · rw [if_neg h7] at h
          injection h with h
          exact ⟨h1, h2, by simpa using h3, h4, fo, rfl, by simpa using h5, by simpa using h6, by simpa using h7, h.symm⟩

theorem fileExists_known (c : Case) (hf : fileExists c = true) : knownMetadata c.metaType = true := by
  unfold fileExists at hf
  unfold knownMetadata
  have : (c.metaType == "file") = true := by
    cases h : (c.metaType == "file") <;> simp_all
  simp [this]

theorem startAny_file (c : Case) (hf : fileExists c = true) : startAny c = startFile c := by
  simp [startAny, hf]

theorem startAny_nofile (c : Case) (hf : fileExists c = false) : startAny c = start c := by
  simp [startAny, hf]

/-- **file_partial_basis_failstop**: the file exists and does not name some assigned vBucket (a group that was
    resized between two runs, a hand-edited file) → start-up never reaches a running session -/
theorem file_partial_basis_failstop (c : Case) (hf : fileExists c = true) (vb : Vb)
    (hvb : vb ∈ vbRange c.st.cfg) (hmiss : c.st.store.has vb = false) : ∀ offs, startAny c ≠ .running offs := by
  intro offs hr
  rw [startAny_file c hf] at hr
  obtain ⟨_, _, _, _, fo, hl, hno, _⟩ := startFile_running_inv c offs hr
  have := List.any_eq_false.mp hno vb hvb
  rw [loadFile_has _ _ hl vb, seenState_store, hmiss] at this
  simp at this

/-- … and it ends with the class of `openAllStreams`' panic when nothing on the way there fails first
    (what stream c15w observes: `exit-fail:open-error`) -/
theorem file_partial_basis_class (c : Case) (hf : fileExists c = true)
    (hb : knownMembership c.memberType = true) (hl : c.loadErr = false) (hs : c.seq ≠ .errPropagated)
    (hok : (loadFile (seenState c)).isSome = true)
    (vb : Vb) (hvb : vb ∈ vbRange c.st.cfg) (hmiss : c.st.store.has vb = false) :
    startAny c = .fail "open-error" := by
  rw [startAny_file c hf]
  have hm := fileExists_known c hf
  cases hlf : loadFile (seenState c) with
  | none => rw [hlf] at hok; exact absurd hok (by simp)
  | some fo =>
    have hany : ((vbRange c.st.cfg).any fun vb => !fo.has vb) = true := by
      rw [List.any_eq_true]
      refine ⟨vb, hvb, ?_⟩
      rw [loadFile_has _ _ hlf vb, seenState_store, hmiss]; rfl
    unfold startFile
    simp only [hm, hb, hl, hs, Bool.not_true, Bool.false_eq_true, if_false, seenState_cfg, hlf, hany, if_true]

/-- **file_running_covers_assignment**: behind an existing file a running session has requested exactly the
    assigned vBuckets, in order, each from the tuple the file stores for it (end seqno from the mode) -/
theorem file_running_covers_assignment (c : Case) (hf : fileExists c = true) (offs : List (Vb × Offset))
    (h : startAny c = .running offs) :
    offs.map (·.1) = vbRange c.st.cfg ∧
    ∀ p ∈ offs, ∃ d, c.st.store.get? p.1 = some d ∧
      p.2 = d.toOffset (initLatest c.st.cfg.finite (seenHigh (seenState c) p.1)) := by
  rw [startAny_file c hf] at h
  obtain ⟨_, _, _, _, fo, hl, hno, _, _, rfl⟩ := startFile_running_inv c offs h
  constructor
  · simp [List.map_map, Function.comp_def]
  · intro p hp
    rw [List.mem_map] at hp
    obtain ⟨vb, hvb, rfl⟩ := hp
    have hhas := List.any_eq_false.mp hno vb hvb
    rw [loadFile_has _ _ hl vb, seenState_store] at hhas
    have hsome : (c.st.store.get? vb).isSome = true := by
      have : c.st.store.has vb = true := by simpa using hhas
      exact this
    cases hst : c.st.store.get? vb with
    | none => rw [hst] at hsome; exact absurd hsome (by simp)
    | some d =>
      refine ⟨d, rfl, ?_⟩
      have := loadFile_get? (seenState c) fo hl vb d (by rw [seenState_store]; exact hst)
      simp only [this, Option.getD_some, seenState_cfg]

/-- **file_unassigned_ahead_failstop**: a vBucket the file names – assigned OR NOT – whose stored seqno lies
    beyond the high seqno `checkpoint.Load` saw for it (absent from the answer, e.g. a vBucket the bucket does not
    have: 0) never leaves a running session -/
theorem file_unassigned_ahead_failstop (c : Case) (hf : fileExists c = true) (vb : Vb) (d : Doc)
    (hst : c.st.store.get? vb = some d) (hahead : d.seq > seenHigh (seenState c) vb) :
    ∀ offs, startAny c ≠ .running offs := by
  intro offs hr
  rw [startAny_file c hf] at hr
  obtain ⟨_, _, _, _, fo, hl, _⟩ := startFile_running_inv c offs hr
  have := loadFile_ahead_none (seenState c) vb d (by rw [seenState_store]; exact hst) hahead
  rw [this] at hl
  exact absurd hl (by simp)

/-- … with the class of the checkpoint guard when the earlier guards pass (`exit-fail:checkpoint-ahead`) -/
theorem file_unassigned_ahead_class (c : Case) (hf : fileExists c = true)
    (hb : knownMembership c.memberType = true) (hl : c.loadErr = false) (hs : c.seq ≠ .errPropagated)
    (vb : Vb) (d : Doc) (hst : c.st.store.get? vb = some d) (hahead : d.seq > seenHigh (seenState c) vb) :
    startAny c = .fail "checkpoint-ahead" := by
  rw [startAny_file c hf]
  have hm := fileExists_known c hf
  have hn := loadFile_ahead_none (seenState c) vb d (by rw [seenState_store]; exact hst) hahead
  unfold startFile
  simp only [hm, hb, hl, hs, Bool.not_true, Bool.false_eq_true, if_false, hn]

/-! ## `startFile` against `start` -/

/-- `load` outside the auto-reset branch -/
theorem load_not_latest (s : St) (h : latestBranch s = false) : load s =
    if (mdLoad s).1.any (fun p => decide (p.2.seq > highOf s p.1)) = true then none
    else some ((mdLoad s).1.map (fun p => (p.1, p.2.toOffset (initLatest s.cfg.finite (highOf s p.1)))), [], false) := by
  rw [load_eq]
  unfold latestBranch at h
  rw [h]
  simp

/-- an empty assignment: `load` hands back nothing in either branch -/
theorem load_empty (s : St) (h : vbRange s.cfg = []) : ∃ d a, load s = some ([], d, a) := by
  rw [load_eq]
  have h1 : (mdLoad s).1 = [] := by simp [mdLoad, h]
  rw [h1]
  split
  · exact ⟨_, _, rfl⟩
  · simp

theorem mdLoad_docs (s : St) : (mdLoad s).1 = (vbRange s.cfg).map fun vb => (vb, fileDoc s vb) := rfl

/-- **startFile_eq_start**: when the file names every assigned vBucket and no stored entry OUTSIDE the assignment
    is ahead of the seen high seqnos, the file back end decides exactly like `start`
    (so every theorem of Props/C15 about `start` transfers to such a case) -/
theorem startFile_eq_start (c : Case)
    (hall : ∀ vb ∈ vbRange c.st.cfg, c.st.store.has vb = true)
    (hno : ∀ vb ∈ fileKeys c.st, vb ∉ vbRange c.st.cfg → (fileDoc c.st vb).seq ≤ seenHigh (seenState c) vb) :
    startFile c = start c := by
  unfold startFile start
  by_cases h1 : knownMetadata c.metaType = true
  case neg => simp [h1]
  by_cases h2 : knownMembership c.memberType = true
  case neg => simp [h1, h2]
  by_cases h3 : c.loadErr = true
  case pos => simp [h1, h2, h3]
  by_cases h4 : c.seq = .errPropagated
  case pos => simp [h1, h2, h3, h4]
  simp only [h1, h2, h3, h4, Bool.not_true, Bool.false_eq_true, if_false, seenState_cfg]
  -- abbreviations
  have hstore := seenState_store c
  have hcfg := seenState_cfg c
  have hkeys : fileKeys (seenState c) = fileKeys c.st := by unfold fileKeys; rw [hstore]
  have hdoc : ∀ vb, fileDoc (seenState c) vb = fileDoc c.st vb := by intro vb; unfold fileDoc; rw [hstore]
  by_cases hemp : vbRange c.st.cfg = []
  · -- nothing assigned: both run an empty session
    obtain ⟨d, a, hle⟩ := load_empty (seenState c) (by rw [hcfg]; exact hemp)
    have hlf : (loadFile (seenState c)).isSome = true := by
      rw [loadFile_isSome_iff]
      intro vb hvb
      rw [hdoc]
      exact hno vb (by rw [← hkeys]; exact hvb) (by rw [hemp]; simp)
    cases hlf' : loadFile (seenState c) with
    | none => rw [hlf'] at hlf; exact absurd hlf (by simp)
    | some fo => simp [hle, hemp]
  · -- a non-empty assignment whose every vBucket is stored: `exist` is up, never the auto-reset branch
    have hex : (mdLoad (seenState c)).2 = true := by
      obtain ⟨vb, hvb⟩ := List.exists_mem_of_ne_nil _ hemp
      simp only [mdLoad, List.any_eq_true]
      exact ⟨vb, by rw [hcfg]; exact hvb, by rw [hstore]; exact hall vb hvb⟩
    have hlat : latestBranch (seenState c) = false := by simp [latestBranch, hex]
    rw [hlat, load_not_latest _ hlat, mdLoad_docs, hcfg]
    simp only [Bool.false_and, Bool.false_eq_true, if_false]
    by_cases hahead : ((vbRange c.st.cfg).map fun vb => (vb, fileDoc (seenState c) vb)).any
        (fun p => decide (p.2.seq > highOf (seenState c) p.1)) = true
    · -- an assigned vBucket is ahead: both panic in `checkpoint.Load`
      rw [if_pos hahead]
      rw [List.any_map, List.any_eq_true] at hahead
      obtain ⟨vb, hvb, hgt⟩ := hahead
      have hgt' : (fileDoc (seenState c) vb).seq > seenHigh (seenState c) vb := by
        simpa [seenHigh, highOf] using hgt
      have hsome : (c.st.store.get? vb).isSome = true := hall vb hvb
      cases hst : c.st.store.get? vb with
      | none => rw [hst] at hsome; exact absurd hsome (by simp)
      | some d =>
        have hn := loadFile_ahead_none (seenState c) vb d (by rw [hstore]; exact hst)
          (by simpa [fileDoc, hstore, hst] using hgt')
        rw [hn]
    · rw [if_neg hahead]
      have hahead' := Bool.eq_false_iff.mpr hahead
      rw [List.any_map] at hahead'
      have hlf : (loadFile (seenState c)).isSome = true := by
        rw [loadFile_isSome_iff]
        intro vb hvb
        by_cases hin : vb ∈ vbRange c.st.cfg
        · have := List.any_eq_false.mp hahead' vb hin
          simpa [seenHigh_eq_highOf] using this
        · rw [hdoc]
          exact hno vb (by rw [← hkeys]; exact hvb) hin
      cases hlf' : loadFile (seenState c) with
      | none => rw [hlf'] at hlf; exact absurd hlf (by simp)
      | some fo =>
        simp only
        have hmissF : ((vbRange c.st.cfg).any fun vb => !fo.has vb) = false := by
          rw [List.any_eq_false]
          intro vb hvb
          rw [loadFile_has _ _ hlf' vb, hstore, hall vb hvb]
          simp
        have hreq : ((vbRange c.st.cfg).map fun vb => (vb, (fo.get? vb).getD noOffset)) =
            ((vbRange c.st.cfg).map fun vb => (vb, fileDoc (seenState c) vb)).map
              (fun p => (p.1, p.2.toOffset (initLatest c.st.cfg.finite (highOf (seenState c) p.1)))) := by
          rw [List.map_map]
          apply List.map_congr_left
          intro vb hvb
          have hsome : (c.st.store.get? vb).isSome = true := hall vb hvb
          cases hst : c.st.store.get? vb with
          | none => rw [hst] at hsome; exact absurd hsome (by simp)
          | some d =>
            have := loadFile_get? (seenState c) fo hlf' vb d (by rw [hstore]; exact hst)
            simp [this, fileDoc, hstore, hst, seenHigh_eq_highOf, hcfg]
        rw [hmissF, ← hreq]
        simp only [Bool.false_eq_true, if_false, List.any_map, Function.comp_def]

/-! ## the C15 statement over `startAny` -/

/-- **startAny_session_complete_or_dead**: whatever the back end, a running session has an accepted stream
    request for EVERY assigned vBucket – and for no other – and no assigned vBucket's request was refused -/
theorem startAny_session_complete_or_dead (c : Case) (offs : List (Vb × Offset)) (h : startAny c = .running offs) :
    offs.map (·.1) = vbRange c.st.cfg ∧ ∀ vb ∈ vbRange c.st.cfg, vb ∉ c.openErr := by
  by_cases hf : fileExists c = true
  · rw [startAny_file c hf] at h
    obtain ⟨_, _, _, _, fo, _, _, hoe, _, rfl⟩ := startFile_running_inv c offs h
    constructor
    · simp [List.map_map, Function.comp_def]
    · intro vb hvb hin
      have := List.any_eq_false.mp hoe vb hvb
      simp at this
      exact this hin
  · rw [startAny_nofile c (by simpa using hf)] at h
    exact session_complete_or_dead c offs h

/-- **startAny_running_start_reachable**: and it never requests a stream from a position the server has not reached -/
theorem startAny_running_start_reachable (c : Case) (offs : List (Vb × Offset)) (h : startAny c = .running offs) :
    ∀ p ∈ offs, p.2.seq ≤ trueHigh c p.1 := by
  by_cases hf : fileExists c = true
  · intro p hp
    obtain ⟨_, hreq⟩ := file_running_covers_assignment c hf offs h
    obtain ⟨d, hst, hp2⟩ := hreq p hp
    rw [startAny_file c hf] at h
    obtain ⟨_, _, _, _, fo, hl, _⟩ := startFile_running_inv c offs h
    have hs : (loadFile (seenState c)).isSome = true := by rw [hl]; rfl
    have hm : p.1 ∈ fileKeys (seenState c) := by
      unfold fileKeys
      rw [seenState_store, ← get?_isSome_iff_mem_keys, hst]; rfl
    have hle := (loadFile_isSome_iff _).mp hs p.1 hm
    have hd : (fileDoc (seenState c) p.1).seq = p.2.seq := by
      simp [fileDoc, seenState_store, hst, hp2, Doc.toOffset]
    rw [hd] at hle
    exact Nat.le_trans hle (seen_high_le_true c p.1)
  · rw [startAny_nofile c (by simpa using hf)] at h
    exact running_start_reachable c offs h

/-- any stream-request refusal on an assigned vBucket is fatal for every back end -/
theorem startAny_openAll_any_error_failstop (c : Case) (h : ∃ vb ∈ vbRange c.st.cfg, vb ∈ c.openErr) :
    ∀ offs, startAny c ≠ .running offs := by
  intro offs hr
  obtain ⟨vb, hvb, hin⟩ := h
  exact (startAny_session_complete_or_dead c offs hr).2 vb hvb hin

/-! ## observation (no violation): entries outside the assignment -/

/-- **file_unassigned_zero_invisible**: entries of vBuckets outside the assignment with stored seqno 0 never
    change the verdict: with every assigned vBucket named, the file back end decides like `start` -/
theorem file_unassigned_zero_invisible (c : Case)
    (hall : ∀ vb ∈ vbRange c.st.cfg, c.st.store.has vb = true)
    (hzero : ∀ vb ∈ fileKeys c.st, vb ∉ vbRange c.st.cfg → (fileDoc c.st vb).seq = 0) :
    startFile c = start c :=
  startFile_eq_start c hall (fun vb hvb hout => by rw [hzero vb hvb hout]; exact Nat.zero_le _)

/-- **file_offsets_name_every_stored_vbucket**: … but the session that then runs carries an offset (and an observer,
    stream.go l.236-246) for EVERY vBucket of the file – also for one outside the assignment: it shows up in
    `GetOffsets`, is written back by the next save and is walked by `closeAllStreams` -/
theorem file_offsets_name_every_stored_vbucket (c : Case) (hf : fileExists c = true) (offs : List (Vb × Offset))
    (h : startAny c = .running offs) (vb : Vb) (hvb : vb ∈ fileKeys c.st) :
    (fileSessionOffsets c).has vb = true := by
  rw [startAny_file c hf] at h
  obtain ⟨_, _, _, _, fo, hl, _⟩ := startFile_running_inv c offs h
  unfold fileSessionOffsets
  rw [hl]
  simp only [Option.getD_some]
  rw [loadFile_has _ _ hl vb, seenState_store]
  exact (has_iff_mem_keys _ _).mpr hvb

/-! ## non-vacuity (the replayed cases of stream c15w, group `file-partial`) -/

/-- vBucket 1 of 0..2 is not in the file: real `exit-fail:open-error` (the old model said `running`) -/
example : startAny
    { metaType := "file", memberType := "static",
      st := { cfg := { lo := 0, hi := 2 }, store := [(0, ⟨5, 651, 1, 652⟩), (2, ⟨5, 444, 1, 445⟩)],
              high := [(0, 652), (1, 673), (2, 445)] } } = .fail "open-error" := by decide
example : start
    { metaType := "file", memberType := "static",
      st := { cfg := { lo := 0, hi := 2 }, store := [(0, ⟨5, 651, 1, 652⟩), (2, ⟨5, 444, 1, 445⟩)],
              high := [(0, 652), (1, 673), (2, 445)] } } =
    .running [(0, ⟨5, 651, 1, 652, maxU64⟩), (1, ⟨0, 0, 0, 0, maxU64⟩), (2, ⟨5, 444, 1, 445, maxU64⟩)] := by decide
/-- an extra entry for vBucket 3 (the bucket has 0..2) with seqno 1: `checkpoint-ahead` -/
example : startAny
    { metaType := "file", memberType := "static",
      st := { cfg := { lo := 0, hi := 1 }, store := [(0, ⟨5, 3, 1, 4⟩), (1, ⟨5, 4, 1, 5⟩), (3, ⟨5, 1, 1, 1⟩)],
              high := [(0, 10), (1, 10)] } } = .fail "checkpoint-ahead" := by decide
/-- the same entry with seqno 0: running on the assignment, vBucket 3 sits in the offset map -/
example : startAny
    { metaType := "file", memberType := "static",
      st := { cfg := { lo := 0, hi := 1 }, store := [(0, ⟨5, 3, 1, 4⟩), (1, ⟨5, 4, 1, 5⟩), (3, ⟨5, 0, 0, 0⟩)],
              high := [(0, 10), (1, 10)] } } = .running [(0, ⟨5, 3, 1, 4, maxU64⟩), (1, ⟨5, 4, 1, 5, maxU64⟩)] := by decide
example : (fileSessionOffsets
    { metaType := "file", memberType := "static",
      st := { cfg := { lo := 0, hi := 1 }, store := [(0, ⟨5, 3, 1, 4⟩), (1, ⟨5, 4, 1, 5⟩), (3, ⟨5, 0, 0, 0⟩)],
              high := [(0, 10), (1, 10)] } }).has 3 = true ∧
    3 ∉ vbRange ({ lo := 0, hi := 1 } : Cfg) := by decide
/-- only entries outside the assignment, auto-reset latest: the file exists, so no reset – `open-error` -/
example : startAny
    { metaType := "file", memberType := "static",
      st := { cfg := { lo := 0, hi := 1, resetLatest := true }, store := [(5, ⟨1, 0, 0, 0⟩)],
              high := [(0, 10), (1, 10)] } } = .fail "open-error" := by decide
/-- no file (nothing stored) and the couchbase back end: `startAny` is `start` -/
example : startAny { metaType := "file", memberType := "static", st := { cfg := { lo := 0, hi := 1 } } } =
    .running [(0, ⟨0, 0, 0, 0, maxU64⟩), (1, ⟨0, 0, 0, 0, maxU64⟩)] := by decide
example (c : Case) (h : c.metaType = "couchbase") : startAny c = start c := by
  apply startAny_nofile
  simp [fileExists, h]

end GoDcp.Startup
