import GoDcp.Model.RmStop
/-!
# C13 (clause "Close() returns in bounded time … rollback-mitigation polling is stopped") for the
close handshake of the rollback-mitigation observer – Model/RmStop.lean

For EVERY interleaving of {ticker fires, the goroutine's select takes either ready case, the poll round
finishes, `Stop()` executes its next statement}:

* `stop_answered_exactly_once`   when `Stop()` has returned, the goroutine has answered the close request
                                 exactly once and is gone; it never answers twice (`answers_le_one`)
* `no_round_after_stop`          no poll round starts after `Stop()` returned (polling is stopped)
* `stop_statement_enabled`       `Stop()` is never blocked before its receive: its first three statements are
                                 always enabled (the close channel is empty when it sends)
* `ticker_off_while_waiting`     once `Stop()` sends / waits, the ticker is off: `tick` is disabled
* `step_decreases_rank`          every step other than `tick` decreases `rank` (≤ 20)
* `run_bounded`                  hence, with the ticker off, EVERY execution has at most `rank` ≤ 11 steps
* `stuck_only_when_returned`     and an execution can only end (no action enabled) after `Stop()` returned:
                                 in every reachable state in which `Stop()` has not returned some action
                                 other than `tick` is enabled (`progress`)
* `stop_returns`                 the three together: from every reachable state in which `Stop()` has stopped the
                                 ticker, every maximal execution is finite and ends with `Stop()` returned
* `hoisted_return_deadlocks`     the variant that leaves through the tick branch when `closed` is up (seeded
                                 change C13-b2) reaches a state in which `Stop()` waits and nothing is enabled
* `slow_round_scenario`          the harness scenario `rm-stop-slow`: all interleavings end `stopped`, none late
-/
namespace GoDcp.RmStop

/-- the invariant of the handshake (per statement of `Stop()`) -/
def Inv (x : St) : Prop :=
  x.late = 0 ∧
  match x.s with
  | .setClosed => x.g ≠ .exited ∧ x.closeQ = false ∧ x.doneQ = false ∧ x.answers = 0 ∧ x.timerOn = true
  | .stopTimer => x.g ≠ .exited ∧ x.closeQ = false ∧ x.doneQ = false ∧ x.answers = 0 ∧ x.timerOn = true
  | .send => x.g ≠ .exited ∧ x.closeQ = false ∧ x.doneQ = false ∧ x.answers = 0 ∧ x.timerOn = false
  | .recv => x.timerOn = false ∧
      ((x.closeQ = true ∧ x.g ≠ .exited ∧ x.answers = 0 ∧ x.doneQ = false) ∨
       (x.closeQ = false ∧ x.g = .exited ∧ x.answers = 1 ∧ x.doneQ = true))
  | .returned => x.timerOn = false ∧ x.g = .exited ∧ x.answers = 1 ∧ x.closeQ = false ∧ x.doneQ = false

theorem inv_init : Inv init := by
  simp [Inv, init]

theorem inv_step {c : Cfg} (hv : c.variant = .asIs) {x y : St} {a : Act} (h : Inv x) (hs : step c x a = some y) :
    Inv y := by
  obtain ⟨g, s, closed, timerOn, tickQ, closeQ, doneQ, answers, late⟩ := x
  cases a <;> cases s <;> cases g <;> cases closed <;>
    simp [step, hv] at hs <;> (try obtain ⟨_, _⟩ := hs) <;> subst_vars <;> simp_all [Inv]

theorem inv_reach {c : Cfg} (hv : c.variant = .asIs) {x : St} (hr : Reach c x) : Inv x := by
  induction hr with
  | init => exact inv_init
  | step a _ hs ih => exact inv_step hv ih hs

/-! ## safety -/

/-- the goroutine never answers the close request twice -/
theorem answers_le_one {c : Cfg} (hv : c.variant = .asIs) {x : St} (hr : Reach c x) : x.answers ≤ 1 := by
  have h := inv_reach hv hr
  obtain ⟨g, s, closed, timerOn, tickQ, closeQ, doneQ, answers, late⟩ := x
  cases s <;> simp_all [Inv] <;> omega

/-- **exactly once**: when `Stop()` has returned, the goroutine has answered exactly once, has left, and both
    handshake channels are empty again -/
theorem stop_answered_exactly_once {c : Cfg} (hv : c.variant = .asIs) {x : St} (hr : Reach c x)
    (hs : x.s = .returned) : x.answers = 1 ∧ x.g = .exited ∧ x.closeQ = false ∧ x.doneQ = false := by
  have h := inv_reach hv hr
  obtain ⟨g, s, closed, timerOn, tickQ, closeQ, doneQ, answers, late⟩ := x
  subst hs
  simp_all [Inv]

/-- … and conversely the goroutine leaves only by answering -/
theorem exited_iff_answered {c : Cfg} (hv : c.variant = .asIs) {x : St} (hr : Reach c x) :
    x.g = .exited ↔ x.answers = 1 := by
  have h := inv_reach hv hr
  obtain ⟨g, s, closed, timerOn, tickQ, closeQ, doneQ, answers, late⟩ := x
  simp only [Inv] at h
  cases s <;> simp only at h ⊢
  case recv => rcases h.2.2 with h' | h' <;> simp [h'.2.1, h'.2.2.1]
  all_goals simp [h.2]

/-- **polling is stopped**: no poll round starts after `Stop()` returned -/
theorem no_round_after_stop {c : Cfg} (hv : c.variant = .asIs) {x : St} (hr : Reach c x) : x.late = 0 :=
  (inv_reach hv hr).1

/-- after `Stop()` returned the goroutine takes no step at all -/
theorem goroutine_silent_after_stop {c : Cfg} (hv : c.variant = .asIs) {x : St} (hr : Reach c x)
    (hs : x.s = .returned) : step c x .gTick = none ∧ step c x .gClose = none ∧ step c x .roundDone = none := by
  have h := stop_answered_exactly_once hv hr hs
  simp [step, h.2.1]

/-! ## `Stop()` returns -/

/-- `Stop()` is not blocked before its receive: the statement it is at is enabled -/
theorem stop_statement_enabled {c : Cfg} (hv : c.variant = .asIs) {x : St} (hr : Reach c x)
    (hs : x.s = .setClosed ∨ x.s = .stopTimer ∨ x.s = .send) : (step c x .sStep).isSome = true := by
  have h := inv_reach hv hr
  obtain ⟨g, s, closed, timerOn, tickQ, closeQ, doneQ, answers, late⟩ := x
  rcases hs with hs | hs | hs <;> simp only at hs <;> subst hs <;> simp_all [Inv, step]

/-- once `Stop()` is at its send or beyond, the ticker is off: no further tick is produced -/
theorem ticker_off_while_waiting {c : Cfg} (hv : c.variant = .asIs) {x : St} (hr : Reach c x)
    (hs : x.s = .send ∨ x.s = .recv ∨ x.s = .returned) : x.timerOn = false ∧ step c x .tick = none := by
  have h := inv_reach hv hr
  obtain ⟨g, s, closed, timerOn, tickQ, closeQ, doneQ, answers, late⟩ := x
  rcases hs with hs | hs | hs <;> simp only at hs <;> subst hs <;> simp_all [Inv, step]

/-- every step but the ticker's decreases the measure (any state, either variant) -/
theorem step_decreases_rank {c : Cfg} {x y : St} {a : Act} (hs : step c x a = some y) (ha : a ≠ .tick) :
    rank y < rank x := by
  obtain ⟨g, s, closed, timerOn, tickQ, closeQ, doneQ, answers, late⟩ := x
  cases a <;> cases s <;> cases g <;> cases closed <;> cases hv : c.variant <;>
    simp [step, hv] at hs <;> (try obtain ⟨_, _⟩ := hs) <;> subst_vars <;> simp_all [rank, sLeft] <;>
    (try split) <;> omega

theorem rank_le (x : St) : rank x ≤ 20 := by
  obtain ⟨g, s, closed, timerOn, tickQ, closeQ, doneQ, answers, late⟩ := x
  cases s <;> simp [rank, sLeft] <;> (repeat' split) <;> omega

theorem timerOff_step {c : Cfg} {x y : St} {a : Act} (hs : step c x a = some y) (ht : x.timerOn = false) :
    y.timerOn = false ∧ a ≠ .tick := by
  obtain ⟨g, s, closed, timerOn, tickQ, closeQ, doneQ, answers, late⟩ := x
  simp only at ht; subst ht
  cases a <;> cases s <;> cases g <;> cases closed <;> cases hv : c.variant <;>
    simp [step, hv] at hs <;> (try obtain ⟨_, _⟩ := hs) <;> subst_vars <;> simp

/-- with the ticker off every execution is finite: at most `rank` steps -/
theorem run_bounded {c : Cfg} {x y : St} {as : List Act} (hr : Run c x as y) (ht : x.timerOn = false) :
    as.length + rank y ≤ rank x := by
  induction hr with
  | nil x => simp
  | cons a hs _ ih =>
    have h1 := timerOff_step hs ht
    have h2 := step_decreases_rank hs h1.2
    have h3 := ih h1.1
    simp only [List.length_cons]
    omega

/-- **progress**: while `Stop()` has not returned, some action other than the ticker's is enabled -/
theorem progress {c : Cfg} (hv : c.variant = .asIs) {x : St} (hr : Reach c x) (hs : x.s ≠ .returned) :
    ∃ a, a ≠ .tick ∧ (step c x a).isSome = true := by
  have h := inv_reach hv hr
  obtain ⟨g, s, closed, timerOn, tickQ, closeQ, doneQ, answers, late⟩ := x
  cases s
  case returned => exact absurd rfl hs
  case setClosed => exact ⟨.sStep, by simp, by simp [step]⟩
  case stopTimer => exact ⟨.sStep, by simp, by simp [step]⟩
  case send => exact ⟨.sStep, by simp, by simp_all [Inv, step]⟩
  case recv =>
    simp only [Inv] at h
    rcases h.2.2 with h' | h'
    · cases g
      case exited => simp_all
      case round => exact ⟨.roundDone, by simp, by simp [step]⟩
      case sel => exact ⟨.gClose, by simp, by simp_all [step]⟩
    · exact ⟨.sStep, by simp, by simp_all [step]⟩

/-- an execution can only end after `Stop()` returned -/
theorem stuck_only_when_returned {c : Cfg} (hv : c.variant = .asIs) {x : St} (hr : Reach c x)
    (hst : ∀ a, step c x a = none) : x.s = .returned := by
  by_cases hs : x.s = .returned
  · exact hs
  · obtain ⟨a, _, he⟩ := progress hv hr hs
    rw [hst a] at he
    simp at he

theorem reach_run {c : Cfg} {x y : St} {as : List Act} (hx : Reach c x) (hr : Run c x as y) : Reach c y := by
  induction hr with
  | nil _ => exact hx
  | cons a hs _ ih => exact ih (Reach.step a hx hs)

/-- **`Stop()` returns**: from every reachable state in which `Stop()` has stopped the ticker, EVERY execution
    (whatever the select picks, whenever the round finishes) has at most 11 steps, and if it cannot be
    extended, `Stop()` has returned, the goroutine has answered exactly once and no round started after the
    return.  (Before that point `Stop()`'s own statement is always enabled: `stop_statement_enabled`.) -/
theorem stop_returns {c : Cfg} (hv : c.variant = .asIs) {x y : St} {as : List Act} (hx : Reach c x)
    (hs : x.s = .send ∨ x.s = .recv ∨ x.s = .returned) (hr : Run c x as y) :
    as.length ≤ 11 ∧ ((∀ a, step c y a = none) → y.s = .returned ∧ y.answers = 1 ∧ y.g = .exited ∧ y.late = 0) := by
  have ht := (ticker_off_while_waiting hv hx hs).1
  have hb := run_bounded hr ht
  have hy := reach_run hx hr
  constructor
  · have : rank x ≤ 11 := by
      have hi := inv_reach hv hx
      obtain ⟨g, s, closed, timerOn, tickQ, closeQ, doneQ, answers, late⟩ := x
      rcases hs with hs | hs | hs <;> simp only at hs <;> subst hs <;> simp_all [Inv, rank, sLeft] <;>
        (repeat' split) <;> omega
    omega
  · intro hst
    have h1 := stuck_only_when_returned hv hy hst
    have h2 := stop_answered_exactly_once hv hy h1
    exact ⟨h1, h2.1, h2.2.1, no_round_after_stop hv hy⟩

/-! ## what the handshake must not look like, and the harness scenario -/

/-- the schedule of the seeded change C13-b2: a tick is buffered while a round is in progress, `Stop()` runs
    up to its receive, the round finishes, the select takes the tick -/
def hangSchedule : List Act :=
  [.tick, .gTick, .tick, .sStep, .sStep, .sStep, .roundDone, .gTick]

/-- **refutation for the hoisted check**: that variant reaches a state in which `Stop()` waits for the answer,
    the goroutine is gone and NO action is enabled – `Stop()` never returns -/
theorem hoisted_return_deadlocks :
    ∃ x, runActs { variant := .hoistedReturn } init hangSchedule = some x ∧
      x.s = .recv ∧ x.g = .exited ∧ x.answers = 0 ∧ stuck { variant := .hoistedReturn } x = true := by
  refine ⟨_, rfl, ?_⟩
  decide

/-- the same schedule on the code as it is: the tick is consumed without a round, the select then takes the
    close request, `Stop()` returns -/
example : ((runActs {} init (hangSchedule ++ [.gClose, .sStep])).map fun x => (x.s, x.g, x.answers, x.late)) =
    some (.returned, .exited, 1, 0) := by decide

/-- the `reconfigure()` handshake (same channels, `closed` stays down): the buffered tick starts one more
    round, then the close request is answered -/
example : ((runActs { setsClosed := false } init (hangSchedule ++ [.roundDone, .gClose, .sStep])).map
    fun x => (x.s, x.g, x.answers)) = some (.returned, .exited, 1) := by decide

theorem slowRound_reachable (c : Cfg) : Reach c slowRound :=
  Reach.step .tick (Reach.step .gTick (Reach.step .tick Reach.init rfl) rfl) rfl

/-- **the harness scenario** `rm-stop-slow` (Stop() during a slow round with the next tick buffered): all
    interleavings with up to two further ticks end with `Stop()` returned, one answer, no later round -/
theorem slow_round_scenario :
    (terminals {} 24 2 slowRound).all (fun y => y.s == .returned && y.answers == 1 && y.late == 0) = true ∧
    predict {} = "stopped late-observes=0" := by
  constructor <;> decide

/-- … and with the hoisted check some interleaving ends with `Stop()` blocked -/
theorem slow_round_scenario_hoisted : predict { variant := .hoistedReturn } = "hang" := by decide

end GoDcp.RmStop
