import GoDcp.Model.Config
import GoDcp.Model.EnvSubst
import GoDcp.Spec.C17
/-!
# C17 — configuration defaulting is safe, idempotent and unit-exact

Part 1: generic theorems about ANY defaults table (`fills_unset`,
`preserves_set`, `idempotent`, `env_precedence`).
Part 2: the concrete `ApplyDefaults` of go-dcp (`C17_*`), the monitor theorem
`holdsDefaults_model`, and the README tie (`readme_*`).
Part 3: derived settings.  Part 4: size units.  Part 5: `${VAR}` substitution.

No size bounds anywhere; hypotheses are exactly those stated.
-/
namespace GoDcp.Config

/-! ## Part 1 — generic in the table -/

theorem get_set_same (c : Cfg) (p : String) (v : Val) : get (set c p v) p = v := by
  simp [get, set]

theorem get_set_other (c : Cfg) (p q : String) (v : Val) (h : q ≠ p) : get (set c p v) q = get c q := by
  have : (q == p) = false := by simpa using h
  simp [get, set, List.lookup, this]

/-- what a table does to the value at one path, as a fold over the entries -/
def valFold (t : List Entry) (p : String) (v : Val) : Val :=
  t.foldl (fun v e => if e.path = p ∧ isZero e.test v = true then e.dflt else v) v

theorem get_applyEntry (c : Cfg) (e : Entry) (p : String) :
    get (applyEntry c e) p = if e.path = p ∧ isZero e.test (get c p) = true then e.dflt else get c p := by
  unfold applyEntry
  by_cases hp : e.path = p
  · subst hp
    by_cases hz : isZero e.test (get c e.path) = true
    · simp [hz, get_set_same]
    · simp [hz]
  · by_cases hz : isZero e.test (get c e.path) = true
    · simp [hz, hp, get_set_other c e.path p e.dflt (fun h => hp h.symm)]
    · simp [hz, hp]

/-- applying a table acts path by path -/
theorem get_applyTable (t : List Entry) (c : Cfg) (p : String) :
    get (applyTable t c) p = valFold t p (get c p) := by
  induction t generalizing c with
  | nil => rfl
  | cons e t ih =>
    simp only [applyTable, List.foldl_cons, valFold] at *
    rw [ih, get_applyEntry]

theorem valFold_append (a b : List Entry) (p : String) (v : Val) :
    valFold (a ++ b) p v = valFold b p (valFold a p v) := by
  simp [valFold, List.foldl_append]

/-- a value that no entry of its path considers unset is left alone -/
theorem valFold_preserves (t : List Entry) (p : String) (v : Val)
    (h : ∀ e ∈ t, e.path = p → isZero e.test v = false) : valFold t p v = v := by
  induction t with
  | nil => rfl
  | cons e t ih =>
    have he := h e (List.mem_cons_self ..)
    have : (if e.path = p ∧ isZero e.test v = true then e.dflt else v) = v := by
      by_cases hp : e.path = p
      · simp [he hp]
      · simp [hp]
    simp only [valFold, List.foldl_cons] at *
    rw [this]
    exact ih (fun e' he' => h e' (List.mem_cons_of_mem _ he'))

theorem valFold_not_mem (t : List Entry) (p : String) (v : Val)
    (h : p ∉ t.map (·.path)) : valFold t p v = v :=
  valFold_preserves t p v (fun e he hp => absurd (List.mem_map.mpr ⟨e, he, hp⟩) h)

/-- with pairwise distinct paths an unset option receives exactly its entry's default -/
theorem valFold_fills (t : List Entry) (hnd : (t.map (·.path)).Nodup) (e : Entry) (he : e ∈ t)
    (v : Val) (hz : isZero e.test v = true) : valFold t e.path v = e.dflt := by
  induction t generalizing v with
  | nil => cases he
  | cons e' t ih =>
    simp only [List.map_cons, List.nodup_cons] at hnd
    simp only [valFold, List.foldl_cons]
    rcases List.mem_cons.mp he with rfl | het
    · simp only [hz, and_self, if_true]
      exact valFold_not_mem t e.path e.dflt hnd.1
    · have hne : e'.path ≠ e.path := fun h => hnd.1 (h ▸ List.mem_map.mpr ⟨e, het, rfl⟩)
      simp only [hne, false_and, if_false]
      exact ih hnd.2 het v hz

/-- with distinct paths the fold is the single relevant entry -/
theorem valFold_of_mem (t : List Entry) (hnd : (t.map (·.path)).Nodup) (e : Entry) (he : e ∈ t) (v : Val) :
    valFold t e.path v = if isZero e.test v = true then e.dflt else v := by
  by_cases hz : isZero e.test v = true
  · simp [hz, valFold_fills t hnd e he v hz]
  · simp only [hz]
    apply valFold_preserves
    intro e' he' hp
    -- distinct paths: e' = e
    have : e' = e := by
      induction t with
      | nil => cases he
      | cons x t ih =>
        simp only [List.map_cons, List.nodup_cons] at hnd
        rcases List.mem_cons.mp he with rfl | h1 <;> rcases List.mem_cons.mp he' with rfl | h2
        · rfl
        · exact absurd (List.mem_map.mpr ⟨e', h2, hp⟩) hnd.1
        · exact absurd (List.mem_map.mpr ⟨e, h1, hp.symm⟩) hnd.1
        · exact ih hnd.2 h1 h2
    subst this
    simpa using hz

/-- a second pass with any sub-table of a table with distinct paths and
    non-zero defaults changes nothing -/
theorem valFold_idem (t t' : List Entry) (hnd : (t.map (·.path)).Nodup)
    (hnz : ∀ e ∈ t, isZero e.test e.dflt = false) (hsub : ∀ e ∈ t', e ∈ t) (p : String) (v : Val) :
    valFold t' p (valFold t p v) = valFold t p v := by
  apply valFold_preserves
  intro e he hp
  subst hp
  have hm := hsub e he
  rw [valFold_of_mem t hnd e hm v]
  by_cases hz : isZero e.test v = true
  · simp [hz, hnz e hm]
  · simp [hz]

/-- **fills_unset** (generic): distinct paths, option unset ⇒ it gets its default -/
theorem fills_unset (t : List Entry) (hnd : (t.map (·.path)).Nodup) (c : Cfg) (e : Entry) (he : e ∈ t)
    (hz : isZero e.test (get c e.path) = true) : get (applyTable t c) e.path = e.dflt := by
  rw [get_applyTable]; exact valFold_fills t hnd e he _ hz

/-- **preserves_set** (generic, no distinctness needed): an option that none of
    its entries considers unset – in particular any option outside the table –
    keeps its value -/
theorem preserves_set (t : List Entry) (c : Cfg) (p : String)
    (h : ∀ e ∈ t, e.path = p → isZero e.test (get c p) = false) : get (applyTable t c) p = get c p := by
  rw [get_applyTable]; exact valFold_preserves t p _ h

/-- **idempotent** (generic): applying a table twice is applying it once -/
theorem idempotent (t : List Entry) (hnd : (t.map (·.path)).Nodup)
    (hnz : ∀ e ∈ t, isZero e.test e.dflt = false) (c : Cfg) (p : String) :
    get (applyTable t (applyTable t c)) p = get (applyTable t c) p := by
  rw [get_applyTable, get_applyTable]; exact valFold_idem t t hnd hnz (fun _ h => h) p _

/-- **env_precedence** (generic): an override assigned after table `a` and
    followed by a table `b` that does not mention the path wins over everything -/
theorem env_precedence (a b : List Entry) (c : Cfg) (p : String) (v : Val)
    (hb : p ∉ b.map (·.path)) : get (applyTable b (set (applyTable a c) p v)) p = v := by
  rw [get_applyTable, get_set_same]; exact valFold_not_mem b p v hb

/-! ## Part 2 — the concrete `ApplyDefaults` -/
open GoDcp.Spec.C17

theorem table_nodup (ls : Bool) : ((table ls).map (·.path)).Nodup := by cases ls <;> decide

theorem table_nonzero (ls : Bool) : ∀ e ∈ table ls, isZero e.test e.dflt = false := by cases ls <;> decide

/-- the three buffer-size defaults really are `ResolveUnionIntOrStringValue("…mb")` -/
theorem sizeDefaults : sizeDefault "20mb" = .int 20971520 ∧ sizeDefault "16mb" = .int 16777216 := by decide

/-- the value of option `p` after `ApplyDefaults`, as a function of its value before -/
def finalVal (env : Env) (ls : Bool) (p : String) (v : Val) : Val :=
  if p = pTotal ∧ env.total ≠ "" then (match envInt env.total with | some t => .int t | none => .absent)
  else if p = pMember ∧ env.member ≠ "" then (match envInt env.member with | some t => .int t | none => .absent)
  else valFold (table ls) p v

theorem envOverride_none (raw path : String) (c : Cfg) :
    envOverride raw path c = none ↔ (raw ≠ "" ∧ envInt raw = none) := by
  unfold envOverride envInt
  by_cases h : raw = ""
  · simp [h]
  · cases hp : Units.parseInt64 raw.toList <;> simp [h]

theorem envOverride_get (raw path : String) (c c' : Cfg) (h : envOverride raw path c = some c') (p : String) :
    get c' p = if p = path ∧ raw ≠ "" then (match envInt raw with | some t => .int t | none => .absent)
               else get c p := by
  unfold envOverride at h
  by_cases hr : raw = ""
  · simp [hr] at h; subst h; simp [hr]
  · simp only [hr, if_false] at h
    unfold envInt
    cases hp : Units.parseInt64 raw.toList with
    | none => simp [hp] at h
    | some t =>
      simp only [hp, Option.some.injEq] at h
      subst h
      by_cases hpp : p = path
      · subst hpp; simp [hr, get_set_same]
      · simp [hpp, get_set_other _ _ _ _ hpp]

theorem applyLogging_get (ls : Bool) (c c' : Cfg) (h : applyLogging ls c = some c') (p : String) :
    get c' p = valFold (if ls then [] else [loggingEntry]) p (get c p) := by
  unfold applyLogging at h
  cases ls with
  | true => simp at h; subst h; rfl
  | false =>
    simp only [Bool.false_eq_true, if_false] at h
    have hc : c' = applyEntry c loggingEntry := by
      split at h
      · split at h
        · exact (Option.some.inj h).symm
        · cases h
      · cases h
    subst hc
    rw [get_applyEntry]; rfl

theorem tableA_paths : pTotal ∈ tableA.map (·.path) ∧ pMember ∈ tableA.map (·.path) := by decide
theorem tableB_free : pTotal ∉ tableB.map (·.path) ∧ pMember ∉ tableB.map (·.path) := by decide
theorem logging_free : pTotal ≠ pLevel ∧ pMember ≠ pLevel ∧ pTotal ≠ pMember := by decide

theorem table_split (ls : Bool) (p : String) (v : Val) :
    valFold (table ls) p v = valFold (if ls then [] else [loggingEntry]) p (valFold tableB p (valFold tableA p v)) := by
  unfold table; rw [valFold_append, valFold_append]

/-- **the model in closed form**: `ApplyDefaults` acts option by option -/
theorem applyDefaults_get (env : Env) (ls : Bool) (c c' : Cfg) (h : applyDefaults env ls c = some c')
    (p : String) : get c' p = finalVal env ls p (get c p) := by
  unfold applyDefaults at h
  split at h
  · cases h
  · rename_i c1 h1
    split at h
    · cases h
    · rename_i c2 h2
      rw [applyLogging_get ls _ c' h p, get_applyTable, envOverride_get _ _ _ _ h2 p,
        envOverride_get _ _ _ _ h1 p, get_applyTable]
      have hL : ∀ (q : String) (x : Val), q ≠ pLevel →
          valFold (if ls then [] else [loggingEntry]) q x = x := by
        intro q x hq
        cases ls
        · apply valFold_not_mem; simpa [loggingEntry] using hq
        · rfl
      unfold finalVal
      by_cases ht : p = pTotal
      · subst ht
        have hne : pTotal ≠ pMember := logging_free.2.2
        by_cases hr : env.total = ""
        · simp only [hne, false_and, if_false, hr, ne_eq, not_true_eq_false, and_false]
          rw [table_split]
        · simp only [hne, false_and, if_false, hr, ne_eq, not_false_eq_true, and_self, if_true]
          rw [valFold_not_mem tableB _ _ tableB_free.1, hL _ _ logging_free.1]
      · by_cases hm : p = pMember
        · subst hm
          by_cases hr : env.member = ""
          · simp only [ht, false_and, if_false, hr, ne_eq, not_true_eq_false, and_false]
            rw [table_split]
          · simp only [ht, false_and, if_false, hr, ne_eq, not_false_eq_true, and_self, if_true]
            rw [valFold_not_mem tableB _ _ tableB_free.2, hL _ _ logging_free.2.1]
        · simp only [ht, hm, false_and, if_false]
          rw [table_split]

/-- **C17 fills_unset**: every option of the table that is unset (and not
    governed by a set override variable) ends at its default -/
theorem C17_fills_unset (env : Env) (ls : Bool) (c c' : Cfg) (h : applyDefaults env ls c = some c')
    (e : Entry) (he : e ∈ table ls) (hz : isZero e.test (get c e.path) = true)
    (henv : envWins env e.path = false) : get c' e.path = e.dflt := by
  rw [applyDefaults_get env ls c c' h]
  unfold finalVal
  simp only [envWins, Bool.or_eq_false_iff, Bool.and_eq_false_iff, beq_eq_false_iff_ne, bne_eq_false_iff_eq] at henv
  have h1 : ¬(e.path = pTotal ∧ env.total ≠ "") := by
    rintro ⟨a, b⟩; rcases henv.1 with x | x
    · exact x a
    · exact b x
  have h2 : ¬(e.path = pMember ∧ env.member ≠ "") := by
    rintro ⟨a, b⟩; rcases henv.2 with x | x
    · exact x a
    · exact b x
  simp only [h1, h2, if_false]
  exact valFold_fills _ (table_nodup ls) e he _ hz

/-- **C17 preserves_set**: an option that no table entry considers unset –
    every explicitly set non-zero option and every option without a default –
    keeps its value (unless its override variable is set) -/
theorem C17_preserves_set (env : Env) (ls : Bool) (c c' : Cfg) (h : applyDefaults env ls c = some c')
    (p : String) (hset : ∀ e ∈ table ls, e.path = p → isZero e.test (get c p) = false)
    (henv : envWins env p = false) : get c' p = get c p := by
  rw [applyDefaults_get env ls c c' h]
  unfold finalVal
  simp only [envWins, Bool.or_eq_false_iff, Bool.and_eq_false_iff, beq_eq_false_iff_ne, bne_eq_false_iff_eq] at henv
  have h1 : ¬(p = pTotal ∧ env.total ≠ "") := by
    rintro ⟨a, b⟩; rcases henv.1 with x | x
    · exact x a
    · exact b x
  have h2 : ¬(p = pMember ∧ env.member ≠ "") := by
    rintro ⟨a, b⟩; rcases henv.2 with x | x
    · exact x a
    · exact b x
  simp only [h1, h2, if_false]
  exact valFold_preserves _ _ _ hset

/-- **C17 env_precedence**: a set override variable decides the option,
    whatever the file said -/
theorem C17_env_precedence (env : Env) (ls : Bool) (c c' : Cfg) (h : applyDefaults env ls c = some c') :
    (env.total ≠ "" → ∃ t, envInt env.total = some t ∧ get c' pTotal = .int t) ∧
    (env.member ≠ "" → ∃ t, envInt env.member = some t ∧ get c' pMember = .int t) := by
  have hT : ¬(env.total ≠ "" ∧ envInt env.total = none) := by
    intro hx
    unfold applyDefaults at h
    rw [(envOverride_none env.total pTotal _).mpr hx] at h
    cases h
  have hM : ¬(env.member ≠ "" ∧ envInt env.member = none) := by
    intro hx
    unfold applyDefaults at h
    split at h
    · cases h
    · rw [(envOverride_none env.member pMember _).mpr hx] at h
      cases h
  constructor
  · intro hr
    rw [applyDefaults_get env ls c c' h]
    unfold finalVal
    cases ht : envInt env.total with
    | none => exact absurd ⟨hr, ht⟩ hT
    | some t => exact ⟨t, rfl, by simp [hr]⟩
  · intro hr
    rw [applyDefaults_get env ls c c' h]
    unfold finalVal
    cases ht : envInt env.member with
    | none => exact absurd ⟨hr, ht⟩ hM
    | some t => exact ⟨t, rfl, by simp [hr, logging_free.2.2.symm]⟩


/-! ### when does `ApplyDefaults` panic -/

theorem validLevel_info : validLevel "info" = true := by decide

theorem applyLogging_none (ls : Bool) (c : Cfg) :
    applyLogging ls c = none ↔
      (ls = false ∧ isZero .zeroVal (get c pLevel) = false ∧
        badLevel (get c pLevel) = true) := by
  unfold applyLogging
  cases ls with
  | true => simp
  | false =>
    simp only [Bool.false_eq_true, if_false, true_and]
    have hg := get_applyEntry c loggingEntry pLevel
    by_cases hz : isZero .zeroVal (get c pLevel) = true
    · have : get (applyEntry c loggingEntry) pLevel = .str "info" := by
        rw [hg]; simp [loggingEntry, hz]
      rw [this]
      simp [validLevel_info, hz]
    · have hc : applyEntry c loggingEntry = c := by
        unfold applyEntry; simp [loggingEntry, hz]
      rw [hc]
      have hz' : isZero .zeroVal (get c pLevel) = false := by simpa using hz
      simp only [hz', true_and, badLevel]
      cases hv : get c pLevel with
      | str l => by_cases hl : validLevel l = true <;> simp [hl]
      | _ => simp

theorem level_free : pLevel ∉ tableA.map (·.path) ∧ pLevel ∉ tableB.map (·.path) := by decide

theorem level_untouched (env : Env) (c c1 c2 : Cfg)
    (h1 : envOverride env.total pTotal (applyTable tableA c) = some c1)
    (h2 : envOverride env.member pMember c1 = some c2) :
    get (applyTable tableB c2) pLevel = get c pLevel := by
  rw [get_applyTable, valFold_not_mem _ _ _ level_free.2, envOverride_get _ _ _ _ h2,
    envOverride_get _ _ _ _ h1, get_applyTable, valFold_not_mem _ _ _ level_free.1]
  simp [logging_free.1.symm, logging_free.2.1.symm]

/-- **C17 panic_iff**: `ApplyDefaults` panics exactly on a non-integer
    override variable or (no logger injected) an unknown explicit log level -/
theorem C17_panic_iff (env : Env) (ls : Bool) (c : Cfg) :
    applyDefaults env ls c = none ↔ mustPanic env ls c = true := by
  unfold applyDefaults mustPanic
  cases h1 : envOverride env.total pTotal (applyTable tableA c) with
  | none =>
    have := (envOverride_none _ _ _).mp h1
    simp [this.1, this.2]
  | some c1 =>
    dsimp only
    have n1 : ¬(env.total ≠ "" ∧ envInt env.total = none) := by
      intro hx; rw [(envOverride_none _ _ _).mpr hx] at h1; cases h1
    have e1 : (env.total != "" && (envInt env.total).isNone) = false := by
      by_cases hr : env.total = ""
      · simp [hr]
      · cases ht : envInt env.total with
        | none => exact absurd ⟨hr, ht⟩ n1
        | some t => simp
    cases h2 : envOverride env.member pMember c1 with
    | none =>
      have := (envOverride_none _ _ _).mp h2
      simp [this.1, this.2]
    | some c2 =>
      dsimp only
      have n2 : ¬(env.member ≠ "" ∧ envInt env.member = none) := by
        intro hx; rw [(envOverride_none _ _ _).mpr hx] at h2; cases h2
      have e2 : (env.member != "" && (envInt env.member).isNone) = false := by
        by_cases hr : env.member = ""
        · simp [hr]
        · cases ht : envInt env.member with
          | none => exact absurd ⟨hr, ht⟩ n2
          | some t => simp
      simp only [e1, e2, Bool.false_or]
      rw [applyLogging_none, level_untouched env c c1 c2 h1 h2]
      cases ls <;> simp

/-! ### idempotence -/

theorem table_sub (ls : Bool) : ∀ e ∈ table true, e ∈ table ls := by cases ls <;> decide

theorem finalVal_idem (env : Env) (ls ls' : Bool) (hsub : ∀ e ∈ table ls', e ∈ table ls) (p : String) (v : Val) :
    finalVal env ls' p (finalVal env ls p v) = finalVal env ls p v := by
  unfold finalVal
  by_cases h1 : p = pTotal ∧ env.total ≠ ""
  · simp [h1]
  · by_cases h2 : p = pMember ∧ env.member ≠ ""
    · simp [h2]
    · simp only [h1, h2, if_false]
      exact valFold_idem _ _ (table_nodup ls) (table_nonzero ls) hsub p v

theorem logging_mem : loggingEntry ∈ table false := by decide

/-- **C17 idempotent**: a second `ApplyDefaults` (a logger exists by then, or
    the same logger situation) does not panic and changes no option -/
theorem C17_idempotent (env : Env) (ls ls' : Bool) (hls : ls' = true ∨ ls' = ls) (c c' : Cfg)
    (h : applyDefaults env ls c = some c') :
    ∃ c'', applyDefaults env ls' c' = some c'' ∧ ∀ p, get c'' p = get c' p := by
  have hnp : mustPanic env ls c = false := by
    cases hm : mustPanic env ls c
    · rfl
    · rw [(C17_panic_iff env ls c).mpr hm] at h; cases h
  have hnp' : mustPanic env ls' c' = false := by
    unfold mustPanic at hnp ⊢
    simp only [Bool.or_eq_false_iff] at hnp ⊢
    refine ⟨⟨hnp.1.1, hnp.1.2⟩, ?_⟩
    rcases hls with rfl | rfl
    · rfl
    · cases ls' with
      | true => rfl
      | false =>
        have hl : get c' pLevel = if isZero .zeroVal (get c pLevel) = true then .str "info" else get c pLevel := by
          rw [applyDefaults_get env false c c' h]
          unfold finalVal
          simp only [logging_free.1.symm, logging_free.2.1.symm, false_and, if_false]
          exact valFold_of_mem _ (table_nodup false) loggingEntry logging_mem _
        have := hnp.2
        by_cases hz : isZero .zeroVal (get c pLevel) = true
        · rw [hl, if_pos hz]; decide
        · rw [hl, if_neg hz]; exact this
  cases h2 : applyDefaults env ls' c' with
  | none => rw [(C17_panic_iff env ls' c').mp h2] at hnp'; cases hnp'
  | some c'' =>
    refine ⟨c'', rfl, fun p => ?_⟩
    rw [applyDefaults_get env ls' c' c'' h2, applyDefaults_get env ls c c' h]
    apply finalVal_idem
    rcases hls with rfl | rfl
    · exact table_sub ls
    · exact fun _ h => h

/-! ### the model always passes the monitor -/

/-- what the model predicts for `ApplyDefaults(); ApplyDefaults()` -/
def modelObs (env : Env) (ls : Bool) (c : Cfg) : DefaultsObs :=
  (applyDefaults env ls c).map fun c1 => (c1, applyDefaults env true c1)

theorem holdsDefaults_model (env : Env) (ls : Bool) (c : Cfg) :
    holdsDefaults (table ls) env ls c (modelObs env ls c) = "" := by
  unfold modelObs holdsDefaults
  cases h : applyDefaults env ls c with
  | none => simp [(C17_panic_iff env ls c).mp h]
  | some c1 =>
    have hnp : mustPanic env ls c = false := by
      cases hm : mustPanic env ls c
      · rfl
      · rw [(C17_panic_iff env ls c).mpr hm] at h; cases h
    obtain ⟨c2, h2, heq⟩ := C17_idempotent env ls true (Or.inl rfl) c c1 h
    have hE := C17_env_precedence env ls c c1 h
    simp only [Option.map_some, hnp, Bool.false_eq_true, if_false, h2]
    have hc : ∀ paths, checkOnce (table ls) env c c1 paths = "" := by
      intro paths
      unfold checkOnce
      have c1' : (env.total != "" && normZ (get c1 pTotal) !=
          normZ (envExpect env.total)) = false := by
        by_cases hr : env.total = ""
        · simp [hr]
        · obtain ⟨t, ht, hg⟩ := hE.1 hr
          simp [envExpect, ht, hg]
      have c2' : (env.member != "" && normZ (get c1 pMember) !=
          normZ (envExpect env.member)) = false := by
        by_cases hr : env.member = ""
        · simp [hr]
        · obtain ⟨t, ht, hg⟩ := hE.2 hr
          simp [envExpect, ht, hg]
      have c3' : ((table ls).all fun e => envWins env e.path || !isZero e.test (get c e.path) ||
          canon (table ls) e.path (get c1 e.path) == canon (table ls) e.path e.dflt) = true := by
        rw [List.all_eq_true]
        intro e he
        by_cases hw : envWins env e.path = true
        · simp [hw]
        · by_cases hz : isZero e.test (get c e.path) = true
          · have := C17_fills_unset env ls c c1 h e he hz (by simpa using hw)
            simp [this]
          · simp [hz]
      have c4' : (paths.all fun p => envWins env p ||
          ((table ls).any fun e => e.path == p && isZero e.test (get c p)) ||
          canon (table ls) p (get c1 p) == canon (table ls) p (get c p)) = true := by
        rw [List.all_eq_true]
        intro p _
        by_cases hw : envWins env p = true
        · simp [hw]
        · by_cases ha : ((table ls).any fun e => e.path == p && isZero e.test (get c p)) = true
          · simp [ha]
          · have hset : ∀ e ∈ table ls, e.path = p → isZero e.test (get c p) = false := by
              intro e he hp
              cases hz : isZero e.test (get c p)
              · rfl
              · exact absurd (List.any_eq_true.mpr ⟨e, he, by simp [hp, hz]⟩) ha
            have := C17_preserves_set env ls c c1 h p hset (by simpa using hw)
            simp [this]
      simp only [c1', c2', c3', c4', Bool.false_eq_true, if_false, Bool.not_true]
    simp only [hc, bne_self_eq_false, Bool.false_eq_true, if_false]
    simp [heq]


/-! ### non-vacuity of the hypotheses above -/

/-- a non-trivial configuration on which `ApplyDefaults` succeeds, with both
    override variables set, explicit values kept and unset ones filled -/
example :
    (applyDefaults ⟨"5", "3"⟩ false
        [("api.port", .int 9000), (pTotal, .int 2), ("connectionBufferSize", .int 0),
         ("logging.level", .str "Debug")]).map
      (fun c' => [get c' "api.port", get c' pTotal, get c' pMember, get c' "connectionBufferSize",
                  get c' "dcp.bufferSize", get c' "logging.level"]) =
    some [.int 9000, .int 5, .int 3, .int 0, .int 16777216, .str "Debug"] := by decide +kernel

/-- both panic causes are reachable, and the logger switch matters -/
example : applyDefaults ⟨"x", ""⟩ true [] = none ∧ applyDefaults ⟨"", ""⟩ false [(pLevel, .str "loud")] = none ∧
    (applyDefaults ⟨"", ""⟩ true [(pLevel, .str "loud")]).isSome = true := by decide +kernel

/-- an override variable holding "0" yields 0 members (no re-defaulting) -/
example : (applyDefaults ⟨"0", ""⟩ true []).map (get · pTotal) = some (.int 0) := by decide +kernel

/-! ### tie to the documented defaults (README.md configuration table) -/

/-- the defaulted empty configuration: no file values, no override variables, no logger -/
def defaulted : Cfg := (applyDefaults ⟨"", ""⟩ false []).getD []

/-- wherever the README documents a default (or documents that there is none),
    the model agrees – except on the two listed rows -/
theorem readme_agrees :
    ∀ row ∈ readme, row.1 ∉ readmeDisagreements → get defaulted row.1 = docVal row.2.1 row.2.2 := by
  decide +kernel

/-- the two disagreements, exactly: README promises `dcp.mode = infinite`, the code
    leaves it empty; README documents no default for `dcp.group.membership.type`,
    the code sets `couchbase` -/
theorem readme_disagrees :
    get defaulted "dcp.mode" = .absent ∧ docVal "string" "infinite" = .str "infinite" ∧
    get defaulted "dcp.group.membership.type" = .str "couchbase" ∧ docVal "string" "" = .absent := by
  decide +kernel

/-- every option that the code defaults is a row of the README table -/
theorem readme_covers_table : ∀ e ∈ table false, e.path ∈ readme.map (·.1) := by decide +kernel

/-- … and nothing else appears in the defaulted empty configuration -/
theorem defaulted_keys : ∀ kv ∈ defaulted, kv.1 ∈ (table false).map (·.path) := by decide +kernel


/-! ## Part 3 — derived settings: defaults, then the override map key by key -/

/-- the values of all fields before the panic / coverage decision -/
def fieldVals (fields : List Field) (ov : List (String × String)) : List (String × PR) :=
  fields.map fun f => (f.key, fieldVal ov f)

def keepVal (r : String × PR) : Option (String × Val) :=
  match r.2 with
  | .val v => some (r.1, v)
  | _ => none

theorem derive_ok (fields : List Field) (ov : List (String × String)) (r : List (String × Val))
    (h : derive fields ov = .ok r) :
    r = (fieldVals fields ov).filterMap keepVal ∧
    ∀ f ∈ fields, fieldVal ov f ≠ .panic ∧ fieldVal ov f ≠ .uncovered := by
  unfold derive at h
  simp only [] at h
  split at h
  · cases h
  · rename_i hp
    split at h
    · cases h
    · rename_i hu
      refine ⟨by cases h; rfl, fun f hf => ⟨fun hx => hp ?_, fun hx => hu ?_⟩⟩
      · exact List.any_eq_true.mpr ⟨(f.key, fieldVal ov f), List.mem_map.mpr ⟨f, hf, rfl⟩, by simp [hx]⟩
      · exact List.any_eq_true.mpr ⟨(f.key, fieldVal ov f), List.mem_map.mpr ⟨f, hf, rfl⟩, by simp [hx]⟩

theorem get_filterMap_keepVal (fields : List Field) (ov : List (String × String))
    (hnd : (fields.map (·.key)).Nodup) (f : Field) (hf : f ∈ fields) (v : Val) (hv : fieldVal ov f = .val v) :
    get ((fieldVals fields ov).filterMap keepVal) f.key = v := by
  induction fields with
  | nil => cases hf
  | cons g fields ih =>
    simp only [List.map_cons, List.nodup_cons] at hnd
    rcases List.mem_cons.mp hf with rfl | hft
    · simp [fieldVals, keepVal, hv, get]
    · have hne : f.key ≠ g.key := fun h => hnd.1 (h ▸ List.mem_map.mpr ⟨f, hft, rfl⟩)
      have hb : (f.key == g.key) = false := by simpa using hne
      have ih' := ih hnd.2 hft
      simp only [fieldVals, List.map_cons, List.filterMap_cons] at ih' ⊢
      cases hg : fieldVal ov g with
      | val w => simp only [keepVal]; simp only [get, List.lookup, hb] at ih' ⊢; exact ih'
      | panic => simp only [keepVal]; exact ih'
      | uncovered => simp only [keepVal]; exact ih'

/-- **derived_inherit_unless_overridden** (generic): in a successful result every
    field holds the parsed map value when its key is in the override map, and
    its inherited / constant default when it is not (unknown keys are ignored:
    nothing else is ever read from the map) -/
theorem derived_inherit_unless_overridden (fields : List Field) (hnd : (fields.map (·.key)).Nodup)
    (ov : List (String × String)) (r : List (String × Val)) (h : derive fields ov = .ok r)
    (f : Field) (hf : f ∈ fields) :
    (∀ s, ov.lookup f.key = some s → f.parse s = .val (get r f.key)) ∧
    (ov.lookup f.key = none → f.base = some (get r f.key)) := by
  obtain ⟨hr, hall⟩ := derive_ok fields ov r h
  have ⟨h1, h2⟩ := hall f hf
  cases hv : fieldVal ov f with
  | panic => exact absurd hv h1
  | uncovered => exact absurd hv h2
  | val v =>
    have hg : get r f.key = v := by rw [hr]; exact get_filterMap_keepVal fields ov hnd f hf v hv
    unfold fieldVal at hv
    constructor
    · intro s hs; rw [hs] at hv; rw [hg]; exact hv
    · intro hn
      rw [hn] at hv
      cases hb : f.base with
      | none => simp [hb] at hv
      | some b => simp only [hb, PR.val.injEq] at hv; rw [hg, hv]

/-- the result has exactly the struct's fields -/
theorem derive_keys (fields : List Field) (ov : List (String × String)) (r : List (String × Val))
    (h : derive fields ov = .ok r) : ∀ kv ∈ r, ∃ f ∈ fields, f.key = kv.1 := by
  obtain ⟨hr, _⟩ := derive_ok fields ov r h
  intro kv hkv
  rw [hr] at hkv
  obtain ⟨x, hx, hk⟩ := List.mem_filterMap.mp hkv
  obtain ⟨f, hf, rfl⟩ := List.mem_map.mp hx
  refine ⟨f, hf, ?_⟩
  unfold keepVal at hk
  split at hk
  · cases hk; rfl
  · cases hk

/-- a `Get…` function panics exactly when a mandatory key is missing or a
    supplied value does not parse -/
theorem derive_panic_iff (fields : List Field) (ov : List (String × String)) :
    derive fields ov = .panic ↔ ∃ f ∈ fields, fieldVal ov f = .panic := by
  unfold derive
  simp only []
  constructor
  · intro h
    split at h
    · rename_i hp
      obtain ⟨x, hx, hk⟩ := List.any_eq_true.mp hp
      obtain ⟨f, hf, rfl⟩ := List.mem_map.mp hx
      exact ⟨f, hf, by simpa using hk⟩
    · split at h <;> cases h
  · rintro ⟨f, hf, hp⟩
    have : ((fields.map fun f => (f.key, fieldVal ov f)).any fun r => r.2 == PR.panic) = true :=
      List.any_eq_true.mpr ⟨(f.key, fieldVal ov f), List.mem_map.mpr ⟨f, hf, rfl⟩, by simp [hp]⟩
    simp [this]

/-- the model's successful results pass the derived-settings monitor -/
theorem holdsDerived_model_ok (fields : List Field) (hnd : (fields.map (·.key)).Nodup)
    (ov : List (String × String)) (r : List (String × Val)) (h : derive fields ov = .ok r) :
    holdsDerived fields ov (some r) = "" := by
  obtain ⟨hr, hall⟩ := derive_ok fields ov r h
  unfold holdsDerived
  have h1 : ((fields.map fun f => (f.key, fieldVal ov f)).any fun r => r.2 == PR.panic) = false := by
    rw [List.any_eq_false]
    rintro x hx
    obtain ⟨f, hf, rfl⟩ := List.mem_map.mp hx
    simpa using (hall f hf).1
  have h2 : ((fields.map fun f => (f.key, fieldVal ov f)).any fun x => x.2 == PR.uncovered) = false := by
    rw [List.any_eq_false]
    rintro x hx
    obtain ⟨f, hf, rfl⟩ := List.mem_map.mp hx
    simpa using (hall f hf).2
  have h3 : ((fields.map fun f => (f.key, fieldVal ov f)).all (fieldAgrees r)) = true := by
    rw [List.all_eq_true]
    rintro x hx
    obtain ⟨f, hf, rfl⟩ := List.mem_map.mp hx
    cases hv : fieldVal ov f with
    | panic => exact absurd hv (hall f hf).1
    | uncovered => exact absurd hv (hall f hf).2
    | val v =>
      have : get r f.key = v := by rw [hr]; exact get_filterMap_keepVal fields ov hnd f hf v hv
      simp [fieldAgrees, this]
  have h4 : (r.all fun kv => fields.any fun f => f.key == kv.1) = true := by
    rw [List.all_eq_true]
    intro kv hkv
    obtain ⟨f, hf, hk⟩ := derive_keys fields ov r h kv hkv
    exact List.any_eq_true.mpr ⟨f, hf, by simp [hk]⟩
  simp only [h1, h2, h3, h4, Bool.false_eq_true, if_false, Bool.not_true]

theorem holdsDerived_model_panic (fields : List Field) (ov : List (String × String))
    (h : derive fields ov = .panic) : holdsDerived fields ov none = "" := by
  obtain ⟨f, hf, hp⟩ := (derive_panic_iff fields ov).mp h
  unfold holdsDerived
  have : ((fields.map fun f => (f.key, fieldVal ov f)).any fun r => r.2 == PR.panic) = true :=
    List.any_eq_true.mpr ⟨(f.key, fieldVal ov f), List.mem_map.mpr ⟨f, hf, rfl⟩, by simp [hp]⟩
  simp [this]

/-! ### the three concrete structs -/

theorem metadata_keys_nodup (c : Cfg) : ((metadataFields c).map (·.key)).Nodup := by
  simp [metadataFields]
theorem membership_keys_nodup : (membershipFields.map (·.key)).Nodup := by decide
theorem elector_keys_nodup : (electorFields.map (·.key)).Nodup := by decide

/-- GetCouchbaseMetadata: the six connection settings are inherited from the
    main configuration unless the map overrides them; the other five start
    from their documented constants -/
theorem metadata_inherits (c : Cfg) (r : List (String × Val)) (h : getCouchbaseMetadata c = .ok r) :
    let ov := mapOf (get c "metadata.config")
    (ov.lookup "hosts" = none → get r "hosts" = get c "hosts") ∧
    (ov.lookup "username" = none → get r "username" = get c "username") ∧
    (ov.lookup "password" = none → get r "password" = get c "password") ∧
    (ov.lookup "bucket" = none → get r "bucket" = get c "bucketName") ∧
    (ov.lookup "secureConnection" = none → get r "secureConnection" = get c "secureConnection") ∧
    (ov.lookup "rootCAPath" = none → get r "rootCAPath" = get c "rootCAPath") ∧
    (ov.lookup "scope" = none → get r "scope" = .str "_default") ∧
    (ov.lookup "collection" = none → get r "collection" = .str "_default") ∧
    (ov.lookup "maxQueueSize" = none → get r "maxQueueSize" = .int 2048) ∧
    (ov.lookup "connectionBufferSize" = none → get r "connectionBufferSize" = .int 5242880) ∧
    (ov.lookup "connectionTimeout" = none → get r "connectionTimeout" = .dur 60000000000) := by
  intro ov
  have key := fun f hf => (derived_inherit_unless_overridden (metadataFields c) (metadata_keys_nodup c) ov r h f hf).2
  refine ⟨?_, ?_, ?_, ?_, ?_, ?_, ?_, ?_, ?_, ?_, ?_⟩ <;> intro hn
  · have := key ⟨"hosts", some (get c "hosts"), pHosts⟩ (by simp [metadataFields]) hn; simpa using this.symm
  · have := key ⟨"username", some (get c "username"), pStr⟩ (by simp [metadataFields]) hn; simpa using this.symm
  · have := key ⟨"password", some (get c "password"), pStr⟩ (by simp [metadataFields]) hn; simpa using this.symm
  · have := key ⟨"bucket", some (get c "bucketName"), pStr⟩ (by simp [metadataFields]) hn; simpa using this.symm
  · have := key ⟨"secureConnection", some (get c "secureConnection"), pBool⟩ (by simp [metadataFields]) hn; simpa using this.symm
  · have := key ⟨"rootCAPath", some (get c "rootCAPath"), pStr⟩ (by simp [metadataFields]) hn; simpa using this.symm
  · have := key ⟨"scope", some (.str "_default"), pStr⟩ (by simp [metadataFields]) hn; simpa using this.symm
  · have := key ⟨"collection", some (.str "_default"), pStr⟩ (by simp [metadataFields]) hn; simpa using this.symm
  · have := key ⟨"maxQueueSize", some (.int 2048), pSize⟩ (by simp [metadataFields]) hn; simpa using this.symm
  · have := key ⟨"connectionBufferSize", some (.int 5242880), pUSize⟩ (by simp [metadataFields]) hn; simpa using this.symm
  · have := key ⟨"connectionTimeout", some (.dur minute), pDur⟩ (by simp [metadataFields]) hn
    simpa [minute, second] using this.symm

/-- GetCouchbaseMembership / GetKubernetesLeaderElector without overrides:
    the documented constants; the elector insists on its two names -/
theorem membership_elector_defaults :
    getCouchbaseMembership [] = .ok [("expirySeconds", .int 120), ("heartbeatInterval", .dur 10000000000),
      ("heartbeatToleranceDuration", .dur 60000000000), ("monitorInterval", .dur 30000000000),
      ("timeout", .dur 30000000000)] ∧
    getKubernetesLeaderElector [] = .panic ∧
    getKubernetesLeaderElector [("leaderElection.config", .smap [("leaseLockName", "l"), ("leaseLockNamespace", "n")])] =
      .ok [("leaseLockName", .str "l"), ("leaseLockNamespace", .str "n"), ("leaseDuration", .dur 8000000000),
        ("renewDeadline", .dur 5000000000), ("retryPeriod", .dur 1000000000)] := by
  decide +kernel

/-- GetFileMetadata returns the configured name and panics exactly when the key
    is missing or empty -/
theorem fileMetadata_spec (c : Cfg) :
    getFileMetadata c = match (mapOf (get c "metadata.config")).lookup "fileName" with
      | some s => if s = "" then none else some s
      | none => none := rfl

end GoDcp.Config

/-! ## Part 5 — `${VAR}` substitution -/
namespace GoDcp.EnvSubst
open GoDcp.Spec.C17

/-! ### the regular-expression scan on a rendered layout -/

theorem scan_none_cons (c : Char) (r : List Char) (h : c ≠ '$') : scan none (c :: r) = scan none r := by
  rw [scan]
  intro r' hc
  exact absurd hc h

theorem scan_none_noDollar (l t : List Char) (h : ∀ c ∈ l, c ≠ '$') : scan none (l ++ t) = scan none t := by
  induction l with
  | nil => rfl
  | cons c l ih =>
    rw [List.cons_append, scan_none_cons c _ (h c (List.mem_cons_self ..))]
    exact ih (fun c hc => h c (List.mem_cons_of_mem _ hc))

theorem scan_some (acc n t : List Char) (hn : ∀ c ∈ n, c ≠ '}') :
    scan (some acc) (n ++ '}' :: t) =
      if (acc.reverse ++ n).isEmpty then scan none t else (acc.reverse ++ n) :: scan none t := by
  induction n generalizing acc with
  | nil => simp [scan]
  | cons c n ih =>
    have hc : c ≠ '}' := hn c (List.mem_cons_self ..)
    rw [List.cons_append, scan]
    simp only [hc, if_false]
    rw [ih (c :: acc) (fun c hc => hn c (List.mem_cons_of_mem _ hc))]
    simp

theorem scan_placeholder (n t : List Char) (hne : n ≠ []) (hn : ∀ c ∈ n, c ≠ '}') :
    scan none (placeholder n ++ t) = n :: scan none t := by
  have : placeholder n ++ t = '$' :: '{' :: (n ++ '}' :: t) := by simp [placeholder]
  rw [this, scan, scan_some [] n t hn]
  cases n with
  | nil => exact absurd rfl hne
  | cons => simp

def vars : List Seg → List (List Char)
  | [] => []
  | .lit _ :: r => vars r
  | .var n :: r => n :: vars r

theorem mem_ne_of_not_contains (s : List Char) (d : Char) (h : s.contains d = false) : ∀ c ∈ s, c ≠ d := by
  intro c hc hcd
  subst hcd
  have : s.contains c = true := by simpa using hc
  rw [this] at h; cases h

theorem noDollar_mem (s : List Char) (h : noDollar s = true) : ∀ c ∈ s, c ≠ '$' := by
  apply mem_ne_of_not_contains
  simpa [noDollar] using h

theorem render_cons (x : Seg) (r : List Seg) : render (x :: r) = x.render ++ render r := by
  simp [render]

/-- `FindAllStringSubmatch` on a rendered simple layout finds exactly its placeholders, in order -/
theorem findAll_render (segs : List Seg) (hs : segs.all Seg.simple = true) :
    findAll (render segs) = vars segs := by
  unfold findAll
  induction segs with
  | nil => rfl
  | cons x r ih =>
    simp only [List.all_cons, Bool.and_eq_true] at hs
    rw [render_cons]
    cases x with
    | lit s =>
      simp only [Seg.simple] at hs
      rw [Seg.render, scan_none_noDollar s _ (noDollar_mem s hs.1), ih hs.2, vars]
    | var n =>
      simp only [Seg.simple, Bool.and_eq_true, Bool.not_eq_true'] at hs
      have hne : n ≠ [] := by
        intro h; simp [h] at hs
      rw [Seg.render, scan_placeholder n _ hne (mem_ne_of_not_contains n '}' hs.1.2), ih hs.2, vars]

/-! ### `strings.ReplaceAll` on a rendered layout -/

theorem replaceGo_skip (old new : List Char) (k : Nat) (l t : List Char) (h : l.length = k) :
    replaceGo old new k (l ++ t) = replaceGo old new 0 t := by
  induction l generalizing k with
  | nil => simp at h; subst h; rfl
  | cons c l ih =>
    cases k with
    | zero => simp at h
    | succ k =>
      rw [List.cons_append, replaceGo]
      exact ih k (by simpa using h)

theorem replaceGo_noDollar (o new l t : List Char) (h : ∀ c ∈ l, c ≠ '$') :
    replaceGo ('$' :: o) new 0 (l ++ t) = l ++ replaceGo ('$' :: o) new 0 t := by
  induction l with
  | nil => rfl
  | cons c l ih =>
    have hc : c ≠ '$' := h c (List.mem_cons_self ..)
    have hp : ('$' :: o).isPrefixOf (c :: (l ++ t)) = false := by
      simp [List.isPrefixOf, Ne.symm hc]
    rw [List.cons_append, replaceGo]
    simp only [hp, Bool.false_eq_true, if_false]
    rw [ih (fun c hc => h c (List.mem_cons_of_mem _ hc))]
    rfl

theorem isPrefixOf_self_append (a t : List Char) : a.isPrefixOf (a ++ t) = true := by
  induction a with
  | nil => simp
  | cons c a ih => simp [ih]

theorem replaceGo_match (o new t : List Char) :
    replaceGo ('$' :: o) new 0 (('$' :: o) ++ t) = new ++ replaceGo ('$' :: o) new 0 t := by
  rw [List.cons_append, replaceGo]
  have hp : ('$' :: o).isPrefixOf ('$' :: (o ++ t)) = true := isPrefixOf_self_append ('$' :: o) t
  simp only [hp, if_true, List.length_cons, Nat.add_sub_cancel]
  rw [replaceGo_skip _ _ _ o t rfl]

/-- two brace-free names that are followed by `}` at the same place are equal -/
theorem name_prefix (n m t : List Char) (hn : ∀ c ∈ n, c ≠ '}') (hm : ∀ c ∈ m, c ≠ '}')
    (h : (n ++ ['}']).isPrefixOf (m ++ '}' :: t) = true) : n = m := by
  induction n generalizing m with
  | nil =>
    cases m with
    | nil => rfl
    | cons d m =>
      have hd : d ≠ '}' := hm d (List.mem_cons_self ..)
      simp [List.isPrefixOf, Ne.symm hd] at h
  | cons c n ih =>
    have hc : c ≠ '}' := hn c (List.mem_cons_self ..)
    cases m with
    | nil => simp [List.isPrefixOf, hc] at h
    | cons d m =>
      simp only [List.cons_append, List.isPrefixOf, Bool.and_eq_true, beq_iff_eq] at h
      rw [h.1, ih m (fun c hc => hn c (List.mem_cons_of_mem _ hc))
        (fun c hc => hm c (List.mem_cons_of_mem _ hc)) h.2]

theorem replaceGo_other (n m new t : List Char) (hn : ∀ c ∈ n, c ≠ '}') (hm : ∀ c ∈ m, c ≠ '}')
    (hmd : ∀ c ∈ m, c ≠ '$') (hne : n ≠ m) :
    replaceGo (placeholder n) new 0 (placeholder m ++ t) = placeholder m ++ replaceGo (placeholder n) new 0 t := by
  have e1 : placeholder m ++ t = '$' :: ('{' :: (m ++ ['}']) ++ t) := by simp [placeholder]
  have hp : (placeholder n).isPrefixOf ('$' :: ('{' :: (m ++ ['}']) ++ t)) = false := by
    cases hx : (placeholder n).isPrefixOf ('$' :: ('{' :: (m ++ ['}']) ++ t))
    · rfl
    · exfalso
      apply hne
      apply name_prefix n m t hn hm
      simpa [placeholder, List.isPrefixOf] using hx
  rw [e1, replaceGo]
  · simp only [hp, Bool.false_eq_true, if_false]
    have hb : ∀ c ∈ '{' :: (m ++ ['}']), c ≠ '$' := by
      intro c hc
      simp only [List.mem_cons, List.mem_append, List.not_mem_nil, or_false] at hc
      rcases hc with rfl | hc | rfl
      · decide
      · exact hmd c hc
      · decide
    have := replaceGo_noDollar ('{' :: (n ++ ['}'])) new ('{' :: (m ++ ['}'])) t hb
    simp only [placeholder] at this ⊢
    rw [this]
    simp

/-! ### the loop -/

/-- a layout in which the placeholders of the names in `S` have been substituted -/
def segAfter (env : Env) (S : List (List Char)) : Seg → List Char
  | .lit s => s
  | .var n => if n ∈ S then Seg.expected env (.var n) else placeholder n

def rend (env : Env) (S : List (List Char)) (segs : List Seg) : List Char :=
  (segs.map (segAfter env S)).flatten

theorem rend_cons (env : Env) (S : List (List Char)) (x : Seg) (r : List Seg) :
    rend env S (x :: r) = segAfter env S x ++ rend env S r := by simp [rend]

theorem lookup_mem (env : Env) (n v : List Char) (h : lookupEnv env n = some v) : (n, v) ∈ env := by
  unfold lookupEnv at h
  induction env with
  | nil => cases h
  | cons kv env ih =>
    obtain ⟨k, w⟩ := kv
    simp only [List.lookup] at h
    split at h
    · rename_i hk
      cases h
      have : n = k := by simpa using hk
      subst this; exact List.mem_cons_self ..
    · exact List.mem_cons_of_mem _ (ih h)

theorem value_noDollar (env : Env) (he : envSimple env = true) (n v : List Char)
    (h : lookupEnv env n = some v) : ∀ c ∈ v, c ≠ '$' := by
  have hm := lookup_mem env n v h
  have := (List.all_eq_true.mp he) (n, v) hm
  exact noDollar_mem v this

theorem expected_some (env : Env) (n v : List Char) (h : lookupEnv env n = some v) :
    Seg.expected env (.var n) = v := by simp [Seg.expected, h]

theorem expected_none (env : Env) (n : List Char) (h : lookupEnv env n = none) :
    Seg.expected env (.var n) = placeholder n := by simp [Seg.expected, h]

/-- one loop iteration for a set variable: every remaining `${n}` becomes the value -/
theorem replaceAll_rend (env : Env) (he : envSimple env = true) (S : List (List Char)) (segs : List Seg)
    (hs : segs.all Seg.simple = true) (n v : List Char)
    (hn : Seg.simple (.var n) = true) (hv : lookupEnv env n = some v) :
    replaceAll (rend env S segs) (placeholder n) v = rend env (n :: S) segs := by
  unfold replaceAll
  simp only [Seg.simple, Bool.and_eq_true, Bool.not_eq_true'] at hn
  have hnb := mem_ne_of_not_contains n '}' hn.2
  induction segs with
  | nil => rfl
  | cons x r ih =>
    simp only [List.all_cons, Bool.and_eq_true] at hs
    rw [rend_cons, rend_cons, ← ih hs.2]
    cases x with
    | lit s =>
      simp only [Seg.simple] at hs
      simp only [segAfter]
      exact replaceGo_noDollar _ _ _ _ (noDollar_mem s hs.1)
    | var m =>
      have hm := hs.1
      simp only [Seg.simple, Bool.and_eq_true, Bool.not_eq_true'] at hm
      have hmb := mem_ne_of_not_contains m '}' hm.2
      have hmd := noDollar_mem m hm.1.2
      simp only [segAfter]
      by_cases hmn : m = n
      · subst hmn
        simp only [List.mem_cons, true_or, if_true, expected_some env m v hv]
        by_cases hS : m ∈ S
        · simp only [hS, if_true]
          exact replaceGo_noDollar _ _ _ _ (value_noDollar env he m v hv)
        · simp only [hS, if_false]
          exact replaceGo_match _ _ _
      · have hnm : n ≠ m := fun h => hmn h.symm
        by_cases hS : m ∈ S
        · simp only [hS, List.mem_cons, hmn, false_or, if_true]
          cases hw : lookupEnv env m with
          | some w =>
            rw [expected_some env m w hw]
            exact replaceGo_noDollar _ _ _ _ (value_noDollar env he m w hw)
          | none =>
            rw [expected_none env m hw]
            exact replaceGo_other n m v _ hnb hmb hmd hnm
        · simp only [hS, List.mem_cons, hmn, false_or, if_false]
          exact replaceGo_other n m v _ hnb hmb hmd hnm

/-- one loop iteration, set or unset -/
theorem substStep_rend (env : Env) (he : envSimple env = true) (S : List (List Char)) (segs : List Seg)
    (hs : segs.all Seg.simple = true) (n : List Char) (hn : Seg.simple (.var n) = true) :
    substStep env (rend env S segs) n = rend env (n :: S) segs := by
  unfold substStep
  cases hv : lookupEnv env n with
  | some v => exact replaceAll_rend env he S segs hs n v hn hv
  | none =>
    simp only [rend]
    congr 1
    apply List.map_congr_left
    intro x _
    cases x with
    | lit s => rfl
    | var m =>
      simp only [segAfter, List.mem_cons]
      by_cases hmn : m = n
      · subst hmn; simp [expected_none env m hv]
      · simp [hmn]

theorem vars_simple (segs : List Seg) (hs : segs.all Seg.simple = true) :
    ∀ n ∈ vars segs, Seg.simple (.var n) = true := by
  induction segs with
  | nil => intro n hn; cases hn
  | cons x r ih =>
    simp only [List.all_cons, Bool.and_eq_true] at hs
    cases x with
    | lit s => simpa [vars] using ih hs.2
    | var m =>
      intro n hn
      simp only [vars, List.mem_cons] at hn
      rcases hn with rfl | hn
      · exact hs.1
      · exact ih hs.2 n hn

theorem foldl_rend (env : Env) (he : envSimple env = true) (segs : List Seg) (hs : segs.all Seg.simple = true)
    (L : List (List Char)) (hL : ∀ n ∈ L, Seg.simple (.var n) = true) (S : List (List Char)) :
    L.foldl (substStep env) (rend env S segs) = rend env (L.reverse ++ S) segs := by
  induction L generalizing S with
  | nil => rfl
  | cons n L ih =>
    rw [List.foldl_cons, substStep_rend env he S segs hs n (hL n (List.mem_cons_self ..)),
      ih (fun m hm => hL m (List.mem_cons_of_mem _ hm))]
    simp

theorem mem_vars (segs : List Seg) (n : List Char) (h : Seg.var n ∈ segs) : n ∈ vars segs := by
  induction segs with
  | nil => cases h
  | cons x r ih =>
    rcases List.mem_cons.mp h with hx | h'
    · subst hx; simp [vars]
    · cases x with
      | lit s => simpa [vars] using ih h'
      | var m => simp [vars, ih h']

/-- **substEnv_all_occurrences**: for literals and VALUES without `$` (names
    non-empty, without `$` and `}`), the text handed to the YAML parser has every
    occurrence of every placeholder replaced by the variable's value when the
    variable is set (also when it is set to the empty string) and left untouched
    when it is not -/
theorem substEnv_all_occurrences (env : Env) (segs : List Seg)
    (he : envSimple env = true) (hs : segs.all Seg.simple = true) :
    substEnv env (render segs) = expected env segs := by
  unfold substEnv
  rw [findAll_render segs hs]
  have h0 : render segs = rend env [] segs := by
    have hf : Seg.render = segAfter env [] := by
      funext x
      cases x <;> simp [Seg.render, segAfter]
    unfold render rend
    rw [hf]
  rw [h0, foldl_rend env he segs hs (vars segs) (vars_simple segs hs) []]
  simp only [rend, expected]
  congr 1
  apply List.map_congr_left
  intro x hx
  cases x with
  | lit s => rfl
  | var m =>
    have : m ∈ (vars segs).reverse ++ [] := by simpa using mem_vars segs m hx
    simp only [segAfter, this, if_true]

/-- non-vacuity, and the behaviour outside the hypothesis: a VALUE that itself
    contains a placeholder is substituted again when that name occurs later in the
    file, and not when it occurred earlier -/
example :
    String.ofList (substEnv [("A".toList, "x".toList)] "u: ${A}-${B}-${A}".toList) = "u: x-${B}-x" ∧
    String.ofList (substEnv [("A".toList, "${B}".toList), ("B".toList, "y".toList)] "${A} ${B}".toList) = "y y" ∧
    String.ofList (substEnv [("A".toList, "${B}".toList), ("B".toList, "y".toList)] "${B} ${A}".toList) = "y ${B}" := by
  decide +kernel

end GoDcp.EnvSubst

/-! ## Part 4 — size units -/
namespace GoDcp.Units
open GoDcp.Spec.C17

/-! ### characters -/

theorem digit_range (c : Char) (h : isDigit c = true) : 48 ≤ c.toNat ∧ c.toNat ≤ 57 := by
  simp only [isDigit, Char.isDigit, Bool.and_eq_true, decide_eq_true_eq] at h
  exact ⟨UInt32.le_iff_toNat_le.mp h.1, UInt32.le_iff_toNat_le.mp h.2⟩

/-- a digit differs from every non-digit -/
theorem digit_ne (c d : Char) (hc : isDigit c = true) (hd : isDigit d = false) : c ≠ d := by
  intro h; subst h; rw [hc] at hd; cases hd

theorem digit_not_space (c : Char) (h : isDigit c = true) : isSpace c = false := by
  have := digit_range c h
  simp only [isSpace, Bool.or_eq_false_iff, Bool.and_eq_false_iff, beq_eq_false_iff_ne,
    decide_eq_false_iff_not, ne_eq]
  omega

theorem digit_not_special (c : Char) (h : isDigit c = true) : special c = false := by
  simp [special, digit_ne c '_' h (by decide), digit_ne c 'x' h (by decide), digit_ne c 'X' h (by decide),
    digit_ne c 'i' h (by decide), digit_ne c 'I' h (by decide), digit_ne c 'n' h (by decide),
    digit_ne c 'N' h (by decide)]

theorem toUpper_digit (c : Char) (h : isDigit c = true) : c.toUpper = c := by
  have hr := digit_range c h
  unfold Char.toUpper
  rw [dif_neg]
  rintro ⟨h1, _⟩
  have := UInt32.le_iff_toNat_le.mp h1
  have e : c.val.toNat = c.toNat := rfl
  have e2 : 'a'.val.toNat = 97 := rfl
  omega

/-! ### lists -/

theorem dropWhile_append_all (p : Char → Bool) (l r : List Char) (h : ∀ c ∈ l, p c = true) :
    (l ++ r).dropWhile p = r.dropWhile p := by
  induction l with
  | nil => rfl
  | cons c l ih =>
    rw [List.cons_append, List.dropWhile_cons_of_pos (h c (List.mem_cons_self ..))]
    exact ih (fun c hc => h c (List.mem_cons_of_mem _ hc))

theorem takeWhile_append_all (p : Char → Bool) (l r : List Char) (h : ∀ c ∈ l, p c = true) :
    (l ++ r).takeWhile p = l ++ r.takeWhile p := by
  induction l with
  | nil => rfl
  | cons c l ih =>
    rw [List.cons_append, List.takeWhile_cons_of_pos (h c (List.mem_cons_self ..)),
      ih (fun c hc => h c (List.mem_cons_of_mem _ hc))]
    rfl

theorem dropWhile_head_neg (p : Char → Bool) (c : Char) (r : List Char) (h : p c = false) :
    (c :: r).dropWhile p = c :: r := List.dropWhile_cons_of_neg (by simp [h])

theorem takeWhile_head_neg (p : Char → Bool) (c : Char) (r : List Char) (h : p c = false) :
    (c :: r).takeWhile p = [] := List.takeWhile_cons_of_neg (by simp [h])

/-- TrimSpace removes the padding around a non-empty blank-free core -/
theorem trimSpace_pad (lead core mid : List Char) (hl : ∀ c ∈ lead, isSpace c = true)
    (hm : ∀ c ∈ mid, isSpace c = true) (hc : ∀ c ∈ core, isSpace c = false) (hne : core ≠ []) :
    trimSpace (lead ++ core ++ mid) = core := by
  unfold trimSpace
  rw [List.append_assoc, dropWhile_append_all _ _ _ hl]
  obtain ⟨a, cs, rfl⟩ := List.exists_cons_of_ne_nil hne
  rw [List.cons_append, dropWhile_head_neg _ _ _ (hc a (List.mem_cons_self ..))]
  rw [← List.cons_append, List.reverse_append,
    dropWhile_append_all _ _ _ (fun c hc' => hm c (List.mem_reverse.mp hc'))]
  have hne' : (a :: cs).reverse ≠ [] := by simp
  obtain ⟨z, zs, hz⟩ := List.exists_cons_of_ne_nil hne'
  rw [hz, dropWhile_head_neg _ _ _ (hc z (by
    have : z ∈ (a :: cs).reverse := by rw [hz]; exact List.mem_cons_self ..
    exact List.mem_reverse.mp this)), ← hz, List.reverse_reverse]

/-! ### the parsers on well-formed pieces -/

theorem splitSign_plain (s : List Char) (h1 : ∀ r, s ≠ '+' :: r) (h2 : ∀ r, s ≠ '-' :: r) :
    splitSign s = (false, s) := by
  unfold splitSign
  split
  · exact absurd rfl (h1 _)
  · exact absurd rfl (h2 _)
  · rfl

/-- `parseUnsigned` on `digits [ '.' digits ]` -/
theorem parseUnsigned_wf (neg : Bool) (ip fp : List Char) (dot : Bool)
    (hip : ∀ c ∈ ip, isDigit c = true) (hfp : ∀ c ∈ fp, isDigit c = true)
    (hne : ip ++ fp ≠ []) (hdot : dot = false → fp = []) :
    parseUnsigned neg (ip ++ (if dot then '.' :: fp else [])) =
      some { neg, mant := digitsVal (ip ++ fp), frac := fp.length, exp := 0 } := by
  unfold parseUnsigned
  cases dot with
  | false =>
    have hf := hdot rfl
    subst hf
    simp only [Bool.false_eq_true, if_false, List.append_nil] at hne ⊢
    have h1 : ip.takeWhile isDigit = ip := by
      have := takeWhile_append_all isDigit ip [] hip
      simpa using this
    have h2 : ip.dropWhile isDigit = [] := by
      have := dropWhile_append_all isDigit ip [] hip
      simpa using this
    simp only [h1, h2]
    have : ip.isEmpty = false := by cases ip <;> simp_all
    simp [this]
  | true =>
    simp only [if_true]
    have hd : isDigit '.' = false := by decide
    have h1 : (ip ++ '.' :: fp).takeWhile isDigit = ip := by
      rw [takeWhile_append_all _ _ _ hip, takeWhile_head_neg _ _ _ hd]; simp
    have h2 : (ip ++ '.' :: fp).dropWhile isDigit = '.' :: fp := by
      rw [dropWhile_append_all _ _ _ hip, dropWhile_head_neg _ _ _ hd]
    have h3 : fp.takeWhile isDigit = fp := by
      have := takeWhile_append_all isDigit fp [] hfp
      simpa using this
    have h4 : fp.dropWhile isDigit = [] := by
      have := dropWhile_append_all isDigit fp [] hfp
      simpa using this
    simp only [h1, h2, h3, h4]
    have : (ip.isEmpty && fp.isEmpty) = false := by
      cases ip <;> cases fp <;> simp_all
    simp [this]

/-! ### plain integers -/

theorem all_false_of_mem (p : Char → Bool) (l : List Char) (z : Char) (hz : z ∈ l) (hp : p z = false) :
    l.all p = false := by
  cases h : l.all p
  · rfl
  · have := (List.all_eq_true.mp h) z hz
    rw [hp] at this; cases this

theorem splitSign_cases (s : List Char) :
    (splitSign s).2 = s ∨ ∃ c, s = c :: (splitSign s).2 := by
  unfold splitSign
  split
  · exact Or.inr ⟨_, rfl⟩
  · exact Or.inr ⟨_, rfl⟩
  · exact Or.inl rfl

theorem mem_tail_last (pre : List Char) (y z : Char) (c : Char) (b : List Char)
    (h : pre ++ [y, z] = c :: b) : z ∈ b := by
  cases pre with
  | nil => simp at h; simp [← h.2]
  | cons a pre => simp at h; simp [← h.2]

/-- a string whose last character is not a digit is no integer for `ParseInt` -/
theorem parseInt64_none (pre : List Char) (y z : Char) (hz : isDigit z = false) :
    parseInt64 (pre ++ [y, z]) = none := by
  unfold parseInt64
  have hb : ((splitSign (pre ++ [y, z])).2).all isDigit = false := by
    rcases splitSign_cases (pre ++ [y, z]) with h | ⟨c, h⟩
    · rw [h]; exact all_false_of_mem _ _ z (by simp) hz
    · exact all_false_of_mem _ _ z (mem_tail_last pre y z c _ h) hz
  simp [hb]

/-- **plain_int_identity**: a plain decimal integer (optional sign) that fits
    `int64` resolves to itself -/
theorem plain_int_identity (ds : List Char) (hne : ds ≠ []) (hd : ∀ c ∈ ds, isDigit c = true) :
    (digitsVal ds < 2 ^ 63 → resolveString ds = .ok (digitsVal ds)) ∧
    (digitsVal ds < 2 ^ 63 → resolveString ('+' :: ds) = .ok (digitsVal ds)) ∧
    (digitsVal ds ≤ 2 ^ 63 → resolveString ('-' :: ds) = .ok (-(digitsVal ds : Int))) := by
  have hall : ds.all isDigit = true := List.all_eq_true.mpr hd
  have hemp : ds.isEmpty = false := by cases ds <;> simp_all
  have hplain : splitSign ds = (false, ds) := by
    apply splitSign_plain
    · intro r h; subst h; exact absurd (hd '+' (List.mem_cons_self ..)) (by decide)
    · intro r h; subst h; exact absurd (hd '-' (List.mem_cons_self ..)) (by decide)
  refine ⟨fun h => ?_, fun h => ?_, fun h => ?_⟩
  · simp [resolveString, parseInt64, hplain, hall, hemp, h]
  · simp [resolveString, parseInt64, splitSign, hall, hemp, h]
  · simp [resolveString, parseInt64, splitSign, hall, hemp, h]

/-! ### well-formed size strings -/

def signChars : Option Bool → List Char
  | none => []
  | some false => ['+']
  | some true => ['-']

def signNeg (sg : Option Bool) : Bool := sg == some true

def fracChars : Option Char → List Char → List Char
  | none, _ => []
  | some c, fp => c :: fp

/-- the fraction as `ParseFloat` sees it -/
def dotted (b : Bool) (fp : List Char) : List Char := if b then '.' :: fp else []

theorem unitPow_two (a b : Char) (k : Nat) (h : unitPow [a, b] = some k) : b = 'B' ∧ 1 ≤ k ∧ k ≤ 3 := by
  unfold unitPow at h
  split at h
  · rename_i h1; simp at h1
  · split at h
    · rename_i h1; simp at h1; cases h; exact ⟨h1.2, by omega, by omega⟩
    · split at h
      · rename_i h1; simp at h1; cases h; exact ⟨h1.2, by omega, by omega⟩
      · split at h
        · rename_i h1; simp at h1; cases h; exact ⟨h1.2, by omega, by omega⟩
        · cases h

theorem map_dot_digits (l : List Char) (h : ∀ c ∈ l, isDigit c = true) :
    l.map (fun c => if c = ',' then '.' else c) = l := by
  induction l with
  | nil => rfl
  | cons c l ih =>
    have hc : c ≠ ',' := digit_ne c ',' (h c (List.mem_cons_self ..)) (by decide)
    simp only [List.map_cons, hc, if_false]
    rw [ih (fun c hc => h c (List.mem_cons_of_mem _ hc))]

theorem scaled_zero_exp (neg : Bool) (m f k : Nat) (hr : m * 1024 ^ k / 10 ^ f < 2 ^ 63) :
    scaled { neg, mant := m, frac := f, exp := 0 } k =
      .ok (if neg then -((m * 1024 ^ k / 10 ^ f : Nat) : Int) else ((m * 1024 ^ k / 10 ^ f : Nat) : Int)) := by
  unfold scaled
  simp only [show ¬((0 : Int) > 400) by omega, show ¬((0 : Int) < -400) by omega, decide_false,
    Bool.or_self, Bool.false_eq_true, if_false, Int.toNat_zero, Int.neg_zero, Nat.pow_zero, Nat.mul_one]
  cases neg with
  | true => simp [Nat.le_of_lt hr]
  | false => simp [hr]

/-- **resolveSize_units**: `[blanks][+|-] digits [(.|,) digits*] [blanks] (kb|mb|gb, any case)`
    resolves to the number times 1024^k, truncated – provided the result fits `int64`.
    (Blanks = anything `unicode.IsSpace`; blanks AFTER the unit are not part of the grammar:
    they make the code panic.) -/
theorem resolveSize_units (lead mid ip fp : List Char) (sg : Option Bool) (sep : Option Char)
    (u1 u2 : Char) (k : Nat)
    (hlead : ∀ c ∈ lead, isSpace c = true) (hmid : ∀ c ∈ mid, isSpace c = true)
    (hip : ∀ c ∈ ip, isDigit c = true) (hfp : ∀ c ∈ fp, isDigit c = true) (hne : ip ++ fp ≠ [])
    (hsep0 : sep = none → fp = []) (hsepc : ∀ c, sep = some c → c = '.' ∨ c = ',')
    (hu : unitPow [u1.toUpper, u2.toUpper] = some k)
    (hr : digitsVal (ip ++ fp) * 1024 ^ k / 10 ^ fp.length < 2 ^ 63) :
    resolveString (lead ++ (signChars sg ++ ip ++ fracChars sep fp) ++ mid ++ [u1, u2]) =
      .ok (WF.expected { neg := signNeg sg, ip, fp, k }) := by
  -- the last character is a letter
  have hB := (unitPow_two _ _ _ hu).1
  have hz : isDigit u2 = false := by
    cases hd : isDigit u2
    · rfl
    · rw [toUpper_digit u2 hd] at hB; subst hB; revert hd; decide
  -- the dotted fraction
  have hdot0 : sep.isSome = false → fp = [] := by
    intro h; apply hsep0; cases sep <;> simp_all
  have hfracmap : (fracChars sep fp).map (fun c => if c = ',' then '.' else c) = dotted sep.isSome fp := by
    cases hs : sep with
    | none => simp [fracChars, dotted]
    | some c =>
      rcases hsepc c hs with rfl | rfl <;> simp [fracChars, dotted, map_dot_digits fp hfp]
  have hsignmap : (signChars sg).map (fun c => if c = ',' then '.' else c) = signChars sg := by
    rcases sg with _ | _ | _ <;> simp [signChars]
  -- the core is blank-free and non-empty
  have hcore_ns : ∀ c ∈ signChars sg ++ ip ++ fracChars sep fp, isSpace c = false := by
    intro c hc
    simp only [List.mem_append] at hc
    rcases hc with (hc | hc) | hc
    · rcases sg with _ | _ | _ <;> simp [signChars] at hc <;> subst hc <;> decide
    · exact digit_not_space c (hip c hc)
    · cases hs : sep with
      | none => simp [hs, fracChars] at hc
      | some d =>
        simp only [hs, fracChars, List.mem_cons] at hc
        rcases hc with rfl | hc
        · rcases hsepc _ hs with rfl | rfl <;> decide
        · exact digit_not_space c (hfp c hc)
  have hcore_ne : signChars sg ++ ip ++ fracChars sep fp ≠ [] := by
    intro h
    simp only [List.append_eq_nil_iff] at h
    apply hne
    have hf : fp = [] := by
      cases hs : sep with
      | none => exact hsep0 hs
      | some d => simp [hs, fracChars] at h
    simp [h.1.2, hf]
  unfold resolveString
  have e0 : lead ++ (signChars sg ++ ip ++ fracChars sep fp) ++ mid ++ [u1, u2] =
      (lead ++ (signChars sg ++ ip ++ fracChars sep fp) ++ mid) ++ [u1, u2] := rfl
  rw [e0, parseInt64_none _ u1 u2 hz]
  simp only []
  unfold convertSize
  have hlen : ((lead ++ (signChars sg ++ ip ++ fracChars sep fp) ++ mid) ++ [u1, u2]).length - 2 =
      (lead ++ (signChars sg ++ ip ++ fracChars sep fp) ++ mid).length := by
    simp only [List.length_append, List.length_cons, List.length_nil]; omega
  have hlt : ¬ ((lead ++ (signChars sg ++ ip ++ fracChars sep fp) ++ mid) ++ [u1, u2]).length < 2 := by
    simp only [List.length_append, List.length_cons, List.length_nil]; omega
  simp only [hlt, if_false]
  have hunit : unitOf ((lead ++ (signChars sg ++ ip ++ fracChars sep fp) ++ mid) ++ [u1, u2]) =
      [u1.toUpper, u2.toUpper] := by
    unfold unitOf
    rw [hlen, List.drop_left']
    · rfl
    · rfl
  have hsize : sizeStr ((lead ++ (signChars sg ++ ip ++ fracChars sep fp) ++ mid) ++ [u1, u2]) =
      signChars sg ++ (ip ++ dotted sep.isSome fp) := by
    unfold sizeStr
    rw [hlen, List.take_left' rfl, trimSpace_pad lead _ mid hlead hmid hcore_ns hcore_ne]
    rw [List.map_append, List.map_append, hsignmap, map_dot_digits ip hip, hfracmap, List.append_assoc]
  rw [hunit, hu, hsize]
  simp only []
  -- no special characters
  have hspec : (signChars sg ++ (ip ++ dotted sep.isSome fp)).any special = false := by
    rw [List.any_eq_false]
    intro c hc
    simp only [List.mem_append] at hc
    have : special c = false := by
      rcases hc with hc | hc | hc
      · rcases sg with _ | _ | _ <;> simp [signChars] at hc <;> subst hc <;> decide
      · exact digit_not_special c (hip c hc)
      · simp only [dotted] at hc
        split at hc
        · simp only [List.mem_cons] at hc
          rcases hc with rfl | hc
          · decide
          · exact digit_not_special c (hfp c hc)
        · cases hc
    simp [this]
  simp only [hspec, Bool.false_eq_true, if_false]
  -- the decimal parser
  have hrest1 : ∀ r, ip ++ dotted sep.isSome fp ≠ '+' :: r := by
    intro r h
    cases ip with
    | nil =>
      simp only [dotted, List.nil_append] at h
      split at h
      · cases h
      · cases h
    | cons a ip' =>
      simp only [List.cons_append, List.cons.injEq] at h
      exact digit_ne a '+' (hip a (List.mem_cons_self ..)) (by decide) h.1
  have hrest2 : ∀ r, ip ++ dotted sep.isSome fp ≠ '-' :: r := by
    intro r h
    cases ip with
    | nil =>
      simp only [dotted, List.nil_append] at h
      split at h
      · cases h
      · cases h
    | cons a ip' =>
      simp only [List.cons_append, List.cons.injEq] at h
      exact digit_ne a '-' (hip a (List.mem_cons_self ..)) (by decide) h.1
  have hsplit : splitSign (signChars sg ++ (ip ++ dotted sep.isSome fp)) = (signNeg sg, ip ++ dotted sep.isSome fp) := by
    rcases sg with _ | _ | _
    · simpa [signChars, signNeg] using splitSign_plain _ hrest1 hrest2
    · simp [signChars, signNeg, splitSign]
    · simp [signChars, signNeg, splitSign]
  have hdec : parseDec (signChars sg ++ (ip ++ dotted sep.isSome fp)) =
      some { neg := signNeg sg, mant := digitsVal (ip ++ fp), frac := fp.length, exp := 0 } := by
    unfold parseDec
    rw [hsplit]
    exact parseUnsigned_wf (signNeg sg) ip fp sep.isSome hip hfp hne hdot0
  rw [hdec]
  simp only []
  rw [scaled_zero_exp _ _ _ _ hr]
  rfl

/-- non-vacuity: "1,5 mB" -/
example : resolveString " 1,5 mB".toList = .ok 1572864 ∧
    unitPow ['m'.toUpper, 'B'.toUpper] = some 2 := by decide +kernel

/-! ### the dead `"B"` case -/

/-- `unit` always has two characters, so `case "B"` of the switch can never be taken -/
theorem unit_B_unreachable (s : List Char) (h : 2 ≤ s.length) : unitOf s ≠ ['B'] := by
  intro hu
  have : (unitOf s).length = 2 := by
    unfold unitOf
    simp only [List.length_map, List.length_drop]
    omega
  rw [hu] at this
  cases this

/-- consequently a byte count with the documented unit `B` panics: `"10B"`, `"512b"`, … -/
theorem size_B_suffix_panics (ds : List Char) (hne : ds ≠ []) (hd : ∀ c ∈ ds, isDigit c = true)
    (b : Char) (hb : b = 'b' ∨ b = 'B') : resolveString (ds ++ [b]) = .panic := by
  obtain ⟨init, d, rfl⟩ : ∃ init d, ds = init ++ [d] := by
    refine ⟨ds.dropLast, ds.getLast hne, ?_⟩
    exact (List.dropLast_concat_getLast hne).symm
  have hdd : isDigit d = true := hd d (by simp)
  have hbz : isDigit b = false := by rcases hb with rfl | rfl <;> decide
  have e0 : init ++ [d] ++ [b] = init ++ [d, b] := by simp
  unfold resolveString
  rw [e0, parseInt64_none init d b hbz]
  simp only []
  unfold convertSize
  have hlt : ¬ (init ++ [d, b]).length < 2 := by
    simp only [List.length_append, List.length_cons, List.length_nil]; omega
  have hlen : (init ++ [d, b]).length - 2 = init.length := by
    simp only [List.length_append, List.length_cons, List.length_nil]; omega
  have hunit : unitOf (init ++ [d, b]) = [d.toUpper, b.toUpper] := by
    unfold unitOf
    rw [hlen, List.drop_left' rfl]
    rfl
  simp only [hlt, if_false, hunit]
  have : unitPow [d.toUpper, b.toUpper] = none := by
    rw [toUpper_digit d hdd]
    unfold unitPow
    have h1 : d ≠ 'K' := digit_ne d 'K' hdd (by decide)
    have h2 : d ≠ 'M' := digit_ne d 'M' hdd (by decide)
    have h3 : d ≠ 'G' := digit_ne d 'G' hdd (by decide)
    simp [h1, h2, h3]
  rw [this]

/-! ### the model passes the unit monitors -/

def resInt : Res → Option Int
  | .ok n => some n
  | _ => none

theorem holdsSizeWF_model (w : WF) (s : List Char) (h : resolveString s = .ok w.expected) :
    holdsSizeWF w (resInt (resolveString s)) = "" := by
  simp [holdsSizeWF, h, resInt]

theorem holdsSizeInt_model (neg : Bool) (ds s : List Char)
    (h : resolveString s = .ok (if neg then -(digitsVal ds : Int) else (digitsVal ds : Int))) :
    holdsSizeInt neg ds (resInt (resolveString s)) = "" := by
  simp [holdsSizeInt, h, resInt]

end GoDcp.Units
