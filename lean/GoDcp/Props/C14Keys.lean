import GoDcp.Model.Keys
import GoDcp.Spec.C14K
/-!
# C14 (keys part) — every key the library writes is one the library filters,
and keys are unambiguous

All theorems are for **all** group names (arbitrary byte strings, including
':' , ":checkpoint:", digits, '.', empty), all vBucket ids (any `Nat`, not just
`uint16`) and all ids.
-/
namespace GoDcp.Keys
open GoDcp.Spec.C14K

/-! ## decimal rendering (`strconv.Itoa`) -/

theorem render_ne_nil (n : Nat) : render n ≠ [] := Nat.toDigits_ne_nil

theorem render_digits (n : Nat) : ∀ c ∈ render n, c.isDigit = true :=
  fun _ hc => Nat.isDigit_of_mem_toDigits (by decide) (by decide) hc

/-- reading the digits back gives the number -/
theorem ofDigitChars_render (n : Nat) : Nat.ofDigitChars 10 (render n) 0 = n :=
  Nat.ofDigitChars_ten_toDigits

theorem render_injective {m n : Nat} (h : render m = render n) : m = n := by
  have := congrArg (Nat.ofDigitChars 10 · 0) h
  simpa [ofDigitChars_render] using this

/-- no leading zero, except for `0` itself -/
theorem render_no_leading_zero (n : Nat) (hn : n ≠ 0) : (render n).head? ≠ some '0' := by
  unfold render
  induction n using Nat.strongRecOn with
  | _ n ih =>
    rw [Nat.toDigits_eq_if (by decide)]
    split
    · rename_i h
      have : n = 1 ∨ n = 2 ∨ n = 3 ∨ n = 4 ∨ n = 5 ∨ n = 6 ∨ n = 7 ∨ n = 8 ∨ n = 9 := by omega
      rcases this with h | h | h | h | h | h | h | h | h <;> subst h <;> decide
    · rename_i h
      have hne : Nat.toDigits 10 (n / 10) ≠ [] := Nat.toDigits_ne_nil
      have := ih (n / 10) (by omega) (by omega)
      cases hd : Nat.toDigits 10 (n / 10) with
      | nil => exact absurd hd hne
      | cons a t => rw [hd] at this; simpa using this

theorem render_zero : render 0 = ['0'] := by decide

theorem colon_not_in_render (n : Nat) : ':' ∉ render n := by
  intro h; have := render_digits n _ h; revert this; decide

/-! ## list tools -/

theorem takeWhile_append_cons (p : Char → Bool) (l : Str) (x : Char) (r : Str)
    (hl : ∀ c ∈ l, p c = true) (hx : p x = false) : (l ++ x :: r).takeWhile p = l := by
  induction l with
  | nil => simp [hx]
  | cons a t ih =>
    have ha : p a = true := hl a List.mem_cons_self
    simp only [List.cons_append, List.takeWhile_cons, ha, if_true]
    rw [ih (fun c hc => hl c (List.mem_cons_of_mem _ hc))]

theorem dropWhile_append_cons (p : Char → Bool) (l : Str) (x : Char) (r : Str)
    (hl : ∀ c ∈ l, p c = true) (hx : p x = false) : (l ++ x :: r).dropWhile p = x :: r := by
  induction l with
  | nil => simp [hx]
  | cons a t ih =>
    have ha : p a = true := hl a List.mem_cons_self
    simp only [List.cons_append, List.dropWhile_cons, ha, if_true]
    exact ih (fun c hc => hl c (List.mem_cons_of_mem _ hc))

/-- cutting after the last character that fails `p` -/
theorem splitLast_append_cons (p : Char → Bool) (front : Str) (x : Char) (tail : Str)
    (ht : ∀ c ∈ tail, p c = true) (hx : p x = false) :
    splitLast p (front ++ x :: tail) = (front ++ [x], tail) := by
  unfold splitLast
  have e : (front ++ x :: tail).reverse = tail.reverse ++ x :: front.reverse := by simp
  have ht' : ∀ c ∈ tail.reverse, p c = true := fun c hc => ht c (List.mem_reverse.1 hc)
  rw [e, takeWhile_append_cons p _ x _ ht' hx, dropWhile_append_cons p _ x _ ht' hx]
  simp

theorem stripPrefix?_append (p s : Str) : stripPrefix? p (p ++ s) = some s := by
  induction p with
  | nil => cases s <;> rfl
  | cons a t ih => simp [stripPrefix?, ih]

theorem stripSuffix?_append (w s : Str) : stripSuffix? w (s ++ w) = some s := by
  unfold stripSuffix?
  rw [List.reverse_append, stripPrefix?_append]
  simp

/-! ## every library key is filtered -/

theorem isMetadata_of_prefix (s : Str) : isMetadata (keyPrefix ++ s) = true := by
  unfold isMetadata
  have : keyPrefix.isPrefixOf (keyPrefix ++ s) = true :=
    List.isPrefixOf_iff_prefix.2 (List.prefix_append _ _)
  simp [this]

theorem isMetadata_of_txnPrefix (s : Str) : isMetadata (txnPrefix ++ s) = true := by
  unfold isMetadata
  have : txnPrefix.isPrefixOf (txnPrefix ++ s) = true :=
    List.isPrefixOf_iff_prefix.2 (List.prefix_append _ _)
  simp [this]

theorem checkpointKey_eq (g : Str) (vb : Nat) :
    checkpointKey g vb = keyPrefix ++ ((g ++ checkpointWord) ++ ':' :: render vb) := by
  simp [checkpointKey, List.append_assoc]

theorem instanceKey_eq (g id : Str) :
    instanceKey g id = keyPrefix ++ ((g ++ instanceWord) ++ ':' :: id) := by
  simp [instanceKey, List.append_assoc]

/-- **library_keys_are_filtered**: checkpoint, instance and index document keys of
    every group are metadata for `IsMetadata` -/
theorem library_keys_are_filtered (g id : Str) (vb : Nat) :
    isMetadata (checkpointKey g vb) = true ∧ isMetadata (instanceKey g id) = true ∧
    isMetadata (indexKey g) = true := by
  refine ⟨?_, ?_, ?_⟩
  · rw [checkpointKey_eq]; exact isMetadata_of_prefix _
  · rw [instanceKey_eq]; exact isMetadata_of_prefix _
  · unfold indexKey; rw [instanceKey_eq]; exact isMetadata_of_prefix _

/-- … also through the reflection wrapper, for every event type that carries a key -/
theorem library_keys_are_filtered_payload (g id : Str) (vb : Nat) :
    isMetadataPayload (.withKey (checkpointKey g vb)) = some true ∧
    isMetadataPayload (.withKey (instanceKey g id)) = some true ∧
    isMetadataPayload (.withKey (indexKey g)) = some true := by
  obtain ⟨a, b, c⟩ := library_keys_are_filtered g id vb
  simp [isMetadataPayload, a, b, c]

/-! ## checkpoint keys are unambiguous -/

private theorem isDigit_colon : Char.isDigit ':' = false := by decide

/-- the decoder inverts `checkpointKey`, for every group name and vBucket id -/
theorem decodeCheckpoint_checkpointKey (g : Str) (vb : Nat) :
    decodeCheckpoint (checkpointKey g vb) = some (g, vb) := by
  unfold decodeCheckpoint
  rw [checkpointKey_eq, stripPrefix?_append]
  simp only [Option.bind_eq_bind, Option.bind_some]
  rw [splitLast_append_cons Char.isDigit _ ':' _ (render_digits vb) isDigit_colon]
  have hne : (render vb).isEmpty = false := by
    cases h : render vb with
    | nil => exact absurd h (render_ne_nil vb)
    | cons _ _ => rfl
  simp only [hne]
  rw [List.append_assoc, stripSuffix?_append]
  simp [ofDigitChars_render]

/-- **checkpointKey_injective** – for ALL group names: the decimal suffix is the
    maximal digit suffix of the key and the character before it is ':' -/
theorem checkpointKey_injective {g₁ g₂ : Str} {v₁ v₂ : Nat}
    (h : checkpointKey g₁ v₁ = checkpointKey g₂ v₂) : g₁ = g₂ ∧ v₁ = v₂ := by
  have h1 := decodeCheckpoint_checkpointKey g₁ v₁
  rw [h, decodeCheckpoint_checkpointKey] at h1
  simpa [eq_comm] using h1

/-- the monitor accepts every model key -/
theorem holdsCheckpoint_checkpointKey (g : Str) (vb : Nat) :
    holdsCheckpoint g vb (checkpointKey g vb) = true := by
  unfold holdsCheckpoint reserved
  have : keyPrefix.isPrefixOf (checkpointKey g vb) = true := by
    rw [checkpointKey_eq]; exact List.isPrefixOf_iff_prefix.2 (List.prefix_append _ _)
  simp [this, decodeCheckpoint_checkpointKey]

/-- names that look as ambiguous as possible are still told apart -/
example : checkpointKey "a".toList 12 ≠ checkpointKey "a:checkpoint:1".toList 2 := by decide
example : checkpointKey "g:checkpoint:1".toList 2 ≠ checkpointKey "g".toList 12 := by decide
example : checkpointKey [] 0 = "_connector:cbgo::checkpoint:0".toList := by decide

/-! ## the group-name check -/

/-- **dot_rejected**: `getCheckpointID` panics exactly on names containing '.',
    and otherwise returns `checkpointKey` -/
theorem dot_rejected (vb : Nat) (g : Str) :
    (checkpointID vb g = none ↔ '.' ∈ g) ∧
    ('.' ∉ g → checkpointID vb g = some (checkpointKey g vb)) := by
  unfold checkpointID groupNameOk
  by_cases h : '.' ∈ g
  · simp [h]
  · simp [h]

/-- the check is not what makes checkpoint keys unambiguous: two dotted names that
    the code rejects would have had distinct keys as well -/
theorem rejected_names_were_not_ambiguous {g₁ g₂ : Str} {v₁ v₂ : Nat}
    (_h₁ : '.' ∈ g₁) (_h₂ : '.' ∈ g₂) (h : checkpointKey g₁ v₁ = checkpointKey g₂ v₂) :
    g₁ = g₂ ∧ v₁ = v₂ := checkpointKey_injective h

/-! ## membership keys -/

private theorem ne_colon_colon : (fun c : Char => c != ':') ':' = false := by decide

private theorem ne_colon_of_not_mem {id : Str} (h : ':' ∉ id) :
    ∀ c ∈ id, (fun c : Char => c != ':') c = true := by
  intro c hc
  simp only [bne_iff_ne, ne_eq]
  rintro rfl; exact h hc

/-- the decoder inverts `instanceKey` for colon-free ids (a UUID, or "all") -/
theorem decodeInstance_instanceKey (g id : Str) (h : ':' ∉ id) :
    decodeInstance (instanceKey g id) = some (g, id) := by
  unfold decodeInstance
  rw [instanceKey_eq, stripPrefix?_append]
  simp only [Option.bind_eq_bind, Option.bind_some]
  rw [splitLast_append_cons _ _ ':' _ (ne_colon_of_not_mem h) ne_colon_colon]
  simp only
  rw [List.append_assoc, stripSuffix?_append]
  simp

/-- instance keys are unambiguous when the ids contain no ':' -/
theorem instanceKey_injective {g₁ g₂ id₁ id₂ : Str} (h₁ : ':' ∉ id₁) (h₂ : ':' ∉ id₂)
    (h : instanceKey g₁ id₁ = instanceKey g₂ id₂) : g₁ = g₂ ∧ id₁ = id₂ := by
  have e := decodeInstance_instanceKey g₁ id₁ h₁
  rw [h, decodeInstance_instanceKey g₂ id₂ h₂] at e
  simpa [eq_comm] using e

/-- … and not otherwise: an id containing ":instance:" shifts the group boundary -/
theorem instanceKey_injective_refuted :
    instanceKey "a".toList "b:instance:c".toList = instanceKey "a:instance:b".toList "c".toList ∧
    ("a".toList, "b:instance:c".toList) ≠ ("a:instance:b".toList, "c".toList) := by decide

theorem colon_not_in_all : ':' ∉ allWord := by decide

/-- index keys of distinct groups are distinct (all names) -/
theorem indexKey_injective {g₁ g₂ : Str} (h : indexKey g₁ = indexKey g₂) : g₁ = g₂ :=
  (instanceKey_injective colon_not_in_all colon_not_in_all h).1

/-- an instance document never collides with an index document (same or other group)
    unless its id is literally "all" -/
theorem instanceKey_ne_indexKey {g₁ g₂ id : Str} (h : ':' ∉ id) (hne : id ≠ allWord) :
    instanceKey g₁ id ≠ indexKey g₂ := by
  intro e
  exact hne (instanceKey_injective h colon_not_in_all e).2

/-- without the hypotheses: id "all" IS the index key; an id with a colon can hit the
    index key of another group -/
theorem instanceKey_ne_indexKey_refuted :
    instanceKey "g".toList "all".toList = indexKey "g".toList ∧
    instanceKey "g".toList "x:instance:all".toList = indexKey "g:instance:x".toList := by decide

/-- a checkpoint key is never an instance key when the id has no ':' (a UUID):
    the word before the last ':' is "checkpoint" in one, "instance" in the other -/
theorem checkpointKey_ne_instanceKey (g₁ g₂ id : Str) (vb : Nat) (h : ':' ∉ id) :
    checkpointKey g₁ vb ≠ instanceKey g₂ id := by
  intro e
  have d := decodeInstance_instanceKey g₂ id h
  rw [← e] at d
  unfold decodeInstance at d
  rw [checkpointKey_eq, stripPrefix?_append] at d
  simp only [Option.bind_eq_bind, Option.bind_some] at d
  rw [splitLast_append_cons _ _ ':' _ (ne_colon_of_not_mem (colon_not_in_render vb)) ne_colon_colon] at d
  simp only at d
  -- front = g₁ ++ ":checkpoint" ++ ":" must end in ":instance:" – compare the 2nd-last characters
  unfold stripSuffix? at d
  have r1 : (g₁ ++ checkpointWord ++ [':']).reverse = (checkpointWord ++ [':']).reverse ++ g₁.reverse := by
    simp only [List.reverse_append, List.append_assoc]
  have c1 : (checkpointWord ++ [':']).reverse = ':' :: 't' :: "niopkcehc:".toList := by decide
  have r2 : (instanceWord ++ [':']).reverse = ':' :: 'e' :: "cnatsni:".toList := by decide
  rw [r1, c1, r2] at d
  simp [stripPrefix?] at d

/-- a checkpoint key is never an index key, for any two group names -/
theorem checkpointKey_ne_indexKey (g₁ g₂ : Str) (vb : Nat) : checkpointKey g₁ vb ≠ indexKey g₂ :=
  checkpointKey_ne_instanceKey g₁ g₂ allWord vb (by decide)

/-- … and not for arbitrary ids: an id containing ":checkpoint:<digits>" collides -/
theorem checkpointKey_ne_instanceKey_refuted :
    checkpointKey "a:instance:x".toList 7 = instanceKey "a".toList "x:checkpoint:7".toList := by decide

/-- the monitor accepts every model membership key -/
theorem holdsInstance_instanceKey (g id : Str) (h : ':' ∉ id) :
    holdsInstance g id (instanceKey g id) = true := by
  unfold holdsInstance reserved
  have : keyPrefix.isPrefixOf (instanceKey g id) = true := by
    rw [instanceKey_eq]; exact List.isPrefixOf_iff_prefix.2 (List.prefix_append _ _)
  simp [this, decodeInstance_instanceKey g id h]

/-- ids as the code produces them (`uuid.New().String()`) meet both hypotheses -/
theorem uuidLike_ok (id : Str) (h : uuidLike id = true) : ':' ∉ id ∧ id ≠ allWord := by
  unfold uuidLike at h
  simp only [Bool.and_eq_true, beq_iff_eq, List.all_eq_true] at h
  obtain ⟨hl, ha⟩ := h
  constructor
  · intro hc
    have := ha _ hc
    revert this; decide
  · intro e; rw [e] at hl; revert hl; decide

example : uuidLike "123e4567-e89b-42d3-a456-426614174000".toList = true := by decide

/-! ## prefix facts about the filter -/

theorem isMetadata_iff (k : Str) : isMetadata k = true ↔ keyPrefix <+: k ∨ txnPrefix <+: k := by
  simp [isMetadata, List.isPrefixOf_iff_prefix]

/-- the prefix itself (empty suffix) is metadata -/
theorem isMetadata_prefix_itself : isMetadata keyPrefix = true ∧ isMetadata txnPrefix = true := by decide

theorem isMetadata_nil : isMetadata [] = false := by decide

/-- every proper prefix of either reserved prefix is NOT metadata -/
theorem isMetadata_proper_prefix (k : Str)
    (h : (k <+: keyPrefix ∧ k ≠ keyPrefix) ∨ (k <+: txnPrefix ∧ k ≠ txnPrefix)) :
    isMetadata k = false := by
  have t1 : ∀ n, n < 16 → isMetadata (keyPrefix.take n) = false := by decide
  have t2 : ∀ n, n < 5 → isMetadata (txnPrefix.take n) = false := by decide
  rcases h with ⟨hp, hne⟩ | ⟨hp, hne⟩
  · have e := List.prefix_iff_eq_take.1 hp
    have hl : k.length < 16 := by
      have h1 : k.length ≤ keyPrefix.length := hp.length_le
      have h2 : keyPrefix.length = 16 := by decide
      rcases Nat.lt_or_ge k.length 16 with h | h
      · exact h
      · exfalso; apply hne; rw [e, List.take_of_length_le (by omega)]
    rw [e]; exact t1 _ hl
  · have e := List.prefix_iff_eq_take.1 hp
    have hl : k.length < 5 := by
      have h1 : k.length ≤ txnPrefix.length := hp.length_le
      have h2 : txnPrefix.length = 5 := by decide
      rcases Nat.lt_or_ge k.length 5 with h | h
      · exact h
      · exfalso; apply hne; rw [e, List.take_of_length_le (by omega)]
    rw [e]; exact t2 _ hl

/-- a key that does not start with '_' is not metadata, whatever it contains later
    (in particular: a reserved prefix in the middle does not count) -/
theorem isMetadata_prefix_later (c : Char) (s : Str) (hc : c ≠ '_') : isMetadata (c :: s) = false := by
  have k1 : keyPrefix = '_' :: "connector:cbgo:".toList := by decide
  have k2 : txnPrefix = '_' :: "txn:".toList := by decide
  have : ('_' == c) = false := by
    rw [beq_eq_false_iff_ne]; exact fun h => hc h.symm
  unfold isMetadata
  rw [k1, k2]
  simp only [List.isPrefixOf, this, Bool.false_and, Bool.or_self]

example : isMetadata ("x_connector:cbgo:g:checkpoint:1".toList) = false := by decide
example : isMetadata ("a_txn:1".toList) = false := by decide
example : isMetadata ("_connector:cbg".toList) = false := by decide
example : isMetadata ("_connector:cbgX:".toList) = false := by decide
example : isMetadata ("_txn".toList) = false := by decide
example : isMetadata ("_txn:".toList) = true := by decide
example : isMetadata ("_connector:cbgo:".toList) = true := by decide

/-- the filter monitor accepts the model -/
theorem holdsFilter_isMetadata (k : Str) : holdsFilter k (isMetadata k) = true := by
  simp [holdsFilter, isMetadata]

/-- values without a `Key` field are never metadata -/
theorem noKey_not_metadata : isMetadataPayload .noKey = some false := rfl

end GoDcp.Keys
