import GoDcp.Model.Life
/-!
# C11 — rebalance converges to the latest assignment, once, without stopping the client
(first layer: one-step facts and the F5 refutation; run-level invariants in `Props/C11Run.lean`)
-/
namespace GoDcp.Life

/-- inside the window (closed, reopen timer pending) a further notification only postpones the
    reopen to `now + delay`: no callback, no close, no reopen, nothing else changes -/
theorem notify_in_window_debounces (s : LSt) (t : Timer) (id : Nat)
    (hb : s.balancing = true) (hp : s.timerPtr = some id) (hf : findTimer s id = some t) (hpend : t.pending = true) :
    callRebalance s s.now = (setTimer s { t with deadline := s.now + s.delay }, [.debounced]) := by
  simp [callRebalance, debounce, hb, hp, hf, hpend]

/-- count the reopen brackets (`BeforeRebalanceEnd`) in a trace -/
def countBRE (tr : List (List LObs)) : Nat := (tr.flatten.filter (· == .cb .BRE)).length

/-- **F5 (refutes "closed once, reopened exactly once" for the first-ever rebalance).** One
    notification plus one more arriving while the first is inside `Close` – a burst of two –
    produces two full close/reopen cycles: the second notification finds `rebalanceTimer == nil`,
    skips the debounce branch and queues on the lock. -/
theorem one_cycle_per_burst_full_refuted :
    let s0 : LSt := { memLo := 0, memHi := 0, delay := 250 }
    countBRE (runTrace s0 [.open, .notifyDuringClose 1, .tick 400, .tick 400]) = 2 := by decide

/-- the same burst after an earlier rebalance (timer pointer set) gives one cycle -/
example :
    let s0 : LSt := { memLo := 0, memHi := 0, delay := 250 }
    countBRE (runTrace s0 [.open, .notify, .tick 400, .notifyDuringClose 1, .tick 400, .tick 400]) = 2 := by decide

/-- a burst of three spaced notifications: one close, one reopen `delay` after the last one -/
example :
    let s0 : LSt := { memLo := 0, memHi := 1, delay := 250 }
    runTrace s0 [.open, .notify, .tick 200, .notify, .tick 200, .notify, .tick 200, .tick 200]
      = [[.cb .BSS, .openreq 0 0, .openreq 1 0, .cb .ASS],
         [.cb .BRS, .cb .BSP, .closereq 0, .closereq 1, .cb .ASP, .cb .ARS],
         [], [.debounced], [], [.debounced], [],
         [.cb .BRE, .cb .BSS, .openreq 0 0, .openreq 1 0, .cb .ASS, .cb .ARE]] := by decide

end GoDcp.Life
