import GoDcp.Model.HaMembership
/-!
# C10, leader-assigned variant: what is NOT guaranteed (concrete schedules) and non-vacuity

Every schedule below is replayed on the real code by stream `c10ha`
(`harness/testdata/c10ha_refutations.ops`, one `ha-run` line per refutation, same action order); the real
observations equal the model's.

* `ha_orphan_exleader_refuted`   the lease is lost by a LIVING leader (renew deadline passed): client-go's `Run`
                                 returns, go-dcp never starts it again; the old leader keeps `1/3` for ever while the
                                 new leader numbers the others `1/2`, `2/2`: two live instances hold number 1.
* `ha_orphan_follower_refuted`   finding F17, FIXED by commit 39ec43d - a statement about the code BEFORE that commit
                                 (`runOld`: `hbFollowOld`): one heartbeat body of a follower cannot reach the leader:
                                 `RemoveLeader`; nothing but a leader CHANGE re-established `leaderService`: the follower
                                 was never numbered again.  `ha_orphan_follower_fixed`: the same schedule on the model of
                                 the current code (`run`) numbers it one period after the partition heals
                                 (for all schedules: `Props/C10Ha ha_partition_heals`).
* `ha_remove_by_name_refuted`    a follower restarts and registers between the ping pass and the remove pass of the
                                 leader's heartbeat body: `Remove(name)` deletes the NEW entry; the follower's own pings
                                 work, so it never registers again.
* `ha_handover_totals_refuted`   during a hand-over (new leader promoted and through its first monitor round before the
                                 followers' `OnNewLeader` callbacks ran) live instances hold different totals.
* `ha_release_panics_refuted`    `ReleaseOnCancel`: a follower that sees the EMPTY holder dies (`NewIdentityFromStr("")`).
* `observe_stopped`, `hbFollow_noleader`  why the first is (and the second was) permanent, for every state.
* `lead_keeps_services`          a follower registered BEFORE the promotion callback stays registered (what the code
                                 guarantees; a `RemoveAll` in `OnBecomeLeader` would break it).
-/
namespace GoDcp.HaMembership
open GoDcp.Membership

/-- three instances (join times 10, 20, 30), `0` elected, everybody registered, first heartbeat and monitor round -/
def exBoot3 : List Action :=
  [.start 1 20, .start 2 30, .start 0 10, .acquire 0, .observe 1, .observe 2, .lead 0,
   .hb 1, .hb 2, .hb 0, .mon 0]

/-- one period with leader `l`: every heartbeat body, then the leader's monitor body -/
def exRound3 (l : Id) : List Action := [.hb 1, .hb 2, .hb 0, .mon l]

/-! ### non-vacuity: a quiescent state exists, and the numbering theorem's conclusion is what it shows -/

example : quiescentB (run (init 3) exBoot3) 0 = true := by decide

example :
    ((run (init 3) exBoot3).insts 0).info = some (1, 3) ∧ ((run (init 3) exBoot3).insts 1).info = some (2, 3) ∧
    ((run (init 3) exBoot3).insts 2).info = some (3, 3) := by decide

/-- ties: equal join times are numbered in the order the leader's map iterates (here: registration order) -/
example :
    let acts : List Action := [.start 1 20, .start 2 20, .start 0 10, .acquire 0, .observe 2, .observe 1, .lead 0, .mon 0]
    ((run (init 3) acts).insts 2).info = some (2, 3) ∧ ((run (init 3) acts).insts 1).info = some (3, 3) ∧
      quiescentB (run (init 3) acts) 0 = true := by decide

/-- non-vacuity of the convergence hypothesis: the connections between follower 1 and the leader are lost; the
    state is not quiescent; one heartbeat body each and one monitor body make it quiescent again -/
example :
    let s := run (init 3) (exBoot3 ++ [.cut 1 0])
    quiescentB s 0 = false ∧ ((s.insts 1).leader.map (·.broken)) = some true ∧
      quiescentB (run s [.hb 1, .hb 2, .hb 0, .mon 0]) 0 = true := by decide

/-- a follower dies: dropped within one heartbeat + one monitor body of the leader -/
example :
    let s := run (init 3) (exBoot3 ++ [.kill 2, .hb 1, .hb 0, .mon 0])
    quiescentB s 0 = true ∧ (s.insts 0).info = some (1, 2) ∧ (s.insts 1).info = some (2, 2) := by decide

/-- the leader dies: the followers' heartbeat bodies drop it; after the election callbacks, one heartbeat body and one
    monitor body of the new leader the state is quiescent -/
example :
    let s := run (init 3) (exBoot3 ++ [.kill 0, .hb 1, .hb 2, .acquire 2, .observe 1, .lead 2, .hb 1, .hb 2, .mon 2])
    quiescentB s 2 = true ∧ (s.insts 2).info = some (1, 2) ∧ (s.insts 1).info = some (2, 2) := by decide

/-! ### refutations -/

/-- the lease API fails for leader 0 until the renew deadline has passed (`lose`), instance 1 acquires the expired
    lease, instance 2 follows it -/
def exLapse : List Action :=
  exBoot3 ++ [.lose 0 false, .acquire 1, .observe 2, .lead 1] ++ exRound3 1

/-- **`ha_orphan_exleader_refuted`**: all three instances live, one lease holder (1) promoted and through its monitor
round, every RUNNING elector has reported it - and the old leader 0 still holds `1/3` while 1 holds `1/2`: number 1 is
held twice, totals disagree; three more full periods change nothing (and none ever will: `observe_stopped`). -/
theorem ha_orphan_exleader_refuted :
    liveIds (run (init 3) exLapse) = [0, 1, 2] ∧
    (run (init 3) exLapse).holder = some (1, 20) ∧
    ((run (init 3) exLapse).insts 1).amLeader = true ∧
    ((run (init 3) exLapse).insts 0).el = El.stopped ∧
    ((run (init 3) exLapse).insts 0).info = some (1, 3) ∧
    ((run (init 3) exLapse).insts 1).info = some (1, 2) ∧
    ((run (init 3) exLapse).insts 2).info = some (2, 2) ∧
    ((run (init 3) (exLapse ++ exRound3 1 ++ exRound3 1 ++ exRound3 1)).insts 0).info = some (1, 3) ∧
    ((run (init 3) (exLapse ++ exRound3 1 ++ exRound3 1 ++ exRound3 1)).insts 1).info = some (1, 2) := by
  decide

/-- once `Run` has returned no election callback reaches the instance any more, whatever the lease record says -/
theorem observe_stopped (s : State) (i : Id) (h : (s.insts i).el = El.stopped) : observe s i = s := by
  unfold observe
  simp [h]

/-- follower 2 is partitioned from leader 0 during one heartbeat body (`block`), then the partition heals -/
def exPartition : List Action :=
  exBoot3 ++ [.block 2 0] ++ exRound3 0 ++ [.unblock 2 0] ++ exRound3 0 ++ exRound3 0

/-- **`ha_orphan_follower_refuted`** (finding F17, fixed; the code BEFORE commit 39ec43d = `runOld`): the network is
whole again, all three live, the leader unchanged and through two more monitor rounds - follower 2 has no
`leaderService`, is not in the leader's list, and still holds `3/3` while the others hold `1/2`, `2/2`. -/
theorem ha_orphan_follower_refuted :
    liveIds (runOld (init 3) exPartition) = [0, 1, 2] ∧
    (runOld (init 3) exPartition).blocked = [] ∧
    (runOld (init 3) exPartition).holder = some (0, 10) ∧
    ((runOld (init 3) exPartition).insts 2).leader = none ∧
    ((runOld (init 3) exPartition).insts 0).services.map (·.name) = [1] ∧
    ((runOld (init 3) exPartition).insts 0).info = some (1, 2) ∧
    ((runOld (init 3) exPartition).insts 1).info = some (2, 2) ∧
    ((runOld (init 3) exPartition).insts 2).info = some (3, 3) := by
  decide

/-- **`ha_orphan_follower_fixed`**: the same schedule on the model of the current code: while the partition lasts the
follower keeps `leaderService` (connection broken) and its stale `3/3`, the others are renumbered `1/2`, `2/2`; the
first period after the heal it registers again and the state is quiescent with `1/3`, `2/3`, `3/3`. -/
theorem ha_orphan_follower_fixed :
    ((run (init 3) (exBoot3 ++ [.block 2 0] ++ exRound3 0)).insts 2).leader = some { target := 0, broken := true } ∧
    ((run (init 3) (exBoot3 ++ [.block 2 0] ++ exRound3 0)).insts 2).info = some (3, 3) ∧
    ((run (init 3) (exBoot3 ++ [.block 2 0] ++ exRound3 0)).insts 0).info = some (1, 2) ∧
    quiescentB (run (init 3) (exBoot3 ++ [.block 2 0] ++ exRound3 0 ++ exRound3 0)) 0 = false ∧
    quiescentB (run (init 3) (exBoot3 ++ [.block 2 0] ++ exRound3 0 ++ exRound3 0 ++ [.unblock 2 0] ++ exRound3 0)) 0 = true ∧
    ((run (init 3) exPartition).insts 0).info = some (1, 3) ∧
    ((run (init 3) exPartition).insts 1).info = some (2, 3) ∧
    ((run (init 3) exPartition).insts 2).info = some (3, 3) := by
  decide

/-- with `leaderService == nil` the follower part of the heartbeat body does nothing: only the next `OnBecomeFollower`
    (a leader CHANGE) assigns a leader again (before commit 39ec43d a failed re-register led here; now only a failed
    `NewClient` inside `OnBecomeFollower` and the promotion callback do) -/
theorem hbFollow_noleader (s : State) (i : Id) (h : (s.insts i).leader = none) : hbFollow s i = s := by
  unfold hbFollow
  simp [h]

/-- four instances; followers 2 and 3 die; the leader's heartbeat body has done its ping pass (`hbPing`: both names
    noted) when 2 comes back (new join time 50) and registers; then the remove pass runs -/
def exRemoveByName : List Action :=
  [.start 1 20, .start 3 40, .start 0 10, .start 2 30, .acquire 0, .observe 1, .observe 2, .observe 3, .lead 0,
   .hb 1, .hb 3, .hb 0, .hb 2, .mon 0,
   .kill 2, .kill 3, .hb 1, .hbFollow 0, .hbPing 0, .start 2 50, .observe 2, .hbRemove 0, .mon 0,
   .hb 1, .hb 0, .hb 2, .mon 0, .hb 1, .hb 0, .hb 2, .mon 0]

/-- **`ha_remove_by_name_refuted`**: the restarted follower 2 is alive, has a WORKING connection to the leader (so
its heartbeat body never registers again), but the leader's remove pass deleted its fresh entry: it never gets a
number (`GetInfo` blocks for ever), the leader settles on `1/2`. -/
theorem ha_remove_by_name_refuted :
    liveIds (run (init 4) exRemoveByName) = [0, 1, 2] ∧
    ((run (init 4) exRemoveByName).insts 2).leader = some { target := 0, broken := false } ∧
    ((run (init 4) exRemoveByName).insts 0).services.map (·.name) = [1] ∧
    ((run (init 4) exRemoveByName).insts 0).info = some (1, 2) ∧
    ((run (init 4) exRemoveByName).insts 1).info = some (2, 2) ∧
    ((run (init 4) exRemoveByName).insts 2).info = none := by
  decide

/-- the same events with the ATOMIC heartbeat body (ping pass and remove pass not interleaved with the registration,
    either order) number the restarted follower -/
example :
    let a1 := exBoot3 ++ [.kill 2, .hb 1, .hb 0, .start 2 50, .observe 2, .mon 0]
    let a2 := exBoot3 ++ [.kill 2, .hb 1, .start 2 50, .observe 2, .hb 0, .mon 0]
    quiescentB (run (init 3) a1) 0 = true ∧ quiescentB (run (init 3) a2) 0 = true ∧
      ((run (init 3) a1).insts 2).info = some (3, 3) ∧ ((run (init 3) a2).insts 2).info = some (3, 3) := by
  decide

/-- **`ha_handover_totals_refuted`**: leader 0 died, 1 acquired the lease, was promoted and ran a monitor round before
the `OnNewLeader` callback of 2 ran: the new leader holds `1/1` while the live follower still holds `3/3` (not
quiescent: `ha_quiescent_numbering` does not apply; one callback + one monitor round later it is). -/
theorem ha_handover_totals_refuted :
    let s := run (init 3) (exBoot3 ++ [.kill 0, .hb 1, .hb 2, .acquire 1, .lead 1, .mon 1])
    liveIds s = [1, 2] ∧ (s.insts 1).info = some (1, 1) ∧ (s.insts 2).info = some (3, 3) ∧ quiescentB s 1 = false ∧
      quiescentB (run s [.observe 2, .hb 1, .hb 2, .mon 1]) 1 = true := by
  decide

/-- **`ha_release_panics_refuted`**: the leader's context is cancelled (`ReleaseOnCancel` writes an empty holder); a
follower whose elector reports the empty holder runs `models.NewIdentityFromStr("")`, which panics: the process dies. -/
theorem ha_release_panics_refuted :
    let s := run (init 3) (exBoot3 ++ [.lose 0 true, .observe 2])
    s.holder = none ∧ (s.insts 2).alive = false ∧ liveIds s = [0, 1] := by
  decide

/-- `OnBecomeLeader` = `BeLeader(); RemoveLeader()`: whoever registered before the promotion callback ran stays
    registered -/
theorem lead_keeps_services (s : State) (i j : Id) : ((lead s i).insts j).services = (s.insts j).services := by
  unfold lead
  by_cases h : (s.insts i).alive = true
  · by_cases hj : j = i
    · subst hj; simp [h, nf, State.upd]
    · simp [h, nf, State.upd, hj]
  · simp [h]

end GoDcp.HaMembership
