import GoDcp.Model.Life
/-!
# C13 — graceful shutdown is clean from every lifecycle state
(first layer: `stream.Close` as called by `dcp.close`; F4 refutation. Run-level theorems: `Props/C13Run.lean`)
-/
namespace GoDcp.Life

/-- `Close` crashes exactly when the observers map is nil, i.e. the stream is already closed -/
theorem doClose_none_iff (s : LSt) (cancel : Bool) : doClose s cancel = none ↔ s.obsNil = true := by
  unfold doClose
  cases h : s.obsNil <;> simp

/-- a `Close` that does not crash: the stream is closed, observers are closed (no later delivery,
    later ends ignored), one close request per open vBucket stream, no fail-stop in its output -/
theorem doClose_clean (s s' : LSt) (cancel : Bool) (out : List LObs) (h : doClose s cancel = some (s', out)) :
    s'.isOpen = false ∧ s'.closedObs = true ∧ s'.obsNil = true ∧ s'.pos = [] ∧ s'.dead = s.dead ∧
    (∀ w, LObs.failstop w ∉ out) ∧ (∀ vb q, (vb, q) ∈ s.pos → LObs.closereq vb ∈ out) := by
  unfold doClose at h
  cases hn : s.obsNil <;> simp [hn] at h
  obtain ⟨hs, ho⟩ := h
  subst hs ho
  simp only [waitFires]
  refine ⟨?_, ?_, ?_, ?_, ?_, ?_, ?_⟩ <;> (repeat' split) <;> simp_all
  all_goals (intro vb q hq; exact ⟨q, hq⟩)

/-- **F4 (refutes the full statement of C13).** `Close()` arriving inside a rebalance window
    (after the stream was closed, before the reopen) crashes: three ops suffice. -/
theorem close_terminates_full_refuted :
    let s0 : LSt := { memLo := 0, memHi := 1 }
    let tr := runTrace s0 [.open, .notify, .shutdown true]
    tr.getLast? = some [.cb .BSP, .failstop "nil-observers"] := by decide

/-- outside the window the same shutdown is clean (non-vacuity of `doClose_clean`) -/
example :
    let s0 : LSt := { memLo := 0, memHi := 1 }
    (runTrace s0 [.open, .ev 0, .shutdown true]).getLast?
      = some [.cb .BSP, .closereq 0, .closereq 1, .stop, .cb .ASP] := by decide

end GoDcp.Life
