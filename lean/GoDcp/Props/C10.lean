import GoDcp.Model.Membership
import GoDcp.Spec.C10
import GoDcp.Props.C09
/-!
# C10 — group members derive a consistent, collision-free numbering

All statements are for every input (no bound on group size, ids, times).

The model is the code after commit 23681a3 (`monitor` sorts by join time, then by
instance id): `rank_numbering`, `same_live_set_agree`, `converges`, `exactly_one_owner`
and `holds_rank` carry NO hypothesis on the join times any more.  The comparator before
that commit (join time only) is kept as `sortJT` / `rankNumberingPreFix`; for it the
statement is refuted by `rank_numbering_tie_refuted` (finding F8, fixed), and
`preFix_eq_of_distinct` shows the two comparators agree exactly when join times are
pairwise distinct (the hypothesis the theorems used to carry).
-/
namespace GoDcp.Membership
open List

/-! ## A. the stable sort on join time only (pre-repair `monitor`; `serviceDiscovery.GetAll`) -/

theorem insJT_perm (x : Entry) (l : List Entry) : insJT x l ~ x :: l := by
  induction l with
  | nil => exact Perm.refl _
  | cons y r ih =>
    simp only [insJT]
    split
    · exact (Perm.cons y ih).trans (Perm.swap x y r)
    · exact Perm.refl _

theorem sortJT_perm (l : List Entry) : sortJT l ~ l := by
  induction l with
  | nil => exact Perm.refl _
  | cons x r ih => exact (insJT_perm x (sortJT r)).trans (Perm.cons x ih)

theorem mem_sortJT {a : Entry} {l : List Entry} : a ∈ sortJT l ↔ a ∈ l := (sortJT_perm l).mem_iff

theorem length_sortJT (l : List Entry) : (sortJT l).length = l.length := (sortJT_perm l).length_eq

theorem insJT_sorted (x : Entry) (l : List Entry) (h : l.Pairwise fun a b => a.2 ≤ b.2) :
    (insJT x l).Pairwise fun a b => a.2 ≤ b.2 := by
  induction l with
  | nil => simp [insJT]
  | cons y r ih =>
    have hy := (pairwise_cons.1 h).1
    have hr := (pairwise_cons.1 h).2
    simp only [insJT]
    split
    · rename_i hlt
      refine pairwise_cons.2 ⟨?_, ih hr⟩
      intro b hb
      rcases (mem_cons.1 ((insJT_perm x r).mem_iff.1 hb)) with rfl | hb
      · omega
      · exact hy b hb
    · rename_i hge
      refine pairwise_cons.2 ⟨?_, h⟩
      intro b hb
      rcases mem_cons.1 hb with rfl | hb
      · omega
      · have := hy b hb; omega

/-- the result is sorted by join time -/
theorem sortJT_sorted (l : List Entry) : (sortJT l).Pairwise fun a b => a.2 ≤ b.2 := by
  induction l with
  | nil => simp [sortJT]
  | cons x r ih => exact insJT_sorted x _ ih

theorem inj_of_nodup_map {α β : Type} (f : α → β) {l : List α} (h : (l.map f).Nodup)
    {a b : α} (ha : a ∈ l) (hb : b ∈ l) (hab : f a = f b) : a = b := by
  induction l with
  | nil => cases ha
  | cons x r ih =>
    rw [map_cons, nodup_cons] at h
    rcases mem_cons.1 ha with ha1 | ha1 <;> rcases mem_cons.1 hb with hb1 | hb1
    · rw [ha1, hb1]
    · exact absurd (by rw [← ha1, hab]; exact mem_map_of_mem (f := f) hb1) h.1
    · exact absurd (by rw [← hb1, ← hab]; exact mem_map_of_mem (f := f) ha1) h.1
    · exact ih h.2 ha1 hb1

/-- two lists sorted by join time with the same elements are equal when join times are distinct -/
theorem sorted_unique {L l₁ l₂ : List Entry} (hjt : (L.map Prod.snd).Nodup)
    (h₁ : l₁ ~ L) (h₂ : l₂ ~ L)
    (s₁ : l₁.Pairwise fun a b => a.2 ≤ b.2) (s₂ : l₂.Pairwise fun a b => a.2 ≤ b.2) : l₁ = l₂ := by
  refine Perm.eq_of_pairwise (le := fun a b => a.2 ≤ b.2) ?_ s₁ s₂ (h₁.trans h₂.symm)
  intro a b ha hb hab hba
  exact inj_of_nodup_map Prod.snd hjt (h₁.mem_iff.1 ha) (h₂.mem_iff.1 hb) (by omega)

/-- **order independence**: with distinct join times the sorted list does not
    depend on the (map-iteration) order of the input -/
theorem sortJT_eq_of_perm {l₁ l₂ : List Entry} (hjt : (l₁.map Prod.snd).Nodup) (hp : l₁ ~ l₂) :
    sortJT l₁ = sortJT l₂ :=
  sorted_unique hjt (sortJT_perm l₁) ((sortJT_perm l₂).trans hp.symm) (sortJT_sorted l₁) (sortJT_sorted l₂)

/-- with distinct join times the sorted list is strictly ascending -/
theorem sortJT_strict {l : List Entry} (hjt : (l.map Prod.snd).Nodup) :
    (sortJT l).Pairwise fun a b => a.2 < b.2 := by
  have hne : (sortJT l).Pairwise fun a b => a.2 ≠ b.2 := by
    have : ((sortJT l).map Prod.snd).Nodup := (((sortJT_perm l).map Prod.snd).nodup_iff).2 hjt
    exact pairwise_map.1 this
  exact ((sortJT_sorted l).and hne).imp (fun ⟨h1, h2⟩ => by omega)

/-! ## A2. the stable sort with the repaired comparator (join time, then id) -/

/-- `lessJTId` as a proposition: lexicographic on (join time, id) -/
def ltE (a b : Entry) : Prop := a.2 < b.2 ∨ (a.2 = b.2 ∧ @LT.lt Nat _ a.1 b.1)

theorem lessJTId_iff (a b : Entry) : lessJTId a b = true ↔ ltE a b := by
  unfold lessJTId ltE
  by_cases h : a.2 = b.2
  · simp [h]
  · simp only [ne_eq, h, not_false_eq_true, if_true, decide_eq_true_eq, false_and, or_false]

theorem insJTId_perm (x : Entry) (l : List Entry) : insJTId x l ~ x :: l := by
  induction l with
  | nil => exact Perm.refl _
  | cons y r ih =>
    simp only [insJTId]
    split
    · exact (Perm.cons y ih).trans (Perm.swap x y r)
    · exact Perm.refl _

theorem sortJTId_perm (l : List Entry) : sortJTId l ~ l := by
  induction l with
  | nil => exact Perm.refl _
  | cons x r ih => exact (insJTId_perm x (sortJTId r)).trans (Perm.cons x ih)

theorem mem_sortJTId {a : Entry} {l : List Entry} : a ∈ sortJTId l ↔ a ∈ l := (sortJTId_perm l).mem_iff

theorem length_sortJTId (l : List Entry) : (sortJTId l).length = l.length := (sortJTId_perm l).length_eq

theorem insJTId_sorted (x : Entry) (l : List Entry) (h : l.Pairwise fun a b => ¬ ltE b a) :
    (insJTId x l).Pairwise fun a b => ¬ ltE b a := by
  induction l with
  | nil => simp [insJTId]
  | cons y r ih =>
    have hy := (pairwise_cons.1 h).1
    have hr := (pairwise_cons.1 h).2
    simp only [insJTId]
    split
    · rename_i hlt
      have hlt := (lessJTId_iff _ _).1 hlt
      refine pairwise_cons.2 ⟨?_, ih hr⟩
      intro b hb
      rcases (mem_cons.1 ((insJTId_perm x r).mem_iff.1 hb)) with rfl | hb
      · unfold ltE at hlt ⊢; omega
      · exact hy b hb
    · rename_i hge
      have hge : ¬ ltE y x := fun h => hge ((lessJTId_iff _ _).2 h)
      refine pairwise_cons.2 ⟨?_, h⟩
      intro b hb
      rcases mem_cons.1 hb with rfl | hb
      · exact hge
      · have := hy b hb
        unfold ltE at hge this ⊢; omega

/-- the result is sorted: no element is `ltE` an earlier one -/
theorem sortJTId_sorted (l : List Entry) : (sortJTId l).Pairwise fun a b => ¬ ltE b a := by
  induction l with
  | nil => simp [sortJTId]
  | cons x r ih => exact insJTId_sorted x _ ih

/-- two `ltE`-sorted arrangements of the same elements are equal (`ltE` is a strict TOTAL order
    on entries: neither `ltE a b` nor `ltE b a` forces `a = b`) – no hypothesis on join times -/
theorem sortedE_unique {l₁ l₂ : List Entry} (hp : l₁ ~ l₂)
    (s₁ : l₁.Pairwise fun a b => ¬ ltE b a) (s₂ : l₂.Pairwise fun a b => ¬ ltE b a) : l₁ = l₂ := by
  refine Perm.eq_of_pairwise (le := fun a b => ¬ ltE b a) ?_ s₁ s₂ hp
  intro a b _ _ hab hba
  obtain ⟨a1, a2⟩ := a
  obtain ⟨b1, b2⟩ := b
  unfold ltE at hab hba
  simp only at hab hba
  have h2 : a2 = b2 := by omega
  have h1 : @Eq Nat a1 b1 := by omega
  rw [h1, h2]

/-- **order independence of the code as it is now**: for EVERY input (equal join times
    included) the sorted list does not depend on the (map-iteration) order -/
theorem sortJTId_eq_of_perm {l₁ l₂ : List Entry} (hp : l₁ ~ l₂) : sortJTId l₁ = sortJTId l₂ :=
  sortedE_unique ((sortJTId_perm l₁).trans (hp.trans (sortJTId_perm l₂).symm))
    (sortJTId_sorted l₁) (sortJTId_sorted l₂)

/-- with distinct ids (a map) the sorted list is strictly ascending in (join time, id) -/
theorem sortJTId_strict {l : List Entry} (hn : (l.map Prod.fst).Nodup) :
    (sortJTId l).Pairwise ltE := by
  have hne : (sortJTId l).Pairwise fun a b => a.1 ≠ b.1 := by
    have : ((sortJTId l).map Prod.fst).Nodup := (((sortJTId_perm l).map Prod.fst).nodup_iff).2 hn
    exact pairwise_map.1 this
  refine ((sortJTId_sorted l).and hne).imp ?_
  rintro ⟨a1, a2⟩ ⟨b1, b2⟩ ⟨h1, h2⟩
  unfold ltE at h1 ⊢
  simp only at h1 h2 ⊢
  have h2' : ¬ @Eq Nat a1 b1 := h2
  omega

/-- the pre-repair comparator gives the same list as the repaired one when join times are
    pairwise distinct – exactly the hypothesis the C10 theorems carried before commit 23681a3 -/
theorem preFix_eq_of_distinct {l : List Entry} (hjt : (l.map Prod.snd).Nodup) : sortJT l = sortJTId l := by
  refine sortedE_unique ((sortJT_perm l).trans (sortJTId_perm l).symm) ?_ (sortJTId_sorted l)
  refine (sortJT_strict hjt).imp ?_
  intro a b h
  unfold ltE; omega

/-! ## B. positions -/

theorem pos_none {a : Id} {l : List Id} (h : a ∉ l) : pos a l = none := by
  induction l with
  | nil => rfl
  | cons x r ih =>
    simp only [mem_cons, not_or] at h
    simp [pos, Ne.symm h.1, ih h.2]

theorem pos_some_of_mem {a : Id} {l : List Id} (h : a ∈ l) : ∃ i, pos a l = some i ∧ i < l.length := by
  induction l with
  | nil => cases h
  | cons x r ih =>
    by_cases hx : x = a
    · exact ⟨0, by simp [pos, hx], by simp⟩
    · rcases mem_cons.1 h with rfl | h
      · exact absurd rfl hx
      · obtain ⟨i, hi, hl⟩ := ih h
        exact ⟨i + 1, by simp [pos, hx, hi], by simp; omega⟩

theorem pos_getElem {a : Id} {l : List Id} {i : Nat} (h : pos a l = some i) : l[i]? = some a := by
  induction l generalizing i with
  | nil => simp [pos] at h
  | cons x r ih =>
    by_cases hx : x = a
    · simp [pos, hx] at h; subst h; simp [hx]
    · simp only [pos, hx, if_false, Option.map_eq_some_iff] at h
      obtain ⟨j, hj, rfl⟩ := h
      simpa using ih hj

theorem pos_mem {a : Id} {l : List Id} {i : Nat} (h : pos a l = some i) : a ∈ l :=
  mem_of_getElem? (pos_getElem h)

theorem pos_lt {a : Id} {l : List Id} {i : Nat} (h : pos a l = some i) : i < l.length := by
  have := pos_getElem h
  exact (List.getElem?_eq_some_iff.1 this).1

theorem pos_of_getElem {a : Id} {l : List Id} (hn : l.Nodup) {i : Nat} (h : l[i]? = some a) :
    pos a l = some i := by
  induction l generalizing i with
  | nil => simp at h
  | cons x r ih =>
    rw [nodup_cons] at hn
    cases i with
    | zero => simp at h; simp [pos, h]
    | succ j =>
      simp only [getElem?_cons_succ] at h
      have hm : a ∈ r := mem_of_getElem? h
      have hx : x ≠ a := fun e => hn.1 (e ▸ hm)
      simp [pos, hx, ih hn.2 h]

/-! ## C. `rank_numbering` -/

theorem ids_perm {l₁ l₂ : List Entry} (h : l₁ ~ l₂) : ids l₁ ~ ids l₂ := h.map _

theorem ids_sortJT_nodup {l : List Entry} (hn : (ids l).Nodup) : (ids (sortJT l)).Nodup :=
  ((ids_perm (sortJT_perm l)).nodup_iff).2 hn

theorem ids_sortJTId_nodup {l : List Entry} (hn : (ids l).Nodup) : (ids (sortJTId l)).Nodup :=
  ((ids_perm (sortJTId_perm l)).nodup_iff).2 hn

theorem mem_ids {a : Id} {l : List Entry} : a ∈ ids l ↔ ∃ j, (a, j) ∈ l := by
  simp [ids]

/-- the entry at the position `pos` reports -/
theorem entry_at_pos {l : List Entry} (hn : (ids l).Nodup) {e : Entry} (he : e ∈ l) {i : Nat}
    (h : pos e.1 (ids l) = some i) : l[i]? = some e := by
  have h1 := pos_getElem h
  simp only [ids, getElem?_map, Option.map_eq_some_iff] at h1
  obtain ⟨e', h2, h3⟩ := h1
  have : e' = e := inj_of_nodup_map Prod.fst hn (mem_of_getElem? h2) he h3
  rw [← this]; exact h2

/-- order of positions in a strictly sorted list = the (join time, id) order -/
theorem pos_order {l : List Entry} (hn : (ids l).Nodup) (hs : l.Pairwise ltE)
    {a b : Entry} (ha : a ∈ l) (hb : b ∈ l) {i j : Nat}
    (hi : pos a.1 (ids l) = some i) (hj : pos b.1 (ids l) = some j) : ltE a b ↔ i < j := by
  have ea := entry_at_pos hn ha hi
  have eb := entry_at_pos hn hb hj
  obtain ⟨hil, ea⟩ := List.getElem?_eq_some_iff.1 ea
  obtain ⟨hjl, eb⟩ := List.getElem?_eq_some_iff.1 eb
  have hp := pairwise_iff_getElem.1 hs
  constructor
  · intro hlt
    rcases Nat.lt_trichotomy i j with h | h | h
    · exact h
    · subst h; rw [ea] at eb; subst eb; unfold ltE at hlt; omega
    · have := hp j i hjl hil h; rw [ea, eb] at this; unfold ltE at hlt this; omega
  · intro h
    have := hp i j hil hjl h; rw [ea, eb] at this; exact this

/-- the numbering does not depend on the iteration order – for EVERY input, no hypothesis -/
theorem rank_numbering_order_free {l₁ l₂ : List Entry} (hp : l₁ ~ l₂) (a : Id) :
    rankNumbering l₁ a = rankNumbering l₂ a := by
  unfold rankNumbering
  rw [sortJTId_eq_of_perm hp]

/-- **C10 `rank_numbering` (full: no hypothesis on join times).**  Let `l₁` be the
live set in any iteration order, ids distinct (the keys of a Go map).  Join times may
coincide.  Then

1. for EVERY other iteration order `l₂` of the same set the numbering is the same function;
2. every live member obtains `(k, |live|)` with `1 ≤ k ≤ |live|`; a non-member obtains `none`;
3. numbers are pairwise distinct (injective);
4. every `k ∈ 1..|live|` is taken (with 2, 3: a bijection live → {1..|live|});
5. numbers follow the (join time, id) order `ltE`: earlier join time first, equal join
   times by id. -/
theorem rank_numbering (l₁ : List Entry) (hn : (ids l₁).Nodup) :
    (∀ l₂, l₁ ~ l₂ → ∀ a, rankNumbering l₂ a = rankNumbering l₁ a) ∧
    (∀ a, a ∈ ids l₁ → ∃ k, rankNumbering l₁ a = some (k, l₁.length) ∧ 1 ≤ k ∧ k ≤ l₁.length) ∧
    (∀ a, a ∉ ids l₁ → rankNumbering l₁ a = none) ∧
    (∀ a b k T, rankNumbering l₁ a = some (k, T) → rankNumbering l₁ b = some (k, T) → a = b) ∧
    (∀ k, 1 ≤ k → k ≤ l₁.length → ∃ a, a ∈ ids l₁ ∧ rankNumbering l₁ a = some (k, l₁.length)) ∧
    (∀ a b ka kb T, a ∈ l₁ → b ∈ l₁ → rankNumbering l₁ a.1 = some (ka, T) →
        rankNumbering l₁ b.1 = some (kb, T) → (ltE a b ↔ ka < kb)) := by
  have hsn := ids_sortJTId_nodup hn
  have hlen : (ids (sortJTId l₁)).length = l₁.length := by simp [ids, length_sortJTId]
  refine ⟨?_, ?_, ?_, ?_, ?_, ?_⟩
  · intro l₂ hp a
    exact (rank_numbering_order_free hp a).symm
  · intro a ha
    have ha' : a ∈ ids (sortJTId l₁) := (ids_perm (sortJTId_perm l₁)).mem_iff.2 ha
    obtain ⟨i, hi, hl⟩ := pos_some_of_mem ha'
    exact ⟨i + 1, by simp [rankNumbering, hi, length_sortJTId], by omega, by omega⟩
  · intro a ha
    have ha' : a ∉ ids (sortJTId l₁) := fun h => ha ((ids_perm (sortJTId_perm l₁)).mem_iff.1 h)
    simp [rankNumbering, pos_none ha']
  · intro a b k T h1 h2
    simp only [rankNumbering, Option.map_eq_some_iff, Prod.mk.injEq] at h1 h2
    obtain ⟨i, hi, hik, _⟩ := h1
    obtain ⟨j, hj, hjk, _⟩ := h2
    have : i = j := by omega
    subst this
    have := (pos_getElem hi).symm.trans (pos_getElem hj)
    exact Option.some.inj this
  · intro k hk1 hk2
    have hlt : k - 1 < (ids (sortJTId l₁)).length := by omega
    refine ⟨(ids (sortJTId l₁))[k - 1], ?_, ?_⟩
    · exact (ids_perm (sortJTId_perm l₁)).mem_iff.1 (getElem_mem hlt)
    · have := pos_of_getElem hsn (getElem?_eq_getElem hlt)
      simp only [rankNumbering, this, length_sortJTId, Option.map_some]
      congr 2; omega
  · intro a b ka kb T ha hb h1 h2
    simp only [rankNumbering, Option.map_eq_some_iff, Prod.mk.injEq] at h1 h2
    obtain ⟨i, hi, hik, _⟩ := h1
    obtain ⟨j, hj, hjk, _⟩ := h2
    have := pos_order hsn (sortJTId_strict hn) (mem_sortJTId.2 ha) (mem_sortJTId.2 hb) hi hj
    rw [this]; omega

/-- numbers respect join order: a strictly earlier join time gives the strictly smaller number;
    with equal join times the smaller id gives the smaller number -/
theorem rank_numbering_join_order (l₁ : List Entry) (hn : (ids l₁).Nodup) (a b : Entry) (ka kb T : Nat)
    (ha : a ∈ l₁) (hb : b ∈ l₁) (h1 : rankNumbering l₁ a.1 = some (ka, T)) (h2 : rankNumbering l₁ b.1 = some (kb, T)) :
    (a.2 < b.2 → ka < kb) ∧ (a.2 = b.2 → (@LT.lt Nat _ a.1 b.1 ↔ ka < kb)) := by
  have h := (rank_numbering l₁ hn).2.2.2.2.2 a b ka kb T ha hb h1 h2
  unfold ltE at h
  constructor
  · intro hlt; exact h.1 (Or.inl hlt)
  · intro heq
    constructor
    · intro hlt; exact h.1 (Or.inr ⟨heq, hlt⟩)
    · intro hk; rcases h.2 hk with h' | h'
      · omega
      · exact h'.2

/-- members that see the same live set agree, whatever order each of them iterated in
    (no hypothesis at all: not even distinct ids are needed for this part) -/
theorem same_live_set_agree (live : List Entry)
    (iterA iterB : List Entry) (hA : iterA ~ live) (hB : iterB ~ live) (a : Id) :
    rankNumbering iterA a = rankNumbering iterB a :=
  rank_numbering_order_free (hA.trans hB.symm) a

/-- **F8 `rank_numbering_tie_refuted` (finding F8, FIXED by commit 23681a3).**  A theorem
about the comparator as it was BEFORE the repair (`rankNumberingPreFix`: stable sort on
join time only).  Two instances with equal join times: two iteration orders of the same
index give member 1 different numbers, and member 1 (iterating in the first order) and
member 2 (iterating in the second) both obtain number 1 of 2. -/
theorem rank_numbering_tie_refuted :
    ∃ l₁ l₂ : List Entry, l₁ ~ l₂ ∧ (ids l₁).Nodup ∧
      rankNumberingPreFix l₁ 1 ≠ rankNumberingPreFix l₂ 1 ∧
      rankNumberingPreFix l₁ 1 = some (1, 2) ∧ rankNumberingPreFix l₂ 2 = some (1, 2) :=
  ⟨[(1, 42), (2, 42)], [(2, 42), (1, 42)], Perm.swap _ _ _, by decide, by decide, by decide, by decide⟩

/-- the same witness under the code as it is now: both orders give 1 ↦ 1/2, 2 ↦ 2/2 -/
theorem rank_numbering_tie_fixed :
    rankNumbering [(1, 42), (2, 42)] 1 = some (1, 2) ∧ rankNumbering [(2, 42), (1, 42)] 1 = some (1, 2) ∧
    rankNumbering [(1, 42), (2, 42)] 2 = some (2, 2) ∧ rankNumbering [(2, 42), (1, 42)] 2 = some (2, 2) := by decide

/-- before the repair the numbering was the present one exactly under distinct join times -/
theorem rankNumberingPreFix_eq_of_distinct {l : List Entry} (hjt : (l.map Prod.snd).Nodup) (a : Id) :
    rankNumberingPreFix l a = rankNumbering l a := by
  unfold rankNumberingPreFix rankNumbering
  rw [preFix_eq_of_distinct hjt]

/-- non-vacuity of the hypothesis of `rank_numbering` with a tie among the join times,
    and concrete values (7 and 5 joined at the same instant: 5 < 7 decides) -/
example : (ids [(7, 20), (3, 10), (5, 20)]).Nodup ∧
    rankNumbering [(7, 20), (3, 10), (5, 20)] 7 = some (3, 3) ∧
    rankNumbering [(5, 20), (7, 20), (3, 10)] 7 = some (3, 3) ∧
    rankNumbering [(5, 20), (7, 20), (3, 10)] 5 = some (2, 3) ∧
    rankNumbering [(5, 20), (7, 20), (3, 10)] 3 = some (1, 3) := by decide

/-! ## D. the couchbase membership protocol -/

theorem isChanged_true_iff {α : Type} [DecidableEq α] (n : α × α) (o : Option (α × α)) :
    isChanged n o = true ↔ o ≠ some n := by
  cases o with
  | none => simp [isChanged]
  | some x =>
    obtain ⟨x1, x2⟩ := x
    obtain ⟨n1, n2⟩ := n
    simp only [isChanged, Bool.or_eq_true, decide_eq_true_eq, ne_eq, Option.some.injEq, Prod.mk.injEq]
    constructor
    · rintro (h | h) ⟨h1, h2⟩
      · exact h h1.symm
      · exact h h2.symm
    · intro h
      by_cases h1 : n1 = x1
      · right; intro h2; exact h ⟨h1.symm, h2.symm⟩
      · left; exact h1

theorem isChanged_false_iff {α : Type} [DecidableEq α] (n : α × α) (o : Option (α × α)) :
    isChanged n o = false ↔ o = some n := by
  have := isChanged_true_iff n o
  constructor
  · intro h; by_cases h' : o = some n
    · exact h'
    · rw [this.2 h'] at h; cases h
  · intro h; cases hc : isChanged n o
    · rfl
    · exact absurd h (this.1 hc)

theorem filterMap_ite {α : Type} (g : α → Option α) (p : α → Bool) (l : List α)
    (h : ∀ e ∈ l, g e = if p e then some e else none) : l.filterMap g = l.filter p := by
  induction l with
  | nil => rfl
  | cons x r ih =>
    have hx := h x mem_cons_self
    have hr := ih fun e he => h e (mem_cons_of_mem _ he)
    cases hp : p x <;> simp [hx, hp, hr]

theorem nodup_of_map {α β : Type} (f : α → β) {l : List α} (h : (l.map f).Nodup) : l.Nodup := by
  have := pairwise_map.1 h
  exact this.imp fun hne hab => hne (by rw [hab])

/-- the clock hypothesis of one monitor round: at the observer's clock readings
    every live instance has a document with a fresh heartbeat, every other
    instance's document is missing (expired) or stale -/
def ClockOK (c : Cfg) (L : List Entry) (s : State) (nows : Id → Int) : Prop :=
  (∀ e ∈ L, ∃ d, s.docs e.1 = some d ∧ isAlive c (nows e.1) d.hb = true) ∧
  (∀ a, a ∉ ids L → ∀ d, s.docs a = some d → isAlive c (nows a) d.hb = false)

/-- what a round reads when the index contains the live set and the clock
    hypothesis holds: exactly the live set in (join time, id) order -/
theorem view_stable (c : Cfg) (L : List Entry) (hnL : (ids L).Nodup)
    (s : State) (hin : (ids s.index).Nodup) (hhas : ∀ e ∈ L, e ∈ s.index)
    (hdj : ∀ e ∈ L, ∀ d, s.docs e.1 = some d → d.jt = e.2)
    (iter : List Entry) (hp : iter ~ s.index) (nows : Id → Int) (hc : ClockOK c L s nows) :
    view c s.docs nows iter = sortJTId L := by
  have hmemI : ∀ e, e ∈ sortJTId iter ↔ e ∈ s.index := fun e => mem_sortJTId.trans hp.mem_iff
  have h1 : view c s.docs nows iter = (sortJTId iter).filter (fun e => decide (e ∈ L)) := by
    unfold view
    apply filterMap_ite
    intro e he
    have hei := (hmemI e).1 he
    by_cases heL : e ∈ L
    · obtain ⟨d, hd, ha⟩ := hc.1 e heL
      have := hdj e heL d hd
      simp [hd, ha, heL, this]
    · have hid : e.1 ∉ ids L := by
        intro hid
        obtain ⟨j, hj⟩ := mem_ids.1 hid
        have : (e.1, j) = e := inj_of_nodup_map Prod.fst hin (hhas _ hj) hei rfl
        exact heL (this ▸ hj)
      cases hd : s.docs e.1 with
      | none => simp [heL]
      | some d => simp [hc.2 e.1 hid d hd, heL]
  rw [h1]
  have hIn : s.index.Nodup := nodup_of_map Prod.fst hin
  have hF : ((sortJTId iter).filter (fun e => decide (e ∈ L))).Nodup :=
    ((((sortJTId_perm iter).trans hp).nodup_iff).2 hIn).sublist filter_sublist
  have hperm : (sortJTId iter).filter (fun e => decide (e ∈ L)) ~ L := by
    refine (perm_ext_iff_of_nodup hF (nodup_of_map Prod.fst hnL)).2 ?_
    intro x
    simp only [mem_filter, decide_eq_true_eq, hmemI]
    exact ⟨fun h => h.2, fun h => ⟨hhas x h, h⟩⟩
  exact sortedE_unique (hperm.trans (sortJTId_perm L).symm) ((sortJTId_sorted iter).filter _) (sortJTId_sorted L)

/-- protocol invariant of one member from its birth: once a numbering has been
    derived (`last` non-nil) the info in effect is the own position in it -/
def MemberInv (m : Id) (mb : Member) : Prop :=
  mb.last = [] ∨ ∃ i, pos m mb.last = some i ∧ mb.info = some (i + 1, mb.last.length)

/-- the member holds the rank numbering of the live set -/
def Converged (L : List Entry) (m : Id) (mb : Member) : Prop :=
  mb.info = rankNumbering L m ∧ mb.last = ids (sortJTId L)

def MemOK (L : List Entry) (s0 : State) (m : Id) (mb : Member) : Prop :=
  ((mb.pc = .stopped ∨ mb.pc = .crashed) ∧
    ∀ mb0, s0.mem m = some mb0 → (mb0.pc = .stopped ∨ mb0.pc = .crashed)) ∨
  ((m, mb.jt) ∈ L ∧ MemberInv m mb ∧ (mb.pc = .idle ∨ ∃ cas, mb.pc = .pending (sortJTId L) cas) ∧
    ∀ mb0, s0.mem m = some mb0 → mb.rounds = mb0.rounds ∨ Converged L m mb)

/-- invariant of the stable phase that starts in `s0` with live set `L` -/
structure Inv (L : List Entry) (s0 s : State) : Prop where
  indexNodup : (ids s.index).Nodup
  indexHas : ∀ e ∈ L, e ∈ s.index
  docJt : ∀ e ∈ L, ∀ d, s.docs e.1 = some d → d.jt = e.2
  mem : ∀ m mb, s.mem m = some mb → MemOK L s0 m mb
  written : s.cas = s0.cas ∨ s.index = sortJTId L

/-- what may happen while the live set is stable: monitor rounds of anyone in
    any order (the two halves of a round interleave freely with everything
    else, so every CAS-conflict pattern is covered), heartbeats at any time,
    TTL expiry of documents of instances that are not live.  No registration,
    no stop.  Each read iterates the index map in an arbitrary order and is
    subject to the clock hypothesis. -/
def ActOK (c : Cfg) (L : List Entry) (s : State) : Action → Prop
  | .read _ iter nows => iter ~ s.index ∧ ClockOK c L s nows
  | .cas _ => True
  | .heartbeat _ _ => True
  | .expire m => m ∉ ids L
  | _ => False

def Admissible (c : Cfg) (L : List Entry) : State → List Action → Prop
  | _, [] => True
  | s, a :: r => ActOK c L s a ∧ Admissible c L (step c s a) r

/-- start of a stable phase: every live instance is registered (index entry and
    document carry its join time), the running members are live, idle
    (quiescent) and satisfy the member invariant; all other members have stopped -/
structure Stable (L : List Entry) (s0 : State) : Prop where
  indexNodup : (ids s0.index).Nodup
  indexHas : ∀ e ∈ L, e ∈ s0.index
  docJt : ∀ e ∈ L, ∀ d, s0.docs e.1 = some d → d.jt = e.2
  mem : ∀ m mb, s0.mem m = some mb →
    (mb.pc = .stopped ∨ mb.pc = .crashed) ∨ ((m, mb.jt) ∈ L ∧ MemberInv m mb ∧ mb.pc = .idle)

theorem Stable.inv {L : List Entry} {s0 : State} (h : Stable L s0) : Inv L s0 s0 where
  indexNodup := h.indexNodup
  indexHas := h.indexHas
  docJt := h.docJt
  written := Or.inl rfl
  mem := by
    intro m mb hm
    rcases h.mem m mb hm with hd | ⟨h1, h2, h3⟩
    · refine Or.inl ⟨hd, ?_⟩
      intro mb0 h0
      rw [hm] at h0
      cases h0
      exact hd
    · refine Or.inr ⟨h1, h2, Or.inl h3, ?_⟩
      intro mb0 h0
      rw [hm] at h0
      cases h0
      exact Or.inl rfl

theorem Inv.setMem {L : List Entry} {s0 s : State} (h : Inv L s0 s) (m : Id) (mb' : Member)
    (hok : MemOK L s0 m mb') : Inv L s0 (s.setMem m mb') where
  indexNodup := h.indexNodup
  indexHas := h.indexHas
  docJt := h.docJt
  written := h.written
  mem := by
    intro m' x hx
    simp only [State.setMem] at hx
    split at hx
    · rename_i heq
      cases hx
      rw [heq]; exact hok
    · exact h.mem _ _ hx

theorem rebalance_found (m : Id) (mb : Member) (f : List Entry) (i : Nat) (h : pos m (ids f) = some i) :
    (rebalance m mb f).info = some (i + 1, f.length) ∧ (rebalance m mb f).last = ids f ∧
    (rebalance m mb f).pc = .idle ∧ (rebalance m mb f).rounds = mb.rounds + 1 ∧
    (rebalance m mb f).jt = mb.jt := by
  unfold rebalance
  rw [h]
  dsimp only
  split
  · simp
  · rename_i hc
    have := (isChanged_false_iff _ _).1 (by simpa using hc)
    simp [this]

theorem rank_of_pos {L : List Entry} {m : Id} {i : Nat} (h : pos m (ids (sortJTId L)) = some i) :
    rankNumbering L m = some (i + 1, (sortJTId L).length) := by
  simp [rankNumbering, h]

/-- every admissible step preserves the invariant -/
theorem step_inv (c : Cfg) (L : List Entry) (hnL : (ids L).Nodup)
    (s0 s : State) (h : Inv L s0 s) (a : Action) (hact : ActOK c L s a) : Inv L s0 (step c s a) := by
  cases a with
  | register1 m now => exact absurd hact (by simp [ActOK])
  | register2 m => exact absurd hact (by simp [ActOK])
  | stop m => exact absurd hact (by simp [ActOK])
  | expire m =>
    have hm : m ∉ ids L := hact
    exact {
      indexNodup := h.indexNodup, indexHas := h.indexHas, written := h.written, mem := h.mem
      docJt := by
        intro e he d hd
        simp only [step, State.setDoc] at hd
        split at hd
        · cases hd
        · exact h.docJt e he d hd }
  | heartbeat m now =>
    simp only [step, heartbeatStep]
    cases hm : s.mem m with
    | none => exact h
    | some mb =>
      dsimp only
      split
      · exact h
      · exact h
      · exact h
      · rename_i hpc1 hpc2 hdoc
        exact {
          indexNodup := h.indexNodup, indexHas := h.indexHas, written := h.written, mem := h.mem
          docJt := by
            intro e he d hd
            simp only [State.setDoc] at hd
            split at hd
            · rename_i heq
              cases hd
              rcases h.mem m mb hm with ⟨hdead, -⟩ | ⟨hl, -⟩
              · rcases hdead with hd' | hd'
                · exact (hdoc hd').elim
                · exact (hpc2 hd').elim
              · have : (m, mb.jt) = e := inj_of_nodup_map Prod.fst hnL hl he heq.symm
                rw [← this]
            · exact h.docJt e he d hd }
  | read m iter nows =>
    obtain ⟨hp, hc⟩ := hact
    simp only [step, readStep]
    cases hm : s.mem m with
    | none => exact h
    | some mb =>
      dsimp only
      cases hpc : mb.pc with
      | pending f cas => exact h
      | crashed => exact h
      | stopped => exact h
      | idle =>
        dsimp only
        rcases h.mem m mb hm with ⟨hdead, -⟩ | ⟨hl, hmi, -, hconv⟩
        · rcases hdead with hd | hd <;> rw [hpc] at hd <;> cases hd
        have hv := view_stable c L hnL s h.indexNodup h.indexHas h.docJt iter hp nows hc
        rw [hv]
        split
        · exact h.setMem m _ (Or.inr ⟨hl, hmi, Or.inr ⟨_, rfl⟩, hconv⟩)
        · rename_i hch
          have hlast : mb.last = ids (sortJTId L) := by
            simpa [clusterChanged] using hch
          refine h.setMem m _ (Or.inr ⟨hl, hmi, Or.inl rfl, ?_⟩)
          intro mb0 _
          right
          refine ⟨?_, hlast⟩
          have hmem : m ∈ ids (sortJTId L) :=
            (ids_perm (sortJTId_perm L)).mem_iff.2 (mem_ids.2 ⟨_, hl⟩)
          rcases hmi with hnil | ⟨i, hi, hinfo⟩
          · rw [hlast] at hnil; rw [hnil] at hmem; cases hmem
          · show mb.info = _
            rw [hlast] at hi
            rw [rank_of_pos hi, hinfo, hlast]
            simp [ids]
  | cas m =>
    simp only [step, casStep]
    cases hm : s.mem m with
    | none => exact h
    | some mb =>
      dsimp only
      cases hpc : mb.pc with
      | idle => exact h
      | crashed => exact h
      | stopped => exact h
      | pending f cas =>
        dsimp only
        rcases h.mem m mb hm with ⟨hdead, -⟩ | ⟨hl, hmi, hpcok, hconv⟩
        · rcases hdead with hd | hd <;> rw [hpc] at hd <;> cases hd
        have hf : f = sortJTId L := by
          rcases hpcok with hi | ⟨cas', hp'⟩
          · rw [hpc] at hi; cases hi
          · rw [hpc] at hp'; cases hp'; rfl
        subst hf
        split
        · have hmem : m ∈ ids (sortJTId L) :=
            (ids_perm (sortJTId_perm L)).mem_iff.2 (mem_ids.2 ⟨_, hl⟩)
          obtain ⟨i, hi, -⟩ := pos_some_of_mem hmem
          obtain ⟨r1, r2, r3, r4, r5⟩ := rebalance_found m mb (sortJTId L) i hi
          have hbase : Inv L s0 { s with index := sortJTId L, cas := s.cas + 1 } :=
            { indexNodup := ids_sortJTId_nodup hnL
              indexHas := fun e he => mem_sortJTId.2 he
              docJt := h.docJt
              mem := h.mem
              written := Or.inr rfl }
          refine hbase.setMem m _ (Or.inr ⟨by rw [r5]; exact hl, ?_, Or.inl r3, ?_⟩)
          · right
            refine ⟨i, by rw [r2]; exact hi, ?_⟩
            rw [r1, r2]; simp [ids]
          · intro mb0 _
            right
            exact ⟨by rw [r1, rank_of_pos hi], r2⟩
        · refine h.setMem m _ (Or.inr ⟨hl, hmi, Or.inl rfl, hconv⟩)

theorem run_inv (c : Cfg) (L : List Entry) (hnL : (ids L).Nodup)
    (s0 s : State) (h : Inv L s0 s) (acts : List Action) (hadm : Admissible c L s acts) :
    Inv L s0 (run c s acts) := by
  induction acts generalizing s with
  | nil => exact h
  | cons a r ih => exact ih _ (step_inv c L hnL s0 s h a hadm.1) hadm.2

/-- **C10 `converges` (partial: clock hypothesis, quiescent start; no hypothesis on join times).**
Let the live set `L` be stable from `s0` on (`Stable`: every live instance fully
registered, running members idle) and let `acts` be ANY admissible continuation:
monitor rounds of any members in any order with any interleaving of their two
halves (hence any CAS-conflict pattern; a failed CAS makes the member read
again), heartbeats, expiries of dead instances' documents; every read sees a
fresh heartbeat for each live and a stale or missing document for each other
instance (`ClockOK`), and iterates the index map in an arbitrary order.  Then

* a member that has completed at least ONE monitor round since `s0` holds
  exactly `rankNumbering L` of itself – so a dead instance is dropped and a new
  one counted after one completed round per member (bound = 1 round each);
* no live member fail-stops, stopped members stay stopped;
* once the index has been written at all it equals the live set in (join time, id) order. -/
theorem converges (c : Cfg) (L : List Entry) (hnL : (ids L).Nodup)
    (s0 : State) (h0 : Stable L s0) (acts : List Action) (hadm : Admissible c L s0 acts) :
    (∀ m mb0 mb, s0.mem m = some mb0 → (run c s0 acts).mem m = some mb → mb0.pc = .idle →
        (mb0.rounds < mb.rounds → mb.info = rankNumbering L m) ∧ mb.pc ≠ .crashed ∧ mb.pc ≠ .stopped) ∧
    ((run c s0 acts).cas ≠ s0.cas → (run c s0 acts).index = sortJTId L) := by
  have hinv := run_inv c L hnL s0 s0 h0.inv acts hadm
  refine ⟨?_, ?_⟩
  · intro m mb0 mb hm0 hm hidle
    have halive : mb.pc ≠ .crashed ∧ mb.pc ≠ .stopped := by
      rcases hinv.mem m mb hm with ⟨-, hd0⟩ | ⟨-, -, hpc, -⟩
      · rcases hd0 mb0 hm0 with hd | hd <;> rw [hidle] at hd <;> cases hd
      · rcases hpc with hpc | ⟨cas, hpc⟩ <;> rw [hpc] <;> constructor <;> intro h <;> cases h
    refine ⟨?_, halive.1, halive.2⟩
    intro hlt
    rcases hinv.mem m mb hm with ⟨hd, -⟩ | ⟨-, -, -, hconv⟩
    · rcases hd with hd | hd
      · exact absurd hd halive.2
      · exact absurd hd halive.1
    · rcases hconv mb0 hm0 with heq | hcv
      · omega
      · exact hcv.1
  · intro hcas
    rcases hinv.written with h | h
    · exact absurd h hcas
    · exact h

/-- non-vacuity of `converges`: a concrete stable start (instance 9 is dead:
    stale document, still in the index) and a continuation with a CAS conflict
    (both members read, 1 writes, 2's CAS fails and it reads again) -/
def exCfg : Cfg := { hbInterval := 50, tolerance := 300 }
def exS0 : State :=
  { index := [(9, 5), (2, 20), (1, 10)], cas := 7,
    docs := fun j => if j = 1 then some ⟨1000, 10⟩ else if j = 2 then some ⟨1000, 20⟩
                     else if j = 9 then some ⟨100, 5⟩ else none,
    mem := fun j => if j = 1 then some { jt := 10, info := some (2, 3), last := [9, 1, 2], events := [(2, 3)] }
                    else if j = 2 then some { jt := 20 } else none }
def exL : List Entry := [(1, 10), (2, 20)]
def exActs : List Action :=
  [.read 1 [(2, 20), (9, 5), (1, 10)] (fun _ => 1010), .read 2 [(1, 10), (2, 20), (9, 5)] (fun _ => 1020),
   .cas 1, .heartbeat 2 1030, .cas 2, .read 2 [(2, 20), (1, 10)] (fun _ => 1040), .cas 2]

example : Stable exL exS0 where
  indexNodup := by decide
  indexHas := by decide
  docJt := by
    intro e he d hd
    simp only [exL, mem_cons, not_mem_nil, or_false] at he
    rcases he with rfl | rfl <;> simp [exS0] at hd <;> subst hd <;> rfl
  mem := by
    intro m mb hm
    simp only [exS0] at hm
    split at hm
    · rename_i h1; subst h1; cases hm
      exact Or.inr ⟨by decide, Or.inr ⟨1, by decide, rfl⟩, rfl⟩
    · split at hm
      · rename_i h2; subst h2; cases hm
        exact Or.inr ⟨by decide, Or.inl rfl, rfl⟩
      · cases hm

example : ((run exCfg exS0 exActs).mem 1).map (·.info) = some (some (1, 2)) ∧
    ((run exCfg exS0 exActs).mem 2).map (·.info) = some (some (2, 2)) ∧
    ((run exCfg exS0 exActs).mem 2).map (·.rounds) = some 1 ∧
    (run exCfg exS0 exActs).index = [(1, 10), (2, 20)] := by decide

/-- **`join_race_refuted`.**  Without the quiescence hypothesis of `converges`
    the admission clause is false of the code as it is: instance 3 has written
    its index entry (`register1`) but not yet its document when member 1, which
    has another change to write (instance 2 joined), rewrites the index from
    what it saw alive – instance 3 is erased, and its first own monitor round
    ends in `panic("cant find self in cluster")`. -/
theorem join_race_refuted :
    ∃ acts : List Action, ((run exCfg {} acts).mem 3).map (·.pc) = some Pc.crashed ∧
      ((run exCfg {} acts).mem 1).map (·.info) = some (some (1, 2)) :=
  ⟨[.register1 1 10, .register2 1, .read 1 [(1, 10)] (fun _ => 20), .cas 1,
    .register1 3 30, .register1 2 31, .register2 2,
    .read 1 [(1, 10), (3, 30), (2, 31)] (fun _ => 40), .cas 1,
    .register2 3, .heartbeat 3 45,
    .read 3 [(1, 10), (2, 31)] (fun _ => 50), .cas 3], by decide⟩

/-! ### announce only on change -/

open GoDcp.Spec.C10 in
theorem noRepeat_concat (l : List (Nat × Nat)) (x : Nat × Nat) (h : noRepeat l = true)
    (hl : l.getLast? ≠ some x) : noRepeat (l ++ [x]) = true := by
  induction l with
  | nil => rfl
  | cons a r ih =>
    cases r with
    | nil =>
      have : a ≠ x := by simpa using hl
      simp [noRepeat, this]
    | cons b r' =>
      simp only [noRepeat, Bool.and_eq_true] at h
      have := ih h.2 (by simpa using hl)
      simp only [cons_append, noRepeat, Bool.and_eq_true]
      exact ⟨h.1, by simpa using this⟩

/-- what every member satisfies from its birth on, whatever happens (no hypothesis on the run) -/
def BirthInv (m : Id) (mb : Member) : Prop :=
  MemberInv m mb ∧ mb.info = mb.events.getLast? ∧ Spec.C10.noRepeat mb.events = true

theorem rebalance_birth (m : Id) (mb : Member) (f : List Entry) (h : BirthInv m mb) :
    BirthInv m (rebalance m mb f) := by
  obtain ⟨h1, h2, h3⟩ := h
  cases hp : pos m (ids f) with
  | none => simp only [rebalance, hp]; exact ⟨h1, h2, h3⟩
  | some i =>
    obtain ⟨r1, r2, -, -, -⟩ := rebalance_found m mb f i hp
    refine ⟨Or.inr ⟨i, by rw [r2]; exact hp, by rw [r1, r2]; simp [ids]⟩, ?_⟩
    unfold rebalance
    rw [hp]
    dsimp only
    split
    · rename_i hc
      have hne := (isChanged_true_iff _ _).1 hc
      refine ⟨by simp, ?_⟩
      exact noRepeat_concat _ _ h3 (by rw [← h2]; exact hne)
    · exact ⟨h2, h3⟩

theorem birth_step (c : Cfg) (s : State) (h : ∀ m mb, s.mem m = some mb → BirthInv m mb) (a : Action) :
    ∀ m mb, (step c s a).mem m = some mb → BirthInv m mb := by
  intro m' x hx
  have keep : ∀ mb : Member, s.mem m' = some mb → x.info = mb.info → x.last = mb.last →
      x.events = mb.events → BirthInv m' x := by
    intro mb hmb e1 e2 e3
    have := h m' mb hmb
    unfold BirthInv MemberInv at *
    rw [e1, e2, e3]; exact this
  cases a with
  | register1 m now =>
    simp only [step, register1, State.setMem] at hx
    split at hx
    · cases hx; exact ⟨Or.inl rfl, rfl, rfl⟩
    · exact h _ _ hx
  | register2 m =>
    simp only [step, register2] at hx
    split at hx
    · exact h _ _ hx
    · exact h _ _ hx
  | heartbeat m now =>
    simp only [step, heartbeatStep] at hx
    split at hx
    · exact h _ _ hx
    · split at hx <;> exact h _ _ hx
  | expire m => exact h _ _ hx
  | stop m =>
    simp only [step, stopStep] at hx
    split at hx
    · exact h _ _ hx
    · rename_i mb hmb
      simp only [State.setMem] at hx
      split at hx
      · rename_i heq; subst heq; cases hx; exact keep mb hmb rfl rfl rfl
      · exact h _ _ hx
  | read m iter nows =>
    simp only [step, readStep] at hx
    split at hx
    · exact h _ _ hx
    · rename_i mb hmb
      split at hx
      · split at hx
        · simp only [State.setMem] at hx
          split at hx
          · rename_i heq; subst heq; cases hx; exact keep mb hmb rfl rfl rfl
          · exact h _ _ hx
        · simp only [State.setMem] at hx
          split at hx
          · rename_i heq; subst heq; cases hx; exact keep mb hmb rfl rfl rfl
          · exact h _ _ hx
      · exact h _ _ hx
  | cas m =>
    simp only [step, casStep] at hx
    split at hx
    · exact h _ _ hx
    · rename_i mb hmb
      split at hx
      · split at hx
        · simp only [State.setMem] at hx
          split at hx
          · rename_i heq; subst heq; cases hx; exact rebalance_birth _ mb _ (h _ mb hmb)
          · exact h _ _ hx
        · simp only [State.setMem] at hx
          split at hx
          · rename_i heq; subst heq; cases hx; exact keep mb hmb rfl rfl rfl
          · exact h _ _ hx
      · exact h _ _ hx

/-- **C10 `announce_only_on_change`.**  For every history whatsoever (joins,
leaves, deaths, expiries, rounds, conflicts – no hypothesis), every member:
the info in effect is the last event it published, no published event repeats
its predecessor (`Spec.C10.noRepeat`), and the info is the member's own
position in the last list it adopted.  `isChanged_true_iff` says what the
guard tests: `IsChanged` ⇔ the new pair differs from the one in effect. -/
theorem announce_only_on_change (c : Cfg) (acts : List Action) (m : Id) (mb : Member)
    (h : (run c {} acts).mem m = some mb) :
    mb.info = mb.events.getLast? ∧ Spec.C10.noRepeat mb.events = true ∧ MemberInv m mb := by
  have key : ∀ (acts : List Action) (s : State), (∀ m mb, s.mem m = some mb → BirthInv m mb) →
      ∀ m mb, (run c s acts).mem m = some mb → BirthInv m mb := by
    intro acts
    induction acts with
    | nil => intro s hs; exact hs
    | cons a r ih => intro s hs; exact ih _ (birth_step c s hs a)
  have := key acts {} (by intro m mb hm; cases hm) m mb h
  exact ⟨this.2.1, this.2.2, this.1⟩

/-- the same guard on the leader / follower / API paths (`SetInfo`, `api.info`):
    an event is published iff the pair differs from the one in effect, and the
    events published by any request sequence never repeat -/
theorem setInfo_publish_iff {α : Type} [DecidableEq α] (cur : Option (α × α)) (n : α × α) :
    ((setInfo cur n).2 = true ↔ cur ≠ some n) ∧ (setInfo cur n).1 = some n := by
  unfold setInfo
  by_cases h : isChanged n cur = true
  · simp [h, (isChanged_true_iff n cur).1 h]
  · have h' : isChanged n cur = false := by simpa using h
    have := (isChanged_false_iff n cur).1 h'
    subst this
    simp [h']

theorem setInfoRun_noRepeat (cur : Option (Nat × Nat)) (reqs : List (Nat × Nat)) :
    Spec.C10.noRepeat (setInfoRun cur reqs) = true ∧ (setInfoRun cur reqs).head? ≠ cur ∨
    setInfoRun cur reqs = [] := by
  induction reqs generalizing cur with
  | nil => right; rfl
  | cons n r ih =>
    simp only [setInfoRun, setInfo]
    by_cases h : isChanged n cur = true
    · simp only [h, if_true]
      left
      have hne := (isChanged_true_iff n cur).1 h
      refine ⟨?_, by simpa using fun h' => hne h'.symm⟩
      rcases ih (some n) with ⟨h1, h2⟩ | h1
      · cases hr : setInfoRun (some n) r with
        | nil => rfl
        | cons b t =>
          rw [hr] at h1 h2
          simp only [Spec.C10.noRepeat, Bool.and_eq_true]
          refine ⟨?_, h1⟩
          simpa using fun h' => h2 (by rw [h']; rfl)
      · rw [h1]; rfl
    · have h' : isChanged n cur = false := by simpa using h
      simp only [h']
      exact ih cur

/-! ## E. leader-assigned numbering (service discovery) -/

theorem sdAssignFrom_names (T k : Nat) (l : List Id) : (sdAssignFrom T k l).map (·.1) = l := by
  induction l generalizing k with
  | nil => rfl
  | cons n r ih => simp [sdAssignFrom, ih]

theorem sdAssignFrom_numbers (T k : Nat) (l : List Id) :
    (sdAssignFrom T k l).map (·.2.1) = List.range' k l.length := by
  induction l generalizing k with
  | nil => rfl
  | cons n r ih => simp [sdAssignFrom, ih, List.range'_succ]

theorem sdAssignFrom_total (T k : Nat) (l : List Id) : ∀ x ∈ sdAssignFrom T k l, x.2.2 = T := by
  induction l generalizing k with
  | nil => intro x hx; cases hx
  | cons n r ih =>
    intro x hx
    simp only [sdAssignFrom, mem_cons] at hx
    rcases hx with rfl | hx
    · rfl
    · exact ih _ x hx

/-- **C10 `leader_assigns_distinct`.**  For ALL follower sets `svcs` (names
distinct – a map), ALL ping-failure patterns `fails` and ALL iteration orders
`iter` of the surviving entries: after the heartbeat pass removed the followers
whose ping failed, the leader's round gives itself `(1, k+1)` and hands the `k`
survivors exactly the numbers `2, 3, …, k+1` in this order (so leader and
followers together hold 1..k+1, pairwise distinct) with the same total; the
followers served are exactly the survivors, each once, no failed follower
among them; their order is a join-time order (ties – equal join times – may
come in either order, numbers stay distinct). -/
theorem leader_assigns_distinct (svcs : List Entry) (hn : (ids svcs).Nodup) (fails : Id → Bool)
    (iter : List Entry) (hp : iter ~ sdHeartbeat svcs fails) :
    let surv := sdHeartbeat svcs fails
    let r := sdRound iter
    r.1 = (1, surv.length + 1) ∧
    r.2.map (·.2.1) = List.range' 2 surv.length ∧
    (∀ x ∈ r.2, x.2.2 = surv.length + 1) ∧
    r.2.map (·.1) ~ ids surv ∧ (r.2.map (·.1)).Nodup ∧
    (∀ a, a ∈ r.2.map (·.1) → fails a = false ∧ a ∈ ids svcs) ∧
    (∀ a, a ∈ ids svcs → fails a = false → a ∈ r.2.map (·.1)) ∧
    (r.2.map (·.1) = ids (sortJT iter) ∧ (sortJT iter).Pairwise fun a b => a.2 ≤ b.2) := by
  intro surv r
  have hlen : (sdGetAll iter).length = surv.length := by
    simp only [sdGetAll, ids, length_map, length_sortJT]; exact hp.length_eq
  have hnames : r.2.map (·.1) = ids (sortJT iter) := sdAssignFrom_names _ _ _
  have hperm : ids (sortJT iter) ~ ids surv := ids_perm ((sortJT_perm iter).trans hp)
  have hsurvN : (ids surv).Nodup := by
    have : ids surv <+ ids svcs := by
      simp only [ids, surv, sdHeartbeat]; exact (filter_sublist).map _
    exact hn.sublist this
  have hmem : ∀ a, a ∈ ids surv ↔ (fails a = false ∧ a ∈ ids svcs) := by
    intro a
    simp only [surv, sdHeartbeat, mem_ids, mem_filter, Bool.not_eq_true']
    constructor
    · rintro ⟨j, hj, hf⟩; exact ⟨hf, j, hj⟩
    · rintro ⟨hf, j, hj⟩; exact ⟨j, hj, hf⟩
  refine ⟨?_, ?_, ?_, ?_, ?_, ?_, ?_, hnames, sortJT_sorted iter⟩
  · show ((1 : Nat), (sdGetAll iter).length + 1) = _
    rw [hlen]
  · show (sdAssignFrom _ 2 (sdGetAll iter)).map (·.2.1) = _
    rw [sdAssignFrom_numbers, hlen]
  · intro x hx
    have := sdAssignFrom_total _ _ _ x hx
    rw [this, hlen]
  · rw [hnames]; exact hperm
  · rw [hnames]; exact (hperm.nodup_iff).2 hsurvN
  · intro a ha
    rw [hnames] at ha
    exact (hmem a).1 (hperm.mem_iff.1 ha)
  · intro a ha hf
    rw [hnames]
    exact hperm.mem_iff.2 ((hmem a).2 ⟨hf, ha⟩)

/-- non-vacuity: three followers, the middle one fails its ping -/
example : sdRound (sdHeartbeat [(5, 30), (6, 10), (7, 20)] (fun a => a == 7)) =
    ((1, 3), [(6, (2, 3)), (5, (3, 3))]) := by decide

/-! ## F. together with the partition rule: exactly one owner per vBucket -/

/-- member with info `(k,T)` streams vBucket `v` of `N` (`vBucketDiscovery.Get`:
    chunk `k-1` of `ChunkSlice([0..N), T)`) -/
def owns (N : Nat) (info : Option (Nat × Nat)) (v : Nat) : Prop :=
  ∃ k T, info = some (k, T) ∧ (Chunk.memberRange N T k).1 ≤ v ∧ v ≤ (Chunk.memberRange N T k).2

/-- **C10 `exactly_one_owner`.**  The live set `live` (ids distinct, join times
arbitrary – ties allowed, `1 ≤ |live| ≤ N`), every member deriving its numbering from its own
iteration order of that set: every vBucket `v < N` has exactly one owner. -/
theorem exactly_one_owner (live : List Entry) (hn : (ids live).Nodup)
    (orders : Id → List Entry) (ho : ∀ a, orders a ~ live) (N : Nat)
    (h1 : 1 ≤ live.length) (hN : live.length ≤ N) :
    ∀ v, v < N → ∃ a, a ∈ ids live ∧ owns N (rankNumbering (orders a) a) v ∧
      ∀ b, b ∈ ids live → owns N (rankNumbering (orders b) b) v → b = a := by
  obtain ⟨hperm, hrange, -, hinj, hsurj, -⟩ := rank_numbering live hn
  have hrw : ∀ a, rankNumbering (orders a) a = rankNumbering live a := fun a => hperm _ (ho a).symm a
  intro v hv
  obtain ⟨-, -, -, -, hcov⟩ := Chunk.C09_partition_exact N live.length h1 hN
  obtain ⟨i, hi, ⟨hs, he⟩, huniq⟩ := hcov v hv
  obtain ⟨a, ha, hra⟩ := hsurj (i + 1) (by omega) (by omega)
  refine ⟨a, ha, ?_, ?_⟩
  · refine ⟨i + 1, live.length, by rw [hrw, hra], ?_⟩
    obtain ⟨m1, m2, -, -⟩ := Chunk.memberRange_spec N live.length (i + 1) h1 hN (by omega) (by omega)
    simp only [Nat.add_sub_cancel] at m1 m2
    omega
  · intro b hb ⟨k, T, hrb, hb1, hb2⟩
    rw [hrw] at hrb
    obtain ⟨k', hk', hk1, hk2⟩ := hrange b hb
    rw [hk'] at hrb
    simp only [Option.some.injEq, Prod.mk.injEq] at hrb
    obtain ⟨rfl, rfl⟩ := hrb
    obtain ⟨m1, m2, -, -⟩ := Chunk.memberRange_spec N live.length k' h1 hN hk1 hk2
    have := huniq (k' - 1) (by omega) ⟨by omega, by omega⟩
    have hk : k' = i + 1 := by omega
    subst hk
    exact hinj b a _ _ hk' hra

/-! ## G. the monitor accepts the model -/

open GoDcp.Spec.C10 in
theorem nodupB_of_nodup (l : List Nat) (h : l.Nodup) : nodupB l = true := by
  induction l with
  | nil => rfl
  | cons a r ih =>
    rw [nodup_cons] at h
    simp [nodupB, h.1, ih h.2]

/-- the quiescent observation of the model: every live member with its join time and its info -/
def obsOf (live : List Entry) : List Spec.C10.Obs :=
  live.map fun e => (e.2, ((rankNumbering live e.1).getD (0, 0)).1, ((rankNumbering live e.1).getD (0, 0)).2)

/-- `Spec.C10.holds` accepts what the model derives, for every live set with
    distinct ids (join times may coincide) -/
theorem holds_rank (live : List Entry) (hn : (ids live).Nodup) :
    Spec.C10.holds (obsOf live) = true := by
  obtain ⟨-, hrange, -, hinj, hsurj, hord⟩ := rank_numbering live hn
  have hval : ∀ e ∈ live, ∃ k, rankNumbering live e.1 = some (k, live.length) ∧ 1 ≤ k ∧ k ≤ live.length :=
    fun e he => hrange e.1 (mem_ids.2 ⟨e.2, he⟩)
  simp only [Spec.C10.holds, Bool.and_eq_true]
  refine ⟨⟨⟨⟨?_, ?_⟩, ?_⟩, ?_⟩, ?_⟩
  · simp only [Spec.C10.sameTotal, all_eq_true, obsOf, mem_map, length_map]
    rintro o ⟨e, he, rfl⟩
    obtain ⟨k, hk, -, -⟩ := hval e he
    simp [hk]
  · simp only [Spec.C10.inRange, all_eq_true, obsOf, mem_map, length_map]
    rintro o ⟨e, he, rfl⟩
    obtain ⟨k, hk, h1, h2⟩ := hval e he
    simp [hk, h1, h2]
  · apply nodupB_of_nodup
    simp only [obsOf, map_map]
    refine pairwise_map.2 ?_
    have hL : live.Nodup := nodup_of_map Prod.fst hn
    refine (Pairwise.and_mem.1 hL).imp ?_
    intro a b ⟨ha, hb, hab⟩ heq
    obtain ⟨ka, hka, -, -⟩ := hval a ha
    obtain ⟨kb, hkb, -, -⟩ := hval b hb
    simp only [Function.comp, hka, hkb, Option.getD_some] at heq
    subst heq
    have := hinj a.1 b.1 _ _ hka hkb
    exact hab (inj_of_nodup_map Prod.fst hn ha hb this)
  · simp only [Spec.C10.covers, all_eq_true, mem_range, any_eq_true, obsOf, mem_map, length_map]
    intro k hk
    obtain ⟨a, ha, hra⟩ := hsurj (k + 1) (by omega) (by omega)
    obtain ⟨j, hj⟩ := mem_ids.1 ha
    exact ⟨_, ⟨(a, j), hj, rfl⟩, by simp [hra]⟩
  · simp only [Spec.C10.joinOrder, all_eq_true, obsOf, mem_map]
    rintro o ⟨a, ha, rfl⟩ o' ⟨b, hb, rfl⟩
    obtain ⟨ka, hka, -, -⟩ := hval a ha
    obtain ⟨kb, hkb, -, -⟩ := hval b hb
    have := hord a b ka kb _ ha hb hka hkb
    simp only [hka, hkb, Option.getD_some]
    by_cases hlt : a.2 < b.2
    · simp [hlt, this.1 (Or.inl hlt)]
    · simp [hlt]

/-- the collision classifier fires on the tie witness of the PRE-repair comparator (both members
    hold (1,2)) and is silent on the same witness under the code as it is now -/
example : Spec.C10.collides [((rankNumberingPreFix [(1, 42), (2, 42)] 1).getD (0, 0)),
    ((rankNumberingPreFix [(2, 42), (1, 42)] 2).getD (0, 0))] = true ∧
  Spec.C10.collides [((rankNumbering [(1, 42), (2, 42)] 1).getD (0, 0)),
    ((rankNumbering [(2, 42), (1, 42)] 2).getD (0, 0))] = false := by decide

/-- the monitor accepts a live set with a tie (non-vacuity of `holds_rank` without distinct join times) -/
example : Spec.C10.holds (obsOf [(2, 42), (1, 42), (3, 7)]) = true := by decide

/-! ## H. static and stateful-set membership: identity -/

/-- static membership hands out the configured pair unchanged -/
theorem static_identity (m t : Int) : staticInfo m t = (m, t) := rfl

/-- dynamic / HA membership: the info is the last model delivered on the bus -/
theorem busInfo_last (evs : List (Int × Int)) (e : Int × Int) : busInfo (evs ++ [e]) = some e := by
  simp [busInfo]

/-- stateful set: host name `<name>-<ordinal>` ↦ member number ordinal+1, total as
    configured; fail-stop when the number exceeds the total or the name has no
    numeric suffix -/
example : statefulSet "web-0" 3 = .info 1 3 ∧ statefulSet "my-app-2" 3 = .info 3 3 ∧
    statefulSet "web-3" 3 = .panic ∧ statefulSet "web" 3 = .panic ∧ statefulSet "web-x" 3 = .panic ∧
    statefulSet "web-" 3 = .panic ∧ statefulSet "web-+1" 3 = .info 2 3 := by decide

/-- distinct ordinals below the total give distinct numbers in 1..total -/
theorem statefulSet_numbers (h1 h2 : String) (o1 o2 : Nat) (t : Int) (k1 k2 : Int)
    (e1 : statefulSet h1 t = .info k1 t) (e2 : statefulSet h2 t = .info k2 t)
    (a1 : (afterLastDash h1.toList).bind atoi? = some (o1 : Int))
    (a2 : (afterLastDash h2.toList).bind atoi? = some (o2 : Int)) (hne : o1 ≠ o2) :
    k1 ≠ k2 ∧ k1 ≤ t ∧ k2 ≤ t := by
  unfold statefulSet at e1 e2
  cases h1' : afterLastDash h1.toList with
  | none => simp [h1'] at a1
  | some r1 =>
    cases h2' : afterLastDash h2.toList with
    | none => simp [h2'] at a2
    | some r2 =>
      simp only [h1', h2', Option.bind_some] at a1 a2 e1 e2
      simp only [a1, a2] at e1 e2
      split at e1
      · cases e1
      · split at e2
        · cases e2
        · simp only [SsOut.info.injEq, and_true] at e1 e2
          subst e1 e2
          rename_i g1 g2
          refine ⟨?_, by omega, by omega⟩
          unfold succ64
          split <;> split <;> omega

/-! ## I. the repair of F8 (commit 23681a3) is the model's comparator

Before the repair this section defined the tie-break comparator as a *proposal*
(`sortFix`).  It is now the code: `sortFix` is kept as a name for `sortJTId`, and its
order independence is `sortJTId_eq_of_perm` (section A2). -/

/-- the comparator that was proposed as the repair of F8 = the comparator of the code now -/
abbrev sortFix : List Entry → List Entry := sortJTId

/-- **the repaired sort is order independent for every input** (no hypothesis on join times) -/
theorem sortFix_eq_of_perm {l₁ l₂ : List Entry} (hp : l₁ ~ l₂) : sortFix l₁ = sortFix l₂ :=
  sortJTId_eq_of_perm hp

/-- the tie witness of F8 is numbered consistently by the repaired sort -/
example : sortFix [(1, 42), (2, 42)] = sortFix [(2, 42), (1, 42)] := by decide

end GoDcp.Membership
