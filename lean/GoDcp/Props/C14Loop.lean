import GoDcp.Proofs.SessionLemmas
/-!
# C14 (closed-loop part) — the library never feeds on its own writes

Events for reserved keys (`isMetaKey`: the connector prefix and the transaction prefix) are never
delivered, still advance the position, and never raise the dirty flag or mark a vBucket dirty; so a
checkpoint write fed back into the stream as a mutation can never trigger another write.
-/
namespace GoDcp.C14Loop
open GoDcp

/-! ## reserved keys: never delivered -/

/-- whatever the observer decides, a reserved-key document event delivers nothing and leaves the
    flag, the dirty maps and the context list alone -/
theorem reserved_never_delivered (s : St) (vb : Vb) (d : DocEv) (hm : isMetaKey d.key = true) :
    (∀ i v d' off c t, Obsv.deliver i v d' off c t ∉ (step s (.ev vb (.doc d))).2) ∧
    (step s (.ev vb (.doc d))).1.anyDirty = s.anyDirty ∧
    (step s (.ev vb (.doc d))).1.dirtyMaps = s.dirtyMaps ∧
    (step s (.ev vb (.doc d))).1.ctxs = s.ctxs := by
  have hnd : ∀ i v d' off c t, Obsv.deliver i v d' off c t ∉ (step s (.ev vb (.doc d))).2 := by
    intro i v d' off c t h
    obtain ⟨o, hop, _, _, _, hk, _⟩ := step_deliver h
    injection hop with _ he
    injection he with he
    subst he
    rw [hm] at hk; cases hk
  refine ⟨hnd, ?_, ?_, ?_⟩
  · simp [step]
  · exact evStep_doc_dirtyMaps s vb d hm
  · rcases step_ctxs_cases s (.ev vb (.doc d)) with h | ⟨i, v, d', off, c, t, hout, _⟩
    · exact h
    · exact absurd (by rw [hout]; exact List.mem_singleton_self _) (hnd i v d' off c t)

/-- **reserved_never_delivered_but_advance**: a reserved-key document the observer forwards is
    absorbed — no delivery; exactly one `TrackOffset` call with the event's offset if the vBucket is
    assigned and the event is not behind the position, none otherwise; the position becomes that
    offset in the first case; flag and dirty maps unchanged -/
theorem reserved_never_delivered_but_advance (s : St) (vb : Vb) (o : Obs) (d : DocEv) (le : LEvent)
    (hm : isMetaKey d.key = true) (ho : s.observers.get? vb = some o)
    (hf : (Obs.step s.cfg.obs o (.doc d)).2 = .fwd le) :
    let off := Obs.mkOffset o d.seq
    off.seq = d.seq ∧
    (∀ i v d' off' c t, Obsv.deliver i v d' off' c t ∉ (step s (.ev vb (.doc d))).2) ∧
    (step s (.ev vb (.doc d))).2 =
      (if inRange s.cfg vb = true ∧ posSeq s vb ≤ off.seq then [.track vb off] else []) ∧
    (step s (.ev vb (.doc d))).1.offsets.get? vb =
      (if inRange s.cfg vb = true ∧ posSeq s vb ≤ off.seq then some off else s.offsets.get? vb) ∧
    (step s (.ev vb (.doc d))).1.anyDirty = s.anyDirty ∧
    (step s (.ev vb (.doc d))).1.dirtyMaps = s.dirtyMaps := by
  intro off
  obtain ⟨h1, h2, h3, _⟩ := reserved_never_delivered s vb d hm
  obtain ⟨hle, _, hev⟩ := evStep_doc_fwd ho hf
  have hacc := accepts_iff_pos s vb off
  refine ⟨Obs.mkOffset_seq _ _, h1, ?_, ?_, h2, h3⟩
  · simp only [step]
    rw [hev, hle, listen_doc_meta _ _ _ _ _ hm, setOffset_out]
    by_cases ha : accepts s vb off = true
    · rw [if_pos (hacc.1 ha)]
      rw [if_pos]; exact ha
    · rw [if_neg (fun h => ha (hacc.2 h))]
      rw [if_neg]; exact ha
  · simp only [step]
    rw [hev, hle, listen_doc_meta _ _ _ _ _ hm, setOffset_get?]
    by_cases ha : accepts s vb off = true
    · rw [if_pos (hacc.1 ha), if_pos]; exact ⟨rfl, ha⟩
    · rw [if_neg (fun h => ha (hacc.2 h)), if_neg]; exact fun h => ha h.2

/-! ## the closed loop -/

/-- the ops of the closed loop: markers, reserved-key documents (the fed-back checkpoint writes),
    and save attempts (whole saves and the flag test of a save) -/
def loopOp : Op → Bool
  | .ev _ (.marker _ _) => true
  | .ev _ (.doc d) => isMetaKey d.key
  | .save _ => true
  | .svBegin _ => true
  | _ => false

/-- flag down, no saver in flight -/
def quiet (s : St) : Prop := s.anyDirty = false ∧ s.savers = []

/-- one loop op from a quiet state: still quiet, store untouched, the store is not even called -/
theorem loop_step (s : St) (op : Op) (hq : quiet s) (hop : loopOp op = true) :
    quiet (step s op).1 ∧ (step s op).1.store = s.store ∧
    (∀ st d, Obsv.saveCall st d ∉ (step s op).2) ∧ (∀ w, Obsv.written w ∉ (step s op).2) := by
  obtain ⟨hd, hs⟩ := hq
  cases op <;> simp only [loopOp] at hop <;> try (cases hop)
  case ev vb e =>
    refine ⟨⟨?_, ?_⟩, ?_, ?_, ?_⟩
    · simp [step, hd]
    · simp [step, hs]
    · simp [step]
    · intro st d h; rcases step_saveCall_op h with ⟨_, h⟩ | ⟨_, h⟩ <;> cases h
    · intro w h; rcases step_written_op h with ⟨_, h⟩ | ⟨_, _, h⟩ <;> cases h
  case save res =>
    have : saveAll s res = (s, [.bad "lock held"]) ∨ saveAll s res = (s, [.nowrite]) := by
      rw [saveAll_eq]
      by_cases hl : s.lockHeld = true
      · left; simp [hl]
      · right; simp [hl, hd]
    simp only [step]
    rcases this with h | h <;> rw [h] <;> exact ⟨⟨hd, hs⟩, rfl, by simp, by simp⟩
  case svBegin k =>
    have hk : s.savers.has k = false := by rw [hs]; rfl
    simp only [step]
    rw [svBegin_of_clean hk hd]
    exact ⟨⟨hd, hs⟩, rfl, by simp, by simp⟩

/-- **closed_loop_quiesces**: from a state with the flag down and no saver in flight, any sequence of
    loop ops — in particular every checkpoint write fed back as a mutation of its reserved key,
    interleaved with any number of save attempts — never calls the store, writes nothing, leaves the
    durable store unchanged and keeps the flag down -/
theorem closed_loop_quiesces (s : St) (ops : List Op) (hd : s.anyDirty = false) (hs : s.savers = [])
    (hops : ∀ op ∈ ops, loopOp op = true) :
    (run s ops).store = s.store ∧ (run s ops).anyDirty = false ∧ (run s ops).savers = [] ∧
    ∀ out ∈ (runTrace s ops).2, (∀ st d, Obsv.saveCall st d ∉ out) ∧ (∀ w, Obsv.written w ∉ out) := by
  induction ops generalizing s with
  | nil => exact ⟨rfl, hd, hs, by intro out h; cases h⟩
  | cons op r ih =>
    obtain ⟨⟨hd1, hs1⟩, hst, hc, hw⟩ := loop_step s op ⟨hd, hs⟩ (hops op List.mem_cons_self)
    obtain ⟨i1, i2, i3, i4⟩ := ih (step s op).1 hd1 hs1 (fun o ho => hops o (List.mem_cons_of_mem _ ho))
    rw [run_cons, runTrace_cons]
    refine ⟨by rw [i1, hst], i2, i3, ?_⟩
    intro out hout
    rcases List.mem_cons.1 hout with rfl | hout
    · exact ⟨hc, hw⟩
    · exact i4 out hout

/-- the position still follows the fed-back writes (the loop is not dead: it advances, silently) -/
theorem closed_loop_still_advances (s : St) (vb : Vb) (o : Obs) (d : DocEv) (le : LEvent)
    (hm : isMetaKey d.key = true) (ho : s.observers.get? vb = some o)
    (hf : (Obs.step s.cfg.obs o (.doc d)).2 = .fwd le) (hr : inRange s.cfg vb = true) (hp : posSeq s vb ≤ d.seq) :
    posSeq (step s (.ev vb (.doc d))).1 vb = d.seq := by
  obtain ⟨hseq, _, _, hg, _⟩ := reserved_never_delivered_but_advance s vb o d le hm ho hf
  rw [if_pos ⟨hr, by rw [hseq]; exact hp⟩] at hg
  rw [posSeq_of_get? hg, hseq]

/-! ## sanity: the statement is not vacuous -/

/-- a NON-reserved event is delivered (so the filter is the only thing that keeps reserved keys away) -/
theorem user_event_delivered (s : St) (vb : Vb) (o : Obs) (d : DocEv) (le : LEvent)
    (hm : isMetaKey d.key = false) (ho : s.observers.get? vb = some o)
    (hf : (Obs.step s.cfg.obs o (.doc d)).2 = .fwd le) :
    (step s (.ev vb (.doc d))).2 =
      [.deliver s.ctxs.length vb d (Obs.mkOffset o d.seq) (Obs.collName s.cfg.obs d.coll) (d.cas / 1000000000)] ∧
    (step s (.ev vb (.doc d))).1.ctxs = s.ctxs ++ [⟨s.sess, vb, Obs.mkOffset o d.seq⟩] := by
  exact step_ev_doc_user s vb o d le hm ho hf

/-- … and acknowledging it raises the flag -/
theorem ack_raises_flag (s : St) (i : Nat) (p : Pending) (hc : s.ctxs[i]? = some p) (hs : p.sess = s.sess) :
    (step s (.ack i)).1.anyDirty = true := by
  simp [step, hc, hs]

/-- … after which a save does call the store (and the loop of `closed_loop_quiesces` is left) -/
theorem dirty_save_calls_store (s : St) (res : StoreRes) (hd : s.anyDirty = true) (hl : s.lockHeld = false)
    (hro : s.cfg.readOnly = false) :
    Obsv.saveCall (dumpState s) (curDirty s) ∈ (step s (.save res)).2 := by
  simp only [step]
  rw [saveAll_eq]
  simp only [hl, hd, hro, Bool.false_eq_true, if_false, Bool.not_true]
  split <;> simp


/-! ## example: one turn of the closed loop -/

/-- vBuckets 0 and 1 assigned, checkpoints at 5 and 7, opened; flag down, no saver -/
def exOpen : St :=
  (openSession { cfg := { lo := 0, hi := 1 }, store := [(0, ⟨11, 5, 5, 5⟩), (1, ⟨12, 7, 7, 7⟩)],
                 high := [(0, 20), (1, 20)], flog := [(0, 11), (1, 12)] }).1

/-- a checkpoint write of the library comes back as a mutation: key `_connector:cbgo:a` (hex) -/
def fedBack (seq : Nat) : DocEv := ⟨.mu, seq, 0, "5f636f6e6e6563746f723a6362676f3a61", 0, ""⟩

theorem fedBack_reserved (seq : Nat) : isMetaKey (fedBack seq).key = true := by
  show isMetaKey "5f636f6e6e6563746f723a6362676f3a61" = true
  exact isMetaKey_eq_true (by decide)

/-- the loop: marker, fed-back write, save attempt, fed-back write, flag test, save attempt -/
def exLoop : List Op :=
  [.ev 0 (.marker 6 10), .ev 0 (.doc (fedBack 6)), .save .ok, .ev 0 (.doc (fedBack 7)), .svBegin 1, .save .ok]

theorem exLoop_loopOps : ∀ op ∈ exLoop, loopOp op = true := by
  intro op h
  simp only [exLoop, List.mem_cons, List.not_mem_nil, or_false] at h
  rcases h with rfl | rfl | rfl | rfl | rfl | rfl <;> first | rfl | exact fedBack_reserved _

/-- the hypotheses of `closed_loop_quiesces` are satisfiable, and its conclusion for this loop -/
example : (run exOpen exLoop).store = exOpen.store ∧ (run exOpen exLoop).anyDirty = false :=
  let h := closed_loop_quiesces exOpen exLoop (by decide) (by decide) exLoop_loopOps
  ⟨h.1, h.2.1⟩

/-- the first fed-back write is absorbed and advances vBucket 0 from 5 to 6, silently -/
example : posSeq (step (step exOpen (.ev 0 (.marker 6 10))).1 (.ev 0 (.doc (fedBack 6)))).1 0 = 6 :=
  closed_loop_still_advances _ 0 { snap := some (6, 10), uuid := 11, latest := maxU64 } (fedBack 6)
    (.doc (fedBack 6) ⟨11, 6, 6, 10, maxU64⟩ "_default" 0) (fedBack_reserved 6) (by decide) (by decide) (by decide)
    (by decide)

/-- whereas an acknowledged user event raises the flag, and the next save calls the store -/
example :
    let s := (step { exOpen with ctxs := [⟨1, 0, ⟨11, 6, 6, 10, maxU64⟩⟩] } (.ack 0)).1
    s.anyDirty = true ∧ s.lockHeld = false ∧ s.cfg.readOnly = false := by decide

end GoDcp.C14Loop
