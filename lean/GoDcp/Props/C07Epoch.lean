import GoDcp.Props.C07
/-!
# C07 — which cluster config the rollback mitigation works with

`isNewer` mirrors `isConfigSnapshotNewerThan` on the (revEpoch, revID) pairs `getRevEpochAndID` reads.
"Every copy listed in the cluster map" of C07 means the map of the NEWEST config: a config of a newer revision
epoch is newer whatever its rev (a quorum-loss fail-over starts a new epoch and restarts the rev counter).
-/
namespace GoDcp.MinSeqNo
open GoDcp.Spec.C07

/-- the relation is the strict lexicographic order on (revEpoch, rev) -/
theorem isNewer_iff (o n : Nat × Nat) : isNewer o n = true ↔ o.1 < n.1 ∨ (o.1 = n.1 ∧ o.2 < n.2) := by
  unfold isNewer
  by_cases h1 : n.1 < o.1
  · simp [h1]; omega
  · by_cases h2 : n.1 = o.1
    · by_cases h3 : n.2 = o.2
      · simp [h2, h3]
      · by_cases h4 : n.2 < o.2
        · simp [h2, h3, h4]; omega
        · simp [h2, h3, h4]; omega
    · have : (n.1 == o.1) = false := by simpa using h2
      simp [h1, this]; omega

theorem isNewer_irrefl (p : Nat × Nat) : isNewer p p = false := by
  cases h : isNewer p p with
  | false => rfl
  | true => have := (isNewer_iff p p).mp h; omega

theorem isNewer_trans (a b c : Nat × Nat) (h1 : isNewer a b = true) (h2 : isNewer b c = true) : isNewer a c = true := by
  rw [isNewer_iff] at *
  omega

theorem isNewer_asymm (a b : Nat × Nat) (h : isNewer a b = true) : isNewer b a = false := by
  cases h' : isNewer b a with
  | false => rfl
  | true => have := (isNewer_iff a b).mp h; have := (isNewer_iff b a).mp h'; omega

/-- strict TOTAL order: of two different revisions exactly one is newer -/
theorem isNewer_trichotomous (a b : Nat × Nat) : isNewer a b = true ∨ a = b ∨ isNewer b a = true := by
  rw [isNewer_iff, isNewer_iff]
  have : a = b ↔ a.1 = b.1 ∧ a.2 = b.2 := by
    constructor
    · intro h; subst h; exact ⟨rfl, rfl⟩
    · intro ⟨h1, h2⟩; exact Prod.ext h1 h2
  rw [this]
  omega

/-- **newer_epoch_wins**: a config of a higher revision epoch is newer whatever its rev (also a smaller or equal one) -/
theorem newer_epoch_wins (oe or ne nr : Nat) (h : oe < ne) : isNewer (oe, or) (ne, nr) = true :=
  (isNewer_iff _ _).mpr (Or.inl h)

/-- … and one of a lower epoch is older whatever its rev (also a larger one) -/
theorem older_epoch_loses (oe or ne nr : Nat) (h : ne < oe) : isNewer (oe, or) (ne, nr) = false := by
  cases h' : isNewer (oe, or) (ne, nr) with
  | false => rfl
  | true => have := (isNewer_iff _ _).mp h'; simp at this; omega

/-- within one epoch the rev decides -/
theorem same_epoch_rev (e or nr : Nat) : isNewer (e, or) (e, nr) = true ↔ or < nr := by
  rw [isNewer_iff]; simp

example : isNewer (1, 3100) (2, 12) = true := by decide      -- the revision pair of seeded change C07-c2
example : isNewer (2, 100) (3, 100) = true ∧ isNewer (2, 100) (2, 101) = true ∧ isNewer (2, 100) (1, 900) = false ∧
    isNewer (2, 100) (2, 100) = false ∧ isNewer (2, 100) (2, 99) = false := by decide

/-! ## an adopted config rebuilds the table from the NEW row -/

theorem markAbsent_get (ab : List Nat) (t : Table) (j : Nat) :
    (markAbsent t ab)[j]? = (t[j]?).map fun e => if j ∈ ab then { e with absent := true } else e := by
  induction ab generalizing t with
  | nil => simp [markAbsent]
  | cons i rest ih =>
    have hstep : markAbsent t (i :: rest) =
        markAbsent (match t[i]? with | some e => t.set i { e with absent := true } | none => t) rest := rfl
    rw [hstep, ih]
    cases hti : t[i]? with
    | none =>
      simp only
      by_cases hij : j = i
      · subst hij; simp [hti]
      · cases htj : t[j]? with
        | none => rfl
        | some e => simp [hij]
    | some e0 =>
      simp only
      by_cases hij : j = i
      · subst hij
        have hlt : j < t.length := by
          cases hlt : decide (j < t.length) with
          | true => exact of_decide_eq_true hlt
          | false =>
            have : ¬ j < t.length := of_decide_eq_false hlt
            rw [List.getElem?_eq_none (by simpa using this)] at hti
            cases hti
        rw [List.getElem?_set_self hlt, hti]
        by_cases hr : j ∈ rest <;> simp [hr]
      · rw [List.getElem?_set_ne (Ne.symm hij)]
        cases htj : t[j]? with
        | none => rfl
        | some e => simp [hij]

/-- the table `reconfigure` builds for the row `ab`: entry `j` exists iff `j ≤ numReplicas`, is zero, and is absent
    exactly when the NEW row does not list it -/
theorem reconfigure_entry (r : Rm) (n : Nat) (ab : List Nat) (j : Nat) :
    (r.reconfigure n ab).table[j]? = if j ≤ n then some ⟨0, 0, decide (j ∈ ab)⟩ else none := by
  show (markAbsent (resetTable n) ab)[j]? = _
  rw [markAbsent_get]
  unfold resetTable
  rw [List.getElem?_replicate]
  by_cases h : j ≤ n
  · have : j < n + 1 := by omega
    by_cases hm : j ∈ ab <;> simp [this, h, hm]
  · have : ¬ j < n + 1 := by omega
    simp [this, h]

/-- a report of another index leaves entry `j` alone -/
theorem report_other (t : Table) (i u s j : Nat) (h : i ≠ j) : ((report t i u s).1 : Table)[j]? = t[j]? := by
  unfold report
  cases t[i]? with
  | none => rfl
  | some e =>
    simp only
    split
    · rw [List.getElem?_set_ne h]
    · rfl

/-- what the poll rounds after a (re)start do to the table, index by index -/
def tabRun (t : Table) (rs : List (Nat × Nat × Nat)) : Table := rs.foldl (fun t p => (report t p.1 p.2.1 p.2.2).1) t

theorem tabRun_other (rs : List (Nat × Nat × Nat)) (t : Table) (j : Nat) (h : ∀ p ∈ rs, p.1 ≠ j) :
    (tabRun t rs)[j]? = t[j]? := by
  induction rs generalizing t with
  | nil => rfl
  | cons p ps ih =>
    show (tabRun (report t p.1 p.2.1 p.2.2).1 ps)[j]? = _
    rw [ih _ (fun q hq => h q (List.mem_cons_of_mem _ hq)), report_other _ _ _ _ _ (h p (List.mem_cons_self ..))]

/-- **config_adopted_rebuilds_table**: whenever `configWatch` adopts a config (in particular every config of a higher
    revision epoch, `newer_epoch_wins`) for a running instance, the per-copy state is rebuilt from the NEW row `ab`:
    generation + 1, every entry zero, absent exactly the indices the new row does not list; and as long as some copy `j`
    that the new row lists has not reported, whatever the others report (`rs`), `getMinSeqNo` is 0 – nothing is released
    on the word of the copies of the old layout. -/
theorem config_adopted_rebuilds_table (s : RmSim) (p : Nat × Nat) (ab order : List Nat)
    (hc : s.rm.closed = false) (hacc : s.started = false ∨ isNewer s.use p = true) :
    let s' := ({ s with absentIdx := ab, pub := p, use := p, rm := s.rm.reconfigure s.numReplicas ab, started := true } : RmSim)
    s.publish p ab order (isNewer s.use p) = s'.reports order ∧
    s'.rm.gid = s.rm.gid + 1 ∧
    (∀ j, s'.rm.table[j]? = if j ≤ s.numReplicas then some ⟨0, 0, decide (j ∈ ab)⟩ else none) ∧
    ∀ j, j ≤ s.numReplicas → j ∉ ab → ∀ rs : List (Nat × Nat × Nat), (∀ q ∈ rs, q.1 ≠ j) →
      getMinSeqNo (tabRun s'.rm.table rs) = 0 := by
  intro s'
  refine ⟨?_, rfl, fun j => reconfigure_entry s.rm s.numReplicas ab j, ?_⟩
  · unfold RmSim.publish
    rw [hc]
    rcases hacc with h | h <;> simp [h, s']
  · intro j hj hjab rs hrs
    have hentry : (tabRun s'.rm.table rs)[j]? = some ⟨0, 0, false⟩ := by
      rw [tabRun_other rs _ j hrs]
      show (s.rm.reconfigure s.numReplicas ab).table[j]? = _
      rw [reconfigure_entry, if_pos hj]
      simp [hjab]
    exact min_zero_unreported _ _ (List.mem_of_getElem? hentry) rfl rfl

/-- **config_ignored_keeps_layout**: a config that is not newer (older epoch whatever its rev; same epoch and a rev that
    is not larger) changes nothing: same generation, same table, no dispatch -/
theorem config_ignored_keeps_layout (s : RmSim) (e r : Nat) (ab order : List Nat) (hs : s.started = true)
    (hn : isNewer s.use (e, r) = false) :
    (s.step (.config e r ab order)).1.rm = s.rm ∧ (s.step (.config e r ab order)).2 = [] ∧
    (s.step (.config e r ab order)).1.use = s.use := by
  simp only [RmSim.step, RmSim.publish, hn, hs, Bool.and_false]
  by_cases hc : s.rm.closed = true <;> simp [hc]

/-- every `config` step of a higher epoch is adopted by a running instance, whatever the rev -/
theorem config_new_epoch_adopted (s : RmSim) (e r : Nat) (ab order : List Nat) (hc : s.rm.closed = false)
    (hst : s.stale = false) (he : s.use.1 < e) :
    (s.step (.config e r ab order)).1.use = (e, r) ∧
    (s.step (.config e r ab order)).1.rm.gid = s.rm.gid + 1 := by
  have hn : isNewer s.use (e, r) = true := (isNewer_iff _ _).mpr (Or.inl he)
  have hgid : ∀ (order : List Nat) (acc : RmSim × List (Table × Nat)),
      (order.foldl (fun (acc : RmSim × List (Table × Nat)) i =>
        let (u, q) := acc.1.truth.getD i (0, 0)
        match acc.1.rm.callback acc.1.rm.gid i (.inr (u, q)) with
        | (rm', .dispatch m) => ({ acc.1 with rm := rm' }, acc.2 ++ [(rm'.table, m)])
        | (rm', _) => ({ acc.1 with rm := rm' }, acc.2)) acc).1.use = acc.1.use ∧
      (order.foldl (fun (acc : RmSim × List (Table × Nat)) i =>
        let (u, q) := acc.1.truth.getD i (0, 0)
        match acc.1.rm.callback acc.1.rm.gid i (.inr (u, q)) with
        | (rm', .dispatch m) => ({ acc.1 with rm := rm' }, acc.2 ++ [(rm'.table, m)])
        | (rm', _) => ({ acc.1 with rm := rm' }, acc.2)) acc).1.rm.gid = acc.1.rm.gid := by
    intro order
    induction order with
    | nil => intro acc; exact ⟨rfl, rfl⟩
    | cons i rest ih =>
      intro acc
      simp only [List.foldl_cons]
      have hcb : ∀ (rm : Rm) (g i : Nat) (ans : ObsErr ⊕ (Nat × Nat)), (rm.callback g i ans).1.gid = rm.gid := by
        intro rm g i ans
        unfold Rm.callback
        split
        · rfl
        · split <;> try rfl
          rename_i u q
          cases report rm.table i u q with
          | mk t' d => cases d <;> rfl
      have hstep := hcb acc.1.rm acc.1.rm.gid i (.inr ((acc.1.truth.getD i (0, 0)).1, (acc.1.truth.getD i (0, 0)).2))
      cases hcall : acc.1.rm.callback acc.1.rm.gid i (.inr ((acc.1.truth.getD i (0, 0)).1, (acc.1.truth.getD i (0, 0)).2)) with
      | mk rm' out =>
        rw [hcall] at hstep
        cases out with
        | dispatch m => simp only; rw [(ih _).1, (ih _).2]; exact ⟨rfl, hstep⟩
        | ignored => simp only; rw [(ih _).1, (ih _).2]; exact ⟨rfl, hstep⟩
        | failstop => simp only; rw [(ih _).1, (ih _).2]; exact ⟨rfl, hstep⟩
  simp only [RmSim.step, RmSim.publish, hc, hst, hn, Bool.not_false, Bool.true_and, Bool.or_true, if_true,
    Bool.false_eq_true, if_false, RmSim.reports]
  exact ⟨(hgid order _).1, (hgid order _).2⟩

/-- **rmCheckL_model**: the model's own dispatches pass the extended monitor as well -/
theorem rmCheckL_model (s : RmSim) (steps : List RmStep) : rmCheckL s steps (RmSim.observe s steps) = none := by
  unfold rmCheckL
  rw [rmCheck_model]

/-- the scenario of seeded change C07-c2 (non-vacuity): row [active, unlisted] in revision (2,100); the cluster publishes
    (3,12) – new epoch, smaller rev – with the replica listed.  The model adopts it: 0, 0, then 0 while the replica has
    not caught up and 120 = the minimum once it reports; an instance that keeps the old layout dispatches 150, which the
    new layout does not cover and the old one does: `C07.stale-copy-layout`. -/
example :
    let s0 : RmSim := { truth := [(5, 100), (5, 0)], numReplicas := 1, absentIdx := [1] }
    let steps := [RmStep.start [0], .config 3 12 [] [0, 1], .change 0 5 150, .change 1 5 120]
    RmSim.observe s0 steps = [.many [100], .many [0, 0], .one 0, .one 120] ∧
    rmCheckL s0 steps [.many [100], .many [], .one 150, .nothing] = some "C07.stale-copy-layout" ∧
    rmCheckL s0 steps [.many [100], .many [0, 0], .one 0, .one 120] = none := by
  decide

end GoDcp.MinSeqNo
