import GoDcp.Proofs.LifeLemmas
/-!
# C12 — stream ends are recovered, counted and terminate the client correctly
(run level; `listenEnd`, `reopenStream`, `wait` of `stream/stream.go` in the macro-step model
`Model/Life.lean`, scheduler assumption `WaitPrompt`)

The "finally ended" set is a ghost computed from the run (`endedRun`): the vBuckets of the non-transient
`endEv` ops that were processed on an open observer since the last (re)open. The server hypothesis "each
assigned vBucket stream ends for good at most once per session, and only assigned streams end"
(`EndsOnce`) is a predicate on the start state and the op list.

Since the model keeps the record `endedVbs` in the stream object (a finally ended stream does not answer a later
`CloseStream` with an `End`), the ghost is related to the real field: under `EndsOnce` they are equal
(`endedVbs_eq_endedRun`), `EndsOnce` implies the step-wise hypothesis `EndsOk` of `Proofs/LifeLemmas.lean`
(`endsOk_from_open`), and the exact count `Exact` holds along the run (`exact_from_open`, `session_count_exact`,
`window_active_zero_run`). Without `EndsOnce` the count is only bounded (`PhA.activeLe`, `window_active_nonpos`;
witness `window_count_negative_without_EndsOnce`).

The real F9a (a `reopenStream` retry loop that spans a rebalance `Close`) is NOT in this model: a macro
step re-opens at once. What the model does contain is the decision of `openStream`: a transient end for a
vBucket without an entry in the offsets map gives up (`reopen_missing_offset_failstop`), which inside a
session can only happen for a vBucket outside the session's range.
-/
namespace GoDcp.Life
open GoDcp

/-! ## the ghost: vBuckets that ended for good in the current session -/

def endedStep (s : LSt) (e : List Nat) (op : LOp) : List Nat :=
  if LObs.cb .ASS ∈ (step s op).2 then [] else
  match op with
  | .endEv vb _ => if countsEnd s op then e ++ [vb] else e
  | _ => e

def endedRun (s : LSt) (e : List Nat) : List LOp → List Nat
  | [] => e
  | op :: r => endedRun (step s op).1 (endedStep s e op) r

theorem endedStep_length (s : LSt) (e : List Nat) (op : LOp) (h : LObs.cb .ASS ∉ (step s op).2) :
    ((endedStep s e op).length : Int) = e.length + dOf s op := by
  unfold endedStep dOf
  rw [if_neg h]
  cases op <;> simp [countsEnd]
  split <;> simp

/-- the count invariant -/
def ActiveEq (s : LSt) (e : List Nat) : Prop :=
  s.dead = false → s.isOpen = true → s.active = ((vbs s.lo s.hi).length : Int) - e.length

theorem activeEq_step {s : LSt} {e : List Nat} (op : LOp) (h : Inv s) (hopen : OpenOk s op) (g : ActiveEq s e) :
    ActiveEq (step s op).1 (endedStep s e op) := by
  intro hd ho
  rcases step_track op h hopen hd ho with ⟨hass, ha, _⟩ | ⟨hass, hd0, ho0, hlo, hhi, hact, _⟩
  · simp [endedStep, hass, ha]
  · rw [endedStep_length s e op hass, hact, hlo, hhi, g hd0 ho0]
    omega

/-- **C12 `active_eq`.** For every run from an invariant state: whenever the stream is open (phase A) the
    active-stream count equals the number of vBuckets of the session minus the number of final
    (non-transient) ends processed on an open observer since the last (re)open. -/
theorem active_eq {s : LSt} {e : List Nat} {ops : List LOp} (h : Inv s) (hok : OpsOk s ops) (g : ActiveEq s e) :
    ActiveEq (run s ops) (endedRun s e ops) := by
  induction ops generalizing s e with
  | nil => exact g
  | cons op r ih =>
    rw [run_cons]
    exact ih (step_good op h hok.1).inv hok.2 (activeEq_step op h hok.1 g)

/-- the same from a state before `Open`: `Open`, then any op list -/
theorem active_eq_from_open {s0 : LSt} (hd : s0.dead = false) (ok : TimersOk s0) (hpre : PhPre s0)
    (ops : List LOp) (hno : NoOpen ops) :
    let s := run s0 (LOp.open :: ops)
    s.dead = false → s.isOpen = true →
      s.active = ((vbs s.lo s.hi).length : Int) - (endedRun s0 [] (LOp.open :: ops)).length :=
  active_eq (.pre hd ok hpre) (OpsOk_open hpre.everOpened hno)
    (fun _ ho => by rw [hpre.isOpen] at ho; cases ho)

/-! ## the server hypothesis and the counting lemmas -/

/-- **server hypothesis**: at every point of the run the finally ended vBuckets of the current session are
    distinct and belong to the session's range -/
def EndsOnce (s : LSt) (ops : List LOp) : Prop :=
  ∀ n, (endedRun s [] (ops.take n)).Nodup ∧
    ∀ vb ∈ endedRun s [] (ops.take n), vb ∈ vbs (run s (ops.take n)).lo (run s (ops.take n)).hi

/-- under the server hypothesis the active count is the number of assigned vBuckets not yet finally ended -/
theorem active_counts_unfinished {s : LSt} {e : List Nat} (g : ActiveEq s e) (hd : s.dead = false)
    (ho : s.isOpen = true) (hn : e.Nodup) (hsub : ∀ vb ∈ e, vb ∈ vbs s.lo s.hi) :
    s.active = (((vbs s.lo s.hi).filter fun vb => !e.contains vb).length : Int) := by
  have hv : (vbs s.lo s.hi).Nodup := vbs_nodup _ _
  have := filter_notin_length e _ hn hsub hv
  rw [g hd ho]
  omega

/-- **C12 `active_eq`, second half.** `Open`, then any op list: under the server hypothesis `EndsOnce`, whenever
    the stream is open the active-stream count equals the number of assigned vBuckets not yet finally ended. -/
theorem active_eq_unfinished {s0 : LSt} (hd : s0.dead = false) (ok : TimersOk s0) (hpre : PhPre s0)
    (ops : List LOp) (hno : NoOpen ops) (hsrv : EndsOnce s0 (LOp.open :: ops)) :
    let s := run s0 (LOp.open :: ops)
    s.dead = false → s.isOpen = true →
      s.active = (((vbs s.lo s.hi).filter fun vb => !(endedRun s0 [] (LOp.open :: ops)).contains vb).length : Int) := by
  intro s hds hos
  have g : ActiveEq s (endedRun s0 [] (LOp.open :: ops)) :=
    active_eq (.pre hd ok hpre) (OpsOk_open hpre.everOpened hno) (fun _ ho => by rw [hpre.isOpen] at ho; cases ho)
  have h := hsrv (LOp.open :: ops).length
  rw [List.take_length] at h
  exact active_counts_unfinished g hds hos h.1 h.2

/-- non-vacuity of the server hypothesis -/
example : EndsOnce ({ memLo := 0, memHi := 2 } : LSt) [.open, .endEv 1 .final, .endEv 1 .transient, .endEv 0 .clean] := by
  intro n
  rcases n with _|_|_|_|n
  · decide
  · decide
  · decide
  · decide
  · have : ([LOp.open, .endEv 1 .final, .endEv 1 .transient, .endEv 0 .clean] : List LOp).take (n + 4)
        = [.open, .endEv 1 .final, .endEv 1 .transient, .endEv 0 .clean] := by simp [List.take]
    rw [this]; decide

/-! ## `stops_iff_all_final` -/

/-- **C12 `stops_iff_all_final`** (step form). For every op other than a shutdown, from every live state of
    the invariant: `stopCh` is closed by the step iff the step processes a final (non-transient) end on
    the open stream that brings the active count from 1 to 0. In particular never by a transient end,
    never by a notification or a timer, never while balancing (there `closedObs = true`). -/
theorem stop_iff_last_final_end {s : LSt} (op : LOp) (h : Inv s) (hns : ∀ c, op ≠ .shutdown c) :
    LObs.stop ∈ (step s op).2 ↔ (countsEnd s op = true ∧ s.active = 1) := by
  constructor
  · intro hx
    rcases step_alpha s op _ hx with ⟨vb, c, rfl, hc⟩ | ⟨c, rfl⟩
    · have hd : s.dead = false := by
        cases hd : s.dead with
        | false => rfl
        | true => rw [dead_step s _ hd] at hx; simp at hx
      have hig : ignored s (.endEv vb c) = false := by
        cases hi : ignored s (.endEv vb c) with
        | false => rfl
        | true => rw [step_eq, hd, hi] at hx; simp at hx
      have hst : s.stopClosed = false := ignored_false_stop hig (by simp)
      have hA : PhA s := by
        cases h with
        | dead hx' => rw [hd] at hx'; cases hx'
        | pre _ _ h => rw [h.closedObs] at hc; cases hc
        | B _ _ h => rw [h.1.closedObs] at hc; cases hc
        | C _ _ h => rw [h.closedObs] at hc; cases hc
        | A _ _ h => exact h
      rw [step_of_live hd hig] at hx
      rcases List.mem_append.1 hx with hx | hx
      · have hx' : LObs.stop ∈ (listenEnd s vb c).2 := hx
        by_cases hct : c = .transient
        · subst hct
          rw [listenEnd_transient_A vb hA] at hx'
          split at hx' <;> simp at hx'
        · rw [listenEnd_final_A vb hA hct] at hx'
          refine ⟨by simp [countsEnd, hct, hc, hst, hd], ?_⟩
          split at hx'
          · omega
          · simp at hx'
      · exact absurd (fireDue_alpha _ _ _ _ hx) (by simp [RebAlpha])
    · exact absurd rfl (hns c)
  · rintro ⟨hc, hact⟩
    cases op with
    | endEv vb c =>
      simp only [countsEnd, Bool.and_eq_true, bne_iff_ne, ne_eq, Bool.not_eq_true'] at hc
      obtain ⟨⟨⟨hct, hclosed⟩, hst⟩, hd⟩ := hc
      have hig : ignored s (.endEv vb c) = false := by simp [ignored, hst]
      have hA : PhA s := by
        cases h with
        | dead hx' => rw [hd] at hx'; cases hx'
        | pre _ _ h => rw [h.closedObs] at hclosed; cases hclosed
        | B _ _ h => rw [h.1.closedObs] at hclosed; cases hclosed
        | C _ _ h => rw [h.closedObs] at hclosed; cases hclosed
        | A _ _ h => exact h
      rw [step_of_live hd hig]
      refine List.mem_append_left _ ?_
      show LObs.stop ∈ (listenEnd s vb c).2
      rw [listenEnd_final_A vb hA hct, if_pos (by omega), hst]
      simp
    | _ => simp [countsEnd] at hc

/-- **C12 `stops_iff_all_final`** (session form). Under the server hypothesis for the current session
    (`e` = the finally ended vBuckets so far: distinct, assigned; `vb` assigned, not yet ended): a final
    end of `vb` closes `stopCh` iff with it EVERY assigned vBucket has finally ended – never earlier. -/
theorem stops_iff_all_final {s : LSt} {e : List Nat} (vb : Nat) (c : EndCause) (h : Inv s) (g : ActiveEq s e)
    (hd : s.dead = false) (ho : s.isOpen = true) (hst : s.stopClosed = false) (hc : c ≠ .transient)
    (hn : e.Nodup) (hsub : ∀ v ∈ e, v ∈ vbs s.lo s.hi) (hvb : vb ∈ vbs s.lo s.hi) (hnew : vb ∉ e) :
    LObs.stop ∈ (step s (.endEv vb c)).2 ↔ ∀ v ∈ vbs s.lo s.hi, v ∈ e ++ [vb] := by
  have hA := h.phA hd ho
  rw [stop_iff_last_final_end _ h (by simp)]
  have hcount : countsEnd s (.endEv vb c) = true := by simp [countsEnd, hc, hA.closedObs, hst, hd]
  have hv : (vbs s.lo s.hi).Nodup := vbs_nodup _ _
  have hn' : (e ++ [vb]).Nodup := by
    rw [List.nodup_append]
    exact ⟨hn, by simp, by intro a ha b hb; simp at hb; subst hb; intro e'; subst e'; exact hnew ha⟩
  have hsub' : ∀ v ∈ e ++ [vb], v ∈ vbs s.lo s.hi := by
    intro v hv'
    rcases List.mem_append.1 hv' with h1 | h1
    · exact hsub v h1
    · simp at h1; subst h1; exact hvb
  have hlen := filter_notin_length (e ++ [vb]) _ hn' hsub' hv
  have hact := g hd ho
  simp only [hcount, true_and]
  constructor
  · intro h1 v hvv
    have hz : ((vbs s.lo s.hi).filter fun x => !(e ++ [vb]).contains x).length = 0 := by
      simp only [List.length_append, List.length_cons, List.length_nil] at hlen
      omega
    have hnil := List.length_eq_zero_iff.1 hz
    have := List.filter_eq_nil_iff.1 hnil v hvv
    by_cases hm : v ∈ e ++ [vb]
    · exact hm
    · exact absurd (by simpa using hm) this
  · intro hall
    have hz : ((vbs s.lo s.hi).filter fun x => !(e ++ [vb]).contains x) = [] := by
      apply List.filter_eq_nil_iff.2
      intro v hvv
      have hm := hall v hvv
      simp only [Bool.not_eq_true', Bool.not_eq_false, List.contains_iff_mem]
      exact hm
    rw [hz] at hlen
    simp only [List.length_append, List.length_cons, List.length_nil] at hlen
    omega

/-! ## transient ends -/

/-- an entry in the offsets map exists exactly for the vBuckets of the session -/
theorem pos_get?_isSome_iff {s : LSt} (hA : PhA s) (vb : Nat) :
    (∃ q, s.pos.get? vb = some q) ↔ (s.lo ≤ vb ∧ vb ≤ s.hi) := by
  rw [← mem_vbs, ← hA.keys, ← AMap.get?_isSome_iff_mem_keys]
  cases s.pos.get? vb <;> simp

/-- **C12 `transient_reopens_from_settled`** (step form): while streaming, a transient end of an assigned
    vBucket re-requests it from the position the stream object holds at that moment, and changes nothing
    else (the count stays) -/
theorem transient_reopens_from_position_A {s : LSt} (vb : Nat) (hA : PhA s) (hin : s.lo ≤ vb ∧ vb ≤ s.hi) :
    ∃ q, s.pos.get? vb = some q ∧ stepCore s (.endEv vb .transient) = (s, [.openreq vb q]) := by
  obtain ⟨q, hq⟩ := (pos_get?_isSome_iff hA vb).2 hin
  refine ⟨q, hq, ?_⟩
  show listenEnd s vb .transient = _
  rw [listenEnd_transient_A vb hA, hq]

/-- **C12 `reopen_missing_offset_failstop`** (the F9a decision in the model): while streaming, a transient
    end for a vBucket WITHOUT an entry in the offsets map makes `reopenStream` give up – a fail-stop. Under
    the invariant this happens exactly for a vBucket outside the range of the current session. -/
theorem reopen_missing_offset_failstop {s : LSt} (vb : Nat) (hA : PhA s) (hd : s.dead = false)
    (hst : s.stopClosed = false) (hout : ¬ (s.lo ≤ vb ∧ vb ≤ s.hi)) :
    step s (.endEv vb .transient) = ({ s with dead := true }, [.failstop "reopen-gave-up"]) := by
  have hq : s.pos.get? vb = none := by
    cases h : s.pos.get? vb with
    | none => rfl
    | some q => exact absurd ((pos_get?_isSome_iff hA vb).1 ⟨q, h⟩) hout
  have hig : ignored s (.endEv vb .transient) = false := by simp [ignored, hst]
  have hcore : stepCore s (.endEv vb .transient) = ({ s with dead := true }, [.failstop "reopen-gave-up"]) := by
    show listenEnd s vb .transient = _
    rw [listenEnd_transient_A vb hA, hq]
  rw [step_of_live hd hig, hcore, fireDue_of_dead _ _ _ rfl]
  simp

/-- the seq of a delivery is the successor of the position held before: positions only move forward -/
theorem delivered_seq_succ {s : LSt} (hA : PhA s) {vb q : Nat} (hq : s.nextSeq.get? vb = some q) :
    ∃ p, s.pos.get? vb = some p ∧ q = p + 1 := by
  have hn := hA.next vb
  rw [hq] at hn
  cases hp : s.pos.get? vb with
  | none => rw [hp] at hn; cases hn
  | some p => rw [hp] at hn; simp at hn; exact ⟨p, rfl, hn⟩

/-! ### the position equals the last request / delivery observed for the vBucket -/

/-- scan for the seq of the last `openreq` / `deliver` of `vb`, starting from `acc` -/
def lastSeqFrom (vb : Nat) (acc : Option Nat) : List LObs → Option Nat
  | [] => acc
  | .openreq v q :: r => lastSeqFrom vb (if v = vb then some q else acc) r
  | .deliver v q :: r => lastSeqFrom vb (if v = vb then some q else acc) r
  | _ :: r => lastSeqFrom vb acc r

/-- the seq of the last open request or delivery observed for `vb` -/
def lastSeq (vb : Nat) (l : List LObs) : Option Nat := lastSeqFrom vb none l

theorem lastSeqFrom_append (vb : Nat) (acc : Option Nat) (a b : List LObs) :
    lastSeqFrom vb acc (a ++ b) = lastSeqFrom vb (lastSeqFrom vb acc a) b := by
  induction a generalizing acc with
  | nil => rfl
  | cons x r ih => cases x <;> simp [lastSeqFrom, ih]

theorem lastSeqFrom_quiet (vb : Nat) (acc : Option Nat) {l : List LObs} (h : Quiet l) : lastSeqFrom vb acc l = acc := by
  induction l generalizing acc with
  | nil => rfl
  | cons x r ih =>
    have hr : Quiet r := fun y hy => h y (List.mem_cons_of_mem _ hy)
    have hx := h x List.mem_cons_self
    cases x with
    | openreq v q => exact absurd rfl (hx v q).1
    | deliver v q => exact absurd rfl (hx v q).2
    | _ => simp [lastSeqFrom, ih _ hr]

theorem lastSeqFrom_openreqs (vb : Nat) (acc : Option Nat) (m : AMap Nat) (hn : (AMap.keys m).Nodup) :
    lastSeqFrom vb acc (m.map fun (v, q) => LObs.openreq v q) = (m.get? vb).or acc := by
  induction m generalizing acc with
  | nil => simp [lastSeqFrom]
  | cons hd t ih =>
    obtain ⟨k, v⟩ := hd
    simp only [AMap.keys, List.map_cons, List.nodup_cons] at hn
    simp only [List.map_cons, lastSeqFrom, AMap.get?_cons]
    rw [ih _ hn.2]
    by_cases hk : k = vb
    · subst hk
      have : AMap.get? t k = none := (AMap.get?_eq_none_iff_not_mem_keys t k).2 hn.1
      simp [this]
    · simp [hk]

/-- history invariant: in a live open state, the position of every vBucket of the session is the seq of the
    last open request or delivery observed for it -/
def HistOk (hist : List LObs) (s : LSt) : Prop :=
  s.dead = false → s.isOpen = true → ∀ vb q, s.pos.get? vb = some q → lastSeq vb hist = some q

theorem wOf_piOf_cases (s : LSt) (op : LOp) :
    (wOf s op = [] ∧ piOf s op = id) ∨
    (∃ v q, wOf s op = [.deliver v q] ∧ piOf s op = fun m => m.set v q) ∨
    (∃ v q, wOf s op = [.openreq v q] ∧ piOf s op = id ∧ s.pos.get? v = some q) := by
  cases op with
  | ev vb =>
    cases he : evOf s (.ev vb) with
    | none => left; simp [wOf, piOf, he]
    | some p =>
      obtain ⟨v, q⟩ := p
      right; left
      exact ⟨v, q, by simp [wOf, he], by simp [piOf, he]⟩
  | endEv vb c =>
    have hp : piOf s (.endEv vb c) = id := rfl
    cases c with
    | transient =>
      by_cases hg : (!s.closedObs && !s.stopClosed && !s.dead) = true
      · cases hq : s.pos.get? vb with
        | none => left; simp [wOf, hg, hq, hp]
        | some q => right; right; exact ⟨vb, q, by simp [wOf, hg, hq], hp, hq⟩
      · left; simp [wOf, hg, hp]
    | _ => left; exact ⟨rfl, hp⟩
  | _ => left; exact ⟨rfl, rfl⟩

theorem histOk_step {s : LSt} {hist : List LObs} (op : LOp) (h : Inv s) (hopen : OpenOk s op) (g : HistOk hist s) :
    HistOk (hist ++ (step s op).2) (step s op).1 := by
  intro hd ho vb q hq
  have hA' : PhA (step s op).1 := (step_good op h hopen).inv.phA hd ho
  have hkeys : (AMap.keys (step s op).1.pos).Nodup := by
    rw [hA'.keys]; exact vbs_nodup _ _
  unfold lastSeq
  rcases step_track op h hopen hd ho with ⟨_, _, o1, tl, ho', htl⟩ | ⟨_, hd0, ho0, _, _, _, hpos, rest, hrest, hqr⟩
  · rw [ho', ← List.append_assoc, ← List.append_assoc, lastSeqFrom_append, lastSeqFrom_quiet vb _ htl,
      lastSeqFrom_append, lastSeqFrom_openreqs vb _ _ hkeys, hq]
    rfl
  · rw [hrest, ← List.append_assoc, lastSeqFrom_append, lastSeqFrom_quiet vb _ hqr, lastSeqFrom_append]
    have g0 := g hd0 ho0
    rcases wOf_piOf_cases s op with ⟨hw, hp⟩ | ⟨v, q', hw, hp⟩ | ⟨v, q', hw, hp, hv⟩
    · rw [hp] at hpos
      rw [hpos] at hq
      rw [hw]
      exact g0 vb q hq
    · rw [hw]
      rw [hp] at hpos
      rw [hpos, AMap.get?_set] at hq
      by_cases e : vb = v
      · subst e; simp at hq; subst hq; simp [lastSeqFrom]
      · simp [e] at hq
        have e' : ¬ v = vb := fun x => e x.symm
        simp [lastSeqFrom, e']
        exact g0 vb q hq
    · rw [hw]
      rw [hp] at hpos
      have hq0 : s.pos.get? vb = some q := by rw [hpos] at hq; exact hq
      by_cases e : vb = v
      · subst e; rw [hv] at hq0; cases hq0; simp [lastSeqFrom]
      · have e' : ¬ v = vb := fun x => e x.symm
        simp [lastSeqFrom, e']
        exact g0 vb q hq0

/-- **C12 `transient_reopens_from_settled`** (run form). For every run from an invariant state: in every
    live open state reached, the stored position of each vBucket of the session is the seq of the last
    open request or delivery (delivered = acknowledged at once in this model) observed for it in the trace
    so far – so the re-request after a transient end (`transient_reopens_from_position_A`) carries the
    last settled seq, or the seq the session was opened with if nothing was delivered since. -/
theorem position_is_last_settled {s : LSt} {hist : List LObs} {ops : List LOp} (h : Inv s) (hok : OpsOk s ops)
    (g : HistOk hist s) : HistOk (hist ++ (runTrace s ops).flatten) (run s ops) := by
  induction ops generalizing s hist with
  | nil => simpa [runTrace_nil, run_nil] using g
  | cons op r ih =>
    rw [run_cons, runTrace_cons, List.flatten_cons, ← List.append_assoc]
    exact ih (step_good op h hok.1).inv hok.2 (histOk_step op h hok.1 g)

theorem transient_reopens_from_settled {s0 : LSt} (hd : s0.dead = false) (ok : TimersOk s0) (hpre : PhPre s0)
    (ops : List LOp) (hno : NoOpen ops) (vb : Nat) :
    let s := run s0 (LOp.open :: ops)
    s.dead = false → s.isOpen = true → s.lo ≤ vb ∧ vb ≤ s.hi →
      ∃ q, lastSeq vb (runTrace s0 (LOp.open :: ops)).flatten = some q ∧
        stepCore s (.endEv vb .transient) = (s, [.openreq vb q]) := by
  intro s hds hos hin
  have hok := OpsOk_open hpre.everOpened hno
  have hinv : Inv s := (run_good (.pre hd ok hpre) hok).inv
  have hA : PhA s := hinv.phA hds hos
  obtain ⟨q, hq, hstep⟩ := transient_reopens_from_position_A vb hA hin
  have hh := position_is_last_settled (hist := []) (.pre hd ok hpre) hok
    (fun _ ho => by rw [hpre.isOpen] at ho; cases ho) hds hos vb q hq
  exact ⟨q, by simpa using hh, hstep⟩

/-! ## the ghost is the record `endedVbs` of the stream object; the exact count under `EndsOnce` -/

/-- the ghost list with its invariants at every prefix, from an arbitrary start value (`EndsOnce` = from `[]`) -/
def GhostOk (s : LSt) (e : List Nat) (ops : List LOp) : Prop :=
  ∀ n, (endedRun s e (ops.take n)).Nodup ∧
    ∀ vb ∈ endedRun s e (ops.take n), vb ∈ vbs (run s (ops.take n)).lo (run s (ops.take n)).hi

theorem GhostOk.head {s : LSt} {e : List Nat} {op : LOp} {r : List LOp} (h : GhostOk s e (op :: r)) :
    (endedStep s e op).Nodup ∧ ∀ vb ∈ endedStep s e op, vb ∈ vbs (step s op).1.lo (step s op).1.hi := h 1

theorem GhostOk.tail {s : LSt} {e : List Nat} {op : LOp} {r : List LOp} (h : GhostOk s e (op :: r)) :
    GhostOk (step s op).1 (endedStep s e op) r := fun n => h (n + 1)

theorem EndsOnce.ghostOk {s : LSt} {ops : List LOp} (h : EndsOnce s ops) : GhostOk s [] ops := h

/-- one step: as long as the ghost stays duplicate-free it equals the record kept by `listenEnd` -/
theorem ended_eq_step {s : LSt} {e : List Nat} (op : LOp) (h : Inv s) (hl : s.endedVbs = e)
    (hn : (endedStep s e op).Nodup) : (step s op).1.endedVbs = endedStep s e op := by
  rcases step_frame op h with ⟨n, _, _, he⟩ | ⟨m, he⟩
  · rw [he]
    unfold endedStep at hn ⊢
    rw [if_neg n] at hn ⊢
    cases op with
    | endEv vb c =>
      simp only [endedOf]
      split
      · rename_i hc
        simp only [hc, if_true] at hn
        have hnew : vb ∉ e := by
          intro hm
          have := (List.nodup_append.1 hn).2.2 vb hm vb (by simp)
          exact this rfl
        rw [hl, endedAdd_of_not_mem hnew]
      · exact hl
    | _ => exact hl
  · rw [he]
    unfold endedStep
    rw [if_pos m]

/-- **the ghost is the real field**: along every run on which the ghost stays duplicate-free (`EndsOnce`), the
    record `endedVbs` of the stream object IS the ghost list `endedRun` -/
theorem ended_eq_run {s : LSt} {e : List Nat} {ops : List LOp} (h : Inv s) (hok : OpsOk s ops) (hl : s.endedVbs = e)
    (hg : GhostOk s e ops) : (run s ops).endedVbs = endedRun s e ops := by
  induction ops generalizing s e with
  | nil => exact hl
  | cons op r ih =>
    rw [run_cons]
    exact ih (step_good op h hok.1).inv hok.2 (ended_eq_step op h hl hg.head.1) hg.tail

/-- `EndsOnce` (ghost form) gives the server hypothesis in the form the count invariant uses -/
theorem endsOk_of_ghost {s : LSt} {e : List Nat} {ops : List LOp} (h : Inv s) (hok : OpsOk s ops)
    (hl : s.endedVbs = e) (hg : GhostOk s e ops) : EndsOk s ops := by
  induction ops generalizing s e with
  | nil => trivial
  | cons op r ih =>
    refine ⟨?_, ih (step_good op h hok.1).inv hok.2 (ended_eq_step op h hl hg.head.1) hg.tail⟩
    rcases step_frame op h with ⟨n, hlo, hhi, _⟩ | ⟨m, _⟩
    · left
      intro vb c hop hc
      subst hop
      obtain ⟨hnd, hsub⟩ := hg.head
      have e1 : endedStep s e (.endEv vb c) = e ++ [vb] := by
        unfold endedStep
        rw [if_neg n]
        simp only [hc, if_true]
      rw [e1] at hnd hsub
      constructor
      · have := hsub vb (by simp)
        rw [hlo, hhi] at this
        exact this
      · rw [hl]
        intro hm
        exact (List.nodup_append.1 hnd).2.2 vb hm vb (by simp) rfl
    · exact Or.inr m

theorem open_step_fresh {s0 : LSt} (hd : s0.dead = false) (ok : TimersOk s0) (hpre : PhPre s0) :
    LObs.cb .ASS ∈ (step s0 .open).2 ∧ (step s0 .open).1.endedVbs = [] ∧ endedStep s0 [] .open = [] := by
  have hass : LObs.cb .ASS ∈ (step s0 .open).2 := by
    have hig : ignored s0 .open = false := by simp [ignored, hpre.stop]
    rw [step_of_live hd hig]
    exact List.mem_append_left _ (by simp [stepCore, doOpen])
  refine ⟨hass, ?_, by simp [endedStep, hass]⟩
  rcases step_frame .open (.pre hd ok hpre) with ⟨n, _⟩ | ⟨_, he⟩
  · exact absurd hass n
  · exact he

/-- `Open`, then any op list, under `EndsOnce`: the record is the ghost -/
theorem endedVbs_eq_endedRun {s0 : LSt} (hd : s0.dead = false) (ok : TimersOk s0) (hpre : PhPre s0)
    (ops : List LOp) (hno : NoOpen ops) (hsrv : EndsOnce s0 (LOp.open :: ops)) :
    (run s0 (LOp.open :: ops)).endedVbs = endedRun s0 [] (LOp.open :: ops) := by
  obtain ⟨_, h1, h2⟩ := open_step_fresh hd ok hpre
  have hok := OpsOk_open hpre.everOpened hno
  have hg := hsrv.ghostOk.tail
  rw [h2] at hg
  rw [run_cons]
  show _ = endedRun (step s0 .open).1 (endedStep s0 [] .open) ops
  rw [h2]
  exact ended_eq_run (step_good .open (.pre hd ok hpre) hok.1).inv hok.2 h1 hg

theorem endsOk_from_open {s0 : LSt} (hd : s0.dead = false) (ok : TimersOk s0) (hpre : PhPre s0)
    (ops : List LOp) (hno : NoOpen ops) (hsrv : EndsOnce s0 (LOp.open :: ops)) : EndsOk s0 (LOp.open :: ops) := by
  obtain ⟨_, h1, h2⟩ := open_step_fresh hd ok hpre
  have hok := OpsOk_open hpre.everOpened hno
  have hg := hsrv.ghostOk.tail
  rw [h2] at hg
  exact ⟨Or.inl (EndFits.of_not_end (by intro vb c h; cases h)),
    endsOk_of_ghost (step_good .open (.pre hd ok hpre) hok.1).inv hok.2 h1 hg⟩

/-- **the exact count along every run that satisfies `EndsOnce`** (`Open`, then any op list) -/
theorem exact_from_open {s0 : LSt} (hd : s0.dead = false) (ok : TimersOk s0) (hpre : PhPre s0)
    (ops : List LOp) (hno : NoOpen ops) (hsrv : EndsOnce s0 (LOp.open :: ops)) : Exact (run s0 (LOp.open :: ops)) :=
  run_exact (.pre hd ok hpre) (OpsOk_open hpre.everOpened hno) hpre.exact (endsOk_from_open hd ok hpre ops hno hsrv)

/-- **C12 `active_eq`, in terms of the stream object alone.** `Open`, then any op list, under `EndsOnce`: whenever the
    stream is open, the record `endedVbs` is the ghost, it is duplicate-free and contains assigned vBuckets only, and
    the active count is `|vbs lo hi| − |endedVbs|` = the number of assigned vBuckets not in `endedVbs`. -/
theorem session_count_exact {s0 : LSt} (hd : s0.dead = false) (ok : TimersOk s0) (hpre : PhPre s0)
    (ops : List LOp) (hno : NoOpen ops) (hsrv : EndsOnce s0 (LOp.open :: ops)) :
    let s := run s0 (LOp.open :: ops)
    s.dead = false → s.isOpen = true →
      s.endedVbs = endedRun s0 [] (LOp.open :: ops) ∧ s.endedVbs.Nodup ∧ (∀ vb ∈ s.endedVbs, vb ∈ vbs s.lo s.hi) ∧
      s.active = ((vbs s.lo s.hi).length : Int) - (s.endedVbs.length : Int) ∧
      s.active = (((vbs s.lo s.hi).filter fun vb => !s.endedVbs.contains vb).length : Int) := by
  intro s hds hos
  have hx : Exact s := exact_from_open hd ok hpre ops hno hsrv
  have hA : PhA s := (run_good (.pre hd ok hpre) (OpsOk_open hpre.everOpened hno)).inv.phA hds hos
  obtain ⟨ha, hsub⟩ := (hx hds).1 hos
  exact ⟨endedVbs_eq_endedRun hd ok hpre ops hno hsrv, hA.endedNodup, hsub, ha, hA.exact_unfinished hx hds⟩

/-- **`window_active_zero`** (run form). `Open`, then any op list, under `EndsOnce`: in every rebalance window reached
    the active count is exactly 0: every stream the server still had has answered the close with its `End`. -/
theorem window_active_zero_run {s0 : LSt} (hd : s0.dead = false) (ok : TimersOk s0) (hpre : PhPre s0)
    (ops : List LOp) (hno : NoOpen ops) (hsrv : EndsOnce s0 (LOp.open :: ops)) :
    let s := run s0 (LOp.open :: ops)
    s.dead = false → s.balancing = true → s.active = 0 := by
  intro s hds hb
  have hx : Exact s := exact_from_open hd ok hpre ops hno hsrv
  have hi : Inv s := (run_good (.pre hd ok hpre) (OpsOk_open hpre.everOpened hno)).inv
  exact window_active_zero (hi.phB hds hb).1 hx hds

/-- **C12 `stops_iff_all_final`** (stream-object form). Under the exact count, a final end of an assigned vBucket
    that has not finally ended closes `stopCh` iff with it EVERY assigned vBucket is in the record `endedVbs`. -/
theorem stops_iff_all_final_exact {s : LSt} (vb : Nat) (c : EndCause) (h : Inv s) (hx : Exact s)
    (hd : s.dead = false) (ho : s.isOpen = true) (hst : s.stopClosed = false) (hc : c ≠ .transient)
    (hvb : vb ∈ vbs s.lo s.hi) (hnew : vb ∉ s.endedVbs) :
    LObs.stop ∈ (step s (.endEv vb c)).2 ↔ ∀ v ∈ vbs s.lo s.hi, v ∈ s.endedVbs ++ [vb] :=
  stops_iff_all_final vb c h (fun hd' ho' => ((hx hd').1 ho').1) hd ho hst hc (h.phA hd ho).endedNodup
    ((hx hd).1 ho).2 hvb hnew

/-- non-vacuity: a final end, then a notification – the window is reached with count 0 (the close request of the
    ended vBucket is answered "no such stream", only the two live streams send an `End`) -/
example :
    let s0 : LSt := { memLo := 0, memHi := 2 }
    let ops : List LOp := [.open, .endEv 1 .final, .notify]
    (run s0 ops).balancing = true ∧ (run s0 ops).dead = false ∧ (run s0 ops).active = 0 ∧
    (run s0 ops).endedVbs = [1] ∧ endedRun s0 [] ops = [1] := by decide

/-- **without `EndsOnce`** the exact count fails: a vBucket whose final end is seen twice is counted twice, the
    window is entered with a negative count (`window_active_nonpos` is all that holds for every run) -/
theorem window_count_negative_without_EndsOnce :
    let s0 : LSt := { memLo := 0, memHi := 2 }
    let ops : List LOp := [.open, .endEv 0 .final, .endEv 0 .final, .notify]
    (run s0 ops).balancing = true ∧ (run s0 ops).dead = false ∧ (run s0 ops).active = -1 ∧
    (run s0 ops).endedVbs = [0] ∧ ¬ EndsOnce s0 ops := by
  refine ⟨by decide, by decide, by decide, by decide, fun h => absurd (h 3).1 (by decide)⟩

/-! ## non-vacuity -/

example :
    let s0 : LSt := { memLo := 3, memHi := 4 }
    let ops : List LOp := [.open, .ev 3, .endEv 3 .transient, .endEv 4 .final, .endEv 3 .clean]
    (runTrace s0 ops).flatten =
      [.cb .BSS, .openreq 3 0, .openreq 4 0, .cb .ASS, .deliver 3 1, .openreq 3 1, .stop] ∧
    endedRun s0 [] ops = [4, 3] ∧ (run s0 ops).active = 0 := by decide

end GoDcp.Life
