import GoDcp.Model.Api
import GoDcp.Model.ApiInfo
import GoDcp.Model.ApiGroup
import GoDcp.Props.C16
import GoDcp.Props.C04
/-!
# C16 through the HTTP API (`api/api.go`)

The endpoint functions of `Model/Api.lean` are defined through the session model's `getOffsets`,
`scrape` and `rebalance`; the statements here say what the endpoints show in terms of the session state
and carry the C16 / C04 theorems over to them. `Model/ApiInfo.lean` is the remembered membership info of
`PUT /membership/info`.

1. `api_offsets_eq_tracked` (+ `api_offsets_eq`, `api_offsets_eq_getOffsets`, `api_offsets_read_only`,
   `api_seq_eq_posSeq`, `api_offsets_running_max`)
2. `api_metrics_eq_scrape` (+ `api_metrics_eq_scrape_op`, `api_metrics_rows`, `api_metrics_lag`,
   `api_metrics_total_lag_is_sum`, `api_metrics_gauges_equal_state`, `api_metrics_closed`,
   `api_metrics_read_only`)
3. `api_rebalance_closed_noop`, `api_rebalance_open_eq_rebalance`, `api_rebalance_closed_same_as_model_op`
4. `api_info_put_publishes_iff`, `api_info_state_after_put`, `api_info_runSt`,
   `api_info_publishes_iff_changed`, `api_info_first_put_publishes`, `api_info_equal_puts_publish_once`,
   `api_info_published_no_repeat`
5. group gauges over the real vBucket discovery (`Model/ApiGroup.lean`): `grp_nvb_const`,
   `grp_scrape_is_last_get` (what a scrape shows = what the last `Open` read), `grp_range_is_chunk`
   (the range shown is always the chunk of the (member, size) shown), `grp_info_keeps_scrape`,
   `grp_reb_counts_rebalances`
   5b. consumer calls in flight: `api_markers_session`, `api_markers_group`, `api_hold_release_insensitive`
   (hold / release markers anywhere in a history change no state and no scrape), `api_held_across_rebalances`
6. non-vacuity examples
-/
namespace GoDcp.C16Api
open GoDcp GoDcp.Api

/-! ## 1. `GET /states/offset` -/

/-- in every state the endpoint shows the tracked position map when the stream is open, and the
    "not open" answer otherwise -/
theorem api_offsets_eq (s : St) : apiOffsets s = if s.isOpen then some s.offsets else none := by
  unfold apiOffsets
  split <;> simp [step, posPart]

/-- … in particular in every reachable state: after ANY op history from ANY start state -/
theorem api_offsets_eq_tracked (s0 : St) (ops : List Op) :
    apiOffsets (run s0 ops) = if (run s0 ops).isOpen then some (run s0 ops).offsets else none :=
  api_offsets_eq _

/-- while open it is the first component of what a direct `GetOffsets()` returns at that moment -/
theorem api_offsets_eq_getOffsets (s : St) (h : s.isOpen = true) :
    (step s .getOffsets).2 = [.pos ((apiOffsets s).getD []) (curDirty s) s.anyDirty] := by
  simp [api_offsets_eq, h, step]

/-- the read changes nothing -/
theorem api_offsets_read_only (s : St) : (step s .getOffsets).1 = s := by simp [step]

/-- the sequence number shown for a vBucket is its tracked position (`posSeq` of C04) -/
theorem api_seq_eq_posSeq (s : St) (h : s.isOpen = true) (vb : Vb) :
    apiSeq (apiOffsets s) vb = posSeq s vb := by
  simp [api_offsets_eq, h, apiSeq, posSeq]

theorem run_isOpen_of_inSession (s : St) (ops : List Op) (h : ∀ op ∈ ops, inSession op = true) :
    (run s ops).isOpen = s.isOpen := by
  induction ops generalizing s with
  | nil => rfl
  | cons op r ih =>
    rw [run_cons, ih _ (fun o ho => h o (List.mem_cons_of_mem _ ho)),
      step_isOpen_of_inSession s (h op List.mem_cons_self)]

/-- C04 carried to the endpoint: after any in-session history on an open stream the endpoint shows, for
    an assigned vBucket, the maximum of the resume position and everything settled on it -/
theorem api_offsets_running_max (s : St) (ops : List Op) (vb : Vb) (hopen : s.isOpen = true)
    (hin : ∀ op ∈ ops, inSession op = true) (hr : inRange s.cfg vb = true) :
    apiSeq (apiOffsets (run s ops)) vb = (C04.settleSeqs s ops vb).foldl max (posSeq s vb) := by
  rw [api_seq_eq_posSeq _ (by rw [run_isOpen_of_inSession s ops hin]; exact hopen)]
  exact C04.position_is_running_max_run s ops vb hin hr

/-! ## 2. `GET <metric path>` -/

/-- the endpoint is the collector: every C16 statement about `scrape` is a statement about it -/
theorem api_metrics_eq_scrape (s : St) : apiMetrics s = scrape s := rfl

theorem api_metrics_eq_scrape_op (s : St) : [apiMetrics s] = (step s .scrape).2 := by simp [step, apiMetrics]

/-- a scrape through the endpoint changes nothing -/
theorem api_metrics_read_only (s : St) : (step s .scrape).1 = s := by simp [step]

/-- a non-empty answer lists exactly the collector rows of the state -/
theorem api_metrics_rows (s : St) (rows : List ScrapeRow) (total : Nat)
    (h : apiMetrics s = .scrape rows total) : rows = scrapeRows s ∧ s.obsNil = false := by
  unfold apiMetrics scrape at h
  split at h
  · cases h
  · rename_i hn
    injection h with h1 h2
    exact ⟨h1.symm, by simpa using hn⟩

/-- lag of every row shown: `max(0, high − seq)` of a tracked position, never a wrapped value -/
theorem api_metrics_lag (s : St) (rows : List ScrapeRow) (total : Nat)
    (h : apiMetrics s = .scrape rows total) (r : ScrapeRow) (hr : r ∈ rows) :
    ∃ o, (r.vb, o) ∈ s.offsets ∧ r.cur = o.seq ∧
      r.lag = (s.high.get? r.vb).getD 0 - o.seq ∧
      (r.lag : Int) = max 0 ((((s.high.get? r.vb).getD 0 : Nat) : Int) - (o.seq : Int)) := by
  obtain ⟨hrows, _⟩ := api_metrics_rows s rows total h
  subst hrows
  obtain ⟨⟨vb, o⟩, hm, rfl⟩ := List.mem_map.1 hr
  exact ⟨o, hm, rfl, lagOf_eq_sub _ _, lagOf_eq_max _ _⟩

/-- total lag shown = sum of the per-vBucket lags shown -/
theorem api_metrics_total_lag_is_sum (s : St) (rows : List ScrapeRow) (total : Nat)
    (h : apiMetrics s = .scrape rows total) : total = (rows.map (·.lag)).sum :=
  total_lag_is_sum s rows total h

/-- every tracked position appears with its gauges -/
theorem api_metrics_gauges_equal_state (s : St) (rows : List ScrapeRow) (total : Nat)
    (h : apiMetrics s = .scrape rows total) (vb : Vb) (o : Offset) (ho : (vb, o) ∈ s.offsets) :
    ∃ r ∈ rows, r.vb = vb ∧ r.cur = o.seq ∧ r.ss = o.ss ∧ r.se = o.se ∧
      r.lag = (s.high.get? vb).getD 0 - o.seq := by
  obtain ⟨hrows, _⟩ := api_metrics_rows s rows total h
  subst hrows
  obtain ⟨r, hr, h1, h2, h3, h4, h5, _⟩ := gauges_equal_state s vb o ho
  exact ⟨r, hr, h1, h2, h3, h4, h5⟩

/-- while the stream is closed the endpoint answers at once with no go-dcp family -/
theorem api_metrics_closed (s : St) (h : s.obsNil = true) : apiMetrics s = .scrapeClosed := by
  simp [apiMetrics, scrape, h]

/-! ## 3. `GET /rebalance` -/

/-- closed stream: skipped, nothing is called, the state (range included) stays -/
theorem api_rebalance_closed_noop (s : St) (lo hi : Vb) (h : s.isOpen = false) :
    apiRebalance s lo hi = (s, none) := by
  simp [apiRebalance, h]

/-- open stream: exactly the direct `stream.Rebalance()` -/
theorem api_rebalance_open_eq_rebalance (s : St) (lo hi : Vb) (h : s.isOpen = true) :
    apiRebalance s lo hi = ((step s (.rebalance lo hi)).1, some (step s (.rebalance lo hi)).2) := by
  simp [apiRebalance, h]

/-- the model op `.rebalance` on a closed stream changes nothing either: a history that records a
    skipped API rebalance as `.rebalance` reaches the same state -/
theorem api_rebalance_closed_same_as_model_op (s : St) (lo hi : Vb) (h : s.isOpen = false) :
    (apiRebalance s lo hi).1 = (step s (.rebalance lo hi)).1 := by
  simp [apiRebalance, h, step, rebalanceSession]

/-! ## 4. `PUT /membership/info` -/

open GoDcp.ApiInfo GoDcp.Membership

theorem api_info_isChanged_iff (r : Info) (cur : ApiInfo.St) : isChanged r cur = true ↔ cur ≠ some r := by
  cases cur with
  | none => simp [isChanged]
  | some o =>
    obtain ⟨a, b⟩ := o
    obtain ⟨c, d⟩ := r
    simp only [isChanged, Bool.or_eq_true, decide_eq_true_eq, ne_eq, Option.some.injEq, Prod.mk.injEq]
    constructor
    · rintro (h | h) ⟨h1, h2⟩
      · exact h h1.symm
      · exact h h2.symm
    · intro h
      by_cases h1 : c = a
      · right; intro h2; exact h ⟨h1.symm, h2.symm⟩
      · left; exact h1

/-- one request publishes exactly when it differs from the remembered info; nil (no request accepted yet)
    differs from everything -/
theorem api_info_put_publishes_iff (cur : ApiInfo.St) (r : Info) : (put cur r).2 = true ↔ cur ≠ some r := by
  unfold put setInfo
  by_cases h : isChanged r cur = true
  · simp [h, (api_info_isChanged_iff r cur).1 h]
  · have h' : ¬ cur ≠ some r := fun hc => h ((api_info_isChanged_iff r cur).2 hc)
    simp [h, h']

/-- after any well-formed request the remembered info is that request -/
theorem api_info_state_after_put (cur : ApiInfo.St) (r : Info) : (put cur r).1 = some r := by
  unfold put setInfo
  by_cases h : isChanged r cur = true
  · simp [h]
  · have h' : ¬ cur ≠ some r := fun hc => h ((api_info_isChanged_iff r cur).2 hc)
    have hc : cur = some r := Classical.byContradiction h'
    rw [if_neg h]
    exact hc

/-- hence the "last accepted info" before a request is simply the previous request (or the start value) -/
theorem api_info_runSt (cur : ApiInfo.St) (reqs : List Info) :
    runSt cur reqs = match reqs.getLast? with | some r => some r | none => cur := by
  induction reqs generalizing cur with
  | nil => rfl
  | cons r rest ih =>
    rw [runSt, ih, api_info_state_after_put]
    cases rest with
    | nil => rfl
    | cons a t =>
      rw [List.getLast?_cons_cons]
      cases hl : (a :: t).getLast? with
      | some x => rfl
      | none => simp at hl

theorem api_info_pubFlags_length (cur : ApiInfo.St) (reqs : List Info) : (pubFlags cur reqs).length = reqs.length := by
  induction reqs generalizing cur with
  | nil => rfl
  | cons r rest ih => simp [pubFlags, ih]

/-- **all histories of PUTs**: the i-th request publishes exactly when it differs from the info remembered
    after the requests before it -/
theorem api_info_publishes_iff_changed (cur : ApiInfo.St) (reqs : List Info) (i : Nat) (h : i < reqs.length) :
    (pubFlags cur reqs)[i]? = some true ↔ runSt cur (reqs.take i) ≠ some reqs[i] := by
  induction reqs generalizing cur i with
  | nil => simp at h
  | cons r rest ih =>
    cases i with
    | zero => simp [pubFlags, runSt, api_info_put_publishes_iff]
    | succ j =>
      simp only [pubFlags, List.getElem?_cons_succ, List.take_succ_cons, runSt, List.getElem_cons_succ]
      exact ih _ j (by simpa using h)

/-- … i.e. (for every request but the first) exactly when it differs from the request before it -/
theorem api_info_publishes_iff_differs_from_previous (cur : ApiInfo.St) (reqs : List Info) (j : Nat)
    (h : j + 1 < reqs.length) :
    (pubFlags cur reqs)[j + 1]? = some true ↔ reqs[j] ≠ reqs[j + 1] := by
  rw [api_info_publishes_iff_changed cur reqs (j + 1) h, api_info_runSt]
  have hj : j < reqs.length := by omega
  have hl : (reqs.take (j + 1)).getLast? = some reqs[j] := by
    rw [List.getLast?_eq_getElem?]
    simp [List.length_take, Nat.min_eq_left (Nat.le_of_lt h)]
  rw [hl]
  simp

/-- the first request to a new API object always publishes (the nil case of `IsChanged`) -/
theorem api_info_first_put_publishes (r : Info) (rest : List Info) :
    (pubFlags none (r :: rest)).head? = some true := by
  simp [pubFlags, (api_info_put_publishes_iff none r).2]

theorem api_info_put_flag (cur : ApiInfo.St) (r : Info) : (put cur r).2 = decide (cur ≠ some r) := by
  have h := api_info_put_publishes_iff cur r
  cases hp : (put cur r).2 with
  | true => simp [h.1 hp]
  | false =>
    have hn : ¬ cur ≠ some r := fun hc => by rw [h.2 hc] at hp; cases hp
    simp [hn]

/-- consecutive equal requests publish once: the first one iff it changes the remembered info, none after -/
theorem api_info_equal_puts_publish_once (cur : ApiInfo.St) (r : Info) (k : Nat) :
    pubFlags cur (List.replicate (k + 1) r) = decide (cur ≠ some r) :: List.replicate k false := by
  have key : ∀ k, pubFlags (some r) (List.replicate k r) = List.replicate k false := by
    intro k
    induction k with
    | zero => rfl
    | succ n ih =>
      rw [List.replicate_succ, pubFlags, api_info_state_after_put, ih, api_info_put_flag, List.replicate_succ]
      simp
  rw [List.replicate_succ, pubFlags, api_info_state_after_put, key, api_info_put_flag]

/-- no two neighbours of a list are equal -/
def AdjDistinct : List Info → Prop
  | a :: b :: t => a ≠ b ∧ AdjDistinct (b :: t)
  | _ => True

/-- what reaches the bus never carries the same info twice in a row, and its first event differs from
    the info remembered at the start -/
theorem api_info_published_no_repeat (cur : ApiInfo.St) (reqs : List Info) :
    AdjDistinct (published cur reqs) ∧ ∀ x, (published cur reqs).head? = some x → cur ≠ some x := by
  induction reqs generalizing cur with
  | nil => simp [published, pubFlags, AdjDistinct]
  | cons r rest ih =>
    obtain ⟨ih1, ih2⟩ := ih (put cur r).1
    have hst := api_info_state_after_put cur r
    by_cases hp : (put cur r).2 = true
    · have hne := (api_info_put_publishes_iff cur r).1 hp
      have e : published cur (r :: rest) = r :: published (put cur r).1 rest := by
        simp [published, pubFlags, hp]
      rw [e]
      refine ⟨?_, by intro x hx; simp at hx; subst hx; exact hne⟩
      cases hq : published (put cur r).1 rest with
      | nil => simp [AdjDistinct]
      | cons a t =>
        rw [hq] at ih1
        refine ⟨?_, ih1⟩
        have := ih2 a (by rw [hq]; rfl)
        rw [hst] at this
        intro heq; exact this (by rw [heq])
    · have hp' : (put cur r).2 = false := by simpa using hp
      have hcur : cur = some r :=
        Classical.byContradiction fun hc => hp ((api_info_put_publishes_iff cur r).2 hc)
      have e : published cur (r :: rest) = published (put cur r).1 rest := by
        simp [published, pubFlags, hp']
      rw [e]
      refine ⟨ih1, ?_⟩
      intro x hx
      have := ih2 x hx
      rw [hst] at this
      rw [hcur]; exact this

/-! ## 5. group gauges (`Model/ApiGroup.lean`) -/

section Group
open GoDcp.ApiGroup

theorem grp_step_nvb (g : GSt) (op : GOp) : (ApiGroup.step g op).nvb = g.nvb := by
  cases op <;> rfl

/-- the vBucket count never changes -/
theorem grp_nvb_const (g : GSt) (ops : List GOp) : (ApiGroup.run g ops).nvb = g.nvb := by
  induction ops generalizing g with
  | nil => rfl
  | cons op r ih => simp only [ApiGroup.run, List.foldl_cons] at ih ⊢; rw [ih, grp_step_nvb]

theorem grp_step_eff (g : GSt) (op : GOp) :
    (ApiGroup.step g op).eff = if isGet op then effOf g.nvb g.memInfo.1 g.memInfo.2 else g.eff := by
  cases op <;> rfl

/-- **every reachable state**: member number, group size and range shown by a scrape are the ones the last
    `Open` (a fresh open or a completed rebalance) read from the membership — not the membership's newest
    info; before any `Open` they are what they were at the start -/
theorem grp_scrape_is_last_get (g : GSt) (ops : List GOp) :
    (ApiGroup.run g ops).eff =
      match lastGet g none ops with
      | some (m, t) => effOf g.nvb m t
      | none => g.eff := by
  -- generalised over the `last` accumulator
  have key : ∀ (ops : List GOp) (g : GSt) (last : Option (Nat × Nat)) (n : Nat) (e0 : Eff), g.nvb = n →
      (g.eff = match last with | some (m, t) => effOf n m t | none => e0) →
      (ApiGroup.run g ops).eff = match lastGet g last ops with | some (m, t) => effOf n m t | none => e0 := by
    intro ops
    induction ops with
    | nil => intro g last n e0 _ h; exact h
    | cons op r ih =>
      intro g last n e0 hn h
      simp only [ApiGroup.run, List.foldl_cons, lastGet]
      apply ih (ApiGroup.step g op) _ n e0 (by rw [grp_step_nvb]; exact hn)
      rw [grp_step_eff]
      by_cases hg : isGet op = true
      · simp [hg, hn]
      · simp only [hg]; exact h
  exact key ops g none g.nvb g.eff rfl rfl

/-- the range recorded together with a (member, size) is the chunk of exactly that pair -/
def GrpConsistent (g : GSt) : Prop :=
  (g.eff.lo, g.eff.hi) = Chunk.memberRange g.nvb g.eff.total g.eff.member

theorem grp_consistent_init (n : Nat) : GrpConsistent { nvb := n } := by
  simp [GrpConsistent, Chunk.memberRange, Chunk.start, Chunk.stop, Chunk.size, Chunk.maxChunk, Chunk.numFull]

theorem grp_step_consistent (g : GSt) (op : GOp) (h : GrpConsistent g) : GrpConsistent (ApiGroup.step g op) := by
  unfold GrpConsistent at *
  rw [grp_step_nvb, grp_step_eff]
  by_cases hg : isGet op = true
  · simp [hg, effOf]
  · simp only [hg]; exact h

/-- **consistency, every reachable state**: a scrape never mixes a newer membership with an older range —
    the range shown is `memberRange nvb total member` of the (member, total) shown -/
theorem grp_range_is_chunk (g : GSt) (ops : List GOp) (h : GrpConsistent g) :
    let sc := scrapeGrp (ApiGroup.run g ops)
    (sc.lo, sc.hi) = Chunk.memberRange sc.vbcount sc.total sc.member := by
  have : GrpConsistent (ApiGroup.run g ops) := by
    induction ops generalizing g with
    | nil => exact h
    | cons op r ih => simp only [ApiGroup.run, List.foldl_cons] at ih ⊢; exact ih _ (grp_step_consistent g op h)
  exact this

/-- a membership event alone changes nothing a scrape shows (the session stays on the old assignment until
    the next `Open`) -/
theorem grp_info_keeps_scrape (g : GSt) (m t : Nat) : scrapeGrp (ApiGroup.step g (.info m t)) = scrapeGrp g := rfl

/-- the rebalance counter counts the completed rebalances of the stream object -/
theorem grp_reb_counts_rebalances (g : GSt) (k : Nat) :
    (ApiGroup.run (ApiGroup.step g .openNew) (List.replicate k .rebalance)).reb = k := by
  have key : ∀ (k : Nat) (g : GSt), (ApiGroup.run g (List.replicate k .rebalance)).reb = g.reb + k := by
    intro k
    induction k with
    | zero => intro g; rfl
    | succ n ih =>
      intro g
      simp only [List.replicate_succ, ApiGroup.run, List.foldl_cons] at ih ⊢
      rw [ih]; simp [ApiGroup.step, ApiGroup.get]; omega
  rw [key]; simp [ApiGroup.step, ApiGroup.get]

/-- the stale window exists: opened as member 1 of 2 over 8 vBuckets, then the membership learns 2/2 —
    the scrape still shows 1/2 with range 0-3; after the rebalance it shows 2/2 with 4-7, one rebalance -/
example :
    let g := ApiGroup.run { nvb := 8, memInfo := (1, 2) } [.openNew, .info 2 2]
    scrapeGrp g = ⟨1, 2, 0, 3, 8, 4, 0⟩ ∧ g.memInfo = (2, 2) ∧
    scrapeGrp (ApiGroup.step g .rebalance) = ⟨2, 2, 4, 7, 8, 4, 1⟩ ∧
    lastGet { nvb := 8, memInfo := (1, 2) } none [.openNew, .info 2 2] = some (1, 2) := by decide

end Group

/-! ## 5b. consumer calls in flight: marker insensitivity -/

section Markers
open GoDcp.ApiGroup

theorem runMarked_eq_strip {σ α : Type} (step : σ → α → σ) (s : σ) (l : List (Marked α)) :
    runMarked step s l = (Marked.strip l).foldl step s := by
  induction l generalizing s with
  | nil => rfl
  | cons m r ih =>
    cases m with
    | op o => simp only [runMarked, List.foldl_cons, stepMarked, Marked.strip] at ih ⊢; exact ih _
    | holdNext => simp only [runMarked, List.foldl_cons, stepMarked, Marked.strip] at ih ⊢; exact ih _
    | release => simp only [runMarked, List.foldl_cons, stepMarked, Marked.strip] at ih ⊢; exact ih _

/-- the session model under a marked history is the session model under the history without the markers -/
theorem api_markers_session (s : St) (l : List (Marked Op)) :
    runMarked (fun s o => (step s o).1) s l = run s (Marked.strip l) := by
  rw [runMarked_eq_strip]; rfl

/-- the same for the group model -/
theorem api_markers_group (g : GSt) (l : List (Marked GOp)) :
    runMarked ApiGroup.step g l = ApiGroup.run g (Marked.strip l) := by
  rw [runMarked_eq_strip]; rfl

/-- **the statement the hold / release tie relies on**: from every state, two histories that differ only in where
    (and whether) `hold-next` / `release` markers stand reach the same state; every endpoint answer and every
    gauge — rows, lags, total lag, offsets, member number, group size, range, active streams and the rebalance
    count — is the same. When a consumer call returns cannot show in any scrape. -/
theorem api_hold_release_insensitive (s : St) (g : GSt) (l l' : List (Marked Op)) (lg lg' : List (Marked GOp))
    (h : Marked.strip l = Marked.strip l') (hg : Marked.strip lg = Marked.strip lg') :
    let t := runMarked (fun s o => (step s o).1) s l
    let t' := runMarked (fun s o => (step s o).1) s l'
    let u := runMarked ApiGroup.step g lg
    let u' := runMarked ApiGroup.step g lg'
    t = t' ∧ apiMetrics t = apiMetrics t' ∧ apiOffsets t = apiOffsets t' ∧ u = u' ∧ scrapeGrp u = scrapeGrp u' := by
  simp only [api_markers_session, api_markers_group, h, hg, and_self]

/-- with `grp_reb_counts_rebalances`: a call held across k completed rebalances changes nothing — the count shown is k -/
theorem api_held_across_rebalances (g : GSt) (k : Nat) :
    (runMarked ApiGroup.step (ApiGroup.step g .openNew)
      (.holdNext :: (List.replicate k (Marked.op GOp.rebalance) ++ [.release]))).reb = k := by
  rw [api_markers_group]
  have hs : ∀ k, Marked.strip (List.replicate k (Marked.op GOp.rebalance) ++ [Marked.release]) = List.replicate k GOp.rebalance := by
    intro k
    induction k with
    | zero => rfl
    | succ n ih => simp only [List.replicate_succ, List.cons_append, Marked.strip, ih]
  simp only [Marked.strip, hs]
  exact grp_reb_counts_rebalances g k

/-- non-vacuity: markers in different places, same scrape (one rebalance after an open as member 1 of 2 over 8) -/
example :
    let g0 : GSt := { nvb := 8, memInfo := (1, 2) }
    scrapeGrp (runMarked ApiGroup.step g0 [.op .openNew, .holdNext, .op (.info 2 2), .op .rebalance, .release]) =
      scrapeGrp (runMarked ApiGroup.step g0 [.op .openNew, .op (.info 2 2), .holdNext, .release, .op .rebalance]) ∧
    (scrapeGrp (runMarked ApiGroup.step g0 [.op .openNew, .holdNext, .op (.info 2 2), .op .rebalance, .release])).reb = 1 := by
  decide

end Markers

/-! ## 6. non-vacuity -/

def exClosed : St := { cfg := { lo := 0, hi := 0 }, isOpen := false, offsets := [(0, ⟨1, 5, 5, 5, 9⟩)] }
def exOpen : St := { cfg := { lo := 0, hi := 0 }, isOpen := true, obsNil := false, high := [(0, 3)],
                     offsets := [(0, ⟨1, 5, 5, 5, 9⟩)] }

/-- a closed state whose offset map is NOT empty (a late acknowledgement on the closed stream object):
    the endpoint says "not open", a direct `GetOffsets()` would show the entry -/
example : apiOffsets exClosed = none ∧ (step exClosed .getOffsets).2 = [.pos [(0, ⟨1, 5, 5, 5, 9⟩)] [] false] :=
  ⟨rfl, rfl⟩

/-- an open state: the endpoint shows the map; a high seqno below the position gives lag 0 through the endpoint -/
example : apiOffsets exOpen = some [(0, ⟨1, 5, 5, 5, 9⟩)] ∧
    apiMetrics exOpen = .scrape [{ vb := 0, cur := 5, ss := 5, se := 5, lag := 0, nmut := 0, ndel := 0, nexp := 0, persist := 0 }] 0 :=
  ⟨rfl, rfl⟩

/-- skipped / performed rebalance: both branches occur; the skipped one keeps the range -/
example : (apiRebalance exClosed 0 1).2.isNone = true ∧ (apiRebalance exClosed 0 1).1.cfg.hi = 0 ∧
    (apiRebalance exOpen 0 1).2.isSome = true ∧ (apiRebalance exOpen 0 1).1.cfg.hi = 1 := by
  decide

/-- the hypotheses of `api_offsets_running_max` are satisfiable -/
example : exOpen.isOpen = true ∧ inRange exOpen.cfg 0 = true ∧ (∀ op ∈ [Op.scrape, Op.getOffsets], inSession op = true) := by
  decide

/-- first PUT publishes, equal PUT is dropped, a change publishes, going back publishes again;
    zero and negative values are ordinary values -/
example : pubFlags none [(1, 2), (1, 2), (2, 2), (1, 2), (0, 0), (0, 0), (-1, 0)] =
    [true, false, true, true, true, false, true] := by decide

example : published none [(1, 2), (1, 2), (2, 2), (2, 2), (1, 2)] = [(1, 2), (2, 2), (1, 2)] := by decide

end GoDcp.C16Api
