import GoDcp.Proofs.WaitRaceGlue
/-!
Theorems about the micro-step model of the stop-token protocol (`Model/WaitRace.lean`).

* `prompt_safe` — for ALL schedules that respect `Prompt`, `EndsDrained` and `StopThenClose`, every reachable state is safe:
  stopCh is closed at most once and only with justification, there is at most one live `wait()` goroutine and it belongs
  to the current session, no token survives into an `Open`, and no send finds its channel full.
* each of the three hypotheses is necessary: `spurious_stop_after_rebalance_refuted`, `double_close_refuted` (without `Prompt`),
  `stale_token_refuted`, `last_end_does_not_stop_refuted` (with `Prompt`, without `EndsDrained`),
  `double_close_after_stop_refuted` (without `StopThenClose`).
* `all_ended_during_reopen_never_stops` — a liveness gap that remains under all three hypotheses.
-/
namespace GoDcp.WaitRace

set_option maxRecDepth 200000

/-! ### the safety statement -/

/-- what `prompt_safe` guarantees of a state -/
structure Safe (s : State) : Prop where
  /-- `close(stopCh)` ran at most once (a second one is the `close of closed channel` panic) -/
  stopOnce : s.stopClosed ≤ 1
  /-- every executed `close(stopCh)` was justified at that moment: a shutdown had been requested, or the closing
      goroutine belonged to the current session, all assigned streams of that session had been counted as ended for
      good (`assigned ≤ finals`) and `balancing` was false (the ghost `spurious` is raised by `wStep` otherwise) -/
  stopJustified : s.spurious = false
  /-- at most one `wait()` goroutine is alive … -/
  oneWait : s.waits.countP (fun w => w.pc != .done) ≤ 1
  /-- … and it was spawned by the current session's `Open` -/
  waitOwn : ∀ w ∈ s.waits, w.pc ≠ .done → w.sess = s.sess
  /-- no `Open` ever found a token in either channel when it reset the flags -/
  noStaleToken : s.staleTok = 0
  /-- ends of an older session never touch the counter of the current one -/
  noForeignEnd : s.foreign = 0
  /-- the counter is exact: assigned minus finally ended streams of the current session -/
  counterExact : s.active = (s.assigned : Int) - (s.finals : Int)
  /-- `Close`'s send finds room -/
  closeSendRoom : ∀ dcp, s.main = .cSend dcp → s.closeCh = 0
  /-- `listenEnd`'s send finds room -/
  endSendRoom : ∀ d ∈ s.ends, d.pc = .atSend → s.endCh = 0

theorem countP_live (l : List Wait) :
    l.countP (fun w => w.pc != .done) = l.countP (fun w => w.pc == .atSelect) + l.countP (fun w => w.pc == .gotTok .close)
      + l.countP (fun w => w.pc == .gotTok .endEv) + l.countP (fun w => w.pc == .atTest) + l.countP (fun w => w.pc == .atStop) := by
  induction l with
  | nil => simp
  | cons a t ih =>
    simp only [List.countP_cons, ih]
    cases hpc : a.pc with
    | gotTok tk => cases tk <;> simp <;> omega
    | _ => simp <;> omega

/-- the invariant implies the safety statement -/
theorem safe_of_inv {s : State} (h : Inv s) : Safe s where
  stopOnce := h.num.stop1
  stopJustified := by have := h.num.nospur; exact toNat_eq_zero.mp this
  oneWait := by
    have := h.num.live1
    rw [countP_live]
    exact this
  waitOwn := h.wsess
  noStaleToken := h.num.nostale
  noForeignEnd := h.num.noforeign
  counterExact := h.num.cnt
  closeSendRoom := by
    intro dcp hm
    have := h.num.regC (by simp [view, hm, MPc.inC])
    have h2 : (view s).closeCh + (view s).wGC + (view s).bC = 0 := this.1
    show (view s).closeCh = 0
    omega
  endSendRoom := by
    intro d hd hpc
    have g : (view s).eSd ≥ 1 := by
      have : 0 < s.ends.countP (fun d => d.pc == .atSend) := List.countP_pos_iff.mpr ⟨d, hd, by simp [hpc]⟩
      exact this
    have h2 : (view s).endCh + (view s).wGE + (view s).eT + (view s).eSd + (view s).bE ≤ 1 := h.num.ec1
    show (view s).endCh = 0
    omega

/-- the initial state satisfies the invariant -/
theorem inv_init : Inv init := by
  refine ⟨?_, ?_, ?_⟩
  · constructor <;> simp [view, init, View.live, View.EC, View.CC, wSel, wGC, wGE, wT, wS, eCl, eDec, eT, eSd, MPc.preSess,
      MPc.isFirstResetClose, MPc.inA, MPc.inC, MPc.isCSend, MPc.inD, MPc.hasObs, MPc.nilObs, MPc.inReb, MPc.inDcp,
      MPc.isIdle, MPc.isOResetClose, MPc.isIdleOrDcpStart]
  · intro w hw; simp [init] at hw
  · intro d hd; simp [init] at hd

/-- the invariant is kept along every schedule whose steps respect the restrictions (disabled actions are skipped) -/
theorem run_inv : ∀ (acts : List Action) (s : State), Inv s → Sched s acts → Inv (run s acts)
  | [], _, h, _ => h
  | a :: as, s, h, hs => by
    obtain ⟨hok, hrest⟩ := hs
    unfold run
    cases hst : step s a with
    | none => simp only [hst, Option.getD] at hrest ⊢; exact run_inv as s h hrest
    | some s' => simp only [hst, Option.getD] at hrest ⊢; exact run_inv as s' (inv_step h hok hst) hrest

/-- **The positive theorem.** For every schedule that respects `Prompt` (no control action while a `wait()` goroutine can
    move), `EndsDrained` (`Close` shuts the END gate only when no delivery is inside `listenEnd`) and `StopThenClose`
    (no `Rebalance()`/timer once stopCh is closed), the reached state is safe. -/
theorem prompt_safe (acts : List Action) (h : Sched init acts) : Safe (run init acts) :=
  safe_of_inv (run_inv acts init inv_init h)

/-- the same from any state that satisfies the invariant (e.g. mid-history) -/
theorem prompt_safe_from (s : State) (hI : Inv s) (acts : List Action) (h : Sched s acts) : Safe (run s acts) :=
  safe_of_inv (run_inv acts s hI h)

/-- the individual conjuncts, for reference -/
theorem stop_at_most_once (acts : List Action) (h : Sched init acts) : (run init acts).stopClosed ≤ 1 :=
  (prompt_safe acts h).stopOnce
theorem stop_only_justified (acts : List Action) (h : Sched init acts) : (run init acts).spurious = false :=
  (prompt_safe acts h).stopJustified
theorem one_wait_per_session (acts : List Action) (h : Sched init acts) :
    (run init acts).waits.countP (fun w => w.pc != .done) ≤ 1
    ∧ ∀ w ∈ (run init acts).waits, w.pc ≠ .done → w.sess = (run init acts).sess :=
  ⟨(prompt_safe acts h).oneWait, (prompt_safe acts h).waitOwn⟩
theorem no_stale_token_at_open (acts : List Action) (h : Sched init acts) : (run init acts).staleTok = 0 :=
  (prompt_safe acts h).noStaleToken
theorem sends_never_block (acts : List Action) (h : Sched init acts) :
    (∀ dcp, (run init acts).main = .cSend dcp → (run init acts).closeCh = 0)
    ∧ ∀ d ∈ (run init acts).ends, d.pc = .atSend → (run init acts).endCh = 0 :=
  ⟨(prompt_safe acts h).closeSendRoom, (prompt_safe acts h).endSendRoom⟩

/-! ### concrete schedules -/

/-- schedules whose every step passes a given test -/
def SchedBy (ok : State → Action → Bool) (s : State) : List Action → Bool
  | [] => true
  | a :: as => ok s a && SchedBy ok ((step s a).getD s) as

theorem sched_iff (s : State) (acts : List Action) : Sched s acts ↔ SchedBy okStep s acts = true := by
  induction acts generalizing s with
  | nil => simp [Sched, SchedBy]
  | cons a as ih => simp [Sched, SchedBy, ih]

def rep (n : Nat) (a : Action) : List Action := List.replicate n a

/-- `Open` of a first session with `n` streams: start + the six micro-steps of `Open` -/
def openSess (n : Nat) : List Action := .start n :: rep 6 .main
/-- a delivery runs from the observer's gate to the end (gate, classify, decrement, flag test, send) -/
def deliver (j : Nat) : List Action := rep 5 (.endStep j)
/-- a wait goroutine receives from `t`, writes its flag, tests `balancing` (and closes stopCh if it may) -/
def waitAll (i : Nat) (t : Tok) : List Action := rep 4 (.wait i t)

/-- `Rebalance()` with a DELAYED wait goroutine: `Close` sends its token, the goroutine receives it and writes its
    flag but does not get to the `balancing` test before the timer has fired and `rebalance()` has finished -/
def lateWaitSched : List Action :=
  openSess 1 ++ [.notify] ++ rep 7 .main        -- balancing=true, Close … token sent
  ++ [.wait 0 .close, .wait 0 .close]           -- wait #0: receive, closeFlag := true  (now at the balancing test)
  ++ [.main]                                    -- timer armed
  ++ [.fireTimer 1] ++ rep 7 .main              -- rebalance(): Open (session 2) … balancing := false
  ++ [.wait 0 .close, .wait 0 .close]           -- wait #0 wakes up: balancing is false → close(stopCh)

/-- (i) without `Prompt` a wait goroutine of the closed session closes stopCh after the rebalance: no shutdown was
    requested, the new session is open and its stream is running. Only `Prompt` is violated by this schedule. -/
theorem spurious_stop_after_rebalance_refuted :
    (run? init lateWaitSched).isSome = true
    ∧ (run init lateWaitSched).stopClosed = 1 ∧ (run init lateWaitSched).spurious = true
    ∧ (run init lateWaitSched).shutdownReq = false ∧ (run init lateWaitSched).isOpen = true
    ∧ (run init lateWaitSched).balancing = false ∧ (run init lateWaitSched).running = 1
    ∧ SchedBy (fun s a => drainedOk s a && stopOk s a) init lateWaitSched = true
    ∧ ¬ Sched init lateWaitSched := by
  refine ⟨by decide, by decide, by decide, by decide, by decide, by decide, by decide, by decide, ?_⟩
  rw [sched_iff]; decide

/-- … and then `dcp.Start` reacts to the closed stopCh with `close()`: the new session's wait goroutine gets the Close
    token, sees `balancing == false` and closes stopCh a second time -/
def doubleCloseSched : List Action :=
  lateWaitSched ++ [.dcpClose false] ++ rep 6 .main ++ waitAll 1 .close

/-- (ii) `close of closed channel`: stopClosed = 2 is reachable (the process dies) -/
theorem double_close_refuted :
    (run? init doubleCloseSched).isSome = true
    ∧ (run init doubleCloseSched).stopClosed = 2 ∧ (run init doubleCloseSched).crashed = true
    ∧ SchedBy (fun s a => drainedOk s a && stopOk s a) init doubleCloseSched = true := by
  refine ⟨by decide, by decide, by decide, by decide⟩

/-- a PROMPT schedule in which one END of the rebalance close is still inside `listenEnd` when `Close` tests
    `streamFinishedWithEndEventCh`: both tokens are produced, the wait goroutine consumes one, the other stays -/
def staleTokenSched : List Action :=
  openSess 1 ++ [.notify] ++ rep 3 .main        -- balancing=true, Close: closeAllStreams → END #0 in flight
  ++ [.endStep 0]                               -- END #0 passes the observer's gate
  ++ rep 3 .main                                -- CloseEnd (NOT drained), open=false, flag test: false → will send
  ++ rep 4 (.endStep 0)                         -- END #0: decrement → 0, closeFlag false, send into endCh
  ++ rep 3 (.wait 0 .endEv)                     -- wait #0 (prompt): receive, endFlag := true, balancing → return
  ++ rep 2 .main                                -- Close sends its token too (nobody is left to take it); timer armed
  ++ [.fireTimer 1, .main]                      -- rebalance(): Open resets the flags with a token in closeCh

/-- (iii) a token stays in a channel across `Open` although every wait goroutine was prompt (`EndsDrained` is violated,
    nothing else) -/
theorem stale_token_refuted :
    (run? init staleTokenSched).isSome = true
    ∧ (run init staleTokenSched).staleTok = 1 ∧ (run init staleTokenSched).closeCh = 1
    ∧ SchedBy (fun s a => promptOk s a && stopOk s a) init staleTokenSched = true
    ∧ ¬ Sched init staleTokenSched := by
  refine ⟨by decide, by decide, by decide, by decide, ?_⟩
  rw [sched_iff]; decide

/-- … the next session's wait goroutine consumes the stale token at once and returns (balancing is still true);
    the session then runs without a wait goroutine and its last stream end produces no stop -/
def lostStopSched : List Action :=
  staleTokenSched ++ rep 4 .main                -- … `go s.wait()` (#1)
  ++ rep 3 (.wait 1 .close)                     -- #1 takes the stale token: closeFlag := true, balancing → return
  ++ rep 2 .main                                -- open = true, balancing = false
  ++ [.srvEnd true] ++ rep 4 (.endStep 1)       -- the only stream ends for good: closeFlag is set → no token

/-- the state is quiescent: nothing but a new notification or a shutdown can happen -/
def quiescent (s : State) : Bool :=
  s.main == .idle && !s.timerPending && s.waits.all (fun w => w.pc == .done) && s.ends.all (fun d => d.pc == .done)
  && s.running == 0

/-- (iv) the last stream end does not stop the client: every assigned stream has ended, nothing is in flight, no wait
    goroutine is left, stopCh is open -/
theorem last_end_does_not_stop_refuted :
    (run? init lostStopSched).isSome = true
    ∧ quiescent (run init lostStopSched) = true
    ∧ (run init lostStopSched).assigned = (run init lostStopSched).finals
    ∧ (run init lostStopSched).stopClosed = 0 ∧ (run init lostStopSched).isOpen = true
    ∧ SchedBy (fun s a => promptOk s a && stopOk s a) init lostStopSched = true := by
  refine ⟨by decide, by decide, by decide, by decide, by decide, by decide⟩

/-- a legitimate stop (all streams ended), then — instead of `dcp.close()` — a membership change with a full rebalance,
    after which the new session's streams end as well -/
def stopThenRebalanceSched : List Action :=
  openSess 1 ++ [.srvEnd true] ++ deliver 0 ++ waitAll 0 .endEv       -- legitimate stop
  ++ [.notify] ++ rep 7 .main ++ [.fireTimer 1] ++ rep 7 .main        -- Rebalance() … rebalance()
  ++ [.srvEnd true] ++ deliver 1 ++ waitAll 1 .endEv                  -- second legitimate-looking stop: panic

/-- without `StopThenClose` stopCh is closed twice although every goroutine was prompt and all ENDs were drained -/
theorem double_close_after_stop_refuted :
    (run? init stopThenRebalanceSched).isSome = true
    ∧ (run init stopThenRebalanceSched).stopClosed = 2
    ∧ SchedBy (fun s a => promptOk s a && drainedOk s a) init stopThenRebalanceSched = true
    ∧ ¬ Sched init stopThenRebalanceSched := by
  refine ⟨by decide, by decide, by decide, ?_⟩
  rw [sched_iff]; decide

/-- all three hypotheses hold, but every stream of the NEW session ends between `openAllStreams` and `go s.wait()`
    of the reopening `Open`: the token waits in the channel, the fresh goroutine takes it while `balancing` is still
    true and returns without closing stopCh -/
def endsDuringReopenSched : List Action :=
  openSess 1 ++ [.notify] ++ rep 3 .main        -- Close: closeAllStreams → END #0
  ++ deliver 0 ++ rep 3 (.wait 0 .endEv)        -- END #0 completes (token), wait #0 consumes it and returns
  ++ rep 4 .main                                -- CloseEnd (drained), open=false, endFlag set → no send, timer armed
  ++ [.fireTimer 1] ++ rep 4 .main              -- rebalance(): Open … openAllStreams
  ++ [.srvEnd true] ++ deliver 1                -- the new session's only stream ends: token into endCh
  ++ [.main]                                    -- go s.wait()  (#1)
  ++ rep 3 (.wait 1 .endEv)                     -- #1: receive, endFlag := true, balancing is true → return
  ++ rep 2 .main                                -- open = true; balancing = false

/-- a liveness gap that survives `Prompt ∧ EndsDrained ∧ StopThenClose`: all assigned streams have ended for good,
    the client is quiescent and stopCh stays open -/
theorem all_ended_during_reopen_never_stops :
    (run? init endsDuringReopenSched).isSome = true
    ∧ Sched init endsDuringReopenSched
    ∧ quiescent (run init endsDuringReopenSched) = true
    ∧ (run init endsDuringReopenSched).assigned = (run init endsDuringReopenSched).finals
    ∧ (run init endsDuringReopenSched).balancing = false
    ∧ (run init endsDuringReopenSched).stopClosed = 0 := by
  refine ⟨by decide, ?_, by decide, by decide, by decide, by decide⟩
  rw [sched_iff]; decide

/-! ### non-vacuity: the hypotheses of `prompt_safe` are met by real histories -/

/-- two sessions with a prompt, drained rebalance in between, then all streams end and the client stops, then
    `dcp.close()` -/
def goodSched : List Action :=
  openSess 2 ++ [.srvEnd false, .endStep 0, .endStep 0]       -- a transient end is re-requested
  ++ [.notify] ++ rep 3 .main ++ rep 3 (.endStep 1) ++ deliver 2 ++ rep 3 (.wait 0 .endEv) ++ rep 4 .main
  ++ [.notify]                                                -- debounced
  ++ [.fireTimer 2] ++ rep 7 .main
  ++ [.srvEnd true, .srvEnd true] ++ rep 3 (.endStep 3) ++ deliver 4 ++ waitAll 1 .endEv
  ++ [.dcpClose false] ++ rep 5 .main

example : Sched init goodSched ∧ (run? init goodSched).isSome = true
    ∧ (run init goodSched).stopClosed = 1 ∧ (run init goodSched).sess = 2 ∧ (run init goodSched).dcpStarted = true := by
  refine ⟨?_, by decide, by decide, by decide, by decide⟩
  rw [sched_iff]; decide

/-- the rebalance close in which `Close` itself provides the token (no END gets through the gate in time) -/
def goodSchedClose : List Action :=
  openSess 1 ++ [.notify] ++ rep 7 .main ++ rep 3 (.wait 0 .close) ++ [.endStep 0] ++ [.main]
  ++ [.shutdown]

example : Sched init goodSchedClose ∧ (run? init goodSchedClose).isSome = true
    ∧ (run init goodSchedClose).timerPending = true ∧ (run init goodSchedClose).stopClosed = 0 := by
  refine ⟨?_, by decide, by decide, by decide⟩
  rw [sched_iff]; decide

end GoDcp.WaitRace
