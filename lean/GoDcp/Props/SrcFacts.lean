import GoDcp.Driver.SrcFacts
import GoDcp.Proofs.SessionLemmas
/-!
# Source facts: the table of `Driver/SrcFacts.lean` tied to the model definitions

`Driver/SrcFacts.lean` answers every `src-fact` line of the harness stream `srcfacts`
with the value the models use.  Three kinds of statements tie those answers to the
models the property theorems are about:

* **A. guards** – every `guarded` table value comes with a Bool computed from the
  model (closed probes of the behaviour the value stands for); all of them are true
  (`by decide`), so no answer is `model-disagrees` for the models as they are;
* **B. for-all statements** (`rfl` / case analysis) that generalise the probes the
  model-rendered answers are read off: the `dirty` literal of every call site of
  `setOffset`, the range test and the regression guard, the wire arguments of the two
  stream requests and the scan of the failover log, the gate / catch-up treatment of
  every observer callback, event time, `SetPersistSeqNo`;
* **C. table constants** against the definitions that exist in a model (`helpers.Name`
  inside `Keys.keyPrefix`, the hex constants of `Model/Session` against `Model/Keys`,
  the three version constants, `maxRetries`).
-/
namespace GoDcp.SrcFacts
open GoDcp

/-! ## A. every guard holds for the models as they are -/

theorem guards_session :
    gListenCases = true ∧ gForwardTail = true ∧ gRangeTest = true ∧ gSetOffsetOrder = true ∧
    gDirtyMark = true ∧ gUnmark = true ∧ gSaveOrder = true ∧ gLatestCond = true ∧ gLatestBranch = true ∧
    gStoredBranch = true ∧ gDispatchPersist = true := by decide

theorem guards_observer :
    gCheckPersist = true ∧ gNeedCatchup = true ∧ gSetCatchup = true ∧ gCanForward = true ∧
    gSetPersist = true ∧ gSkipWindow = true ∧ gInSnapshot = true ∧ gObsClose = true ∧ gObsEnd = true ∧
    gCbMarker = true ∧ gCbSeqAdv = true ∧ gCbOso = true := by decide

theorem guards_observer_doc : ∀ k, gCbDoc k = true := by intro k; cases k <;> decide

theorem guards_observer_sys : ∀ k, gCbSys k = true := by intro k; cases k <;> decide

theorem guards_rollback :
    gFirstCallback = true ∧ gRollbackCallback = true ∧ gRollbackDispatch = true := by decide

theorem guards_life :
    gOpenOrder = true ∧ gWait = true ∧ gCloseOrder = true ∧ gRebalanceCall = true ∧ gRebalanceFire = true ∧
    gReopenGuard = true ∧ gEndBranches = true ∧ gReopenLoop = true ∧ gOpenByVb = true ∧ gDcpClose = true := by decide

theorem guards_misc :
    gHealthRound = true ∧ gHealthStart = true ∧ gHealthStop = true ∧ gHealthRun = true ∧
    gMinSeqNo = true ∧ gComparator = true := by decide

/-! ## B. what the probes read off, for all inputs -/

/-- `listen`: `case models.DcpSeqNoAdvanced: s.setOffset(v.VbID, v.Offset, true)` -/
theorem listen_seqAdv (s : St) (vb : Vb) (off : Offset) :
    listen s vb (.seqAdv off) = setOffset s vb off true := rfl

/-- `listen`: the six system events: `s.setOffset(v.VbID, v.Offset, true)` -/
theorem listen_sys (s : St) (vb : Vb) (k : SysKind) (off : Offset) :
    listen s vb (.sys k off) = setOffset s vb off true := rfl

/-- `listen`: `default:` (snapshot markers, OSO snapshots) -/
theorem listen_default (s : St) (vb : Vb) : listen s vb .marker = (s, []) ∧ listen s vb .oso = (s, []) := ⟨rfl, rfl⟩

/-- `waitAndForward`: `if helpers.IsMetadata(payload) { s.setOffset(vbID, offset, false); return }` -/
theorem forward_metadata (s : St) (vb : Vb) (d : DocEv) (off : Offset) (c : String) (t : Nat)
    (h : isMetaKey d.key = true) : listen s vb (.doc d off c t) = setOffset s vb off false := by
  simp [listen, h]

/-- `waitAndForward`: every other document event goes to the consumer; the position is untouched -/
theorem forward_user (s : St) (vb : Vb) (d : DocEv) (off : Offset) (c : String) (t : Nat)
    (h : isMetaKey d.key = false) :
    listen s vb (.doc d off c t) =
      ({ s with ctxs := s.ctxs ++ [⟨s.sess, vb, off⟩] }, [.deliver s.ctxs.length vb d off c t]) := by
  simp [listen, h]

/-- the `Ack` closure: `s.setOffset(vbID, offset, true); s.anyDirtyOffset = true` -/
theorem ack_body (s : St) (p : Pending) :
    ack s p = ({ (setOffset s p.vb p.off true).1 with anyDirty := true }, (setOffset s p.vb p.off true).2) := rfl

/-- `setOffset` never touches the flag: only the `Ack` closure raises it (the root of finding F1) -/
theorem setOffset_flag (s : St) (vb : Vb) (o : Offset) (d : Bool) : (setOffset s vb o d).1.anyDirty = s.anyDirty := by
  unfold setOffset
  split
  · split
    · split
      · rfl
      · cases d <;> simp
    · cases d <;> simp
  · rfl

/-- `if s.vbIDRange.In(vbID) { … } else { warn }` -/
theorem setOffset_out_of_range (s : St) (vb : Vb) (o : Offset) (d : Bool) (h : inRange s.cfg vb = false) :
    setOffset s vb o d = (s, []) := by
  simp [setOffset, h]

/-- `if current, ok := s.offsets.Load(vbID); ok && current.SeqNo > offset.SeqNo { return }` -/
theorem setOffset_regression (s : St) (vb : Vb) (o cur : Offset) (d : Bool) (hc : s.offsets.get? vb = some cur)
    (h : cur.seq > o.seq) : setOffset s vb o d = (s, []) := by
  unfold setOffset
  split
  · simp [hc, h]
  · rfl

/-- the guard is strict: an equal sequence number is stored and tracked again -/
theorem setOffset_accepts (s : St) (vb : Vb) (o cur : Offset) (d : Bool) (hr : inRange s.cfg vb = true)
    (hc : s.offsets.get? vb = some cur) (h : cur.seq ≤ o.seq) :
    (setOffset s vb o d).2 = [.track vb o] ∧ (setOffset s vb o d).1.offsets.get? vb = some o := by
  have hn : ¬ cur.seq > o.seq := by omega
  unfold setOffset
  simp only [hr, if_true, hc, hn, if_false]
  cases d <;> simp [AMap.get?_set_same]

/-- first `dcpAgent.OpenStream(vbID, 0x80, offset.VbUUID, SeqNo, LatestSeqNo, StartSeqNo, EndSeqNo, …)` -/
theorem firstReq_args (o : Rollback.Offset) :
    Rollback.firstReq o = ⟨0x80, o.uuid, o.seq, o.latest, o.snapStart, o.snapEnd⟩ := rfl

/-- second `dcpAgent.OpenStream(vbID, 0, targetUUID, rollbackSeqNo, latestSeqNo, rollbackSeqNo, rollbackSeqNo, …)` -/
theorem rollbackReq_args (log : Rollback.Log) (R latest : Nat) :
    Rollback.rollbackReq log R latest = ⟨0, Rollback.branchFor log R, R, latest, R, R⟩ := rfl

/-- `for i := len(failOverLogs) - 1; i >= 0; i-- { log := failOverLogs[i]; if rollbackSeqNo >= log.SeqNo { targetUUID = log.VbUUID } }`
    with `var targetUUID gocbcore.VbUUID = 0` -/
theorem failover_scan (log : Rollback.Log) (R : Nat) :
    Rollback.branchFor log R = Rollback.branchLoop R log.reverse 0 ∧
    (∀ u s rest t, Rollback.branchLoop R ((u, s) :: rest) t = Rollback.branchLoop R rest (if R ≥ s then u else t)) ∧
    (∀ t, Rollback.branchLoop R [] t = t) := ⟨rfl, fun _ _ _ _ => rfl, fun _ => rfl⟩

/-- `checkPersistSeqNo`: `gocbcore.SeqNo(seqNo) <= so.persistSeqNo || so.closed` (behind `!RollbackMitigation.Disabled`) -/
theorem gateOpen_eq (c : ObsCfg) (o : Obs) (seq : Nat) :
    Obs.gateOpen c o seq = (!c.rmEnabled || decide (seq ≤ o.persist) || o.closed) := rfl

/-- `SnapshotMarker`: `canForward(event.StartSeqNo, true)` – gated on the START of the range, never through `needCatchup` -/
theorem marker_gate (c : ObsCfg) (o : Obs) (s e : Nat) :
    (Obs.gateOpen c o s = false → Obs.step c o (.marker s e) = (o, .blocked)) ∧
    (Obs.gateOpen c o s = true → Obs.step c o (.marker s e) = ({ o with snap := some (s, e) }, Obs.send { o with snap := some (s, e) } .marker)) ∧
    (Obs.step c o (.marker s e)).1.catchNeed = o.catchNeed := by
  refine ⟨fun h => by simp [Obs.step, h], fun h => by simp [Obs.step, h], ?_⟩
  cases h : Obs.gateOpen c o s <;> simp [Obs.step, h]

/-- `SeqNoAdvanced`: `canForward(advanced.SeqNo, true)` – a control event: the catch-up state is left alone -/
theorem seqAdv_gate (c : ObsCfg) (o : Obs) (q : Nat) :
    (Obs.gateOpen c o q = false → Obs.step c o (.seqAdv q) = (o, .blocked)) ∧
    (Obs.step c o (.seqAdv q)).1.catchNeed = o.catchNeed := by
  refine ⟨fun h => by simp [Obs.step, h], ?_⟩
  cases h : Obs.gateOpen c o q <;> simp [Obs.step, h]

/-- document callbacks: `canForward(event.SeqNo, false)`: gate on the event's seqNo, then `needCatchup` -/
theorem doc_gate (c : ObsCfg) (o : Obs) (d : DocEv) :
    (Obs.gateOpen c o d.seq = false → Obs.step c o (.doc d) = (o, .blocked)) ∧
    (Obs.gateOpen c o d.seq = true → (Obs.needCatchup o d.seq).1 = true →
      Obs.step c o (.doc d) = ((Obs.needCatchup o d.seq).2, .dropCatchup)) := by
  refine ⟨fun h => by simp [Obs.step, h], fun h h2 => by simp [Obs.step, h, h2]⟩

/-- the six system-event callbacks: `canForward(event.SeqNo, false)` -/
theorem sys_gate (c : ObsCfg) (o : Obs) (k : SysKind) (q coll : Nat) :
    (Obs.gateOpen c o q = false → Obs.step c o (.sys k q coll) = (o, .blocked)) ∧
    (Obs.gateOpen c o q = true → (Obs.needCatchup o q).1 = true →
      Obs.step c o (.sys k q coll) = ((Obs.needCatchup o q).2, .dropCatchup)) := by
  refine ⟨fun h => by simp [Obs.step, h], fun h h2 => by simp [Obs.step, h, h2]⟩

/-- `OSOSnapshot` has no gate -/
theorem oso_no_gate (c : ObsCfg) (o : Obs) : Obs.step c o .oso = (o, Obs.send o .oso) := rfl

/-- `eventTime := time.Unix(int64(event.Cas/1000000000), 0)`: whatever a document callback forwards
    carries the event's CAS divided by 10^9 -/
theorem doc_event_time (c : ObsCfg) (o o' : Obs) (d d' : DocEv) (off : Offset) (coll : String) (t : Nat)
    (h : Obs.step c o (.doc d) = (o', .fwd (.doc d' off coll t))) : t = d.cas / 1000000000 ∧ d' = d := by
  unfold Obs.step at h
  dsimp only at h
  split at h
  · simp at h
  · split at h
    · simp at h
    · split at h
      · simp at h
      · split at h
        · simp at h
        · unfold Obs.send at h
          split at h
          · simp at h
          · simp only [Prod.mk.injEq, ObsOut.fwd.injEq, LEvent.doc.injEq] at h
            exact ⟨h.2.2.2.2.symm, h.2.1.symm⟩

/-- `SetPersistSeqNo`: zero is ignored, the value only increases -/
theorem setPersist_spec (o : Obs) (p : Nat) :
    o.setPersist 0 = o ∧ (o.setPersist p).persist = max o.persist p ∧ (p ≠ 0 → p > o.persist → (o.setPersist p).persist = p) := by
  refine ⟨by simp [Obs.setPersist], ?_, ?_⟩
  · unfold Obs.setPersist
    split
    · rename_i h; show p = max o.persist p; omega
    · rename_i h; show o.persist = max o.persist p; omega
  · intro h1 h2; simp [Obs.setPersist, h1, h2]

/-- `needCatchup`, branch by branch -/
theorem needCatchup_spec (o : Obs) (q : Nat) :
    (o.catchNeed = false → Obs.needCatchup o q = (false, o)) ∧
    (o.catchNeed = true → q ≥ o.catchSeq → Obs.needCatchup o q = (q == o.catchSeq, { o with catchNeed := false })) ∧
    (o.catchNeed = true → q < o.catchSeq → Obs.needCatchup o q = (true, o)) := by
  refine ⟨fun h => by simp [Obs.needCatchup, h], fun h h2 => by simp [Obs.needCatchup, h, h2], fun h h2 => ?_⟩
  have : ¬ q ≥ o.catchSeq := by omega
  simp [Obs.needCatchup, h, this]

/-- `wait()`: `if !s.balancing { close(s.stopCh) }` (closing twice would panic: the model closes once) -/
theorem waitFires_eq (s : Life.LSt) :
    Life.waitFires s = if !s.balancing && !s.stopClosed then ({ s with stopClosed := true }, [.stop]) else (s, []) := rfl

/-- `Close`: `s.observers.Range(…)` on a nil map is the first thing after `BeforeStreamStop` that can fail -/
theorem doClose_nil (s : Life.LSt) (c : Bool) (h : s.obsNil = true) : Life.doClose s c = none := by
  simp [Life.doClose, h]

/-- `getMinSeqNo`: the first loop skips absent entries; "all replicas absent" → 0 -/
theorem getMinSeqNo_skip (r : MinSeqNo.Replica) (rs : MinSeqNo.Table) :
    MinSeqNo.getMinSeqNo [] = 0 ∧
    (r.absent = true → MinSeqNo.getMinSeqNo (r :: rs) = MinSeqNo.getMinSeqNo rs) ∧
    (r.absent = false → MinSeqNo.getMinSeqNo (r :: rs) = MinSeqNo.scan r.uuid r.seq rs) := by
  refine ⟨rfl, fun h => by simp [MinSeqNo.getMinSeqNo, h], fun h => by simp [MinSeqNo.getMinSeqNo, h]⟩

/-- `getMinSeqNo`: a present entry with another vbUUID → 0 -/
theorem scan_mismatch (u m : Nat) (r : MinSeqNo.Replica) (rs : MinSeqNo.Table) (ha : r.absent = false) (hu : u ≠ r.uuid) :
    MinSeqNo.scan u m (r :: rs) = 0 := by
  simp [MinSeqNo.scan, ha, hu]

/-- the comparator of `monitor` after commit 23681a3, as the source has it -/
theorem comparator_eq (a b : Membership.Entry) :
    Membership.lessJTId a b = if a.2 ≠ b.2 then decide (a.2 < b.2) else decide (a.1 < b.1) := rfl

/-! ## C. table constants against model definitions -/

/-- `const maxRetries = 5` -/
theorem health_maxRetries : Health.maxRetries = 5 := rfl

/-- five consecutive failures, not four, end the process -/
example : (Health.round [false, false, false, false, false]).res = .panic ∧
    (Health.round [false, false, false, false]).res = .starved := by decide

/-- `Prefix = "_connector:" + Name + ":"` with `Name = "cbgo"` -/
theorem keyPrefix_eq : Keys.keyPrefix = "_connector:".toList ++ connectorName.toList ++ ":".toList := by decide

theorem txnPrefix_eq : Keys.txnPrefix = "_txn:".toList := rfl

def hexDigitOf (n : Nat) : Char := if n < 10 then Char.ofNat (48 + n) else Char.ofNat (87 + n)

/-- lower-case hex of a byte string (one `Char` per byte) -/
def hexOf : List Char → List Char
  | [] => []
  | c :: r => hexDigitOf (c.toNat / 16) :: hexDigitOf (c.toNat % 16) :: hexOf r

/-- the hex-encoded prefixes `Model/Session.lean` filters on are the prefixes of `Model/Keys.lean` -/
theorem session_prefixes_are_keys_prefixes :
    hexOf Keys.keyPrefix = hexPrefix.toList ∧ hexOf Keys.txnPrefix = hexTxn.toList := by decide

/-- `":checkpoint:"`, `_type = "instance"`, `":all"` -/
theorem key_words :
    Keys.checkpointWord = ":checkpoint".toList ∧ Keys.instanceWord = ":instance".toList ∧ Keys.allWord = "all".toList :=
  ⟨rfl, rfl, rfl⟩

theorem key_shapes (g id : Keys.Str) (vb : Nat) :
    Keys.checkpointKey g vb = Keys.keyPrefix ++ g ++ Keys.checkpointWord ++ ':' :: Keys.render vb ∧
    Keys.instanceKey g id = Keys.keyPrefix ++ g ++ Keys.instanceWord ++ ':' :: id ∧
    Keys.indexKey g = Keys.instanceKey g Keys.allWord := ⟨rfl, rfl, rfl⟩

/-- `SrvVer550/650/720` -/
theorem version_constants :
    Version.srvVer550 = ⟨5, 5, 0, 0⟩ ∧ Version.srvVer650 = ⟨6, 5, 0, 0⟩ ∧ Version.srvVer720 = ⟨7, 2, 0, 0⟩ := ⟨rfl, rfl, rfl⟩

/-- the transient set: five distinct names, in the canonical (sorted) order the extractor emits -/
theorem transient_table : transientErrs.length = 5 ∧ transientErrs.Nodup := by decide

/-- the table: one entry per fact the harness emits, names pairwise distinct -/
theorem facts_count : facts.length = 106 := by decide

end GoDcp.SrcFacts
