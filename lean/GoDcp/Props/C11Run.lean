import GoDcp.Proofs.LifeLemmas
import GoDcp.Driver.Life
/-!
# C11 — rebalance converges to the latest assignment, once, without stopping the client
(run level: all op lists, all delays / tick sizes / vBucket ranges; `Model/Life.lean`)

All statements are about the timed macro-step model and therefore carry its scheduler assumption
`WaitPrompt` (the `wait()` goroutine consumes its token and tests `balancing` before the op ends;
see the head of `Model/Life.lean` and DESIGN.md F9b). Nothing below depends on the value 64 of the
`fireDue` fuel: `fireDue_good` and `fireDue_alpha` hold for every fuel.

Reading of "up to the first fail-stop": the monitor accepts the observations of every step of the run
before the first step that fail-stops (`dead` is raised exactly together with a `failstop`
observation, `dead_iff_failstop`). The steps that can fail-stop are listed in `failstop_cases`.
-/
namespace GoDcp.Life
open GoDcp

/-! ## the automaton and its tie to the run-time monitor of the driver -/

/-- the callback automaton of `LifeLemmas` is the transition table `cbNext` the driver runs on the
    REAL callback stream -/
theorem cbStep_eq_cbNext (p : Nat) (c : Cb) : cbStep p c = Driver.cbNext p (Driver.showCb c) := by
  rcases p with _|_|_|_|_|_|_|_|_|_|_|p <;> cases c <;> rfl

/-- the callbacks of an observation list -/
def cbOf : List LObs → List Cb
  | [] => []
  | .cb c :: r => c :: cbOf r
  | _ :: r => cbOf r

/-- run of the callback automaton `BSS ASS (BRS [BSP ASP] ARS BRE BSS ASS ARE)* [BSP ASP]` -/
def cbRun (p : Nat) : List Cb → Option Nat
  | [] => some p
  | c :: r => (cbStep p c).bind fun q => cbRun q r

theorem cbOf_append (a b : List LObs) : cbOf (a ++ b) = cbOf a ++ cbOf b := by
  induction a with
  | nil => rfl
  | cons x r ih => cases x <;> simp [cbOf, ih]

/-- the observation monitor refines the callback automaton -/
theorem cbRun_of_obsRun {p q : Nat} {l : List LObs} (h : obsRun p l = some q) : cbRun p (cbOf l) = some q := by
  induction l generalizing p with
  | nil => simpa [cbOf, cbRun] using h
  | cons x r ih =>
    rw [obsRun_cons] at h
    cases hs : obsStep p x with
    | none => simp [hs] at h
    | some p' =>
      simp [hs] at h
      cases x with
      | cb c =>
        simp only [obsStep] at hs
        simp [cbOf, cbRun, hs, ih h]
      | _ =>
        all_goals
          simp only [obsStep] at hs
          first
            | (split at hs <;> simp at hs; subst hs; simpa [cbOf] using ih h)
            | (simp at hs; subst hs; simpa [cbOf] using ih h)
            | simp at hs

/-! ## `dead` and the `failstop` observation -/

/-- along a run from a live invariant state, the process is gone iff a `failstop` was observed -/
theorem dead_iff_failstop {s : LSt} {ops : List LOp} (h : Inv s) (hd : s.dead = false) (hok : OpsOk s ops) :
    (run s ops).dead = true ↔ ∃ w, LObs.failstop w ∈ (runTrace s ops).flatten := by
  have g := run_good h hok
  constructor
  · intro hx
    rcases g.fs hx with h | h
    · rw [hd] at h; cases h
    · exact h
  · rintro ⟨w, hw⟩
    cases hx : (run s ops).dead with
    | true => rfl
    | false => exact absurd hw (no_failstop_of_obsRun (g.run hx) w)

/-! ## `callbacks_bracketed` and `no_delivery_while_closed` -/

/-- **monitor theorem.** From every invariant state, for every op list (`Open` only on a never-opened
    stream), every delay, tick size and vBucket range: as long as no fail-stop has happened, the
    observation monitor accepts the whole trace and is in the state of the current phase
    (0 before `Open`, 2 streaming, 6 rebalance window, 11 shut down). -/
theorem trace_accepted {s : LSt} {ops : List LOp} (h : Inv s) (hok : OpsOk s ops)
    (halive : (run s ops).dead = false) :
    obsRun (code s) (runTrace s ops).flatten = some (code (run s ops)) :=
  (run_good h hok).run halive

/-- **C11 `callbacks_bracketed`.** Start in any state before `Open` (any configuration, membership and
    stored checkpoints), call `Open`, then run ANY op list without a second `Open`. For every prefix of
    the run that has not fail-stopped, the emitted callbacks are accepted by
    `BSS ASS (BRS [BSP ASP] ARS BRE BSS ASS ARE)* [BSP ASP]` and the automaton is in the state of the
    current phase. -/
theorem callbacks_bracketed {s0 : LSt} (hd : s0.dead = false) (ok : TimersOk s0) (hpre : PhPre s0)
    (ops : List LOp) (hno : NoOpen ops) (n : Nat)
    (halive : (run s0 ((LOp.open :: ops).take n)).dead = false) :
    cbRun 0 (cbOf (runTrace s0 ((LOp.open :: ops).take n)).flatten)
      = some (code (run s0 ((LOp.open :: ops).take n))) := by
  have hok := OpsOk_take (OpsOk_open hpre.everOpened hno) n
  have := trace_accepted (.pre hd ok hpre) hok halive
  rw [hpre.code] at this
  exact cbRun_of_obsRun this

/-- the same for a whole trace that contains no `failstop` observation -/
theorem callbacks_bracketed_whole {s0 : LSt} (hd : s0.dead = false) (ok : TimersOk s0) (hpre : PhPre s0)
    (ops : List LOp) (hno : NoOpen ops)
    (hnf : ∀ w, LObs.failstop w ∉ (runTrace s0 (LOp.open :: ops)).flatten) :
    cbRun 0 (cbOf (runTrace s0 (LOp.open :: ops)).flatten) = some (code (run s0 (LOp.open :: ops))) := by
  have hok := OpsOk_open hpre.everOpened hno
  have halive : (run s0 (LOp.open :: ops)).dead = false := by
    cases hx : (run s0 (LOp.open :: ops)).dead with
    | false => rfl
    | true =>
      obtain ⟨w, hw⟩ := (dead_iff_failstop (.pre hd ok hpre) hd hok).1 hx
      exact absurd hw (hnf w)
  have := trace_accepted (.pre hd ok hpre) hok halive
  rw [hpre.code] at this
  exact cbRun_of_obsRun this

/-- splitting an accepted trace at one observation -/
theorem obsRun_split {p q : Nat} {a b : List LObs} {x : LObs} (h : obsRun p (a ++ x :: b) = some q) :
    ∃ p1 p2, obsRun p a = some p1 ∧ obsStep p1 x = some p2 ∧ obsRun p2 b = some q := by
  rw [obsRun_append] at h
  cases ha : obsRun p a with
  | none => simp [ha] at h
  | some p1 =>
    simp [ha, obsRun_cons] at h
    cases hx : obsStep p1 x with
    | none => simp [hx] at h
    | some p2 => simp [hx] at h; exact ⟨p1, p2, rfl, hx, h⟩

/-- **C11 `no_delivery_while_closed`** (trace form). In a run that has not fail-stopped, whenever a
    `deliver` is observed the monitor is in state 2: the last callback before it is an `ASS` or `ARE`
    with no `BSP` / `BRS` since – the stream is open and streaming. -/
theorem no_delivery_while_closed {s : LSt} {ops : List LOp} (h : Inv s) (hok : OpsOk s ops)
    (halive : (run s ops).dead = false) (pre post : List LObs) (vb q : Nat)
    (hsplit : (runTrace s ops).flatten = pre ++ LObs.deliver vb q :: post) :
    obsRun (code s) pre = some 2 ∧ cbRun (code s) (cbOf pre) = some 2 := by
  have := trace_accepted h hok halive
  rw [hsplit] at this
  obtain ⟨p1, p2, h1, h2, _⟩ := obsRun_split this
  simp only [obsStep] at h2
  split at h2
  · rename_i hp; subst hp; exact ⟨h1, cbRun_of_obsRun h1⟩
  · cases h2

/-- **C11 `no_delivery_while_closed`** (step form, every state): a `deliver` is emitted only by an event
    step on a stream whose observers are open – under the invariant that is phase A. -/
theorem deliver_only_streaming {s : LSt} {op : LOp} {vb q : Nat} (h : Inv s)
    (hx : LObs.deliver vb q ∈ (step s op).2) : op = .ev vb ∧ PhA s ∧ s.dead = false := by
  have ho := step_alpha s op _ hx
  obtain ⟨hop, hc, _⟩ := ho
  refine ⟨hop, ?_⟩
  cases h with
  | dead hd => rw [dead_step s op hd] at hx; simp at hx
  | pre hd _ h => rw [h.closedObs] at hc; cases hc
  | B hd _ h => rw [h.1.closedObs] at hc; cases hc
  | C hd _ h => rw [h.closedObs] at hc; cases hc
  | A hd _ h => exact ⟨h, hd⟩

/-! ## `rebalance_never_stops_client` (under `WaitPrompt`) -/

/-- **C11 `rebalance_never_stops_client`** (origin form, every state). Under the model's `WaitPrompt`
    assumption `stopCh` is closed only in a step that processes a stream end on an open observer
    (`listenEnd`, phase A) or in a shutdown step – never by a notification, never by a timer
    (`Rebalance` / `rebalance` callbacks), i.e. never in the transitions A→B, B→B, B→A. -/
theorem stop_only_by_end_or_shutdown {s : LSt} {op : LOp} (hx : LObs.stop ∈ (step s op).2) :
    (∃ vb c, op = .endEv vb c ∧ s.closedObs = false) ∨ (∃ c, op = .shutdown c) :=
  step_alpha s op _ hx

/-- no step taken in the rebalance window closes `stopCh` (a shutdown there fail-stops: F4) -/
theorem no_stop_in_window {s : LSt} (op : LOp) (hB : PhB s) : LObs.stop ∉ (step s op).2 := by
  intro hx
  rcases stop_only_by_end_or_shutdown hx with ⟨vb, c, _, hc⟩ | ⟨c, rfl⟩
  · rw [hB.1.closedObs] at hc; cases hc
  · rw [step_eq] at hx
    split at hx
    · simp at hx
    · split at hx
      · simp at hx
      · rcases List.mem_append.1 hx with hx | hx
        · rw [stepCore_shutdown] at hx
          obtain ⟨w, hw⟩ := finalSave_out s
          have hn : (finalSave s).1.obsNil = true := by
            unfold finalSave; cases s.auto
            · exact hB.1.obsNil
            · exact (saveStep_fields s).obsNil.trans hB.1.obsNil
          rw [closeOp_nil _ c hn, hw] at hx
          simp at hx
        · exact absurd (fireDue_alpha _ _ _ _ hx) (by simp [RebAlpha])

/-- trace form: in a run that has not fail-stopped a `stop` is observed only while streaming (monitor
    state 2) or inside / after the final `BSP … ASP` (10, 11) – never between `BRS` and `ARE` -/
theorem rebalance_never_stops_client {s : LSt} {ops : List LOp} (h : Inv s) (hok : OpsOk s ops)
    (halive : (run s ops).dead = false) (pre post : List LObs)
    (hsplit : (runTrace s ops).flatten = pre ++ LObs.stop :: post) :
    ∃ p, obsRun (code s) pre = some p ∧ (p = 2 ∨ p = 10 ∨ p = 11) := by
  have := trace_accepted h hok halive
  rw [hsplit] at this
  obtain ⟨p1, p2, h1, h2, _⟩ := obsRun_split this
  simp only [obsStep] at h2
  split at h2
  · rename_i hp; exact ⟨p1, h1, hp⟩
  · cases h2

end GoDcp.Life
