import GoDcp.Proofs.LifeLemmas
import GoDcp.Driver.Life
import GoDcp.Props.C11
/-!
# C11 — rebalance converges to the latest assignment, once, without stopping the client
(run level: all op lists, all delays / tick sizes / vBucket ranges; `Model/Life.lean`)

All statements are about the timed macro-step model and therefore carry its scheduler assumption
`WaitPrompt` (the `wait()` goroutine consumes its token and tests `balancing` before the op ends;
see the head of `Model/Life.lean` and DESIGN.md F9b). Nothing below depends on the value 64 of the
`fireDue` fuel: `fireDue_good` and `fireDue_alpha` hold for every fuel.

Reading of "up to the first fail-stop": the monitor accepts the observations of every step of the run
before the first step that fail-stops (`dead` is raised exactly together with a `failstop`
observation, `dead_iff_failstop`). The steps that can fail-stop are listed in `failstop_cases`.
-/
namespace GoDcp.Life
open GoDcp

/-! ## the automaton and its tie to the run-time monitor of the driver -/

/-- the callback automaton of `LifeLemmas` is the transition table `cbNext` the driver runs on the
    REAL callback stream -/
theorem cbStep_eq_cbNext (p : Nat) (c : Cb) : cbStep p c = Driver.cbNext p (Driver.showCb c) := by
  rcases p with _|_|_|_|_|_|_|_|_|_|_|p <;> cases c <;> rfl

/-- the callbacks of an observation list -/
def cbOf : List LObs → List Cb
  | [] => []
  | .cb c :: r => c :: cbOf r
  | _ :: r => cbOf r

/-- run of the callback automaton `BSS ASS (BRS [BSP ASP] ARS BRE BSS ASS ARE)* [BSP ASP]` -/
def cbRun (p : Nat) : List Cb → Option Nat
  | [] => some p
  | c :: r => (cbStep p c).bind fun q => cbRun q r

theorem cbOf_append (a b : List LObs) : cbOf (a ++ b) = cbOf a ++ cbOf b := by
  induction a with
  | nil => rfl
  | cons x r ih => cases x <;> simp [cbOf, ih]

/-- the observation monitor refines the callback automaton -/
theorem cbRun_of_obsRun {p q : Nat} {l : List LObs} (h : obsRun p l = some q) : cbRun p (cbOf l) = some q := by
  induction l generalizing p with
  | nil => simpa [cbOf, cbRun] using h
  | cons x r ih =>
    rw [obsRun_cons] at h
    cases hs : obsStep p x with
    | none => simp [hs] at h
    | some p' =>
      simp [hs] at h
      cases x with
      | cb c =>
        simp only [obsStep] at hs
        simp [cbOf, cbRun, hs, ih h]
      | _ =>
        all_goals
          simp only [obsStep] at hs
          first
            | (split at hs <;> simp at hs; subst hs; simpa [cbOf] using ih h)
            | (simp at hs; subst hs; simpa [cbOf] using ih h)
            | simp at hs

/-! ## `dead` and the `failstop` observation -/

/-- along a run from a live invariant state, the process is gone iff a `failstop` was observed -/
theorem dead_iff_failstop {s : LSt} {ops : List LOp} (h : Inv s) (hd : s.dead = false) (hok : OpsOk s ops) :
    (run s ops).dead = true ↔ ∃ w, LObs.failstop w ∈ (runTrace s ops).flatten := by
  have g := run_good h hok
  constructor
  · intro hx
    rcases g.fs hx with h | h
    · rw [hd] at h; cases h
    · exact h
  · rintro ⟨w, hw⟩
    cases hx : (run s ops).dead with
    | true => rfl
    | false => exact absurd hw (no_failstop_of_obsRun (g.run hx) w)

/-! ## `callbacks_bracketed` and `no_delivery_while_closed` -/

/-- **monitor theorem.** From every invariant state, for every op list (`Open` only on a never-opened
    stream), every delay, tick size and vBucket range: as long as no fail-stop has happened, the
    observation monitor accepts the whole trace and is in the state of the current phase
    (0 before `Open`, 2 streaming, 6 rebalance window, 11 shut down). -/
theorem trace_accepted {s : LSt} {ops : List LOp} (h : Inv s) (hok : OpsOk s ops)
    (halive : (run s ops).dead = false) :
    obsRun (code s) (runTrace s ops).flatten = some (code (run s ops)) :=
  (run_good h hok).run halive

/-- **C11 `callbacks_bracketed`.** Start in any state before `Open` (any configuration, membership and
    stored checkpoints), call `Open`, then run ANY op list without a second `Open`. For every prefix of
    the run that has not fail-stopped, the emitted callbacks are accepted by
    `BSS ASS (BRS [BSP ASP] ARS BRE BSS ASS ARE)* [BSP ASP]` and the automaton is in the state of the
    current phase. -/
theorem callbacks_bracketed {s0 : LSt} (hd : s0.dead = false) (ok : TimersOk s0) (hpre : PhPre s0)
    (ops : List LOp) (hno : NoOpen ops) (n : Nat)
    (halive : (run s0 ((LOp.open :: ops).take n)).dead = false) :
    cbRun 0 (cbOf (runTrace s0 ((LOp.open :: ops).take n)).flatten)
      = some (code (run s0 ((LOp.open :: ops).take n))) := by
  have hok := OpsOk_take (OpsOk_open hpre.everOpened hno) n
  have := trace_accepted (.pre hd ok hpre) hok halive
  rw [hpre.code] at this
  exact cbRun_of_obsRun this

/-- the same for a whole trace that contains no `failstop` observation -/
theorem callbacks_bracketed_whole {s0 : LSt} (hd : s0.dead = false) (ok : TimersOk s0) (hpre : PhPre s0)
    (ops : List LOp) (hno : NoOpen ops)
    (hnf : ∀ w, LObs.failstop w ∉ (runTrace s0 (LOp.open :: ops)).flatten) :
    cbRun 0 (cbOf (runTrace s0 (LOp.open :: ops)).flatten) = some (code (run s0 (LOp.open :: ops))) := by
  have hok := OpsOk_open hpre.everOpened hno
  have halive : (run s0 (LOp.open :: ops)).dead = false := by
    cases hx : (run s0 (LOp.open :: ops)).dead with
    | false => rfl
    | true =>
      obtain ⟨w, hw⟩ := (dead_iff_failstop (.pre hd ok hpre) hd hok).1 hx
      exact absurd hw (hnf w)
  have := trace_accepted (.pre hd ok hpre) hok halive
  rw [hpre.code] at this
  exact cbRun_of_obsRun this

/-- splitting an accepted trace at one observation -/
theorem obsRun_split {p q : Nat} {a b : List LObs} {x : LObs} (h : obsRun p (a ++ x :: b) = some q) :
    ∃ p1 p2, obsRun p a = some p1 ∧ obsStep p1 x = some p2 ∧ obsRun p2 b = some q := by
  rw [obsRun_append] at h
  cases ha : obsRun p a with
  | none => simp [ha] at h
  | some p1 =>
    simp [ha, obsRun_cons] at h
    cases hx : obsStep p1 x with
    | none => simp [hx] at h
    | some p2 => simp [hx] at h; exact ⟨p1, p2, rfl, hx, h⟩

/-- **C11 `no_delivery_while_closed`** (trace form). In a run that has not fail-stopped, whenever a
    `deliver` is observed the monitor is in state 2: the last callback before it is an `ASS` or `ARE`
    with no `BSP` / `BRS` since – the stream is open and streaming. -/
theorem no_delivery_while_closed {s : LSt} {ops : List LOp} (h : Inv s) (hok : OpsOk s ops)
    (halive : (run s ops).dead = false) (pre post : List LObs) (vb q : Nat)
    (hsplit : (runTrace s ops).flatten = pre ++ LObs.deliver vb q :: post) :
    obsRun (code s) pre = some 2 ∧ cbRun (code s) (cbOf pre) = some 2 := by
  have := trace_accepted h hok halive
  rw [hsplit] at this
  obtain ⟨p1, p2, h1, h2, _⟩ := obsRun_split this
  simp only [obsStep] at h2
  split at h2
  · rename_i hp; subst hp; exact ⟨h1, cbRun_of_obsRun h1⟩
  · cases h2

/-- **C11 `no_delivery_while_closed`** (step form, every state): a `deliver` is emitted only by an event
    step on a stream whose observers are open – under the invariant that is phase A. -/
theorem deliver_only_streaming {s : LSt} {op : LOp} {vb q : Nat} (h : Inv s)
    (hx : LObs.deliver vb q ∈ (step s op).2) : op = .ev vb ∧ PhA s ∧ s.dead = false := by
  have ho := step_alpha s op _ hx
  obtain ⟨hop, hc, _⟩ := ho
  refine ⟨hop, ?_⟩
  cases h with
  | dead hd => rw [dead_step s op hd] at hx; simp at hx
  | pre hd _ h => rw [h.closedObs] at hc; cases hc
  | B hd _ h => rw [h.1.closedObs] at hc; cases hc
  | C hd _ h => rw [h.closedObs] at hc; cases hc
  | A hd _ h => exact ⟨h, hd⟩

/-! ## `rebalance_never_stops_client` (under `WaitPrompt`) -/

/-- **C11 `rebalance_never_stops_client`** (origin form, every state). Under the model's `WaitPrompt`
    assumption `stopCh` is closed only in a step that processes a stream end on an open observer
    (`listenEnd`, phase A) or in a shutdown step – never by a notification, never by a timer
    (`Rebalance` / `rebalance` callbacks), i.e. never in the transitions A→B, B→B, B→A. -/
theorem stop_only_by_end_or_shutdown {s : LSt} {op : LOp} (hx : LObs.stop ∈ (step s op).2) :
    (∃ vb c, op = .endEv vb c ∧ s.closedObs = false) ∨ (∃ c, op = .shutdown c) :=
  step_alpha s op _ hx

/-- no step taken in the rebalance window closes `stopCh` (a shutdown there fail-stops: F4) -/
theorem no_stop_in_window {s : LSt} (op : LOp) (hB : PhB s) : LObs.stop ∉ (step s op).2 := by
  intro hx
  rcases stop_only_by_end_or_shutdown hx with ⟨vb, c, _, hc⟩ | ⟨c, rfl⟩
  · rw [hB.1.closedObs] at hc; cases hc
  · rw [step_eq] at hx
    split at hx
    · simp at hx
    · split at hx
      · simp at hx
      · rcases List.mem_append.1 hx with hx | hx
        · rw [stepCore_shutdown] at hx
          obtain ⟨w, hw⟩ := finalSave_out s
          have hn : (finalSave s).1.obsNil = true := by
            unfold finalSave; cases s.auto
            · exact hB.1.obsNil
            · exact (saveStep_fields s).obsNil.trans hB.1.obsNil
          rw [closeOp_nil _ c hn, hw] at hx
          simp at hx
        · exact absurd (fireDue_alpha _ _ _ _ hx) (by simp [RebAlpha])

/-- trace form: in a run that has not fail-stopped a `stop` is observed only while streaming (monitor
    state 2) or inside / after the final `BSP … ASP` (10, 11) – never between `BRS` and `ARE` -/
theorem rebalance_never_stops_client {s : LSt} {ops : List LOp} (h : Inv s) (hok : OpsOk s ops)
    (halive : (run s ops).dead = false) (pre post : List LObs)
    (hsplit : (runTrace s ops).flatten = pre ++ LObs.stop :: post) :
    ∃ p, obsRun (code s) pre = some p ∧ (p = 2 ∨ p = 10 ∨ p = 11) := by
  have := trace_accepted h hok halive
  rw [hsplit] at this
  obtain ⟨p1, p2, h1, h2, _⟩ := obsRun_split this
  simp only [obsStep] at h2
  split at h2
  · rename_i hp; exact ⟨p1, h1, hp⟩
  · cases h2

/-! ## shape of a cycle -/

/-- the `Rebalance()` that opens a window closes the stream exactly once: `BRS BSP closereq… ASP ARS` with one
    close request per open vBucket stream and no `stop` (the `wait()` goroutine sees `balancing`) -/
theorem window_open_shape {s : LSt} (a : Nat) (hn : s.obsNil = false) (hb : s.balancing = false)
    (hd : s.dead = false) :
    (rebalanceLocked s a).2 =
      [.cb .BRS, .cb .BSP] ++ s.pos.map (fun (vb, _) => LObs.closereq vb) ++ [.cb .ASP, .cb .ARS] := by
  rw [rebalanceLocked_streaming s a hn hb hd]
  obtain ⟨o2, o4, ho, h2, h4⟩ := closeCore_out { s with lockHeld := true, balancing := true } false
  have e2 : o2 = [] := by rcases h2 with h | ⟨_, h⟩; exact h; cases h
  have e4 : o4 = [] := by rcases h4 with h | ⟨_, h⟩; exact h; cases h
  subst e2 e4
  show [LObs.cb .BRS] ++ (closeCore _ false).2 ++ [LObs.cb .ARS] = _
  rw [ho]
  simp

/-! ## `reopen_uses_latest_membership` -/

/-- **C11 `reopen_uses_latest_membership`** (every state, hence every firing in every run). When the reopen
    timer fires, `rebalance()` requests exactly the vBuckets `memLo … memHi` of the membership value
    current AT THAT FIRING, each exactly once and in order, each from the seq stored for it at that moment
    (0 if none); whatever follows (a queued `Rebalance()` call taking the lock) contains no open request. -/
theorem reopen_uses_latest_membership (s : LSt) (a : Nat) :
    ∃ rest, (rebalanceFires s a).2 =
      [.cb .BRE, .cb .BSS] ++ (vbs s.memLo s.memHi).map (fun vb => LObs.openreq vb ((s.store.get? vb).getD 0))
        ++ [.cb .ASS, .cb .ARE] ++ rest ∧ ∀ x ∈ rest, CloseAlpha x := by
  by_cases hq : s.queuedCalls > 0
  · rw [rebalanceFires_queued s a hq, doOpen_out]
    exact ⟨(rebalanceLocked (reopened s (s.queuedCalls - 1)) a).2, by simp, rebalanceLocked_alpha' _ a⟩
  · rw [rebalanceFires_plain s a (by omega), doOpen_out]
    exact ⟨[], by simp, by simp⟩

/-- the same at the level of the timer firing: marking the timer as fired changes neither the membership
    value nor the stored checkpoints -/
theorem reopen_uses_latest_membership_fire (s : LSt) {t : Timer} (hk : t.kind = .reb) :
    ∃ rest, (fireOne s t).2 =
      [.cb .BRE, .cb .BSS] ++ (vbs s.memLo s.memHi).map (fun vb => LObs.openreq vb ((s.store.get? vb).getD 0))
        ++ [.cb .ASS, .cb .ARE] ++ rest ∧ ∀ x ∈ rest, CloseAlpha x := by
  rw [fireOne_reb s hk]
  exact reopen_uses_latest_membership (setTimer s { t with pending := false }) t.deadline

/-- the requested vBuckets are exactly those of the range, each once -/
theorem reopen_range (lo hi : Nat) : (vbs lo hi).Nodup ∧ ∀ vb, vb ∈ vbs lo hi ↔ lo ≤ vb ∧ vb ≤ hi :=
  ⟨vbs_nodup lo hi, fun _ => mem_vbs⟩

/-- the new session (no queued call): range = membership at the firing, positions = stored seqs, count = size -/
theorem reopen_session (s : LSt) (a : Nat) (hq : s.queuedCalls = 0) :
    (rebalanceFires s a).1.lo = s.memLo ∧ (rebalanceFires s a).1.hi = s.memHi ∧
    (rebalanceFires s a).1.pos = (vbs s.memLo s.memHi).map (fun vb => (vb, (s.store.get? vb).getD 0)) ∧
    (rebalanceFires s a).1.active = ((vbs s.memLo s.memHi).length : Int) := by
  rw [rebalanceFires_plain s a hq]
  exact ⟨rfl, rfl, rfl, rfl⟩

/-! ## `reopen_after_quiet_delay` -/

/-- **C11 `reopen_after_quiet_delay`, first arm.** The `Rebalance()` that closes a streaming stream at time
    `a` arms the reopen timer at `a + delay` – at `a + 0` for dynamic membership – and that is the only
    pending reopen timer. -/
theorem window_opens_with_delay {s : LSt} (a : Nat) (hn : s.obsNil = false) (hb : s.balancing = false)
    (hd : s.dead = false) (hnr : NoReb s) :
    ∀ t ∈ (rebalanceLocked s a).1.timers, t.pending = true → t.kind = .reb →
      t.deadline = a + (if s.dynamic then 0 else s.delay) := by
  rw [rebalanceLocked_streaming s a hn hb hd]
  intro t ht hp hk
  rcases mem_armTimer.1 ht with ht | rfl
  · simp only [closeCore_timers] at ht
    have := hnr t ht hp
    rw [this] at hk; cases hk
  · rfl

/-- **C11 `reopen_after_quiet_delay`, debounce.** Every notification processed inside the window at time `a`
    (bus, API, or a `Rebalance` timer at its due time) moves the deadline of the pending reopen timer to
    `a + delay`: the reopen fires only after `delay` has elapsed since the LAST such notification
    (`fire_needs_due`). The debounce always uses `delay`, also for dynamic membership. -/
theorem notify_in_window_postpones {s : LSt} (a : Nat) (ok : TimersOk s) (hB : PhB s) :
    (callRebalance s a).2 = [.debounced] ∧ PhB (callRebalance s a).1 ∧
    ∀ t ∈ (callRebalance s a).1.timers, t.pending = true → t.kind = .reb → t.deadline = a + s.delay := by
  obtain ⟨t0, ht0, hptr, hpend, hkind, hdb, hB', _⟩ := debounce_window a ok hB
  obtain ⟨r, hr, _, _, _, huniq⟩ := hB.2
  have e : callRebalance s a = (setTimer s { t0 with deadline := a + s.delay }, [.debounced]) := by
    simp only [callRebalance, hdb]
  rw [e]
  refine ⟨rfl, hB', ?_⟩
  intro t ht hp hk
  rcases mem_setTimer ht with ⟨rfl, _⟩ | ⟨ht, hne⟩
  · rfl
  · have h1 := huniq t ht hp hk
    have h2 := huniq t0 ht0 hpend hkind
    exact absurd (by rw [h1, h2]) hne

/-- a timer fires in `fireDue upto` only if it is pending and its deadline is `≤ upto`; a `tick d` uses
    `upto = now + d`, the end of every other op uses `upto = now` -/
theorem fire_needs_due {s : LSt} {upto : Nat} {t : Timer} (h : dueTimer s upto = some t) :
    t ∈ s.timers ∧ t.pending = true ∧ t.deadline ≤ upto := dueTimer_some h

/-- while nothing is due nothing fires: the window stays closed until the clock reaches the deadline -/
theorem nothing_fires_before_deadline (s : LSt) (upto fuel : Nat)
    (h : ∀ t ∈ s.timers, t.pending = true → upto < t.deadline) : fireDue upto fuel s = (s, []) := by
  apply fireDue_of_none
  cases hdue : dueTimer s upto with
  | none => rfl
  | some t =>
    obtain ⟨ht, hp, hle⟩ := dueTimer_some hdue
    have := h t ht hp
    omega

/-! ## `one_cycle_per_burst_partial` -/

/-- **KF F5 classifier** on the trace: some notification blocked on `rebalanceLock` (it found
    `rebalanceTimer == nil`, or a timer pointer that matches no timer, while a `Rebalance()` held the lock) -/
def KF_C11_first_timer_nil (tr : List (List LObs)) : Bool := tr.any fun o => o.contains .queued

/-- second classifier: some notification found the old timer already fired and re-armed it with `Rebalance`
    as callback (`AfterFunc(delay, s.Rebalance)`); that timer is a notification source of its own -/
def KF_C11_timer_reassigned (tr : List (List LObs)) : Bool := tr.any fun o => o.contains .reassigned

def isNotif : LOp → Bool
  | .notify | .notifyApi | .notifyDuringClose _ => true
  | _ => false

/-- a burst starts: a notification op is processed while the stream is streaming (phase A) -/
def startsBurst (s : LSt) (op : LOp) : Bool :=
  isNotif op && s.isOpen && !s.balancing && !s.dead && !s.stopClosed

/-- number of bursts of a run (op-list level): every further notification that arrives before the reopen
    finds `isOpen = false` and belongs to the burst that closed the stream -/
def burstStarts (s : LSt) : List LOp → Nat
  | [] => 0
  | op :: r => (if startsBurst s op then 1 else 0) + burstStarts (step s op).1 r

def brs (o : List LObs) : Nat := o.count (.cb .BRS)
def bre (o : List LObs) : Nat := o.count (.cb .BRE)

/-- no call is queued on the lock and every pending timer is a reopen timer -/
def QZ (s : LSt) : Prop := s.queuedCalls = 0 ∧ ∀ t ∈ s.timers, t.pending = true → t.kind = .reb

def Calm (o : List LObs) : Prop := LObs.queued ∉ o ∧ LObs.reassigned ∉ o

theorem brs_append (a b : List LObs) : brs (a ++ b) = brs a + brs b := by simp [brs, List.count_append]
theorem bre_append (a b : List LObs) : bre (a ++ b) = bre a + bre b := by simp [bre, List.count_append]

theorem brs_zero_of_not_mem {o : List LObs} (h : LObs.cb .BRS ∉ o) : brs o = 0 := List.count_eq_zero.2 h
theorem bre_zero_of_not_mem {o : List LObs} (h : LObs.cb .BRE ∉ o) : bre o = 0 := List.count_eq_zero.2 h

/-- 1 inside a rebalance window, 0 otherwise -/
def Bn (s : LSt) : Nat := if s.balancing then 1 else 0

/-- cycle accounting of a sub-step: it starts `X` cycles (`BRS`), and every cycle that was open at the start
    or was started is either completed by a `BRE` or still open at the end -/
def Cyc (X : Nat) (s : LSt) (o : List LObs) (s' : LSt) : Prop := brs o = X ∧ bre o + Bn s' = Bn s + X

theorem Cyc.trans {X : Nat} {s s1 s2 : LSt} {o1 o2 : List LObs} (h1 : Cyc X s o1 s1) (h2 : Cyc 0 s1 o2 s2) :
    Cyc X s (o1 ++ o2) s2 := by
  obtain ⟨a1, b1⟩ := h1
  obtain ⟨a2, b2⟩ := h2
  refine ⟨by rw [brs_append, a1, a2]; rfl, ?_⟩
  rw [bre_append]; omega

/-- a sub-step that emits neither `BRS` nor `BRE` and leaves `balancing` alone -/
theorem Cyc.idle {s s' : LSt} {o : List LObs} (h1 : LObs.cb .BRS ∉ o) (h2 : LObs.cb .BRE ∉ o)
    (hb : s'.balancing = s.balancing) : Cyc 0 s o s' :=
  ⟨brs_zero_of_not_mem h1, by rw [bre_zero_of_not_mem h2]; simp [Bn, hb]⟩

theorem closeCore_mem (s : LSt) (c : Bool) {x : LObs} (hx : x ∈ (closeCore s c).2) :
    x = .cb .BSP ∨ (∃ vb, x = .closereq vb) ∨ x = .stop ∨ x = .cb .ASP := by
  obtain ⟨o2, o4, ho, h2, h4⟩ := closeCore_out s c
  rw [ho] at hx
  simp only [List.mem_append, List.mem_cons, List.mem_map, List.not_mem_nil, or_false] at hx
  rcases hx with (((rfl | ⟨p, _, rfl⟩) | hx) | rfl) | hx
  · exact Or.inl rfl
  · exact Or.inr (Or.inl ⟨_, rfl⟩)
  · rcases h2 with rfl | ⟨rfl, _⟩ <;> simp_all
  · exact Or.inr (Or.inr (Or.inr rfl))
  · rcases h4 with rfl | ⟨rfl, _⟩ <;> simp_all

theorem closeCore_no_cycle_cb (s : LSt) (c : Bool) :
    LObs.cb .BRS ∉ (closeCore s c).2 ∧ LObs.cb .BRE ∉ (closeCore s c).2 := by
  constructor <;> intro hx <;> rcases closeCore_mem s c hx with h | ⟨_, h⟩ | h | h <;> cases h

theorem doOpen_no_cycle_cb (s : LSt) : LObs.cb .BRS ∉ (doOpen s).2 ∧ LObs.cb .BRE ∉ (doOpen s).2 := by
  rw [doOpen_out]; simp

/-- the closing `Rebalance()` from a streaming state: one `BRS`, nothing queued, `QZ` kept -/
theorem rebalanceLocked_calm {s : LSt} (a : Nat) (hn : s.obsNil = false) (hb : s.balancing = false)
    (hd : s.dead = false) (hq : QZ s) :
    Cyc 1 s (rebalanceLocked s a).2 (rebalanceLocked s a).1 ∧ QZ (rebalanceLocked s a).1 := by
  rw [rebalanceLocked_streaming s a hn hb hd]
  obtain ⟨c1, c2⟩ := closeCore_no_cycle_cb { s with lockHeld := true, balancing := true } false
  refine ⟨⟨?_, ?_⟩, ?_, ?_⟩
  · show brs ([.cb .BRS] ++ (closeCore _ false).2 ++ [.cb .ARS]) = 1
    rw [brs_append, brs_append, brs_zero_of_not_mem c1]; rfl
  · show bre ([.cb .BRS] ++ (closeCore _ false).2 ++ [.cb .ARS]) + _ = _
    rw [bre_append, bre_append, bre_zero_of_not_mem c2]
    simp [Bn, hb, armTimer, bre]
  · simp [armTimer, hq.1]
  · intro t ht hp
    rcases mem_armTimer.1 ht with ht | rfl
    · simp only [closeCore_timers] at ht; exact hq.2 t ht hp
    · rfl

theorem debounce_window_calm {s : LSt} (a : Nat) (ok : TimersOk s) (hB : PhB s) (hq : QZ s) :
    Cyc 0 s (callRebalance s a).2 (callRebalance s a).1 ∧ QZ (callRebalance s a).1 := by
  obtain ⟨t0, ht0, _, hpend, hkind, hdb, _, _⟩ := debounce_window a ok hB
  have e : callRebalance s a = (setTimer s { t0 with deadline := a + s.delay }, [.debounced]) := by
    simp only [callRebalance, hdb]
  rw [e]
  refine ⟨Cyc.idle (by simp) (by simp) rfl, hq.1, ?_⟩
  intro t ht hp
  rcases mem_setTimer ht with ⟨rfl, _⟩ | ⟨ht, _⟩
  · exact hkind
  · exact hq.2 t ht hp

/-- under `QZ` the only timer that can fire is the reopen timer of the window, and it reopens without a
    queued call: no `BRS`, one `BRE` per window left, `QZ` kept -/
theorem fireDue_calm (upto fuel : Nat) {s : LSt} (h : Inv s) (hq : QZ s)
    (halive : (fireDue upto fuel s).1.dead = false) :
    QZ (fireDue upto fuel s).1 ∧ Cyc 0 s (fireDue upto fuel s).2 (fireDue upto fuel s).1 := by
  induction fuel generalizing s with
  | zero => exact ⟨hq, Cyc.idle (by simp [fireDue_zero]) (by simp [fireDue_zero]) rfl⟩
  | succ fuel ih =>
    rw [fireDue_succ] at halive ⊢
    cases hd : s.dead with
    | true => simp only [if_true]; exact ⟨hq, Cyc.idle (by simp) (by simp) rfl⟩
    | false =>
      simp only [hd, Bool.false_eq_true, if_false] at halive ⊢
      cases hdue : dueTimer s upto with
      | none => exact ⟨hq, Cyc.idle (by simp) (by simp) rfl⟩
      | some t =>
        simp only [hdue] at halive ⊢
        obtain ⟨ht, hp, _⟩ := dueTimer_some hdue
        have hk := hq.2 t ht hp
        have g1 := fireOne_good h hd ht hp
        have hB : PhB s := by
          cases h with
          | dead hx => rw [hd] at hx; cases hx
          | pre _ _ h => have := h.noReb t ht hp; rw [hk] at this; cases this
          | A _ _ h => have := h.noReb t ht hp; rw [hk] at this; cases this
          | C _ _ h => have := h.noReb t ht hp; rw [hk] at this; cases this
          | B _ _ h => exact h
        have e : fireOne s t = (reopened (setTimer s { t with pending := false }) (setTimer s { t with pending := false }).queuedCalls,
            [.cb .BRE] ++ (doOpen (setTimer s { t with pending := false })).2 ++ [.cb .ARE]) := by
          rw [fireOne_reb s hk, rebalanceFires_plain (setTimer s { t with pending := false }) t.deadline hq.1]
        have hq1 : QZ (fireOne s t).1 := by
          rw [e]
          refine ⟨hq.1, ?_⟩
          intro u hu hup
          rcases mem_setTimer hu with ⟨rfl, _⟩ | ⟨hu, _⟩
          · simp at hup
          · exact hq.2 u hu hup
        have hc1 : Cyc 0 s (fireOne s t).2 (fireOne s t).1 := by
          rw [e]
          obtain ⟨c1, c2⟩ := doOpen_no_cycle_cb (setTimer s { t with pending := false })
          refine ⟨?_, ?_⟩
          · show brs ([.cb .BRE] ++ (doOpen _).2 ++ [.cb .ARE]) = 0
            rw [brs_append, brs_append, brs_zero_of_not_mem c1]; rfl
          · show bre ([.cb .BRE] ++ (doOpen _).2 ++ [.cb .ARE]) + _ = _
            rw [bre_append, bre_append, bre_zero_of_not_mem c2]
            simp [Bn, hB.1.balancing, reopened, bre]
        obtain ⟨i1, i2⟩ := ih g1.inv hq1 halive
        exact ⟨i1, hc1.trans i2⟩

/-- under `QZ` only a window has a pending timer -/
theorem no_pending_of_QZ {s : LSt} (h : Inv s) (hd : s.dead = false) (hq : QZ s) (hb : s.balancing = false) :
    ∀ t ∈ s.timers, t.pending = false := by
  intro t ht
  cases hp : t.pending with
  | false => rfl
  | true =>
    have hk := hq.2 t ht hp
    have hno : NoReb s := by
      cases h with
      | dead hx => rw [hd] at hx; cases hx
      | pre _ _ h => exact h.noReb
      | A _ _ h => exact h.noReb
      | C _ _ h => exact h.noReb
      | B _ _ h => rw [h.1.balancing] at hb; cases hb
    have := hno t ht hp
    rw [hk] at this; cases this

theorem dueTimer_none_of_no_pending {s : LSt} (upto : Nat) (h : ∀ t ∈ s.timers, t.pending = false) :
    dueTimer s upto = none := by
  cases hdue : dueTimer s upto with
  | none => rfl
  | some t =>
    obtain ⟨ht, hp, _⟩ := dueTimer_some hdue
    rw [h t ht] at hp; cases hp

/-- under `QZ` one unit of fuel is enough: after `fireDue` nothing is due any more (at most the one reopen
    timer of the window was pending), and the clock is untouched -/
theorem fireDue_calm_settled (upto fuel : Nat) {s : LSt} (h : Inv s) (hq : QZ s)
    (halive : (fireDue upto (fuel + 1) s).1.dead = false) :
    dueTimer (fireDue upto (fuel + 1) s).1 upto = none ∧ (fireDue upto (fuel + 1) s).1.now = s.now := by
  rw [fireDue_succ] at halive ⊢
  cases hd : s.dead with
  | true => simp only [hd, if_true] at halive; cases halive
  | false =>
    simp only [hd, Bool.false_eq_true, if_false] at halive ⊢
    cases hdue : dueTimer s upto with
    | none => exact ⟨hdue, rfl⟩
    | some t =>
      simp only [hdue] at halive ⊢
      obtain ⟨ht, hp, _⟩ := dueTimer_some hdue
      have hk := hq.2 t ht hp
      have g1 := fireOne_good h hd ht hp
      have e : fireOne s t = (reopened (setTimer s { t with pending := false }) (setTimer s { t with pending := false }).queuedCalls,
          [.cb .BRE] ++ (doOpen (setTimer s { t with pending := false })).2 ++ [.cb .ARE]) := by
        rw [fireOne_reb s hk, rebalanceFires_plain (setTimer s { t with pending := false }) t.deadline hq.1]
      have hq1 : QZ (fireOne s t).1 := by
        rw [e]
        refine ⟨hq.1, ?_⟩
        intro u hu hup
        rcases mem_setTimer hu with ⟨rfl, _⟩ | ⟨hu, _⟩
        · simp at hup
        · exact hq.2 u hu hup
      have hd1 : (fireOne s t).1.dead = false := by rw [e]; exact hd
      have hb1 : (fireOne s t).1.balancing = false := by rw [e]; rfl
      have hn1 : (fireOne s t).1.now = s.now := by rw [e]; rfl
      have hnone := dueTimer_none_of_no_pending upto (no_pending_of_QZ g1.inv hd1 hq1 hb1)
      rw [fireDue_of_none _ _ _ hnone]
      exact ⟨hnone, hn1⟩

theorem listenEnd_ctl (s : LSt) (vb : Nat) (c : EndCause) :
    (listenEnd s vb c).1.timers = s.timers ∧ (listenEnd s vb c).1.queuedCalls = s.queuedCalls ∧
    (listenEnd s vb c).1.balancing = s.balancing := by
  simp only [listenEnd, waitFires]
  (repeat' split) <;> exact ⟨rfl, rfl, rfl⟩

theorem evStep_ctl (s : LSt) (vb : Nat) :
    (evStep s vb).1.timers = s.timers ∧ (evStep s vb).1.queuedCalls = s.queuedCalls ∧
    (evStep s vb).1.balancing = s.balancing := by
  simp only [evStep]
  (repeat' split) <;> exact ⟨rfl, rfl, rfl⟩

theorem QZ.congr {s s' : LSt} (h : QZ s) (e1 : s'.queuedCalls = s.queuedCalls) (e2 : s'.timers = s.timers) : QZ s' :=
  ⟨e1 ▸ h.1, fun t ht => h.2 t (e2 ▸ ht)⟩

/-- in the middle of the closing `Rebalance()` (no pending timer at all) an overlapping notification either
    queues (F5) or re-arms the fired timer -/
theorem absorb_not_calm {s : LSt} (a : Nat) (hM : PhM s) (hq : QZ s) :
    LObs.queued ∈ (absorb s a).2 ∨ LObs.reassigned ∈ (absorb s a).2 := by
  rcases hp : s.timerPtr with _ | id
  · rw [absorb, debounce_no_ptr a hp]; exact Or.inl (by simp)
  · rcases hf : findTimer s id with _ | t
    · rw [absorb, debounce_no_timer a id hp hf]; exact Or.inl (by simp)
    · have ⟨htm, _⟩ := findTimer_some hf
      rcases hpend : t.pending with _ | _
      · rw [absorb, debounce_fired a id hM.1.balancing hp hf hpend]; exact Or.inr (by simp)
      · have h1 := hq.2 t htm hpend
        have h2 := hM.2 t htm hpend
        rw [h1] at h2; cases h2

theorem X_of_starts {s : LSt} {op : LOp} (h : startsBurst s op = true) : (if startsBurst s op then 1 else 0) = 1 := by
  simp [h]

theorem stepCore_calm {s : LSt} (op : LOp) (h : Inv s) (hd : s.dead = false) (hig : ignored s op = false)
    (hopen : OpenOk s op) (hq : QZ s) (hcalm : Calm (stepCore s op).2) (halive : (stepCore s op).1.dead = false) :
    QZ (stepCore s op).1 ∧ Cyc (if startsBurst s op then 1 else 0) s (stepCore s op).2 (stepCore s op).1 := by
  have notifA : ∀ (hA : PhA s),
      Cyc 1 s (rebalanceLocked s s.now).2 (rebalanceLocked s s.now).1 ∧ QZ (rebalanceLocked s s.now).1 :=
    fun hA => rebalanceLocked_calm s.now hA.obsNil hA.balancing hd hq
  cases op with
  | member lo hi => exact ⟨hq.congr rfl rfl, Cyc.idle (by simp [stepCore]) (by simp [stepCore]) rfl⟩
  | setStore vb q => exact ⟨hq.congr rfl rfl, Cyc.idle (by simp [stepCore]) (by simp [stepCore]) rfl⟩
  | query => exact ⟨hq, Cyc.idle (by simp [stepCore]) (by simp [stepCore]) rfl⟩
  | «open» => exact ⟨hq.congr rfl rfl, Cyc.idle (doOpen_no_cycle_cb s).1 (doOpen_no_cycle_cb s).2 rfl⟩
  | notify =>
    have hst : s.stopClosed = false := ignored_false_stop hig (by simp)
    cases h with
    | dead hx => rw [hd] at hx; cases hx
    | pre _ _ h =>
      have : (stepCore s .notify).1.dead = true := by
        show (callRebalance s s.now).1.dead = true
        rw [callRebalance_streaming s.now h.balancing h.lockHeld, rebalanceLocked_closed s _ h.obsNil h.balancing]
      rw [this] at halive; cases halive
    | C _ _ h =>
      have : (stepCore s .notify).1.dead = true := by
        show (callRebalance s s.now).1.dead = true
        rw [callRebalance_streaming s.now h.balancing h.lockHeld, rebalanceLocked_closed s _ h.obsNil h.balancing]
      rw [this] at halive; cases halive
    | A _ _ hA =>
      show QZ (callRebalance s s.now).1 ∧ Cyc _ s (callRebalance s s.now).2 (callRebalance s s.now).1
      rw [callRebalance_streaming s.now hA.balancing hA.lockHeld,
        X_of_starts (by simp [startsBurst, isNotif, hA.isOpen, hA.balancing, hd, hst])]
      exact ⟨(notifA hA).2, (notifA hA).1⟩
    | B _ ok hB =>
      obtain ⟨h1, h2⟩ := debounce_window_calm s.now ok hB hq
      have : startsBurst s .notify = false := by simp [startsBurst, hB.isOpen]
      rw [this]
      exact ⟨h2, h1⟩
  | notifyApi =>
    have hst : s.stopClosed = false := ignored_false_stop hig (by simp)
    by_cases ho : s.isOpen = true
    · have hA := h.phA hd ho
      have e : stepCore s .notifyApi = callRebalance s s.now := by simp [stepCore, ho]
      rw [e, callRebalance_streaming s.now hA.balancing hA.lockHeld,
        X_of_starts (by simp [startsBurst, isNotif, hA.isOpen, hA.balancing, hd, hst])]
      exact ⟨(notifA hA).2, (notifA hA).1⟩
    · have e : stepCore s .notifyApi = (s, [.skipped]) := by simp [stepCore, ho]
      have : startsBurst s .notifyApi = false := by simp [startsBurst, ho]
      rw [e, this]
      exact ⟨hq, Cyc.idle (by simp) (by simp) rfl⟩
  | notifyDuringClose k =>
    have hst : s.stopClosed = false := ignored_false_stop hig (by simp)
    cases h with
    | dead hx => rw [hd] at hx; cases hx
    | pre _ _ h =>
      have : (stepCore s (.notifyDuringClose k)).1.dead = true := by
        show (notifyOverlapped s k).1.dead = true
        rw [notifyOverlapped_closed s k h.balancing h.lockHeld h.obsNil]
      rw [this] at halive; cases halive
    | C _ _ h =>
      have : (stepCore s (.notifyDuringClose k)).1.dead = true := by
        show (notifyOverlapped s k).1.dead = true
        rw [notifyOverlapped_closed s k h.balancing h.lockHeld h.obsNil]
      rw [this] at halive; cases halive
    | B _ ok hB =>
      obtain ⟨t0, _, _, _, _, hdb, _, _⟩ := debounce_window s.now ok hB
      have e : stepCore s (.notifyDuringClose k) = callRebalance s s.now := by
        show notifyOverlapped s k = _
        simp only [notifyOverlapped, callRebalance, hdb]
      have : startsBurst s (.notifyDuringClose k) = false := by simp [startsBurst, hB.isOpen]
      rw [e, this]
      obtain ⟨h1, h2⟩ := debounce_window_calm s.now ok hB hq
      exact ⟨h2, h1⟩
    | A _ ok hA =>
      have hcalm' : Calm (notifyOverlapped s k).2 := hcalm
      rw [notifyOverlapped_streaming s k hA.balancing hA.lockHeld hA.obsNil] at hcalm'
      have hk : k = 0 := by
        cases k with
        | zero => rfl
        | succ k =>
          exfalso
          have hM := PhM_after_close hA.everOpened hA.noReb hA.active_le_live
          have hqc : QZ (closeCore { s with lockHeld := true, balancing := true } false).1 :=
            ⟨by simp [hq.1], fun t ht hp => hq.2 t (by simpa using ht) hp⟩
          have := absorb_not_calm s.now hM hqc
          rw [duringClose_succ] at hcalm'
          rcases this with hx | hx
          · exact hcalm'.1 (by simp [hx])
          · exact hcalm'.2 (by simp [hx])
      subst hk
      have e : stepCore s (.notifyDuringClose 0) = rebalanceLocked s s.now := by
        show notifyOverlapped s 0 = _
        rw [notifyOverlapped_streaming s 0 hA.balancing hA.lockHeld hA.obsNil,
          rebalanceLocked_streaming s s.now hA.obsNil hA.balancing hd]
        simp [duringClose]
      rw [e, X_of_starts (by simp [startsBurst, isNotif, hA.isOpen, hA.balancing, hd, hst])]
      exact ⟨(notifA hA).2, (notifA hA).1⟩
  | tick d =>
    have halive' : (fireDue (s.now + d) 64 s).1.dead = false := halive
    obtain ⟨h1, h2⟩ := fireDue_calm (s.now + d) 64 h hq halive'
    exact ⟨h1.congr rfl rfl, h2⟩
  | endEv vb c =>
    obtain ⟨e1, e2, e3⟩ := listenEnd_ctl s vb c
    refine ⟨hq.congr e2 e1, Cyc.idle (s' := (listenEnd s vb c).1) (o := (listenEnd s vb c).2) ?_ ?_ e3⟩
    · intro hx; rcases listenEnd_alpha s vb c _ hx with ⟨h, _⟩ | ⟨_, h⟩ | ⟨_, h⟩ <;> cases h
    · intro hx; rcases listenEnd_alpha s vb c _ hx with ⟨h, _⟩ | ⟨_, h⟩ | ⟨_, h⟩ <;> cases h
  | ev vb =>
    obtain ⟨e1, e2, e3⟩ := evStep_ctl s vb
    refine ⟨hq.congr e2 e1, Cyc.idle (s' := (evStep s vb).1) (o := (evStep s vb).2) ?_ ?_ e3⟩
    · intro hx; obtain ⟨_, h, _⟩ := evStep_alpha s vb _ hx; cases h
    · intro hx; obtain ⟨_, h, _⟩ := evStep_alpha s vb _ hx; cases h
  | save =>
    have e := saveStep_fields s
    obtain ⟨w, hw⟩ := saveStep_out s
    refine ⟨hq.congr e.queuedCalls e.timers, Cyc.idle (s' := (saveStep s).1) (o := (saveStep s).2) ?_ ?_ e.balancing⟩
    · rw [hw]; simp
    · rw [hw]; simp
  | shutdown c =>
    rw [stepCore_shutdown] at halive ⊢
    have e := finalSave_fields s
    obtain ⟨w, hw⟩ := finalSave_out s
    by_cases hn : (finalSave s).1.obsNil = true
    · rw [closeOp_nil _ c hn] at halive; cases halive
    · rw [closeOp_open _ c (by simpa using hn)]
      obtain ⟨c1, c2⟩ := closeCore_no_cycle_cb (finalSave s).1 c
      refine ⟨hq.congr ((closeCore_queuedCalls _ c).trans e.queuedCalls) ((closeCore_timers _ c).trans e.timers),
        Cyc.idle (s' := (closeCore (finalSave s).1 c).1) (o := (finalSave s).2 ++ (closeCore (finalSave s).1 c).2)
          ?_ ?_ ((closeCore_balancing _ c).trans e.balancing)⟩
      · rw [hw]; intro hx; rcases List.mem_append.1 hx with hx | hx
        · simp at hx
        · exact c1 hx
      · rw [hw]; intro hx; rcases List.mem_append.1 hx with hx | hx
        · simp at hx
        · exact c2 hx

theorem Calm.left {a b : List LObs} (h : Calm (a ++ b)) : Calm a :=
  ⟨fun hx => h.1 (List.mem_append_left _ hx), fun hx => h.2 (List.mem_append_left _ hx)⟩

/-- one op under `QZ` with a calm output: `QZ` again; the step emits one `BRS` iff it starts a burst, and the
    cycle accounting holds -/
theorem step_calm {s : LSt} (op : LOp) (h : Inv s) (hopen : OpenOk s op) (hq : QZ s) (hcalm : Calm (step s op).2)
    (halive : (step s op).1.dead = false) :
    QZ (step s op).1 ∧ Cyc (if startsBurst s op then 1 else 0) s (step s op).2 (step s op).1 := by
  rw [step_eq] at hcalm halive ⊢
  by_cases hd : s.dead = true
  · rw [if_pos hd]
    have : startsBurst s op = false := by simp [startsBurst, hd]
    rw [this]
    exact ⟨hq, Cyc.idle (by simp) (by simp) rfl⟩
  · rw [if_neg hd] at hcalm halive ⊢
    have hd' : s.dead = false := by simpa using hd
    by_cases hi : ignored s op = true
    · rw [if_pos hi]
      have hst : s.stopClosed = true := by simp [ignored] at hi; exact hi.1
      have : startsBurst s op = false := by simp [startsBurst, hst]
      rw [this]
      exact ⟨hq, Cyc.idle (by simp) (by simp) rfl⟩
    · rw [if_neg hi] at hcalm halive ⊢
      have hi' : ignored s op = false := by simpa using hi
      have g := stepCore_good op h hd' hopen
      have g2 := fireDue_good (stepCore s op).1.now 64 g.inv
      have ha1 : (stepCore s op).1.dead = false := by
        cases hx : (stepCore s op).1.dead with
        | false => rfl
        | true => rw [g2.mono hx] at halive; cases halive
      obtain ⟨q1, b1⟩ := stepCore_calm op h hd' hi' hopen hq hcalm.left ha1
      obtain ⟨q2, b2⟩ := fireDue_calm (stepCore s op).1.now 64 g.inv q1 halive
      exact ⟨q2, b1.trans b2⟩

/-- **fuel suffices on calm runs**: under `QZ`, after a live step with a calm output nothing is due – the state
    is `Settled` (the hypothesis of the clean-shutdown theorems of C13) -/
theorem step_calm_settled {s : LSt} (op : LOp) (h : Inv s) (hopen : OpenOk s op) (hq : QZ s)
    (hs : Settled s) (hcalm : Calm (step s op).2) (halive : (step s op).1.dead = false) : Settled (step s op).1 := by
  rw [step_eq] at hcalm halive ⊢
  by_cases hd : s.dead = true
  · rw [if_pos hd]; exact hs
  · rw [if_neg hd] at hcalm halive ⊢
    have hd' : s.dead = false := by simpa using hd
    by_cases hi : ignored s op = true
    · rw [if_pos hi]; exact hs
    · rw [if_neg hi] at hcalm halive ⊢
      have hi' : ignored s op = false := by simpa using hi
      have g := stepCore_good op h hd' hopen
      have g2 := fireDue_good (stepCore s op).1.now 64 g.inv
      have ha1 : (stepCore s op).1.dead = false := by
        cases hx : (stepCore s op).1.dead with
        | false => rfl
        | true => rw [g2.mono hx] at halive; cases halive
      obtain ⟨q1, _⟩ := stepCore_calm op h hd' hi' hopen hq hcalm.left ha1
      obtain ⟨h1, h2⟩ := fireDue_calm_settled (stepCore s op).1.now 63 g.inv q1 halive
      show dueTimer _ _ = none
      rw [h2]; exact h1

theorem run_calm {s : LSt} {ops : List LOp} (h : Inv s) (hok : OpsOk s ops) (hq : QZ s)
    (hcalm : ∀ o ∈ runTrace s ops, Calm o) (halive : (run s ops).dead = false) :
    QZ (run s ops) ∧ brs (runTrace s ops).flatten = burstStarts s ops ∧
      bre (runTrace s ops).flatten + Bn (run s ops) = Bn s + burstStarts s ops := by
  induction ops generalizing s with
  | nil => exact ⟨hq, rfl, by simp [runTrace_nil, run_nil, burstStarts, bre]⟩
  | cons op r ih =>
    rw [run_cons] at halive ⊢
    rw [runTrace_cons] at hcalm ⊢
    have g := step_good op h hok.1
    have ha1 : (step s op).1.dead = false := by
      cases hx : (step s op).1.dead with
      | false => rfl
      | true => rw [dead_run _ r hx, hx] at halive; cases halive
    obtain ⟨q1, b1, c1⟩ := step_calm op h hok.1 hq (hcalm _ List.mem_cons_self) ha1
    obtain ⟨q2, b2, c2⟩ := ih g.inv hok.2 q1 (fun o ho => hcalm o (List.mem_cons_of_mem _ ho)) halive
    refine ⟨q2, by rw [List.flatten_cons, brs_append, b1, b2]; rfl, ?_⟩
    rw [List.flatten_cons, bre_append]
    simp only [burstStarts]
    omega

/-- along a calm live run from a settled `QZ` state every reached state is settled -/
theorem run_calm_settled {s : LSt} {ops : List LOp} (h : Inv s) (hok : OpsOk s ops) (hq : QZ s) (hs : Settled s)
    (hcalm : ∀ o ∈ runTrace s ops, Calm o) (halive : (run s ops).dead = false) : Settled (run s ops) := by
  induction ops generalizing s with
  | nil => exact hs
  | cons op r ih =>
    rw [run_cons] at halive ⊢
    rw [runTrace_cons] at hcalm
    have g := step_good op h hok.1
    have ha1 : (step s op).1.dead = false := by
      cases hx : (step s op).1.dead with
      | false => rfl
      | true => rw [dead_run _ r hx, hx] at halive; cases halive
    obtain ⟨q1, _⟩ := step_calm op h hok.1 hq (hcalm _ List.mem_cons_self) ha1
    exact ih g.inv hok.2 q1 (step_calm_settled op h hok.1 hq hs (hcalm _ List.mem_cons_self) ha1)
      (fun o ho => hcalm o (List.mem_cons_of_mem _ ho)) halive

theorem calm_of_KF {tr : List (List LObs)} (h1 : KF_C11_first_timer_nil tr = false)
    (h2 : KF_C11_timer_reassigned tr = false) : ∀ o ∈ tr, Calm o := by
  intro o ho
  simp only [KF_C11_first_timer_nil, KF_C11_timer_reassigned, List.any_eq_false] at h1 h2
  exact ⟨by simpa using h1 o ho, by simpa using h2 o ho⟩

/-- **C11 `one_cycle_per_burst_partial`.** Start before `Open` with no timer pending, call `Open`, run any op
    list. If no notification ever queues on the lock (`¬KF_C11_first_timer_nil`, F5) and none re-arms a fired
    timer (`¬KF_C11_timer_reassigned`) and the run does not fail-stop, then the number of close/reopen cycles
    started (`BRS`) equals the number of bursts (notifications that arrive while streaming; every other
    notification of a burst arrives while the stream is closed and only postpones the reopen), and every
    cycle is completed by exactly one reopen (`BRE`) except the one still open at the end. -/
theorem one_cycle_per_burst_partial {s0 : LSt} (hd : s0.dead = false) (ok : TimersOk s0) (hpre : PhPre s0)
    (hnt : ∀ t ∈ s0.timers, t.pending = false) (ops : List LOp) (hno : NoOpen ops)
    (hkf1 : KF_C11_first_timer_nil (runTrace s0 (LOp.open :: ops)) = false)
    (hkf2 : KF_C11_timer_reassigned (runTrace s0 (LOp.open :: ops)) = false)
    (halive : (run s0 (LOp.open :: ops)).dead = false) :
    brs (runTrace s0 (LOp.open :: ops)).flatten = burstStarts s0 (LOp.open :: ops) ∧
    bre (runTrace s0 (LOp.open :: ops)).flatten + (if (run s0 (LOp.open :: ops)).balancing then 1 else 0)
      = burstStarts s0 (LOp.open :: ops) := by
  have hok := OpsOk_open hpre.everOpened hno
  have hinv : Inv s0 := .pre hd ok hpre
  have hq : QZ s0 := ⟨hpre.queued, fun t ht hp => by rw [hnt t ht] at hp; cases hp⟩
  obtain ⟨_, hb, hc⟩ := run_calm hinv hok hq (calm_of_KF hkf1 hkf2) halive
  refine ⟨hb, ?_⟩
  have : Bn s0 = 0 := by simp [Bn, hpre.balancing]
  rw [this] at hc
  simpa [Bn] using hc

/-- tie to the counter used by the first-layer refutation `one_cycle_per_burst_full_refuted` -/
theorem countBRE_eq_bre (tr : List (List LObs)) : countBRE tr = bre tr.flatten := by
  simp [countBRE, bre, List.count, List.countP_eq_length_filter]

/-- the hypotheses are satisfiable and the counts are as stated: two bursts, two cycles -/
example :
    let s0 : LSt := { memLo := 0, memHi := 1, delay := 250 }
    let ops : List LOp := [.notify, .tick 200, .notify, .tick 200, .notifyApi, .tick 300, .notify, .notify, .tick 300]
    KF_C11_first_timer_nil (runTrace s0 (.open :: ops)) = false ∧
    KF_C11_timer_reassigned (runTrace s0 (.open :: ops)) = false ∧
    burstStarts s0 (.open :: ops) = 2 ∧ brs (runTrace s0 (.open :: ops)).flatten = 2 ∧
    bre (runTrace s0 (.open :: ops)).flatten = 2 := by decide

/-- **second multi-cycle pattern (dynamic membership).** After an earlier rebalance, one notification that
    is overlapped by one more during `Close` re-arms the fired timer with `Rebalance` as callback
    (`reassigned`); dynamic membership reopens at once, so that timer later fires on the streaming stream
    and starts a second full close/reopen cycle for the same burst. -/
theorem one_cycle_per_burst_reassigned_refuted :
    let s0 : LSt := { memLo := 0, memHi := 0, delay := 250, dynamic := true }
    let ops : List LOp := [.notify, .tick 10, .notifyDuringClose 1, .tick 300]
    KF_C11_first_timer_nil (runTrace s0 (.open :: ops)) = false ∧
    KF_C11_timer_reassigned (runTrace s0 (.open :: ops)) = true ∧
    burstStarts s0 (.open :: ops) = 2 ∧ brs (runTrace s0 (.open :: ops)).flatten = 3 := by decide

/-! ## a rebalance never kills the client (run form) -/

/-- **C11 `rebalance_never_stops_client`** (run form, `WaitPrompt`). `Open`, then any op list that contains no
    second `Open`, no shutdown, and transient ends only for vBuckets of the session current at that moment
    (`BenignRun`): whatever the notifications, bursts, overlaps, delays and tick sizes, the client never
    fail-stops, is always either streaming or inside a rebalance window, and `stopCh` is closed only by a
    final stream end that brings the active count to zero (`stop_only_by_end_or_shutdown`). The real F9a
    (a re-open retry loop spanning a rebalance `Close`) lies below the granularity of this model. -/
theorem rebalance_never_kills_client {s0 : LSt} (hd : s0.dead = false) (ok : TimersOk s0) (hpre : PhPre s0)
    (ops : List LOp) (hb : BenignRun (step s0 .open).1 ops) :
    Running (run s0 (LOp.open :: ops)) ∧ ∀ w, LObs.failstop w ∉ (runTrace s0 (LOp.open :: ops)).flatten := by
  obtain ⟨hr, hi⟩ := open_running hd ok hpre
  have hrun : Running (run s0 (LOp.open :: ops)) := by
    rw [run_cons]; exact run_running hi hr hb
  refine ⟨hrun, ?_⟩
  intro w hw
  have hok : OpsOk s0 (LOp.open :: ops) := ⟨fun _ => hpre.everOpened, hb.opsOk⟩
  have := (dead_iff_failstop (.pre hd ok hpre) hd hok).2 ⟨w, hw⟩
  rw [hrun.1] at this; cases this

/-- **the steps that can fail-stop a running client** (complete list): only a shutdown (inside a rebalance
    window: F4, characterised in `Props/C13Run.lean`; or with a `Rebalance` timer already due) and a transient
    end of a vBucket that is not assigned to the current session (`reopen_missing_offset_failstop`). Every other
    fail-stop of the model is a call on a stream that was never opened or is already shut down
    (`Rebalance()` / `Close()` in the phases before `Open` and C). -/
theorem failstop_cases {s : LSt} {op : LOp} (h : Inv s) (hr : Running s) (hno : op ≠ .open)
    (hx : (step s op).1.dead = true) :
    (∃ c, op = .shutdown c) ∨ ∃ vb, op = .endEv vb .transient ∧ s.isOpen = true ∧ ¬ (s.lo ≤ vb ∧ vb ≤ s.hi) := by
  by_cases h1 : ∃ c, op = .shutdown c
  · exact Or.inl h1
  · by_cases h2 : ∃ vb, op = .endEv vb .transient ∧ s.isOpen = true ∧ ¬ (s.lo ≤ vb ∧ vb ≤ s.hi)
    · exact Or.inr h2
    · exfalso
      have hb : Benign s op := by
        refine ⟨hno, fun c e => h1 ⟨c, e⟩, ?_⟩
        intro vb e ho
        apply Decidable.byContradiction
        intro hn
        exact h2 ⟨vb, e, ho, hn⟩
      have := (step_running op h hr hb).1
      rw [hx] at this; cases this

/-- non-vacuity of `BenignRun`: a burst, a membership change, events, a transient and a final end -/
example :
    let s0 : LSt := { memLo := 0, memHi := 1, delay := 100 }
    let ops : List LOp := [.ev 0, .notify, .member 2 3, .notifyDuringClose 1, .tick 150, .tick 150, .ev 2,
      .endEv 2 .transient, .endEv 3 .final]
    (runTrace s0 (.open :: ops)).getLast? = some [] ∧ (run s0 (.open :: ops)).active = 1 ∧
    (run s0 (.open :: ops)).lo = 2 ∧ (run s0 (.open :: ops)).rebalances = 1 := by decide

end GoDcp.Life
